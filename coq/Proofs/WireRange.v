(* WireRange.v — C03 x C16: the binary encoder ACCEPTS what the assembler produces
   whenever the SOURCE program's registers, addresses and literals fit.

   WireBridge.v shows: if `assemble` produced B and the encoder accepted B
   (encode_checked = Some bytes) then decoding gives B back.  Here the acceptance
   is derived from a decidable condition on the source program (src_fits) and a
   decidable condition on the regenerated flavour table (table_std), so the wire
   hop assemble -> encode -> decode is unconditional for such sources
   (assemble_wire_unconditional at the end). *)
From Coq Require Import ZArith List Bool String Lia.
From NQ Require Import Base.Bits Lang.Codec Lang.CodecCheck Lang.Asm.
From NQ Require Import Proofs.CodecProofs Proofs.AsmProofs Proofs.WireBridge.
Import ListNotations.
Open Scope Z_scope.

(* ====================================================================== *)
(* 1. definitions (decidable conditions)                                  *)
(* ====================================================================== *)

(* a register (bank, index) of the architecture: 2-bit bank, 4-bit index *)
Definition reg_fits (b i : Z) : bool := (0 <=? b) && (b <? 4) && (0 <=? i) && (i <? 16).

Definition int32_fits (z : Z) : bool := (- 2 ^ 31 <=? z) && (z <? 2 ^ 31).

(* an unsigned field of w bits / a signed 32-bit field *)
Definition is_u (f : field) (w : Z) : bool := negb (f_signed f) && (f_width f =? w).
Definition is_i32 (f : field) : bool := f_signed f && (f_width f =? 32).

(* the leaf fields fs (the encode layout without the opcode field) are the standard
   ones for the operand kinds ks: a register is a 2-bit unsigned bank followed by a
   4-bit unsigned index; an address is a signed 32-bit field; an entry is an address
   and a register; a slice an address and two registers.  Nothing is required of an
   immediate's field (int32 or 8 bits in the real tables): src_fits looks at it. *)
Fixpoint kinds_std (ks : list kind) (fs : list field) : bool :=
  match ks with
  | [] => match fs with [] => true | _ => false end
  | KReg :: ks' =>
      match fs with
      | fb :: fi :: r => is_u fb 2 && is_u fi 4 && kinds_std ks' r
      | _ => false end
  | KImm :: ks' =>
      match fs with
      | _ :: r => kinds_std ks' r
      | _ => false end
  | KAddr :: ks' =>
      match fs with
      | fa :: r => is_i32 fa && kinds_std ks' r
      | _ => false end
  | KEntry :: ks' =>
      match fs with
      | fa :: fb :: fi :: r => is_i32 fa && is_u fb 2 && is_u fi 4 && kinds_std ks' r
      | _ => false end
  | KSlice :: ks' =>
      match fs with
      | fa :: fb1 :: fi1 :: fb2 :: fi2 :: r =>
          is_i32 fa && is_u fb1 2 && is_u fi1 4 && is_u fb2 2 && is_u fi2 4 && kinds_std ks' r
      | _ => false end
  end.

(* a row: the first field holds the opcode, the others are standard for the kinds *)
Definition row_std (r : row) : bool :=
  match r_enc r with
  | f0 :: fs => fits f0 (r_op r) && kinds_std (r_kinds r) fs
  | [] => false
  end.

(* the class that the inserted `set` commands are built with: register, int32 immediate *)
Definition set_std (r : row) : bool :=
  match r_kinds r, r_enc r with
  | [KReg; KImm], [_; _; _; fz] => is_i32 fz
  | _, _ => false
  end.

(* TABLE CONDITION (decided by vm_compute on the regenerated tables) *)
Definition table_std (t : list row) : bool :=
  forallb row_std t
  && match lookup_mn t SET with Some r => set_std r | None => false end.

(* a value inside an entry / slice: a register of the architecture, or a literal
   (it becomes the immediate of an inserted `set`) *)
Definition val_fits (v : aval) : bool :=
  match v with VLit z => int32_fits z | VReg b i => reg_fits b i end.

(* SOURCE operand o at position j of a command mn whose class declares kind k at
   that position, f being the first leaf field of that position:
   - a register is a register of the architecture;
   - a literal at a non-exempt position becomes the immediate of a `set`: int32;
   - a literal at an exempt position stays: it must fit the immediate's field
     (when the position is not an immediate the assembler rejects: nothing to ask);
   - a label becomes an instruction index: the immediate's field must be int32;
   - addresses are int32; indices / slice bounds as val_fits. *)
Definition opnd_fit (ex : list (string * nat)) (mn : string) (j : nat)
           (k : kind) (f : option field) (o : aopnd) : bool :=
  match o with
  | AV (VLit z) =>
      if is_exempt ex mn j
      then match k, f with KImm, Some f => fits f z | _, _ => true end
      else int32_fits z
  | AV (VReg b i) => reg_fits b i
  | ALabel _ => match k, f with KImm, Some f => is_i32 f | _, _ => true end
  | AAddr a => int32_fits a
  | AEntry a v => int32_fits a && val_fits v
  | ASlice a v1 v2 => int32_fits a && val_fits v1 && val_fits v2
  end.

(* the operands from position j on, against the kinds / leaf fields from that
   position on (a wrong number of operands is rejected by the assembler) *)
Fixpoint ops_fit (ex : list (string * nat)) (mn : string) (j : nat)
         (ks : list kind) (fs : list field) (ops : list aopnd) : bool :=
  match ops, ks with
  | o :: ops', k :: ks' =>
      opnd_fit ex mn j k (hd_error fs) o && ops_fit ex mn (S j) ks' (skipn (nleaves k) fs) ops'
  | _, _ => true
  end.

(* one source command: bracket args count as leading operands (all_ops); the row is
   the one _build_subroutine will find (an unknown mnemonic is rejected) *)
Definition cmd_src_fits (ex : list (string * nat)) (t : list row) (c : acmd) : bool :=
  match c with
  | ALab _ => true
  | AIns mn args ops =>
      match lookup_mn t mn with
      | Some r => ops_fit ex mn 0 (r_kinds r) (tl (r_enc r)) (all_ops args ops)
      | None => true
      end
  end.

(* SOURCE CONDITION *)
Definition src_fits (ex : list (string * nat)) (t : list row) (P : list acmd) : bool :=
  forallb (cmd_src_fits ex t) P.

(* ====================================================================== *)
(* 2. fields                                                              *)
(* ====================================================================== *)

Lemma pow2_31 : 2 ^ 31 = 2147483648. Proof. reflexivity. Qed.

Lemma is_u_fits f w v : is_u f w = true -> 0 <= v < 2 ^ w -> fits f v = true.
Proof.
  unfold is_u, fits. intros H Hv. apply andb_true_iff in H as [H1 H2].
  apply negb_true_iff in H1. apply Z.eqb_eq in H2. rewrite H1, H2.
  apply andb_true_iff. split; [apply Z.leb_le|apply Z.ltb_lt]; lia.
Qed.

Lemma is_i32_fits f v : is_i32 f = true -> int32_fits v = true -> fits f v = true.
Proof.
  unfold is_i32, int32_fits, fits. intros H Hv. apply andb_true_iff in H as [H1 H2].
  apply Z.eqb_eq in H2. rewrite H1, H2. change (32 - 1) with 31. exact Hv.
Qed.

Lemma reg_fits_inv b i : reg_fits b i = true -> 0 <= b < 2 ^ 2 /\ 0 <= i < 2 ^ 4.
Proof.
  unfold reg_fits. rewrite !andb_true_iff, !Z.leb_le, !Z.ltb_lt.
  change (2 ^ 2) with 4. change (2 ^ 4) with 16. lia.
Qed.

Lemma reg_leaf fb fi b i :
  is_u fb 2 = true -> is_u fi 4 = true -> reg_fits b i = true ->
  fits fb b = true /\ fits fi i = true.
Proof.
  intros Hb Hi Hr. apply reg_fits_inv in Hr as [H1 H2].
  split; [exact (is_u_fits _ _ _ Hb H1)|exact (is_u_fits _ _ _ Hi H2)].
Qed.

Lemma int32_of_nat n : Z.of_nat n < 2 ^ 31 -> int32_fits (Z.of_nat n) = true.
Proof.
  intros H. unfold int32_fits. rewrite pow2_31 in *.
  apply andb_true_iff. split; [apply Z.leb_le|apply Z.ltb_lt]; lia.
Qed.

(* ====================================================================== *)
(* 3. the inserted sets                                                   *)
(* ====================================================================== *)

Section Params.
Variable pr : aparams.
Hypothesis Hnreg : (ap_nreg pr <= 16)%nat.
Hypothesis Hbank : (0 <=? ap_bankR pr) && (ap_bankR pr <? 4) = true.

(* an inserted command: `set R_i z` with a candidate index and an int32 literal *)
Definition set_good (c : acmd) : Prop :=
  exists i z, c = set_cmd (ap_bankR pr, i) z /\ reg_fits (ap_bankR pr) i = true /\ int32_fits z = true.

Lemma cand_fits i : In i (cands pr) -> reg_fits (ap_bankR pr) i = true.
Proof.
  unfold cands. intros H. apply in_map_iff in H as [n [<- Hn]]. apply in_seq in Hn.
  apply andb_true_iff in Hbank as [Hb1 Hb2]. unfold reg_fits. rewrite Hb1, Hb2. cbn [andb].
  apply andb_true_iff. split; [apply Z.leb_le|apply Z.ltb_lt]; lia.
Qed.

Lemma repl_val_fit nm v tmp s v' tmp' :
  repl_val pr nm v tmp = Some (s, v', tmp') -> val_fits v = true ->
  Forall set_good s /\ exists b i, v' = VReg b i /\ reg_fits b i = true.
Proof.
  destruct v as [z|b i]; cbn [repl_val val_fits]; intros H Hv.
  - destruct (pick pr nm tmp) as [i|] eqn:Hp; [|discriminate]. injection H as <- <- <-.
    apply pick_spec in Hp as [[_ [Hc _]] _]. cbn [snd] in Hc. pose proof (cand_fits _ Hc) as Hr.
    split.
    + constructor; [|constructor]. exists i, z. auto.
    + exists (ap_bankR pr), i. auto.
  - injection H as <- <- <-. split; [constructor|]. exists b, i. auto.
Qed.

(* ====================================================================== *)
(* 4. one operand, then all operands of a command                         *)
(* ====================================================================== *)

Variable tbl : list (string * nat).
Hypothesis Htbl : forall l n, tbl_find tbl l = Some n -> Z.of_nat n < 2 ^ 31.

Lemma fits_all_app l1 : forall v1 l2 v2,
  fits_all l1 v1 = true -> fits_all l2 v2 = true -> fits_all (l1 ++ l2)%list (v1 ++ v2)%list = true.
Proof.
  induction l1 as [|f l1 IH]; intros [|v v1] l2 v2; cbn [fits_all app]; try discriminate; auto.
  intros H1 H2. apply andb_true_iff in H1 as [Ha Hb]. rewrite Ha. cbn [andb]. apply IH; assumption.
Qed.

(* operand o at position j: it was rewritten to o' (inserting the sets s), labels were
   resolved, and from_operands accepted it as kind k: the leaves fit the leaf fields *)
Lemma opnd_main nm mn j k ks fs o tmp s o' tmp' x :
  repl_opnd pr nm mn j o tmp = Some (s, o', tmp') ->
  opnd_fit (ap_exempt pr) mn j k (hd_error fs) o = true ->
  kinds_std (k :: ks) fs = true ->
  conv k (resolve_opnd tbl o') = Some x ->
  Forall set_good s
  /\ fits_all (firstn (nleaves k) fs) (leaves x) = true
  /\ kinds_std ks (skipn (nleaves k) fs) = true.
Proof.
  intros Hr Hf Hk Hc.
  destruct o as [[z|b i]|l|a|a v|a v1 v2]; cbn [repl_opnd opnd_fit] in Hr, Hf.
  - (* literal *)
    destruct (is_exempt (ap_exempt pr) mn j) eqn:He.
    + injection Hr as <- <- <-. cbn [resolve_opnd] in Hc.
      destruct k; cbn [conv] in Hc; try discriminate. injection Hc as <-.
      cbn [kinds_std] in Hk. destruct fs as [|f r]; [discriminate|].
      cbn [hd_error] in Hf. cbn [nleaves firstn skipn leaves fits_all]. rewrite Hf.
      split; [constructor|split; [reflexivity|exact Hk]].
    + destruct (repl_val pr nm (VLit z) tmp) as [[[s1 v1] t1]|] eqn:Hv; [|discriminate].
      injection Hr as <- <- <-.
      destruct (repl_val_fit _ _ _ _ _ _ Hv Hf) as [Hs [b [i [-> Hreg]]]].
      cbn [resolve_opnd] in Hc. destruct k; cbn [conv] in Hc; try discriminate. injection Hc as <-.
      cbn [kinds_std] in Hk. destruct fs as [|fb [|fi r]]; try discriminate.
      apply andb_true_iff in Hk as [Hk Hk3]. apply andb_true_iff in Hk as [Hk1 Hk2].
      destruct (reg_leaf _ _ _ _ Hk1 Hk2 Hreg) as [F1 F2].
      cbn [nleaves firstn skipn leaves fits_all]. rewrite F1, F2.
      split; [exact Hs|split; [reflexivity|exact Hk3]].
  - (* register *)
    injection Hr as <- <- <-. cbn [resolve_opnd] in Hc.
    destruct k; cbn [conv] in Hc; try discriminate. injection Hc as <-.
    cbn [kinds_std] in Hk. destruct fs as [|fb [|fi r]]; try discriminate.
    apply andb_true_iff in Hk as [Hk Hk3]. apply andb_true_iff in Hk as [Hk1 Hk2].
    destruct (reg_leaf _ _ _ _ Hk1 Hk2 Hf) as [F1 F2].
    cbn [nleaves firstn skipn leaves fits_all]. rewrite F1, F2.
    split; [constructor|split; [reflexivity|exact Hk3]].
  - (* label *)
    injection Hr as <- <- <-. cbn [resolve_opnd] in Hc.
    destruct (tbl_find tbl l) as [n|] eqn:Hl.
    + destruct k; cbn [conv] in Hc; try discriminate. injection Hc as <-.
      cbn [kinds_std] in Hk. destruct fs as [|f r]; [discriminate|].
      cbn [hd_error] in Hf. cbn [nleaves firstn skipn leaves fits_all].
      rewrite (is_i32_fits _ _ Hf (int32_of_nat _ (Htbl _ _ Hl))).
      split; [constructor|split; [reflexivity|exact Hk]].
    + destruct k; cbn [conv] in Hc; discriminate.
  - (* address *)
    injection Hr as <- <- <-. cbn [resolve_opnd] in Hc.
    destruct k; cbn [conv] in Hc; try discriminate. injection Hc as <-.
    cbn [kinds_std] in Hk. destruct fs as [|fa r]; [discriminate|].
    apply andb_true_iff in Hk as [Hk1 Hk2].
    cbn [nleaves firstn skipn leaves fits_all]. rewrite (is_i32_fits _ _ Hk1 Hf).
    split; [constructor|split; [reflexivity|exact Hk2]].
  - (* entry *)
    apply andb_true_iff in Hf as [Hfa Hfv].
    destruct (repl_val pr nm v tmp) as [[[s1 w] t1]|] eqn:Hv; [|discriminate].
    injection Hr as <- <- <-.
    destruct (repl_val_fit _ _ _ _ _ _ Hv Hfv) as [Hs [b [i [-> Hreg]]]].
    cbn [resolve_opnd] in Hc. destruct k; cbn [conv] in Hc; try discriminate. injection Hc as <-.
    cbn [kinds_std] in Hk. destruct fs as [|fa [|fb [|fi r]]]; try discriminate.
    apply andb_true_iff in Hk as [Hk Hk4]. apply andb_true_iff in Hk as [Hk Hk3].
    apply andb_true_iff in Hk as [Hk1 Hk2].
    destruct (reg_leaf _ _ _ _ Hk2 Hk3 Hreg) as [F1 F2].
    cbn [nleaves firstn skipn leaves fits_all]. rewrite (is_i32_fits _ _ Hk1 Hfa), F1, F2.
    split; [exact Hs|split; [reflexivity|exact Hk4]].
  - (* slice *)
    apply andb_true_iff in Hf as [Hf Hfv2]. apply andb_true_iff in Hf as [Hfa Hfv1].
    destruct (repl_val pr nm v1 tmp) as [[[s1 w1] t1]|] eqn:Hv1; [|discriminate].
    destruct (repl_val pr nm v2 t1) as [[[s2 w2] t2]|] eqn:Hv2; [|discriminate].
    injection Hr as <- <- <-.
    destruct (repl_val_fit _ _ _ _ _ _ Hv1 Hfv1) as [Hs1 [b1 [i1 [-> Hreg1]]]].
    destruct (repl_val_fit _ _ _ _ _ _ Hv2 Hfv2) as [Hs2 [b2 [i2 [-> Hreg2]]]].
    cbn [resolve_opnd] in Hc. destruct k; cbn [conv] in Hc; try discriminate. injection Hc as <-.
    cbn [kinds_std] in Hk. destruct fs as [|fa [|fb1 [|fi1 [|fb2 [|fi2 r]]]]]; try discriminate.
    apply andb_true_iff in Hk as [Hk Hk6]. apply andb_true_iff in Hk as [Hk Hk5].
    apply andb_true_iff in Hk as [Hk Hk4]. apply andb_true_iff in Hk as [Hk Hk3].
    apply andb_true_iff in Hk as [Hk1 Hk2].
    destruct (reg_leaf _ _ _ _ Hk2 Hk3 Hreg1) as [F1 F2].
    destruct (reg_leaf _ _ _ _ Hk4 Hk5 Hreg2) as [F3 F4].
    cbn [nleaves firstn skipn leaves fits_all]. rewrite (is_i32_fits _ _ Hk1 Hfa), F1, F2, F3, F4.
    split; [apply Forall_app; split; assumption|split; [reflexivity|exact Hk6]].
Qed.

Lemma ops_main nm mn : forall ops j ks fs tmp s ops' tmp' xs,
  repl_ops pr nm mn j ops tmp = Some (s, ops', tmp') ->
  ops_fit (ap_exempt pr) mn j ks fs ops = true ->
  kinds_std ks fs = true ->
  conv_all ks (map (resolve_opnd tbl) ops') = Some xs ->
  Forall set_good s /\ fits_all fs (flat xs) = true.
Proof.
  induction ops as [|o ops IH]; intros j ks fs tmp s ops' tmp' xs Hr Hf Hk Hc; cbn [repl_ops] in Hr.
  - injection Hr as <- <- <-. cbn [map] in Hc. destruct ks as [|k ks]; cbn [conv_all] in Hc; [|discriminate].
    injection Hc as <-. cbn [kinds_std] in Hk. destruct fs; [|discriminate].
    split; [constructor|reflexivity].
  - destruct (repl_opnd pr nm mn j o tmp) as [[[s1 o1] t1]|] eqn:Ho; [|discriminate].
    destruct (repl_ops pr nm mn (S j) ops t1) as [[[s2 r2] t2]|] eqn:Hr2; [|discriminate].
    injection Hr as <- <- <-. cbn [map] in Hc.
    destruct ks as [|k ks]; cbn [conv_all] in Hc; [discriminate|].
    destruct (conv k (resolve_opnd tbl o1)) as [x|] eqn:Hx; [|discriminate].
    destruct (conv_all ks (map (resolve_opnd tbl) r2)) as [xr|] eqn:Hxr; [|discriminate].
    injection Hc as <-. cbn [ops_fit] in Hf. apply andb_true_iff in Hf as [Hf1 Hf2].
    destruct (opnd_main _ _ _ _ _ _ _ _ _ _ _ _ Ho Hf1 Hk Hx) as [Hs1 [F1 Hk']].
    destruct (IH _ _ _ _ _ _ _ _ Hr2 Hf2 Hk' Hxr) as [Hs2 F2].
    split; [apply Forall_app; split; assumption|].
    unfold flat in *. cbn [map List.concat]. rewrite <- (firstn_skipn (nleaves k) fs).
    apply fits_all_app; assumption.
Qed.

(* ====================================================================== *)
(* 5. commands and blocks                                                 *)
(* ====================================================================== *)

Variable t : list row.
Hypothesis Hstd : table_std t = true.

(* what the encoder checks for the instruction built from c *)
Definition cmd_fits (c : acmd) : Prop :=
  forall r xs, build_cmd t c = Some (r, xs) -> fits_all (r_enc r) (r_op r :: flat xs) = true.

Lemma row_std_of mn r : lookup_mn t mn = Some r -> row_std r = true.
Proof.
  intros Hl. apply lookup_mn_In in Hl. unfold table_std in Hstd. apply andb_true_iff in Hstd as [H _].
  rewrite forallb_forall in H. apply H. exact Hl.
Qed.

Lemma set_fits c : set_good c -> cmd_fits c.
Proof.
  intros [i [z [-> [Hreg Hz]]]] r xs. unfold set_cmd. cbn [build_cmd fst snd].
  destruct (lookup_mn t SET) as [r'|] eqn:Hl; [|discriminate].
  pose proof (row_std_of _ _ Hl) as Hrow.
  assert (Hset : set_std r' = true).
  { unfold table_std in Hstd. apply andb_true_iff in Hstd as [_ H]. rewrite Hl in H. exact H. }
  unfold set_std in Hset. unfold row_std in Hrow.
  destruct (r_kinds r') as [|[] [|[] [|? ?]]] eqn:Eks; try discriminate.
  destruct (r_enc r') as [|f0 [|fb [|fi [|fz [|? ?]]]]] eqn:Een; try discriminate.
  cbn [conv_all conv]. intros [= <- <-]. rewrite Een.
  apply andb_true_iff in Hrow as [H0 Hk]. cbn [kinds_std] in Hk.
  apply andb_true_iff in Hk as [Hk _]. apply andb_true_iff in Hk as [Hk1 Hk2].
  destruct (reg_leaf _ _ _ _ Hk1 Hk2 Hreg) as [F1 F2].
  unfold flat. cbn [map leaves List.concat app fits_all].
  rewrite H0, F1, F2, (is_i32_fits _ _ Hset Hz). reflexivity.
Qed.

Lemma blk_fits nm c :
  cmd_src_fits (ap_exempt pr) t c = true ->
  Forall (fun c' => build_cmd t c' <> None) (blk pr nm tbl c) ->
  Forall cmd_fits (blk pr nm tbl c).
Proof.
  destruct c as [l|mn args ops]; cbn [blk cmd_src_fits]; [constructor|].
  destruct (repl_ops pr nm mn 0 (all_ops args ops) []) as [[[s ops'] tmp']|] eqn:Hr; [|constructor].
  intros Hsrc Hb. apply Forall_app in Hb as [_ Hb]. inversion Hb as [|? ? Hfin _]; subst.
  cbn [build_cmd] in Hfin.
  destruct (lookup_mn t mn) as [r|] eqn:Hl; [|congruence].
  destruct (conv_all (r_kinds r) (map (resolve_opnd tbl) ops')) as [xs|] eqn:Hc; [|congruence].
  pose proof (row_std_of _ _ Hl) as Hrow. unfold row_std in Hrow.
  destruct (r_enc r) as [|f0 fs] eqn:He; [discriminate|]. apply andb_true_iff in Hrow as [H0 Hk].
  cbn [tl] in Hsrc.
  destruct (ops_main _ _ _ _ _ _ _ _ _ _ _ Hr Hsrc Hk Hc) as [Hs Hfit].
  apply Forall_app. split.
  - rewrite Forall_forall in *. intros c Hin. apply set_fits. apply Hs. exact Hin.
  - constructor; [|constructor]. intros r1 xs1. cbn [build_cmd]. rewrite Hl, Hc. intros [= <- <-].
    rewrite He. cbn [fits_all]. rewrite H0, Hfit. reflexivity.
Qed.

Lemma blocks_fit nm : forall P,
  src_fits (ap_exempt pr) t P = true ->
  Forall (fun c' => build_cmd t c' <> None) (flat_map (blk pr nm tbl) P) ->
  Forall cmd_fits (flat_map (blk pr nm tbl) P).
Proof.
  induction P as [|c P IH]; cbn [flat_map]; [constructor|].
  unfold src_fits. cbn [forallb]. intros Hs Hb. apply andb_true_iff in Hs as [Hs1 Hs2].
  apply Forall_app in Hb as [Hb1 Hb2]. apply Forall_app. split.
  - apply blk_fits; assumption.
  - apply IH; assumption.
Qed.

End Params.

(* ====================================================================== *)
(* 6. the built program                                                   *)
(* ====================================================================== *)

Lemma build_length t : forall T B, build t T = Some B -> List.length B = List.length T.
Proof.
  induction T as [|c T IH]; intros B; cbn [build].
  - intros [= <-]. reflexivity.
  - destruct (build_cmd t c) as [x|]; [|discriminate].
    destruct (build t T) as [B'|] eqn:HB; [|discriminate].
    intros [= <-]. cbn [List.length]. rewrite (IH _ eq_refl). reflexivity.
Qed.

Lemma build_all_some t : forall T B, build t T = Some B -> Forall (fun c => build_cmd t c <> None) T.
Proof.
  induction T as [|c T IH]; intros B; cbn [build]; [constructor|].
  destruct (build_cmd t c) as [x|] eqn:Hx; [|discriminate].
  destruct (build t T) as [B'|] eqn:HB; [|discriminate].
  intros _. constructor; [congruence|exact (IH _ eq_refl)].
Qed.

Lemma build_fits t : forall T B,
  build t T = Some B -> Forall (cmd_fits t) T ->
  forallb (fun c => in_range (fst c) (snd c)) B = true.
Proof.
  induction T as [|c T IH]; intros B; cbn [build].
  - intros [= <-] _. reflexivity.
  - destruct (build_cmd t c) as [[r xs]|] eqn:Hx; [|discriminate].
    destruct (build t T) as [B'|] eqn:HB; [|discriminate].
    intros [= <-] HF. inversion HF as [|? ? Hc HT]; subst.
    cbn [forallb fst snd]. rewrite (IH _ eq_refl HT), andb_true_r.
    destruct (build_cmd_typed _ _ _ _ Hx) as [_ Hw]. unfold in_range. rewrite Hw, (Hc _ _ Hx). reflexivity.
Qed.

Lemma pcmap_from_le pr nm : forall P k,
  (pcmap_from pr nm P k <= pcmap_from pr nm P (List.length P))%nat.
Proof.
  induction P as [|c P IH]; intros [|k]; cbn [pcmap_from List.length]; try lia.
  specialize (IH k). lia.
Qed.

(* ====================================================================== *)
(* 7. the theorem                                                         *)
(* ====================================================================== *)

(* THE ENCODER ACCEPTS THE ASSEMBLED PROGRAM.  Table: standard layouts (vm_compute on
   the regenerated table).  Assembler constants: at most 16 registers per bank, R bank value
   representable.  Source: src_fits.  The assembled program has fewer than 2^31
   instructions (so that every label's index is an int32). *)
Theorem assembled_in_range pr t P B :
  table_std t = true ->
  (ap_nreg pr <= 16)%nat -> (0 <=? ap_bankR pr) && (ap_bankR pr <? 4) = true ->
  src_fits (ap_exempt pr) t P = true ->
  assemble pr t P = AOk B ->
  Z.of_nat (List.length B) < 2 ^ 31 ->
  forallb (fun c => in_range (fst c) (snd c)) B = true.
Proof.
  intros Hstd Hn Hb Hsrc Hasm Hlen. unfold assemble, abind in Hasm.
  destruct (assemble_ir pr P) as [T|e] eqn:HT; [|discriminate].
  destruct (build t T) as [B'|] eqn:HB; [|discriminate]. injection Hasm as ->.
  destruct (assemble_struct _ _ _ HT) as [tbl [Htbl [HT' HF]]].
  assert (HTlen : List.length T = pcmap_from pr (named P) P (List.length P))
    by (rewrite HT'; apply length_blocks; exact HF).
  assert (Hbound : forall l n, tbl_find tbl l = Some n -> Z.of_nat n < 2 ^ 31).
  { intros l n Hl. rewrite (table_is_pcmap _ _ _ Htbl HF l) in Hl.
    destruct (label_pos P l) as [p|]; [|discriminate]. cbn [option_map] in Hl. injection Hl as <-.
    unfold pcmap. pose proof (pcmap_from_le pr (named P) P p) as Hle.
    rewrite <- HTlen, <- (build_length _ _ _ HB) in Hle. lia. }
  apply (build_fits t T B HB). rewrite HT'.
  apply (blocks_fit pr Hn Hb tbl Hbound t Hstd).
  - exact Hsrc.
  - rewrite <- HT'. exact (build_all_some _ _ _ HB).
Qed.

(* bytes(Subroutine) does not raise *)
Corollary assemble_encodes pr t P B h v0 v1 app :
  table_std t = true ->
  (ap_nreg pr <= 16)%nat -> (0 <=? ap_bankR pr) && (ap_bankR pr <? 4) = true ->
  src_fits (ap_exempt pr) t P = true ->
  assemble pr t P = AOk B ->
  Z.of_nat (List.length B) < 2 ^ 31 ->
  fits_all (h_layout h) [v0; v1; app] = true ->
  exists bytes, encode_checked h (mkSub v0 v1 app B) = Some bytes.
Proof.
  intros Hstd Hn Hb Hsrc Hasm Hlen Hh. unfold encode_checked, sub_in_range. cbn [s_v0 s_v1 s_app s_body].
  rewrite Hh, (assembled_in_range _ _ _ _ Hstd Hn Hb Hsrc Hasm Hlen). cbn [andb]. eexists. reflexivity.
Qed.

(* THE WIRE HOP, UNCONDITIONALLY for sources that fit: the assembled program is
   encoded, and decoding the bytes gives it back *)
Corollary assemble_wire_unconditional pr t P B h v0 v1 app :
  header_ok h = true -> wf_table t = true -> table_std t = true ->
  (ap_nreg pr <= 16)%nat -> (0 <=? ap_bankR pr) && (ap_bankR pr <? 4) = true ->
  src_fits (ap_exempt pr) t P = true ->
  assemble pr t P = AOk B ->
  Z.of_nat (List.length B) < 2 ^ 31 ->
  fits_all (h_layout h) [v0; v1; app] = true ->
  exists bytes, encode_checked h (mkSub v0 v1 app B) = Some bytes
                /\ decode_sub h t bytes = Some (mkSub v0 v1 app B)
                /\ assemble_ir pr P = AOk (map embed B).
Proof.
  intros Hh Hwf Hstd Hn Hb Hsrc Hasm Hlen Hhd.
  destruct (assemble_encodes _ _ _ _ h v0 v1 app Hstd Hn Hb Hsrc Hasm Hlen Hhd) as [bytes He].
  exists bytes. split; [exact He|]. exact (assemble_wire _ _ _ _ _ _ _ _ _ Hh Hwf Hasm He).
Qed.

(* ====================================================================== *)
(* 8. example: a literal copy of five rows of the generated vanilla table *)
(* ====================================================================== *)

Open Scope string_scope.

Definition ex_table : list row :=
  [ mkRow "core.ArrayInstruction" 3 "array" [KReg; KAddr]
      [mkF 0 8 false; mkF 8 2 false; mkF 10 4 false; mkF 16 32 true]
      [mkF 0 8 false; mkF 8 2 false; mkF 10 4 false; mkF 16 32 true];
    mkRow "core.SetInstruction" 4 "set" [KReg; KImm]
      [mkF 0 8 false; mkF 8 2 false; mkF 10 4 false; mkF 16 32 true]
      [mkF 0 8 false; mkF 8 2 false; mkF 10 4 false; mkF 16 32 true];
    mkRow "core.StoreInstruction" 5 "store" [KReg; KEntry]
      [mkF 0 8 false; mkF 8 2 false; mkF 10 4 false; mkF 16 32 true; mkF 48 2 false; mkF 50 4 false]
      [mkF 0 8 false; mkF 8 2 false; mkF 10 4 false; mkF 16 32 true; mkF 48 2 false; mkF 50 4 false];
    mkRow "core.BltInstruction" 14 "blt" [KReg; KReg; KImm]
      [mkF 0 8 false; mkF 8 2 false; mkF 10 4 false; mkF 16 2 false; mkF 18 4 false; mkF 24 32 true]
      [mkF 0 8 false; mkF 8 2 false; mkF 10 4 false; mkF 16 2 false; mkF 18 4 false; mkF 24 32 true];
    mkRow "core.AddInstruction" 16 "add" [KReg; KReg; KReg]
      [mkF 0 8 false; mkF 8 2 false; mkF 10 4 false; mkF 16 2 false; mkF 18 4 false; mkF 24 2 false; mkF 26 4 false]
      [mkF 0 8 false; mkF 8 2 false; mkF 10 4 false; mkF 16 2 false; mkF 18 4 false; mkF 24 2 false; mkF 26 4 false];
    mkRow "core.BreakpointInstruction" 100 "breakpoint" [KImm; KImm]
      [mkF 0 8 false; mkF 8 8 false; mkF 16 8 false]
      [mkF 0 8 false; mkF 8 8 false; mkF 16 8 false] ].

Definition ex_header : header := mkHdr [mkF 0 8 false; mkF 8 8 false; mkF 16 16 false] 4%nat.

Definition ex_params : aparams :=
  mkAP 16 0 [("set", 1%nat); ("blt", 2%nat); ("breakpoint", 0%nat); ("breakpoint", 1%nat)].

(* a loop with a label, a literal array index, negative literals at an exempt
   (set) and at a non-exempt (add) position, a literal array size and an 8-bit
   immediate; registers R0 (0,0), R1 (0,1), C2 (1,2) *)
Definition ex_prog : list acmd :=
  [ AIns "set" [] [AV (VReg 0 0); AV (VLit (-5))];
    AIns "array" [] [AV (VLit 4); AAddr 0];
    ALab "loop";
    AIns "store" [] [AV (VReg 0 0); AEntry 0 (VLit 2)];
    AIns "add" [] [AV (VReg 0 0); AV (VReg 0 0); AV (VLit (-1))];
    AIns "breakpoint" [] [AV (VLit 0); AV (VLit 255)];
    AIns "blt" [] [AV (VReg 1 2); AV (VLit 7); ALabel "loop"] ].

Example ex_table_std : table_std ex_table = true /\ wf_table ex_table = true /\ header_ok ex_header = true.
Proof. vm_compute. auto. Qed.

Example ex_src_fits : src_fits (ap_exempt ex_params) ex_table ex_prog = true.
Proof. vm_compute. reflexivity. Qed.

(* the conditions do reject: a literal index above int32, a register index 16, an
   8-bit immediate 256, a label at a position that is not an int32 immediate *)
Example ex_src_rejects :
  src_fits (ap_exempt ex_params) ex_table [AIns "store" [] [AV (VReg 0 0); AEntry 0 (VLit (2 ^ 31))]] = false
  /\ src_fits (ap_exempt ex_params) ex_table [AIns "add" [] [AV (VReg 0 16); AV (VReg 0 0); AV (VReg 0 0)]] = false
  /\ src_fits (ap_exempt ex_params) ex_table [AIns "breakpoint" [] [AV (VLit 0); AV (VLit 256)]] = false
  /\ src_fits (ap_exempt ex_params) ex_table [AIns "breakpoint" [] [AV (VLit 0); ALabel "loop"]] = false.
Proof. vm_compute. auto. Qed.

(* ... and such a program is indeed refused by the encoder although it assembles *)
Example ex_refused :
  match assemble ex_params ex_table [AIns "breakpoint" [] [AV (VLit 0); AV (VLit 256)]] with
  | AOk B => encode_checked ex_header (mkSub 0 0 0 B)
  | AErr _ => Some []
  end = None.
Proof. vm_compute. reflexivity. Qed.

(* the example program assembles (10 instructions: 4 inserted sets), the encoder
   accepts it, the decoder gives it back *)
Example ex_assembles :
  match assemble ex_params ex_table ex_prog with
  | AOk B =>
      (List.length B =? 10)%nat
      && match encode_checked ex_header (mkSub 0 0 0 B) with
         | Some bytes =>
             (List.length bytes =? 74)%nat
             && match decode_sub ex_header ex_table bytes with
                | Some s => list_eqb pinstr_eqb (unbody (s_body s)) (unbody B)
                | None => false
                end
         | None => false
         end
  | AErr _ => false
  end = true.
Proof. vm_compute. reflexivity. Qed.

(* the theorem applied to the example *)
Example ex_theorem_applies :
  forall B, assemble ex_params ex_table ex_prog = AOk B ->
  exists bytes, encode_checked ex_header (mkSub 0 0 0 B) = Some bytes
                /\ decode_sub ex_header ex_table bytes = Some (mkSub 0 0 0 B).
Proof.
  intros B HB.
  destruct ex_table_std as [Hstd [Hwf Hh]].
  assert (Hlen : Z.of_nat (List.length B) < 2 ^ 31).
  { pose proof ex_assembles as E. rewrite HB in E. apply andb_true_iff in E as [E _].
    apply Nat.eqb_eq in E. rewrite E, pow2_31. reflexivity. }
  destruct (assemble_wire_unconditional ex_params ex_table ex_prog B ex_header 0 0 0
              Hh Hwf Hstd (Nat.le_refl 16) eq_refl ex_src_fits HB Hlen eq_refl) as [bytes [H1 [H2 _]]].
  exists bytes. auto.
Qed.
