(* WireBridge.v — C03 x C16 x C01: what the assembler hands to the encoder survives
   the wire.  If `assemble` (C03's model of the text/SDK back end, Lang/Asm.v)
   produced the instruction objects B and the encoder accepted them (C16:
   encode_checked = Some bytes, i.e. every leaf is representable), then decoding
   those bytes with the same flavour gives back exactly B, and reading B back as
   commands gives exactly the IR program T the assembler passes computed -- the
   program whose execution C03 (assemble_simulates) and the end-to-end chain
   (Bridge_E2E) talk about.  So the binary hop between the SDK side and the
   executor side is the identity on everything those theorems quantify over. *)
From Coq Require Import ZArith List Bool String Lia.
From NQ Require Import Base.Bits Lang.Codec Lang.CodecCheck Lang.Asm.
From NQ Require Import Proofs.CodecProofs Proofs.AsmProofs.
Import ListNotations.
Open Scope Z_scope.

Lemma lookup_mn_In t : forall mn r, lookup_mn t mn = Some r -> In r t.
Proof.
  induction t as [|r0 t IH]; intros mn r; cbn [lookup_mn]; [discriminate|].
  destruct (lookup_mn t mn) as [r'|] eqn:Hl.
  - intros [= <-]. right. apply (IH mn). exact Hl.
  - destruct (String.eqb (r_mn r0) mn); [intros [= <-]; left; reflexivity|discriminate].
Qed.

Lemma conv_kind k o x : conv k o = Some x -> kind_of x = k.
Proof.
  destruct k, o; cbn [conv]; try discriminate;
    repeat match goal with v : aval |- _ => destruct v end; try discriminate;
    intros [= <-]; reflexivity.
Qed.

Lemma conv_all_kinds ks : forall ops xs, conv_all ks ops = Some xs -> map kind_of xs = ks.
Proof.
  induction ks as [|k ks IH]; intros [|o ops] xs; cbn [conv_all]; try discriminate.
  - intros [= <-]. reflexivity.
  - destruct (conv k o) as [x|] eqn:Hx; [|discriminate].
    destruct (conv_all ks ops) as [r|] eqn:Hr; [|discriminate].
    intros [= <-]. cbn [map]. rewrite (conv_kind _ _ _ Hx), (IH _ _ Hr). reflexivity.
Qed.

Lemma list_eqb_refl {A} (eqb : A -> A -> bool) (l : list A) :
  (forall x, eqb x x = true) -> list_eqb eqb l l = true.
Proof. intros H. induction l as [|x l IH]; cbn [list_eqb]; [reflexivity|]. rewrite H, IH. reflexivity. Qed.

Lemma kind_eqb_refl k : kind_eqb k k = true.
Proof. destruct k; reflexivity. Qed.

(* every built instruction is an instance of a class of the flavour, with operands of
   the kinds the class declares *)
Lemma build_cmd_typed t c r xs :
  build_cmd t c = Some (r, xs) -> In r t /\ well_typed r xs = true.
Proof.
  destruct c as [l|mn args ops]; cbn [build_cmd]; [discriminate|].
  destruct (lookup_mn t mn) as [r'|] eqn:Hl; [|discriminate].
  destruct (conv_all (r_kinds r') ops) as [ys|] eqn:Hy; [|discriminate].
  intros [= <- <-]. split; [exact (lookup_mn_In _ _ _ Hl)|].
  unfold well_typed. rewrite (conv_all_kinds _ _ _ Hy). apply list_eqb_refl, kind_eqb_refl.
Qed.

Lemma build_typed t : forall T B, build t T = Some B ->
  Forall (fun c => In (fst c) t) B /\ forallb (fun c => well_typed (fst c) (snd c)) B = true.
Proof.
  induction T as [|c T IH]; intros B; cbn [build].
  - intros [= <-]. split; [constructor|reflexivity].
  - destruct (build_cmd t c) as [[r xs]|] eqn:Hx; [|discriminate].
    destruct (build t T) as [B'|] eqn:HB; [|discriminate].
    intros [= <-]. destruct (IH _ eq_refl) as [H1 H2]. destruct (build_cmd_typed _ _ _ _ Hx) as [Hi Hw].
    split; [constructor; [exact Hi|exact H1]|]. cbn [forallb fst snd]. rewrite Hw, H2. reflexivity.
Qed.

(* THE WIRE HOP.  Hypotheses: the flavour table and header are well formed (decided by
   computation on the regenerated tables, C01), the assembler succeeded, the encoder
   accepted.  Conclusion: the decoder returns the same subroutine, whose instruction
   list read back as commands is the assembler's IR output. *)
Theorem assemble_wire_roundtrip h t pr P T B v0 v1 app bytes :
  header_ok h = true -> wf_table t = true ->
  assemble_ir pr P = AOk T -> build t T = Some B ->
  encode_checked h (mkSub v0 v1 app B) = Some bytes ->
  decode_sub h t bytes = Some (mkSub v0 v1 app B) /\ map embed B = T.
Proof.
  intros Hh Ht HT HB He. unfold encode_checked in He.
  assert (Hargs : Forall (fun c => match c with AIns _ args _ => args = [] | ALab _ => True end) T).
  { destruct (assemble_struct _ _ _ HT) as [tbl [_ [HT' _]]]. rewrite HT'. apply blocks_noargs. }
  destruct (sub_in_range h (mkSub v0 v1 app B)) eqn:Hr; [|discriminate]. injection He as <-.
  destruct (build_typed _ _ _ HB) as [Hin _].
  split; [apply (decode_encode_sub h t _ Hh Ht); [exact Hin|exact Hr]|exact (build_embed _ _ _ HB Hargs)].
Qed.

(* with `assemble` itself (IR passes + flavour lookup in one call) *)
Corollary assemble_wire pr t P B h v0 v1 app bytes :
  header_ok h = true -> wf_table t = true ->
  assemble pr t P = AOk B ->
  encode_checked h (mkSub v0 v1 app B) = Some bytes ->
  decode_sub h t bytes = Some (mkSub v0 v1 app B) /\ assemble_ir pr P = AOk (map embed B).
Proof.
  intros Hh Ht Hasm He. unfold assemble, abind in Hasm.
  destruct (assemble_ir pr P) as [T|e] eqn:HT; [|discriminate].
  destruct (build t T) as [B'|] eqn:HB; [|discriminate]. injection Hasm as ->.
  destruct (assemble_wire_roundtrip h t pr P T B v0 v1 app bytes Hh Ht HT HB He) as [H1 H2].
  split; [exact H1|rewrite H2; reflexivity].
Qed.

(* the encoder's acceptance condition, for built instructions, is only about VALUES: the
   typing half of in_range always holds *)
Theorem built_in_range_iff_fits t T B :
  build t T = Some B ->
  forallb (fun c => in_range (fst c) (snd c)) B
  = forallb (fun c => fits_all (r_enc (fst c)) (r_op (fst c) :: flat (snd c))) B.
Proof.
  intros HB. destruct (build_typed _ _ _ HB) as [_ Hw]. clear HB. revert Hw.
  induction B as [|c B IH]; cbn [forallb]; [reflexivity|]. intros Hw.
  apply andb_prop in Hw as [H1 H2]. unfold in_range at 1. rewrite H1, (IH H2). reflexivity.
Qed.
