(* SdkCodeOk.v — the static side condition of the end-to-end chain (Bridge_SdkAsm.code_ok) holds
   of every block the builder model emits for a well-formed program within the qubit budget:
   register indices below 16, no opaque (EPR) command, every qalloc directly preceded by the
   `set` of its operand to a virtual id below the capacity. *)
From Coq Require Import ZArith List Bool Arith Lia.
From NQ Require Import Sdk.SdkAst Sdk.Target Sdk.Eval Sdk.MemMgr Sdk.Lower Sdk.Flatten Sdk.SdkCheck Sdk.Wf.
From NQ Require Import Proofs.SdkRegProofs Proofs.SdkMapLemmas Proofs.SdkInvProofs Proofs.SdkWfProofs
  Proofs.SdkFlattenProofs Proofs.SdkSimProofs Proofs.SdkTopProofs.
From NQ Require Proofs.Bridge_SdkAsm.
Import ListNotations.
Local Open Scope nat_scope.

Module BS := NQ.Proofs.Bridge_SdkAsm.
Ltac inv_ok H := inversion H; subst; clear H.

(* ------------------------------------------------------------------ code_ok is compositional on pieces that do not start with a qalloc *)
Definition nohead (c : list fcmd) : bool :=
  match c with FI (IQ QAlloc _) :: _ => false | _ => true end.
Definition ck (cap : Z) (c : list fcmd) : Prop := BS.code_ok_from cap None c = true /\ nohead c = true.

Lemma cof_nohead : forall cap p c, nohead c = true -> BS.code_ok_from cap p c = BS.code_ok_from cap None c.
Proof.
  intros cap p [|x c] H; [reflexivity|]. cbn [BS.code_ok_from].
  destruct x as [i| | |]; try reflexivity. destruct i; try reflexivity. destruct o; try reflexivity. discriminate.
Qed.

Lemma cof_app : forall cap a b p, BS.code_ok_from cap p a = true -> ck cap b -> BS.code_ok_from cap p (a ++ b) = true.
Proof.
  intros cap a. induction a as [|x a IH]; intros b p Ha [Hb Hn]; cbn [app].
  - rewrite cof_nohead by exact Hn. exact Hb.
  - cbn [BS.code_ok_from] in *. apply andb_prop in Ha. destruct Ha as [Ha1 Ha2]. rewrite Ha1. cbn [andb].
    apply IH; [exact Ha2|split; assumption].
Qed.

Lemma ck_nil : forall cap, ck cap [].
Proof. intro. split; reflexivity. Qed.
Lemma ck_app : forall cap a b, ck cap a -> ck cap b -> ck cap (a ++ b).
Proof.
  intros cap a b [Ha Hna] Hb. split; [apply cof_app; assumption|].
  destruct a as [|x a]; [exact (proj2 Hb)|exact Hna].
Qed.

Definition plain_instr (i : instr) : bool := match i with IQ QAlloc _ => false | _ => BS.instr_ok i end.
Lemma ck_instr : forall cap i, plain_instr i = true -> ck cap [FI i].
Proof.
  intros cap i H. unfold plain_instr in H. split; cbn.
  - destruct i; try (rewrite H; reflexivity). destruct o; try (rewrite H; reflexivity). discriminate.
  - destruct i; try reflexivity. destruct o; try reflexivity. discriminate.
Qed.
Lemma ck_instrs : forall cap l, forallb plain_instr l = true -> ck cap (map FI l).
Proof.
  intros cap l. induction l as [|i l IH]; intro H; cbn in *; [apply ck_nil|].
  apply andb_prop in H. destruct H as [H1 H2]. change (FI i :: map FI l) with ([FI i] ++ map FI l).
  apply ck_app; [apply ck_instr; exact H1|apply IH; exact H2].
Qed.
Lemma ck_br : forall cap c x y l, BS.rop_lt x = true -> BS.rop_lt y = true -> ck cap [FBr c x y l].
Proof. intros cap c x y l Hx Hy. split; cbn; [rewrite Hx, Hy; reflexivity|reflexivity]. Qed.
Lemma ck_jmp : forall cap l, ck cap [FJmp l].
Proof. intros. split; reflexivity. Qed.
Lemma ck_lab : forall cap l, ck cap [FLab l].
Proof. intros. split; reflexivity. Qed.

(* ------------------------------------------------------------------ structured code *)
Definition SK (cap : Z) (c : list sir) : Prop := forall n, ck cap (fst (flat n c)).

Lemma flat_app : forall a b n,
  flat n (a ++ b) = (let (c1, n1) := flat n a in let (c2, n2) := flat n1 b in (c1 ++ c2, n2)).
Proof.
  induction a as [|x a IH]; intros b n; cbn [app].
  - cbn [flat]. destruct (flat n b). reflexivity.
  - rewrite !flat_cons. destruct (flat1 n x) as [c1 n1]. rewrite IH.
    destruct (flat n1 a) as [c2 n2]. destruct (flat n2 b) as [c3 n3]. rewrite app_assoc. reflexivity.
Qed.

Lemma SK_nil : forall cap, SK cap [].
Proof. intros cap n. apply ck_nil. Qed.
Lemma SK_app : forall cap a b, SK cap a -> SK cap b -> SK cap (a ++ b).
Proof.
  intros cap a b Ha Hb n. rewrite flat_app. specialize (Ha n). destruct (flat n a) as [c1 n1].
  specialize (Hb n1). destruct (flat n1 b) as [c2 n2]. cbn in *. apply ck_app; assumption.
Qed.
Lemma SK_instr : forall cap i, plain_instr i = true -> SK cap [XI i].
Proof. intros cap i H n. cbn. apply ck_instr. exact H. Qed.
Lemma SK_instrs : forall cap l, forallb plain_instr l = true -> SK cap (map XI l).
Proof.
  intros cap l. induction l as [|i l IH]; intro H; cbn in *; [apply SK_nil|].
  apply andb_prop in H. destruct H as [H1 H2]. change (XI i :: map XI l) with ([XI i] ++ map XI l).
  apply SK_app; [apply SK_instr; exact H1|apply IH; exact H2].
Qed.

Lemma SK_if : forall cap pre c x y body,
  forallb plain_instr pre = true -> BS.rop_lt x = true -> BS.rop_lt y = true -> SK cap body ->
  SK cap [XIf pre c x y body].
Proof.
  intros cap pre c x y body Hp Hx Hy Hb n. rewrite flat_cons, flat1_XIf. specialize (Hb n).
  destruct (flat n body) as [cb b1]. cbn [flat fst app]. rewrite app_nil_r. unfold if_code.
  apply ck_app; [apply ck_instrs; exact Hp|]. apply ck_app; [apply ck_br; assumption|].
  apply ck_app; [exact Hb|apply ck_lab].
Qed.

Lemma SK_loop : forall cap r a e st body, BS.reg_lt r = true -> SK cap body -> SK cap [XLoop r a e st body].
Proof.
  intros cap r a e st body Hr Hb n. rewrite flat_cons, flat1_XLoop. specialize (Hb (S n)).
  destruct (flat (S n) body) as [cb b1]. cbn [flat fst app]. rewrite app_nil_r. unfold loop_code.
  apply ck_app; [|apply ck_app; [exact Hb|]].
  - split; cbn; [rewrite Hr; reflexivity|reflexivity].
  - split; cbn; [rewrite Hr; reflexivity|reflexivity].
Qed.

Lemma SK_until : forall cap r mx body pre x lim cl,
  BS.reg_lt r = true -> forallb plain_instr pre = true -> BS.rop_lt x = true -> SK cap body -> SK cap cl ->
  SK cap [XUntil r mx body pre x lim cl].
Proof.
  intros cap r mx body pre x lim cl Hr Hp Hx Hb Hc n. rewrite flat_cons, flat1_XUntil. specialize (Hb (S n)).
  destruct (flat (S n) body) as [cb b1]. specialize (Hc b1). destruct (flat b1 cl) as [cc b2].
  cbn [flat fst app]. rewrite app_nil_r. unfold until_code.
  apply ck_app; [split; cbn; [rewrite Hr; reflexivity|reflexivity]|].
  apply ck_app; [exact Hb|]. apply ck_app; [apply ck_instrs; exact Hp|].
  apply ck_app; [apply ck_br; [exact Hx|reflexivity]|]. apply ck_app; [exact Hc|].
  split; cbn; [rewrite Hr; reflexivity|reflexivity].
Qed.

(* ------------------------------------------------------------------ registers named by the builder are below 16 *)
Lemma lt16 : forall (l : list bool) i b, List.length l = NREGS -> nth_error l i = Some b -> Nat.ltb i 16 = true.
Proof.
  intros l i b Hl H. apply Nat.ltb_lt. assert (X : nth_error l i <> None) by congruence.
  apply nth_error_Some in X. unfold NREGS in Hl. lia.
Qed.

Lemma take_at_lt : forall o st t s1, take_at o st = Ok (t, s1) -> Inv st -> Nat.ltb t 16 = true.
Proof. intros o st t s1 H I. apply take_at_facts in H. eapply lt16; [exact (i_alen _ I)|exact (proj1 H)]. Qed.
Lemma take_lt : forall st t s1, take st = Ok (t, s1) -> Inv st -> Nat.ltb t 16 = true.
Proof. exact (take_at_lt None). Qed.

Lemma low_ix_ok : forall ix st p, low_ix ix st = Ok p -> Inv st -> BS.rop_lt p = true.
Proof.
  intros ix st p H I. destruct ix; cbn in H; [inv_ok H; reflexivity|].
  destruct (alook v (l_lv st)) as [r|] eqn:E; inv_ok H. cbn. eapply lt16; [exact (i_alen _ I)|exact (i_lv _ I _ _ E)].
Qed.

Lemma low_cval_ok : forall x st lx px tx st1, low_cval x st = Ok (lx, px, tx, st1) -> Inv st ->
  forallb plain_instr lx = true /\ BS.rop_lt px = true.
Proof.
  intros x st lx px tx st1 H I. destruct x; cbn [low_cval] in H.
  - inv_ok H. auto.
  - destruct (low_ix ix st) as [p|] eqn:Ei; cbn [bind] in H; [|discriminate].
    destruct (take st) as [[t s1]|] eqn:Ht; cbn [bind] in H; [|discriminate]. inv_ok H.
    assert (Ht' := take_lt _ _ _ Ht I). assert (Hp := low_ix_ok _ _ _ Ei I).
    unfold Lower.R. cbn [forallb plain_instr BS.instr_ok BS.reg_lt BS.rop_lt]. rewrite Ht', Hp. auto.
  - unfold rf_lookup in H. destruct (alook r (l_rf st)) as [[[] k]|] eqn:E; try discriminate; inv_ok H.
    + destruct (i_rfM _ I _ _ E) as [(m & X)|X]; discriminate.
    + split; [reflexivity|]. cbn. eapply lt16; [exact (i_mlen _ I)|exact (proj2 (i_rf _ I _ _ E))].
  - destruct (alook v (l_lv st)) as [r|] eqn:E; inv_ok H. split; [reflexivity|].
    cbn. eapply lt16; [exact (i_alen _ I)|exact (i_lv _ I _ _ E)].
Qed.

Lemma low_src_ok : forall x st lx px tx st1, low_src x st = Ok (lx, px, tx, st1) -> Inv st ->
  forallb plain_instr lx = true /\ BS.rop_lt px = true.
Proof.
  intros x st lx px tx st1 H I. destruct x; cbn [low_src] in H.
  - inv_ok H. auto.
  - destruct (low_ix ix st) as [p|] eqn:Ei; cbn [bind] in H; [|discriminate].
    destruct (take st) as [[t s1]|] eqn:Ht; cbn [bind] in H; [|discriminate]. inv_ok H.
    assert (Ht' := take_lt _ _ _ Ht I). assert (Hp := low_ix_ok _ _ _ Ei I).
    unfold Lower.R. cbn [forallb plain_instr BS.instr_ok BS.reg_lt BS.rop_lt]. rewrite Ht', Hp. auto.
  - destruct (alook v (l_lv st)) as [r|] eqn:E; inv_ok H. split; [reflexivity|].
    cbn. eapply lt16; [exact (i_alen _ I)|exact (i_lv _ I _ _ E)].
  - unfold rf_lookup in H. destruct (alook r (l_rf st)) as [[[] k]|] eqn:E; try discriminate; inv_ok H.
    + destruct (i_rfM _ I _ _ E) as [(m & X)|X]; discriminate.
    + split; [reflexivity|]. cbn. eapply lt16; [exact (i_mlen _ I)|exact (proj2 (i_rf _ I _ _ E))].
Qed.

(* ------------------------------------------------------------------ the lowest unused id is at most the number of live handles *)
Lemma first_free_id_bound : forall used fuel i,
  i <= first_free_id used fuel i <= i + fuel /\
  (first_free_id used fuel i = i + fuel -> forall j, i <= j < i + fuel -> In j used).
Proof.
  intros used fuel. induction fuel as [|f IH]; intro i; cbn.
  - split; [lia|]. intros _ j Hj. lia.
  - destruct (existsb (Nat.eqb i) used) eqn:E.
    + destruct (IH (S i)) as [B1 B2]. split; [lia|]. intros Heq j Hj.
      destruct (Nat.eq_dec j i) as [->|Hn].
      * apply existsb_exists in E. destruct E as (x & Hx & Ex). apply Nat.eqb_eq in Ex. subst. exact Hx.
      * apply B2; lia.
    + split; [lia|]. intro Heq. lia.
Qed.

Lemma new_qubit_id_le : forall st, new_qubit_id st <= List.length (l_q st).
Proof.
  intro st. unfold new_qubit_id. set (used := map snd (l_q st)).
  assert (Hl : List.length used = List.length (l_q st)) by (unfold used; apply map_length).
  destruct (first_free_id_bound used (S (List.length used)) 0) as [[_ B1] B2].
  destruct (Nat.eq_dec (first_free_id used (S (List.length used)) 0) (0 + S (List.length used))) as [E|E]; [|lia].
  exfalso. assert (I : incl (seq 0 (S (List.length used))) used).
  { intros j Hj. apply in_seq in Hj. apply B2; [exact E|lia]. }
  apply (NoDup_incl_length (seq_NoDup _ _)) in I. rewrite seq_length in I. lia.
Qed.

Lemma adel_length : forall (l : list (nat * nat)) q id, alook q l = Some id -> List.length (adel q l) = Nat.pred (List.length l).
Proof.
  induction l as [|[k v] l IH]; intros q id H; cbn in *; [discriminate|].
  destruct (Nat.eqb q k); [reflexivity|]. cbn. rewrite (IH _ _ H).
  destruct l; [cbn in H; discriminate|reflexivity].
Qed.

Lemma SK_newq : forall cap id, id < cap ->
  SK (Z.of_nat cap) [set_q Q0 id; XI (IQ QAlloc Q0); XI (IQ QInit Q0)].
Proof.
  intros cap id H n. cbn. split; [|reflexivity]. cbn.
  destruct (0 <=? Z.of_nat id)%Z eqn:E1; [|apply Z.leb_gt in E1; lia].
  destruct (Z.of_nat id <? Z.of_nat cap)%Z eqn:E2; [reflexivity|apply Z.ltb_ge in E2; lia].
Qed.

Lemma qubit_id_ok' : forall q st id, qubit_id q st = Ok id -> alook q (l_q st) = Some id.
Proof. intros q st id H. unfold qubit_id in H. destruct (alook q (l_q st)); inversion H; reflexivity. Qed.

Lemma SK_cons : forall cap i c, plain_instr i = true -> SK cap c -> SK cap (XI i :: c).
Proof. intros cap i c Hi Hc. change (XI i :: c) with ([XI i] ++ c). apply SK_app; [apply SK_instr; exact Hi|exact Hc]. Qed.

Lemma low_meas_ok : forall q ip keep st m c st1 cap,
  low_meas q ip keep st = Ok (m, c, st1) -> Inv st ->
  SK cap c /\ Nat.ltb m 16 = true /\
  List.length (l_q st1) = (if ip then List.length (l_q st) else Nat.pred (List.length (l_q st))).
Proof.
  intros q ip keep st m c st1 cap H I.
  destruct (low_meas_facts _ _ _ _ _ _ _ H) as (id & Eq & Hm & Q1 & _ & _ & _ & _ & _ & _ & _ & _ & Ec).
  assert (Hm16 : Nat.ltb m 16 = true) by (eapply lt16; [exact (i_mlen _ I)|exact Hm]).
  split; [|split; [exact Hm16|]].
  - rewrite Ec. apply SK_app.
    + apply SK_cons; [reflexivity|]. apply SK_instr. unfold Lower.M, Q0. cbn [plain_instr BS.instr_ok BS.reg_lt BS.rop_lt Q0 andb]. exact Hm16.
    + destruct ip; [apply SK_nil|apply SK_instr; reflexivity].
  - rewrite Q1. destruct ip; [reflexivity|eapply adel_length; eauto].
Qed.

Definition cko_stmt (s : stmt) : Prop :=
  wfs s = true -> forall st c st' cap,
  lower_stmt true s st = Ok (c, st') -> Inv st -> snd (qpk s (List.length (l_q st))) <= cap ->
  SK (Z.of_nat cap) c /\ List.length (l_q st') = fst (qpk s (List.length (l_q st))).
Definition cko_block (b : block) : Prop :=
  bwfs b = true -> forall st c st' cap,
  lower_block true b st = Ok (c, st') -> Inv st -> snd (bqpk b (List.length (l_q st))) <= cap ->
  SK (Z.of_nat cap) c /\ List.length (l_q st') = fst (bqpk b (List.length (l_q st))).

Lemma add_instr_plain : forall d x y m, BS.reg_lt d = true -> BS.reg_lt x = true -> BS.rop_lt y = true ->
  d <> Rg BQ 0 \/ True -> plain_instr (add_instr d x y m) = true.
Proof. intros d x y m Hd Hx Hy _. destruct m; cbn; rewrite Hd, Hx, Hy; reflexivity. Qed.

Theorem code_ok_all : (forall s, cko_stmt s) /\ (forall b, cko_block b).
Proof.
  apply stmt_block_ind; unfold cko_stmt, cko_block.
  - (* SNewQubit *) intros q _ st c st' cap H I Hb. cbn [lower_stmt] in H.
    destruct (alook q (l_q st)); [discriminate|]. inv_ok H. cbn [qpk fst snd] in *. split.
    + apply SK_newq. assert (X := new_qubit_id_le st). lia.
    + cbn. rewrite app_length. cbn. lia.
  - intros g q _ st c st' cap H I Hb. cbn [lower_stmt] in H.
    destruct (qubit_id q st); cbn [bind] in H; [|discriminate]. inv_ok H. split; [|reflexivity].
    apply SK_cons; [reflexivity|apply SK_instr; reflexivity].
  - intros ax q n d _ st c st' cap H I Hb. cbn [lower_stmt] in H.
    destruct (qubit_id q st); cbn [bind] in H; [|discriminate]. inv_ok H. split; [|reflexivity].
    apply SK_cons; [reflexivity|apply SK_instr; reflexivity].
  - intros t q1 q2 _ st c st' cap H I Hb. cbn [lower_stmt] in H.
    destruct (qubit_id q1 st); cbn [bind] in H; [|discriminate].
    destruct (qubit_id q2 st); cbn [bind] in H; [|discriminate]. inv_ok H. split; [|reflexivity].
    apply SK_cons; [reflexivity|]. apply SK_cons; [reflexivity|apply SK_instr; reflexivity].
  - (* SMeasFut *) intros q ip a ix _ st c st' cap H I Hb. cbn [lower_stmt] in H.
    destruct (low_ix ix st) as [p|] eqn:Ei; cbn [bind] in H; [|discriminate].
    destruct (low_meas q ip false st) as [[[m c0] s1]|] eqn:Em; cbn [bind] in H; [|discriminate]. inv_ok H.
    destruct (low_meas_ok _ _ _ _ _ _ _ (Z.of_nat cap) Em I) as (K & Hm & Hq).
    split; [|rewrite Hq; destruct ip; reflexivity].
    apply SK_app; [exact K|]. apply SK_instr. unfold Lower.M. cbn [plain_instr BS.instr_ok BS.reg_lt BS.rop_lt Q0 andb]. rewrite Hm, (low_ix_ok _ _ _ Ei I). reflexivity.
  - (* SMeasNew *) intros q ip a _ st c st' cap H I Hb. cbn [lower_stmt] in H.
    destruct (declare a 1 None st) as [s0|] eqn:Ed; cbn [bind] in H; [|discriminate].
    destruct (low_meas q ip false s0) as [[[m c0] s1]|] eqn:Em; cbn [bind] in H; [|discriminate]. inv_ok H.
    destruct (Inv_declare _ _ _ _ _ Ed I) as [I0 _].
    destruct (declare_facts _ _ _ _ _ Ed) as (_ & _ & _ & _ & _ & _ & Q0' & _).
    destruct (low_meas_ok _ _ _ _ _ _ _ (Z.of_nat cap) Em I0) as (K & Hm & Hq).
    split; [|rewrite Hq, Q0'; destruct ip; reflexivity].
    apply SK_app; [exact K|]. apply SK_instr. unfold Lower.M. cbn [plain_instr BS.instr_ok BS.reg_lt BS.rop_lt Q0 andb]. rewrite Hm. reflexivity.
  - (* SMeasReg *) intros q ip r _ st c st' cap H I Hb. cbn [lower_stmt] in H.
    destruct (alook r (l_rf st)); [discriminate|].
    destruct (low_meas q ip true st) as [[[m c0] s1]|] eqn:Em; cbn [bind] in H; [|discriminate]. inv_ok H.
    destruct (low_meas_ok _ _ _ _ _ _ _ (Z.of_nat cap) Em I) as (K & Hm & Hq).
    split; [exact K|]. cbn [bind_rf l_q]. rewrite Hq. destruct ip; reflexivity.
  - (* SFree *) intros q _ st c st' cap H I Hb. cbn [lower_stmt] in H.
    destruct (qubit_id q st) as [id|] eqn:Eq; cbn [bind] in H; [|discriminate]. inv_ok H. split.
    + apply SK_cons; [reflexivity|apply SK_instr; reflexivity].
    + cbn. eapply adel_length. apply qubit_id_ok'. exact Eq.
  - (* SNewArray *) intros a len init _ st c st' cap H I Hb. cbn [lower_stmt] in H.
    destruct (Nat.eqb _ 0); [discriminate|].
    destruct (declare a _ init st) as [s1|] eqn:Ed; cbn [bind] in H; [|discriminate]. inv_ok H.
    destruct (declare_facts _ _ _ _ _ Ed) as (_ & _ & _ & _ & _ & _ & Q0' & _).
    split; [apply SK_nil|rewrite Q0'; reflexivity].
  - (* SFutAdd *) intros a ix o m _ st c st' cap H I Hb. cbn [lower_stmt] in H.
    destruct (low_ix ix st) as [p|] eqn:Ei; cbn [bind] in H; [|discriminate].
    destruct (take st) as [[t s1]|] eqn:Ht; cbn [bind] in H; [|discriminate].
    destruct (low_src o s1) as [[[[lo y] ts] s2]|] eqn:Hs; cbn [bind] in H; [|discriminate].
    match type of H with Ok (?cc, ?X) = _ => assert (Ec : c = cc) by (inversion H; reflexivity);
                                             assert (Es : st' = X) by (inversion H; reflexivity) end.
    clear H. assert (Ht' := take_lt _ _ _ Ht I). assert (Hp := low_ix_ok _ _ _ Ei I).
    destruct (low_src_ok _ _ _ _ _ _ Hs (Inv_take _ _ _ Ht I)) as [Hlo Hy]. split.
    + rewrite Ec. apply SK_instrs. rewrite !forallb_app. unfold Lower.R. cbn [forallb].
      rewrite Hlo. cbn [plain_instr BS.instr_ok BS.reg_lt BS.rop_lt]. rewrite Ht', Hp. cbn [andb].
      destruct m; cbn [add_instr plain_instr BS.instr_ok BS.reg_lt]; rewrite Ht', Hy; reflexivity.
    + assert (S : sba st st').
      { rewrite Es. eapply sba_trans; [eapply sba_take; eauto|].
        eapply sba_trans; [eapply low_src_sba; eauto|].
        eapply sba_trans; [apply sba_release|apply sba_release_all]. }
      destruct S as (_ & Q & _). rewrite Q. reflexivity.
  - (* SRegAdd *) intros r o m _ st c st' cap H I Hb. cbn [lower_stmt] in H.
    unfold rf_lookup in H. destruct (alook r (l_rf st)) as [[[] k]|] eqn:Er; try discriminate.
    destruct (low_src o st) as [[[[lo y] ts] s1]|] eqn:Hs; cbn [bind] in H; [|discriminate].
    match type of H with Ok (?cc, ?X) = _ => assert (Ec : c = cc) by (inversion H; reflexivity);
                                             assert (Es : st' = X) by (inversion H; reflexivity) end.
    clear H. destruct (low_src_ok _ _ _ _ _ _ Hs I) as [Hlo Hy].
    assert (Hk : Nat.ltb k 16 = true) by (eapply lt16; [exact (i_mlen _ I)|exact (proj2 (i_rf _ I _ _ Er))]).
    split.
    + rewrite Ec. apply SK_instrs. rewrite forallb_app, Hlo. unfold Lower.M. cbn [forallb andb].
      destruct m; cbn [add_instr plain_instr BS.instr_ok BS.reg_lt]; rewrite Hk, Hy; reflexivity.
    + assert (S : sba st st') by (rewrite Es; eapply sba_trans; [eapply low_src_sba; eauto|apply sba_release_all]).
      destruct S as (_ & Q & _). rewrite Q. reflexivity.
  - intros r init Hw. discriminate.
  - intros r o m Hw. discriminate.
  - (* SIf *) intros c cb x y body IH Hw st code st' cap H I Hb. cbn [wfs] in Hw.
    apply andb_prop in Hw. destruct Hw as [Hw Hwf]. apply andb_prop in Hw. destruct Hw as [Hwb _].
    destruct (proj2 wfs_plain body Hwf) as [Hp He]. cbn [qpk fst snd] in *. cbn [lower_stmt] in H.
    destruct (lower_block true body st) as [[cbody s1]|] eqn:Hl; cbn [bind] in H; [|discriminate].
    destruct (IH Hwf _ _ _ cap Hl I Hb) as [Kb _].
    destruct (proj2 lower_facts body Hp He _ _ _ Hl I) as [I1 _].
    assert (Q1 := body_q_restored _ _ _ _ Hp He Hwb Hl I).
    assert (Fin : forall sF, sba s1 sF -> List.length (l_q sF) = List.length (l_q st)).
    { intros sF (_ & Q & _). rewrite Q, Q1. reflexivity. }
    destruct (is_nil cbody); [inv_ok H; split; [apply SK_nil|apply Fin, sba_refl]|].
    destruct (low_cval x s1) as [[[[lx px] tx] s2]|] eqn:Hx; cbn [bind] in H; [|discriminate].
    destruct (low_cval_ok _ _ _ _ _ _ Hx I1) as [Hlx Hpx].
    assert (Sx := low_cval_sba _ _ _ _ _ _ Hx).
    assert (I2 := Inv_held _ _ _ (low_cval_held _ _ _ _ _ _ Hx) I1).
    destruct c;
      try (inv_ok H; split; [apply SK_if; auto|apply Fin; eapply sba_trans; [exact Sx|apply sba_release_all]]);
      (destruct (low_cval y s2) as [[[[ly py] ty] s3]|] eqn:Hy; cbn [bind] in H; [|discriminate]; inv_ok H;
       destruct (low_cval_ok _ _ _ _ _ _ Hy I2) as [Hly Hpy];
       split; [apply SK_if; auto; rewrite forallb_app, Hlx, Hly; reflexivity
              |apply Fin; eapply sba_trans; [exact Sx|eapply sba_trans; [eapply low_cval_sba; eauto|apply sba_release_all]]]).
  - (* SLoop *) intros cb v oreg a b step body IH Hw st code st' cap H I Hb.
    cbn [wfs] in Hw. apply andb_prop in Hw. destruct Hw as [Hw _]. apply andb_prop in Hw. destruct Hw as [Hwb Hwf].
    destruct (proj2 wfs_plain body Hwf) as [Hp He]. cbn [qpk fst snd] in *. cbn [lower_stmt] in H.
    destruct (alook v (l_lv st)); [discriminate|].
    destruct (take_at oreg st) as [[r s1]|] eqn:Ht; cbn [bind] in H; [|discriminate].
    destruct (lower_block true body (bind_lvr v r s1)) as [[cbody s2]|] eqn:Hl; cbn [bind] in H; [|discriminate].
    assert (Ib := Inv_bind_loop_at _ _ _ _ v Ht I).
    destruct (sba_take_at _ _ _ _ Ht) as (_ & Q0' & _).
    destruct (IH Hwf _ _ _ cap Hl Ib) as [Kb _]; [cbn; rewrite Q0'; exact Hb|].
    assert (Q2 := body_q_restored _ _ _ _ Hp He Hwb Hl Ib). cbn in Q2.
    assert (Hr := take_at_lt _ _ _ _ Ht I).
    destruct (is_nil cbody); inv_ok H; (split; [|cbn; rewrite Q2, Q0'; reflexivity]); [apply SK_nil|].
    apply SK_loop; [exact Hr|exact Kb].
  - (* SForeach *) intros enum v a body IH Hw st code st' cap H I Hb.
    cbn [wfs] in Hw. apply andb_prop in Hw. destruct Hw as [Hw Hwf]. apply andb_prop in Hw. destruct Hw as [Hwb _].
    destruct (proj2 wfs_plain body Hwf) as [Hp He]. cbn [qpk fst snd] in *. cbn [lower_stmt] in H.
    destruct (alook a (l_len st)); [|discriminate].
    destruct (alook v (l_lv st)); [discriminate|].
    destruct (take st) as [[r s1]|] eqn:Ht; cbn [bind] in H; [|discriminate].
    destruct (lower_block true body (bind_lvr v r s1)) as [[cbody s2]|] eqn:Hl; cbn [bind] in H; [|discriminate].
    assert (Ib := Inv_bind_loop _ _ _ v Ht I).
    destruct (sba_take _ _ _ Ht) as (_ & Q0' & _).
    destruct (IH Hwf _ _ _ cap Hl Ib) as [Kb _]; [cbn; rewrite Q0'; exact Hb|].
    assert (Q2 := body_q_restored _ _ _ _ Hp He Hwb Hl Ib). cbn in Q2.
    assert (Hr := take_lt _ _ _ Ht I).
    destruct (is_nil cbody); inv_ok H; (split; [|cbn; rewrite Q2, Q0'; reflexivity]); [apply SK_nil|].
    apply SK_loop; [exact Hr|exact Kb].
  - (* SLoopUntil *) intros v mx body IHb cx bound cl IHc Hw st code st' cap H I Hb. cbn [wfs] in Hw.
    apply andb_prop in Hw. destruct Hw as [Hw _]. apply andb_prop in Hw. destruct Hw as [Hw _].
    apply andb_prop in Hw. destruct Hw as [Hw _]. apply andb_prop in Hw. destruct Hw as [Hw Hwf2].
    apply andb_prop in Hw. destruct Hw as [Hw Hwf1]. apply andb_prop in Hw. destruct Hw as [Hwb1 Hwb2].
    destruct (proj2 wfs_plain body Hwf1) as [Hp1 He1]. destruct (proj2 wfs_plain cl Hwf2) as [Hp2 He2].
    cbn [qpk fst snd] in *. cbn [lower_stmt] in H.
    destruct (alook v (l_lv st)); [discriminate|].
    destruct (take st) as [[r s1]|] eqn:Ht; cbn [bind] in H; [|discriminate].
    destruct (lower_block true body (bind_lvr v r s1)) as [[cbody s2]|] eqn:Hl; cbn [bind] in H; [|discriminate].
    assert (Ib := Inv_bind_loop _ _ _ v Ht I).
    destruct (sba_take _ _ _ Ht) as (_ & Q0' & _).
    destruct (IHb Hwf1 _ _ _ cap Hl Ib) as [Kb _]; [cbn; rewrite Q0'; lia|].
    assert (Q2 := body_q_restored _ _ _ _ Hp1 He1 Hwb1 Hl Ib). cbn in Q2.
    destruct (proj2 lower_facts body Hp1 He1 _ _ _ Hl Ib) as [I2 _].
    assert (Hr := take_lt _ _ _ Ht I).
    destruct (is_nil cbody); [inv_ok H; split; [apply SK_nil|cbn; rewrite Q2, Q0'; reflexivity]|].
    destruct (low_cval cx s2) as [[[[lx px] tx] s3]|] eqn:Hx; cbn [bind] in H; [|discriminate].
    destruct (low_cval_ok _ _ _ _ _ _ Hx I2) as [Hlx Hpx].
    assert (Hh := low_cval_held _ _ _ _ _ _ Hx).
    assert (S3 : sba s2 (release_all tx s3)) by (eapply sba_trans; [eapply sba_held; eauto|apply sba_release_all]).
    assert (A3 := proj1 (held_release _ _ _ Hh)).
    assert (I3 := Inv_sba _ _ S3 A3 I2).
    destruct (lower_block true cl (release_all tx s3)) as [[ccl s4]|] eqn:Hc; cbn [bind] in H; [|discriminate].
    destruct S3 as (_ & Q3 & _).
    destruct (IHc Hwf2 _ _ _ cap Hc I3) as [Kc _]; [rewrite Q3, Q2, Q0'; lia|].
    assert (Q4 := body_q_restored _ _ _ _ Hp2 He2 Hwb2 Hc I3).
    inv_ok H. split; [apply SK_until; auto|cbn; rewrite Q4, Q3, Q2, Q0'; reflexivity].
  - intros k body IH Hw. discriminate.
  - intro Hw. discriminate.
  - (* SFutAddX *) intros a b n o m _ st c st' cap H I Hb. cbn [lower_stmt] in H.
    destruct (take st) as [[t s1]|] eqn:Ht; cbn [bind] in H; [|discriminate].
    destruct (take s1) as [[ti s1i]|] eqn:Hti; cbn [bind] in H; [|discriminate].
    destruct (low_src o (release ti s1i)) as [[[[lo y] ts] s2]|] eqn:Hs; cbn [bind] in H; [|discriminate].
    match type of H with Ok (?cc, ?X) = _ => assert (Ec : c = cc) by (inversion H; reflexivity);
                                             assert (Es : st' = X) by (inversion H; reflexivity) end.
    clear H. assert (I1 := Inv_take _ _ _ Ht I).
    assert (Ht' := take_lt _ _ _ Ht I). assert (Hti' := take_lt _ _ _ Hti I1).
    assert (Sr : sba s1 (release ti s1i)) by (eapply sba_trans; [eapply sba_take; eauto|apply sba_release]).
    assert (Ea : l_act (release ti s1i) = l_act s1).
    { destruct (take_facts _ _ _ Hti) as (Hf & Ha & _). unfold release. cbn [l_act with_act]. rewrite Ha.
      apply set_nth_undo. exact Hf. }
    assert (Ir : Inv (release ti s1i)) by (eapply Inv_sba; eauto).
    destruct (low_src_ok _ _ _ _ _ _ Hs Ir) as [Hlo Hy]. split.
    + rewrite Ec. apply SK_instrs. rewrite !forallb_app. unfold Lower.R. cbn [forallb].
      rewrite Hlo. cbn [plain_instr BS.instr_ok BS.reg_lt BS.rop_lt]. rewrite Ht', Hti'. cbn [andb].
      destruct m; cbn [add_instr plain_instr BS.instr_ok BS.reg_lt]; rewrite Ht', Hy; reflexivity.
    + assert (S : sba st st').
      { rewrite Es. eapply sba_trans; [eapply sba_take; eauto|].
        eapply sba_trans; [exact Sr|].
        eapply sba_trans; [eapply low_src_sba; eauto|].
        eapply sba_trans; [apply sba_release|apply sba_release_all]. }
      destruct S as (_ & Q & _). rewrite Q. reflexivity.
  - (* SMeasFutX *) intros q ip a b n _ st c st' cap H I Hb. cbn [lower_stmt] in H.
    destruct (low_meas q ip false st) as [[[m c0] s1]|] eqn:Em; cbn [bind] in H; [|discriminate].
    destruct (take s1) as [[ti s1i]|] eqn:Hti; cbn [bind] in H; [|discriminate]. inv_ok H.
    destruct (low_meas_ok _ _ _ _ _ _ _ (Z.of_nat cap) Em I) as (K & Hm & Hq).
    destruct (low_meas_false_inv _ _ _ _ _ _ Em I) as [I1 _].
    assert (Hti' := take_lt _ _ _ Hti I1).
    assert (S : sba s1 (release ti s1i)) by (eapply sba_trans; [eapply sba_take; eauto|apply sba_release]).
    destruct S as (_ & Q & _).
    split; [|rewrite Q, Hq; destruct ip; reflexivity].
    apply SK_app; [exact K|].
    change [XI (ILoad (Lower.R ti) b (PImm (Z.of_nat n))); XI (IStore (PReg (Lower.M m)) a (PReg (Lower.R ti)))]
      with (map XI [ILoad (Lower.R ti) b (PImm (Z.of_nat n)); IStore (PReg (Lower.M m)) a (PReg (Lower.R ti))]).
    apply SK_instrs. unfold Lower.R, Lower.M. cbn [forallb plain_instr BS.instr_ok BS.reg_lt BS.rop_lt andb].
    rewrite Hm, Hti'. reflexivity.
  - intros _ st c st' cap H I Hb. inv_ok H. split; [apply SK_nil|reflexivity].
  - intros s IHs b IHb Hw st c st' cap H I Hb. cbn [bwfs] in Hw. apply andb_prop in Hw. destruct Hw as [Hw1 Hw2].
    destruct (proj1 wfs_plain s Hw1) as [Hp1 He1].
    cbn [lower_block] in H.
    destruct (lower_stmt true s st) as [[c1 s1]|] eqn:H1; cbn [bind] in H; [|discriminate].
    destruct (lower_block true b s1) as [[c2 s2]|] eqn:H2; cbn [bind] in H; [|discriminate]. inv_ok H.
    cbn [bqpk] in *. destruct (qpk s (List.length (l_q st))) as [n1 p1] eqn:Eq1.
    destruct (IHs Hw1 _ _ _ cap H1 I) as [K1 L1]; [rewrite Eq1; cbn; destruct (bqpk b n1); cbn in Hb; lia|].
    rewrite Eq1 in L1. cbn in L1.
    destruct (proj1 lower_facts s Hp1 He1 _ _ _ H1 I) as [I1 _].
    destruct (bqpk b n1) as [n2 p2] eqn:Eq2. cbn in Hb.
    destruct (IHb Hw2 _ _ _ cap H2 I1) as [K2 L2]; [rewrite L1, Eq2; cbn; lia|].
    rewrite L1, Eq2 in L2. cbn in *. split; [apply SK_app; assumption|exact L2].
Qed.

(* ------------------------------------------------------------------ flush blocks and whole programs *)
Lemma stores_SK : forall cap a l i, SK cap (stores a i l).
Proof.
  intros cap a l. induction l as [|x l IH]; intro i; cbn [stores]; [apply SK_nil|].
  destruct x; [apply SK_cons; [reflexivity|apply IH]|apply IH].
Qed.

Lemma init_code_SK : forall cap ds P st Pf stf,
  init_code ds P st = Ok (Pf, stf) -> List.length (l_act st) = NREGS -> SK cap P -> SK cap Pf.
Proof.
  intros cap ds. induction ds as [|[[a n] init] ds IH]; intros P st Pf stf H Hl HP; cbn [init_code] in H.
  - inv_ok H. exact HP.
  - destruct init as [l|].
    + destruct (loopopt l) as [v|].
      * destruct (take st) as [[t s1]|] eqn:Ht; cbn [bind] in H; [|discriminate].
        assert (Tf := take_facts _ _ _ Ht). destruct Tf as (Hf & Ha & _).
        assert (Ht16 : Nat.ltb t 16 = true) by (eapply lt16; eauto).
        eapply IH; [exact H| |].
        -- cbn. rewrite Ha, !set_nth_length. exact Hl.
        -- apply SK_app; [apply SK_instr; reflexivity|]. apply SK_app; [exact HP|].
           apply SK_loop; [exact Ht16|]. apply SK_instr. unfold Lower.R.
           cbn [plain_instr BS.instr_ok BS.reg_lt BS.rop_lt andb]. exact Ht16.
      * eapply IH; [exact H|exact Hl|]. apply SK_app; [exact HP|].
        apply SK_app; [apply SK_instr; reflexivity|apply stores_SK].
    + eapply IH; [exact H|exact Hl|]. apply SK_app; [exact HP|apply SK_instr; reflexivity].
Qed.

Lemma rets_SK : forall cap (ds : list arrdecl) (rs : list reg),
  (forall g, In g rs -> BS.reg_lt g = true) ->
  SK cap (map (fun d : arrdecl => XI (IRetArr (fst (fst d)))) ds ++ map (fun m => XI (IRetReg m)) rs).
Proof.
  intros cap ds rs H. apply SK_app.
  - induction ds as [|d ds IH]; cbn; [apply SK_nil|apply SK_cons; [reflexivity|exact IH]].
  - induction rs as [|g rs IH]; cbn; [apply SK_nil|].
    apply SK_cons; [cbn; apply H; left; reflexivity|apply IH; intros; apply H; right; assumption].
Qed.

Lemma flush_SK : forall cap c st1 blk st2,
  lower_flush c st1 = Ok (blk, st2) -> Inv st1 -> SK cap c ->
  match blk with Some code => SK cap code | None => True end.
Proof.
  intros cap c st1 blk st2 H I Hc. unfold lower_flush in H.
  destruct (init_code (l_decl st1) [] st1) as [[P st1']|] eqn:Hin; cbn [bind] in H; [|discriminate]. inv_ok H.
  destruct (is_nil _); [exact Logic.I|].
  apply SK_app; [eapply init_code_SK; [exact Hin|exact (i_alen _ I)|apply SK_nil]|].
  apply SK_app; [exact Hc|]. apply rets_SK.
  intros g Hg. destruct (i_ret _ I _ Hg) as (r & m & -> & Hr). cbn.
  eapply lt16; [exact (i_mlen _ I)|exact (proj2 (i_rf _ I _ _ Hr))].
Qed.

Lemma top_code_ok : forall segs st0 bs stF cap,
  Forall (fun seg => bwfs seg = true) segs -> Inv st0 -> l_lv st0 = [] ->
  qpeak_segs segs (List.length (l_q st0)) <= cap ->
  lower_top true (prog_of segs) [] st0 = Ok (bs, stF) ->
  forall b, In (Some b) bs -> BS.code_ok cap (flatten b) = true.
Proof.
  induction segs as [|seg segs IH]; intros st0 bs stF cap Hw I0 Hlv Hq Hl b Hin.
  - cbn in Hl. inv_ok Hl. destruct Hin.
  - inversion Hw as [|? ? Hw1 Hw2]; subst. cbn [prog_of] in Hl. rewrite lower_top_seg in Hl by exact Hw1.
    cbn [app] in Hl.
    destruct (lower_block true seg st0) as [[c st1]|] eqn:Hb; cbn [bind] in Hl; [|discriminate].
    destruct (lower_flush c st1) as [[blk st2]|] eqn:Hf; cbn [bind] in Hl; [|discriminate].
    destruct (lower_top true (prog_of segs) [] st2) as [[rest st3]|] eqn:Hr; cbn [bind] in Hl; [|discriminate].
    inv_ok Hl. cbn [qpeak_segs] in Hq. destruct (bqpk seg (List.length (l_q st0))) as [n1 p1] eqn:Eq.
    destruct (proj2 wfs_plain seg Hw1) as [Hp He].
    destruct (proj2 lower_facts seg Hp He _ _ _ Hb I0) as [I1 X1].
    destruct (proj2 code_ok_all seg Hw1 _ _ _ cap Hb I0) as [K1 L1]; [rewrite Eq; cbn; lia|].
    rewrite Eq in L1. cbn in L1.
    assert (KF := flush_SK (Z.of_nat cap) c st1 blk st2 Hf I1 K1).
    (* the state after the flush *)
    assert (Hf' := Hf). unfold lower_flush in Hf'.
    destruct (init_code (l_decl st1) [] st1) as [[P st1']|] eqn:Hic; cbn [bind] in Hf'; [|discriminate]. inv_ok Hf'.
    destruct (init_code_sba _ _ _ _ _ Hic) as [S1 A1].
    assert (I1' : Inv st1') by (eapply Inv_sba; eauto).
    destruct S1 as (_ & S1q & _ & _ & _ & S1v & _).
    assert (Lv1' : l_lv st1' = []) by (rewrite S1v, (x_lv _ _ X1); exact Hlv).
    destruct (Inv_reset st1' I1' Lv1') as [I2 _].
    destruct Hin as [Hin|Hin].
    + destruct (is_nil _); [discriminate|]. inv_ok Hin. specialize (KF 0). exact (proj1 KF).
    + eapply (IH (reset_block st1') rest stF cap Hw2 I2); [exact Lv1'| |exact Hr|exact Hin].
      cbn [reset_block l_q]. rewrite S1q. lia.
Qed.

(* H1 of the end-to-end chain (first half): every block the builder model emits for a program of
   well-formed segments whose peak number of simultaneously live qubit handles is at most `cap`
   satisfies Bridge_SdkAsm.code_ok cap *)
Theorem lower_prog_code_ok : forall segs cap bs st,
  Forall (fun seg => bwfs seg = true) segs -> qpeak segs <= cap ->
  lower_prog true (prog_of segs) = Ok (bs, st) ->
  forall b, In (Some b) bs -> BS.code_ok cap (flatten b) = true.
Proof.
  intros segs cap bs st Hw Hq Hl b Hin. unfold lower_prog in Hl.
  eapply (top_code_ok segs l0 bs st cap Hw Inv_l0); eauto.
Qed.
