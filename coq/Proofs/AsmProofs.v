(* AsmProofs.v — proofs about the assembler model (C03). *)
From Coq Require Import ZArith List Bool String Lia.
From NQ Require Import Base.Bits Lang.Codec Lang.Asm Lang.AsmSem.
Import ListNotations.
Open Scope Z_scope.

(* ====================================================================== *)
(* 1. registers                                                           *)
(* ====================================================================== *)

Lemma reg_eqb_eq a b : reg_eqb a b = true <-> a = b.
Proof.
  destruct a as [a1 a2], b as [b1 b2]. unfold reg_eqb; cbn [fst snd].
  rewrite andb_true_iff, !Z.eqb_eq. split; [intros [-> ->]; reflexivity|intros [= -> ->]; auto].
Qed.

Lemma reg_eqb_refl a : reg_eqb a a = true.
Proof. apply reg_eqb_eq. reflexivity. Qed.

Lemma reg_eqb_neq a b : reg_eqb a b = false <-> a <> b.
Proof.
  split.
  - intros H E. apply reg_eqb_eq in E. congruence.
  - intros H. destruct (reg_eqb a b) eqn:E; [apply reg_eqb_eq in E; contradiction|reflexivity].
Qed.

Lemma mem_reg_In r l : mem_reg r l = true <-> In r l.
Proof.
  unfold mem_reg. rewrite existsb_exists. split.
  - intros [x [Hin He]]. apply reg_eqb_eq in He. subst. exact Hin.
  - intros Hin. exists r. split; [exact Hin|apply reg_eqb_refl].
Qed.

Lemma mem_reg_notIn r l : mem_reg r l = false <-> ~ In r l.
Proof.
  rewrite <- mem_reg_In. destruct (mem_reg r l); split; intros; congruence.
Qed.

Lemma flat_map_lit_regs args : flat_map regs_of_opnd (map lit_op args) = [].
Proof. induction args as [|a args IH]; [reflexivity|exact IH]. Qed.

Lemma regs_of_cmd_make_args c : regs_of_cmd (make_args c) = regs_of_cmd c.
Proof.
  destruct c as [l|mn args ops]; [reflexivity|].
  cbn [make_args regs_of_cmd]. unfold all_ops. rewrite flat_map_app, flat_map_lit_regs. reflexivity.
Qed.

Lemma named_make_args P : named (map make_args P) = named P.
Proof.
  unfold named. induction P as [|c P IH]; [reflexivity|].
  cbn [map flat_map]. rewrite regs_of_cmd_make_args, IH. reflexivity.
Qed.

(* ====================================================================== *)
(* 2. what the constant-replacement pass produces                         *)
(* ====================================================================== *)

(* a register the pass may pick: R bank, candidate index, not named by the program *)
Definition scratch (pr : aparams) (nm : list reg) (r : reg) : Prop :=
  fst r = ap_bankR pr /\ In (snd r) (cands pr) /\ ~ In r nm.

Definition setc (p : reg * Z) : acmd := set_cmd (fst p) (snd p).

Lemma pick_spec pr nm tmp i :
  pick pr nm tmp = Some i ->
  scratch pr nm (ap_bankR pr, i) /\ ~ In (ap_bankR pr, i) tmp.
Proof.
  unfold pick. intros H. apply find_some in H as [Hin Hb].
  apply andb_true_iff in Hb as [H1 H2].
  apply negb_true_iff in H1, H2. apply mem_reg_notIn in H1, H2.
  unfold scratch; cbn [fst snd]. auto.
Qed.

(* value v became v': unchanged, or a literal z now held by scratch register r with (r,z) among the inserted sets *)
Definition val_rel (ps : list (reg * Z)) (v v' : aval) : Prop :=
  v' = v \/ exists z r, v = VLit z /\ v' = VReg (fst r) (snd r) /\ In (r, z) ps.

Definition op_rel (ex : list (string * nat)) (mn : string) (ps : list (reg * Z)) (j : nat) (o o' : aopnd) : Prop :=
  match o with
  | AV (VLit z) =>
      if is_exempt ex mn j then o' = o
      else exists r, o' = AV (VReg (fst r) (snd r)) /\ In (r, z) ps
  | AV (VReg _ _) | ALabel _ | AAddr _ => o' = o
  | AEntry a v => exists v', o' = AEntry a v' /\ val_rel ps v v'
  | ASlice a v1 v2 => exists v1' v2', o' = ASlice a v1' v2' /\ val_rel ps v1 v1' /\ val_rel ps v2 v2'
  end.

Fixpoint ops_rel (ex : list (string * nat)) (mn : string) (ps : list (reg * Z)) (j : nat)
         (ops ops' : list aopnd) : Prop :=
  match ops, ops' with
  | [], [] => True
  | o :: r, o' :: r' => op_rel ex mn ps j o o' /\ ops_rel ex mn ps (S j) r r'
  | _, _ => False
  end.

Lemma val_rel_mono ps qs1 qs2 v v' : val_rel ps v v' -> val_rel (qs1 ++ ps ++ qs2) v v'.
Proof.
  intros [H|[z [r [H1 [H2 H3]]]]]; [left; exact H|].
  right. exists z, r. repeat split; auto. apply in_or_app. right. apply in_or_app. left. exact H3.
Qed.

Lemma op_rel_mono ex mn ps qs1 qs2 j o o' : op_rel ex mn ps j o o' -> op_rel ex mn (qs1 ++ ps ++ qs2) j o o'.
Proof.
  destruct o as [[z|b i]|l|a|a v|a v1 v2]; cbn [op_rel]; auto.
  - destruct (is_exempt ex mn j); auto.
    intros [r [H1 H2]]. exists r. split; auto. apply in_or_app. right. apply in_or_app. left. exact H2.
  - intros [v' [H1 H2]]. exists v'. split; auto. apply val_rel_mono. exact H2.
  - intros [v1' [v2' [H1 [H2 H3]]]]. exists v1', v2'. repeat split; auto; apply val_rel_mono; assumption.
Qed.

Lemma ops_rel_mono ex mn ps qs1 qs2 ops : forall j ops',
  ops_rel ex mn ps j ops ops' -> ops_rel ex mn (qs1 ++ ps ++ qs2) j ops ops'.
Proof.
  induction ops as [|o ops IH]; intros j [|o' ops']; cbn [ops_rel]; auto.
  intros [H1 H2]. split; [apply op_rel_mono; exact H1|apply IH; exact H2].
Qed.

(* the accumulated scratch registers of one command: distinct, all scratch *)
Definition good_tmp (pr : aparams) (nm : list reg) (tmp : list reg) : Prop :=
  NoDup tmp /\ Forall (scratch pr nm) tmp.

Lemma NoDup_snoc {A} (l : list A) (x : A) : NoDup l -> ~ In x l -> NoDup (l ++ [x]).
Proof.
  induction l as [|y l IH]; intros Hnd Hni; cbn [app].
  - constructor; [intros []|constructor].
  - inversion Hnd as [|? ? Hy Hl]; subst. constructor.
    + intros Hin. apply in_app_or in Hin as [Hin|[->|[]]]; [contradiction|]. apply Hni. left. reflexivity.
    + apply IH; [exact Hl|]. intros Hin. apply Hni. right. exact Hin.
Qed.

Lemma good_tmp_snoc pr nm tmp r :
  good_tmp pr nm tmp -> scratch pr nm r -> ~ In r tmp -> good_tmp pr nm (tmp ++ [r]).
Proof.
  intros [Hnd Hall] Hs Hni. split.
  - apply NoDup_snoc; assumption.
  - apply Forall_app. split; [exact Hall|constructor; [exact Hs|constructor]].
Qed.

Ltac split4 := split; [|split; [|split]].

Lemma repl_val_spec pr nm v tmp s v' tmp' :
  repl_val pr nm v tmp = Some (s, v', tmp') -> good_tmp pr nm tmp ->
  exists ps, s = map setc ps /\ tmp' = tmp ++ map fst ps /\ good_tmp pr nm tmp' /\ val_rel ps v v'.
Proof.
  intros H Hg. destruct v as [z|b i]; cbn [repl_val] in H.
  - destruct (pick pr nm tmp) as [i|] eqn:Hp; [|discriminate].
    injection H as <- <- <-. apply pick_spec in Hp as [Hs Hni].
    exists [((ap_bankR pr, i), z)]. cbn [map fst snd setc]. split4.
    + reflexivity.
    + reflexivity.
    + apply good_tmp_snoc; assumption.
    + right. exists z, (ap_bankR pr, i). cbn [fst snd]. split; [reflexivity|split; [reflexivity|left; reflexivity]].
  - injection H as <- <- <-. exists []. cbn [map]. rewrite app_nil_r. split4; try reflexivity; [exact Hg|left; reflexivity].
Qed.

Lemma repl_opnd_spec pr nm mn j o tmp s o' tmp' :
  repl_opnd pr nm mn j o tmp = Some (s, o', tmp') -> good_tmp pr nm tmp ->
  exists ps, s = map setc ps /\ tmp' = tmp ++ map fst ps /\ good_tmp pr nm tmp'
             /\ op_rel (ap_exempt pr) mn ps j o o'.
Proof.
  intros H Hg.
  assert (Hnil : forall o0, op_rel (ap_exempt pr) mn [] j o0 o0 ->
            exists ps, [] = map setc ps /\ tmp = tmp ++ map fst ps /\ good_tmp pr nm tmp
                       /\ op_rel (ap_exempt pr) mn ps j o0 o0).
  { intros o0 Ho. exists []. cbn [map]. rewrite app_nil_r. split4; try reflexivity; assumption. }
  destruct o as [[z|b i]|l|a|a v|a v1 v2]; cbn [repl_opnd] in H.
  - destruct (is_exempt (ap_exempt pr) mn j) eqn:He.
    + injection H as <- <- <-. apply Hnil. cbn [op_rel]. rewrite He. reflexivity.
    + destruct (repl_val pr nm (VLit z) tmp) as [[[s1 v1] t1]|] eqn:Hr; [|discriminate].
      injection H as <- <- <-.
      destruct (repl_val_spec _ _ _ _ _ _ _ Hr Hg) as [ps [E1 [E2 [G V]]]].
      exists ps. split4; try assumption. cbn [op_rel]. rewrite He.
      destruct V as [V|[z' [r [V1 [V2 V3]]]]].
      * cbn [repl_val] in Hr. destruct (pick pr nm tmp); [|discriminate]. injection Hr as _ Hv _. congruence.
      * injection V1 as <-. exists r. split; [rewrite V2; reflexivity|exact V3].
  - injection H as <- <- <-. apply Hnil. reflexivity.
  - injection H as <- <- <-. apply Hnil. reflexivity.
  - injection H as <- <- <-. apply Hnil. reflexivity.
  - destruct (repl_val pr nm v tmp) as [[[s1 v1] t1]|] eqn:Hr; [|discriminate].
    injection H as <- <- <-.
    destruct (repl_val_spec _ _ _ _ _ _ _ Hr Hg) as [ps [E1 [E2 [G V]]]].
    exists ps. split4; try assumption. cbn [op_rel]. exists v1. split; [reflexivity|exact V].
  - destruct (repl_val pr nm v1 tmp) as [[[s1 w1] t1]|] eqn:Hr1; [|discriminate].
    destruct (repl_val pr nm v2 t1) as [[[s2 w2] t2]|] eqn:Hr2; [|discriminate].
    injection H as <- <- <-.
    destruct (repl_val_spec _ _ _ _ _ _ _ Hr1 Hg) as [ps1 [E1 [E2 [G1 V1]]]].
    destruct (repl_val_spec _ _ _ _ _ _ _ Hr2 G1) as [ps2 [F1 [F2 [G2 V2]]]].
    exists (ps1 ++ ps2). subst. rewrite !map_app, app_assoc. split4; [reflexivity|reflexivity|exact G2|].
    cbn [op_rel]. exists w1, w2. split; [reflexivity|split].
    + apply (val_rel_mono ps1 [] ps2) in V1. exact V1.
    + apply (val_rel_mono ps2 ps1 []) in V2. rewrite app_nil_r in V2. exact V2.
Qed.

Lemma repl_ops_spec pr nm mn ops : forall j tmp s ops' tmp',
  repl_ops pr nm mn j ops tmp = Some (s, ops', tmp') -> good_tmp pr nm tmp ->
  exists ps, s = map setc ps /\ tmp' = tmp ++ map fst ps /\ good_tmp pr nm tmp'
             /\ ops_rel (ap_exempt pr) mn ps j ops ops'.
Proof.
  induction ops as [|o ops IH]; intros j tmp s ops' tmp' H Hg; cbn [repl_ops] in H.
  - injection H as <- <- <-. exists []. cbn [map ops_rel]. rewrite app_nil_r. split4; try reflexivity; try exact I; exact Hg.
  - destruct (repl_opnd pr nm mn j o tmp) as [[[s1 o1] t1]|] eqn:Ho; [|discriminate].
    destruct (repl_ops pr nm mn (S j) ops t1) as [[[s2 r2] t2]|] eqn:Hr; [|discriminate].
    injection H as <- <- <-.
    destruct (repl_opnd_spec _ _ _ _ _ _ _ _ _ Ho Hg) as [ps1 [E1 [E2 [G1 V1]]]].
    destruct (IH _ _ _ _ _ Hr G1) as [ps2 [F1 [F2 [G2 V2]]]].
    exists (ps1 ++ ps2). subst. rewrite !map_app, app_assoc. split4; [reflexivity|reflexivity|exact G2|].
    cbn [ops_rel]. split.
    + apply (op_rel_mono _ _ ps1 [] ps2) in V1. exact V1.
    + apply (ops_rel_mono _ _ ps2 ps1 []) in V2. rewrite app_nil_r in V2. exact V2.
Qed.

Lemma good_tmp_nil pr nm : good_tmp pr nm [].
Proof. split; constructor. Qed.

(* ====================================================================== *)
(* 3. shape of the assembled program: one block per source command        *)
(* ====================================================================== *)

(* after the replacement pass *)
Definition rblk (pr : aparams) (nm : list reg) (c : acmd) : list acmd :=
  match c with
  | ALab l => [ALab l]
  | AIns mn args ops =>
      match repl_ops pr nm mn 0 (all_ops args ops) [] with
      | Some (s, ops', _) => s ++ [AIns mn [] ops']
      | None => []
      end
  end.

(* after the label pass *)
Definition blk (pr : aparams) (nm : list reg) (tbl : list (string * nat)) (c : acmd) : list acmd :=
  match c with
  | ALab _ => []
  | AIns mn args ops =>
      match repl_ops pr nm mn 0 (all_ops args ops) [] with
      | Some (s, ops', _) => s ++ [AIns mn [] (map (resolve_opnd tbl) ops')]
      | None => []
      end
  end.

Definition cmd_ok (pr : aparams) (nm : list reg) (c : acmd) : Prop :=
  match c with
  | ALab _ => True
  | AIns mn args ops => repl_ops pr nm mn 0 (all_ops args ops) [] <> None
  end.

Lemma repl_all_struct pr nm P : forall Q,
  repl_all pr nm (map make_args P) = Some Q ->
  Q = flat_map (rblk pr nm) P /\ Forall (cmd_ok pr nm) P.
Proof.
  induction P as [|c P IH]; intros Q H; cbn [map repl_all] in H.
  - injection H as <-. split; [reflexivity|constructor].
  - destruct (repl_cmd pr nm (make_args c)) as [b|] eqn:Hc; [|discriminate].
    destruct (repl_all pr nm (map make_args P)) as [Q'|] eqn:HQ; [|discriminate].
    injection H as <-. destruct (IH _ eq_refl) as [-> HF].
    destruct c as [l|mn args ops]; cbn [make_args repl_cmd] in Hc.
    + injection Hc as <-. split; [reflexivity|constructor; [exact I|exact HF]].
    + destruct (repl_ops pr nm mn 0 (all_ops args ops) []) as [[[s ops'] t]|] eqn:Hr; [|discriminate].
      injection Hc as <-. split.
      * cbn [flat_map rblk]. rewrite Hr. reflexivity.
      * constructor; [cbn [cmd_ok]; rewrite Hr; discriminate|exact HF].
Qed.

Lemma filter_sets ps : filter is_ins (map setc ps) = map setc ps.
Proof. induction ps as [|p ps IH]; [reflexivity|]. cbn [map filter setc set_cmd is_ins]. f_equal. exact IH. Qed.

Lemma resolve_sets tbl ps : map (resolve_cmd tbl) (map setc ps) = map setc ps.
Proof. induction ps as [|p ps IH]; [reflexivity|]. cbn [map]. f_equal. exact IH. Qed.

Lemma blk_of_rblk pr nm tbl c :
  map (resolve_cmd tbl) (filter is_ins (rblk pr nm c)) = blk pr nm tbl c.
Proof.
  destruct c as [l|mn args ops]; [reflexivity|]. cbn [rblk blk].
  destruct (repl_ops pr nm mn 0 (all_ops args ops) []) as [[[s ops'] t]|] eqn:Hr; [|reflexivity].
  destruct (repl_ops_spec _ _ _ _ _ _ _ _ _ Hr (good_tmp_nil pr nm)) as [ps [-> _]].
  rewrite filter_app, map_app, filter_sets, resolve_sets. reflexivity.
Qed.

Lemma flat_blk pr nm tbl P :
  map (resolve_cmd tbl) (filter is_ins (flat_map (rblk pr nm) P)) = flat_map (blk pr nm tbl) P.
Proof.
  induction P as [|c P IH]; [reflexivity|].
  cbn [flat_map]. rewrite filter_app, map_app, blk_of_rblk, IH. reflexivity.
Qed.

Theorem assemble_struct pr P T :
  assemble_ir pr P = AOk T ->
  exists tbl, label_table (flat_map (rblk pr (named P)) P) 0 [] = Some tbl
              /\ T = flat_map (blk pr (named P) tbl) P
              /\ Forall (cmd_ok pr (named P)) P.
Proof.
  unfold assemble_ir, replace_constants, abind. rewrite named_make_args.
  destruct (repl_all pr (named P) (map make_args P)) as [Q|] eqn:HQ; [|discriminate].
  destruct (repl_all_struct _ _ _ _ HQ) as [-> HF].
  unfold assign_labels.
  destruct (label_table (flat_map (rblk pr (named P)) P) 0 []) as [tbl|] eqn:Ht; [|discriminate].
  intros [= <-]. exists tbl. split; [reflexivity|split; [apply flat_blk|exact HF]].
Qed.

(* ====================================================================== *)
(* 4. the label table                                                     *)
(* ====================================================================== *)

(* number of instructions before the first definition of l *)
Fixpoint lab_off (L : list acmd) (l : string) : option nat :=
  match L with
  | [] => None
  | ALab l' :: r => if String.eqb l' l then Some O else lab_off r l
  | AIns _ _ _ :: r => option_map S (lab_off r l)
  end.

Lemma tbl_find_snoc tbl k n l :
  tbl_find (tbl ++ [(k, n)]) l =
  match tbl_find tbl l with Some x => Some x | None => if String.eqb k l then Some n else None end.
Proof.
  induction tbl as [|[k' n'] tbl IH]; cbn [app tbl_find]; [reflexivity|].
  destruct (String.eqb k' l); [reflexivity|exact IH].
Qed.

Lemma label_table_spec L : forall n tbl0 tbl,
  label_table L n tbl0 = Some tbl ->
  forall l, tbl_find tbl l =
            match tbl_find tbl0 l with
            | Some x => Some x
            | None => option_map (fun c => (n + c)%nat) (lab_off L l)
            end.
Proof.
  induction L as [|c L IH]; intros n tbl0 tbl H l; cbn [label_table] in H.
  - injection H as <-. cbn [lab_off option_map]. destruct (tbl_find tbl0 l); reflexivity.
  - destruct c as [l'|mn args ops].
    + destruct (tbl_find tbl0 l') eqn:Hf; [discriminate|].
      rewrite (IH _ _ _ H l), tbl_find_snoc. cbn [lab_off].
      destruct (tbl_find tbl0 l) eqn:Hl; [reflexivity|].
      destruct (String.eqb l' l); [cbn [option_map]; f_equal; lia|reflexivity].
    + rewrite (IH _ _ _ H l). cbn [lab_off].
      destruct (tbl_find tbl0 l); [reflexivity|].
      destruct (lab_off L l); cbn [option_map]; [f_equal; lia|reflexivity].
Qed.

Lemma lab_off_app_ins L1 L2 l :
  forallb is_ins L1 = true ->
  lab_off (L1 ++ L2) l = option_map (fun c => (List.length L1 + c)%nat) (lab_off L2 l).
Proof.
  induction L1 as [|c L1 IH]; intros H; cbn [app List.length].
  - destruct (lab_off L2 l); reflexivity.
  - cbn [forallb] in H. apply andb_true_iff in H as [Hc H].
    destruct c as [l'|mn args ops]; [discriminate|]. cbn [lab_off]. rewrite (IH H).
    destruct (lab_off L2 l); reflexivity.
Qed.

Lemma forallb_ins_sets ps : forallb is_ins (map setc ps) = true.
Proof. induction ps as [|p ps IH]; [reflexivity|exact IH]. Qed.

Lemma rblk_length pr nm c :
  cmd_ok pr nm c -> is_ins c = true ->
  List.length (rblk pr nm c) = bsize pr nm c /\ forallb is_ins (rblk pr nm c) = true.
Proof.
  destruct c as [l|mn args ops]; [discriminate|]. cbn [cmd_ok rblk bsize nsets]. intros Hok _.
  destruct (repl_ops pr nm mn 0 (all_ops args ops) []) as [[[s ops'] t]|] eqn:Hr; [|congruence].
  destruct (repl_ops_spec _ _ _ _ _ _ _ _ _ Hr (good_tmp_nil pr nm)) as [ps [-> _]].
  split.
  - rewrite app_length. cbn [List.length]. lia.
  - rewrite forallb_app, forallb_ins_sets. reflexivity.
Qed.

Lemma lab_off_blocks pr nm P l :
  Forall (cmd_ok pr nm) P ->
  lab_off (flat_map (rblk pr nm) P) l = option_map (pcmap_from pr nm P) (label_pos P l).
Proof.
  induction P as [|c P IH]; intros HF; [reflexivity|].
  inversion HF as [|? ? Hc HP]; subst. specialize (IH HP). cbn [flat_map].
  destruct c as [l'|mn args ops].
  - cbn [rblk app lab_off label_pos]. destruct (String.eqb l' l); [reflexivity|].
    rewrite IH. destruct (label_pos P l); reflexivity.
  - destruct (rblk_length pr nm (AIns mn args ops) Hc eq_refl) as [Hlen Hins].
    rewrite (lab_off_app_ins _ _ _ Hins), IH, Hlen. cbn [label_pos].
    destruct (label_pos P l); reflexivity.
Qed.

(* every defined label is bound to the index, in the assembled program, of its position *)
Lemma table_is_pcmap pr P tbl :
  label_table (flat_map (rblk pr (named P)) P) 0 [] = Some tbl ->
  Forall (cmd_ok pr (named P)) P ->
  forall l, tbl_find tbl l = option_map (pcmap pr P) (label_pos P l).
Proof.
  intros Ht HF l. rewrite (label_table_spec _ _ _ _ Ht l). cbn [tbl_find].
  rewrite (lab_off_blocks _ _ _ _ HF). unfold pcmap.
  destruct (label_pos P l); reflexivity.
Qed.

(* ====================================================================== *)
(* 5. positions in the assembled program                                  *)
(* ====================================================================== *)

Lemma blk_length pr nm tbl c :
  cmd_ok pr nm c -> List.length (blk pr nm tbl c) = bsize pr nm c.
Proof.
  destruct c as [l|mn args ops]; [reflexivity|]. cbn [cmd_ok blk bsize nsets]. intros Hok.
  destruct (repl_ops pr nm mn 0 (all_ops args ops) []) as [[[s ops'] t]|] eqn:Hr; [|congruence].
  rewrite app_length. cbn [List.length]. lia.
Qed.

Lemma nth_block pr nm tbl P :
  Forall (cmd_ok pr nm) P ->
  forall k c i, nth_error P k = Some c -> (i < List.length (blk pr nm tbl c))%nat ->
  nth_error (flat_map (blk pr nm tbl) P) (pcmap_from pr nm P k + i) = nth_error (blk pr nm tbl c) i.
Proof.
  induction P as [|c0 P IH]; intros HF k c i Hk Hi; [destruct k; discriminate|].
  inversion HF as [|? ? Hc HP]; subst. cbn [flat_map].
  destruct k as [|k]; cbn [nth_error pcmap_from] in *.
  - injection Hk as ->. rewrite nth_error_app1 by exact Hi. reflexivity.
  - rewrite nth_error_app2 by (rewrite (blk_length _ _ _ _ Hc); lia).
    rewrite (blk_length _ _ _ _ Hc).
    replace (bsize pr nm c0 + pcmap_from pr nm P k + i - bsize pr nm c0)%nat
      with (pcmap_from pr nm P k + i)%nat by lia.
    apply IH; assumption.
Qed.

Lemma length_blocks pr nm tbl P :
  Forall (cmd_ok pr nm) P ->
  List.length (flat_map (blk pr nm tbl) P) = pcmap_from pr nm P (List.length P).
Proof.
  induction P as [|c P IH]; intros HF; [reflexivity|].
  inversion HF as [|? ? Hc HP]; subst. cbn [flat_map List.length pcmap_from].
  rewrite app_length, (blk_length _ _ _ _ Hc), (IH HP). reflexivity.
Qed.

Lemma blocks_nolab pr nm tbl P : forallb is_ins (flat_map (blk pr nm tbl) P) = true.
Proof.
  induction P as [|c P IH]; [reflexivity|]. cbn [flat_map]. rewrite forallb_app, IH, andb_true_r.
  destruct c as [l|mn args ops]; [reflexivity|]. cbn [blk].
  destruct (repl_ops pr nm mn 0 (all_ops args ops) []) as [[[s ops'] t]|] eqn:Hr; [|reflexivity].
  destruct (repl_ops_spec _ _ _ _ _ _ _ _ _ Hr (good_tmp_nil pr nm)) as [ps [-> _]].
  rewrite forallb_app, forallb_ins_sets. reflexivity.
Qed.

(* ---------- fetch ---------- *)

Definition shift3 (x : nat * string * list aopnd) : nat * string * list aopnd :=
  let '(k, mn, ops) := x in (S k, mn, ops).

Lemma fetch_from_shift L : forall b, fetch_from L (S b) = option_map shift3 (fetch_from L b).
Proof.
  induction L as [|c L IH]; intros b; [reflexivity|].
  destruct c as [l|mn args ops]; cbn [fetch_from]; [apply IH|reflexivity].
Qed.

Lemma fetch_cons_S c P pc : fetch (c :: P) (S pc) = option_map shift3 (fetch P pc).
Proof. unfold fetch. cbn [skipn]. apply fetch_from_shift. Qed.

Lemma fetch_lab_0 l P : fetch (ALab l :: P) 0 = option_map shift3 (fetch P 0).
Proof. unfold fetch. cbn [skipn fetch_from]. apply fetch_from_shift. Qed.

Lemma fetch_ins_0 mn args ops P : fetch (AIns mn args ops :: P) 0 = Some (O, mn, all_ops args ops).
Proof. reflexivity. Qed.

(* the instruction fetched at pc sits at position k >= pc, everything between is a
   label, so both positions map to the same line of the assembled program *)
Lemma fetch_pcmap pr nm P : forall pc,
  match fetch P pc with
  | Some (k, mn, ops) =>
      (exists args ops0, nth_error P k = Some (AIns mn args ops0) /\ ops = all_ops args ops0)
      /\ pcmap_from pr nm P k = pcmap_from pr nm P pc
  | None => pcmap_from pr nm P pc = pcmap_from pr nm P (List.length P)
  end.
Proof.
  induction P as [|c P IH]; intros pc.
  - unfold fetch. rewrite skipn_nil. cbn [fetch_from List.length]. destruct pc; reflexivity.
  - destruct pc as [|pc].
    + destruct c as [l|mn args ops].
      * rewrite fetch_lab_0. specialize (IH O).
        destruct (fetch P 0) as [[[k mn] ops]|]; cbn [option_map shift3].
        -- destruct IH as [[args [ops0 [H1 H2]]] H3]. split.
           ++ exists args, ops0. cbn [nth_error]. auto.
           ++ cbn [pcmap_from bsize]. rewrite H3. destruct P; reflexivity.
        -- cbn [pcmap_from bsize List.length]. rewrite <- IH. destruct P; reflexivity.
      * rewrite fetch_ins_0. split; [exists args, ops; auto|reflexivity].
    + rewrite fetch_cons_S. specialize (IH pc).
      destruct (fetch P pc) as [[[k mn] ops]|]; cbn [option_map shift3].
      * destruct IH as [[args [ops0 [H1 H2]]] H3]. split.
        -- exists args, ops0. cbn [nth_error]. auto.
        -- cbn [pcmap_from]. rewrite H3. reflexivity.
      * cbn [pcmap_from List.length]. rewrite IH. reflexivity.
Qed.

Lemma fetch_nolab T : forallb is_ins T = true -> forall j,
  fetch T j = match nth_error T j with
              | Some (AIns mn args ops) => Some (j, mn, all_ops args ops)
              | _ => None
              end.
Proof.
  induction T as [|c T IH]; intros H j.
  - unfold fetch. rewrite skipn_nil. destruct j; reflexivity.
  - cbn [forallb] in H. apply andb_true_iff in H as [Hc H].
    destruct c as [l|mn args ops]; [discriminate|].
    destruct j as [|j]; [reflexivity|].
    rewrite fetch_cons_S, (IH H j). cbn [nth_error].
    destruct (nth_error T j) as [[l|mn' args' ops']|]; reflexivity.
Qed.

Lemma label_pos_nolab T l : forallb is_ins T = true -> label_pos T l = None.
Proof.
  induction T as [|c T IH]; intros H; [reflexivity|].
  cbn [forallb] in H. apply andb_true_iff in H as [Hc H].
  destruct c as [l'|mn args ops]; [discriminate|]. cbn [label_pos]. rewrite (IH H). reflexivity.
Qed.

(* ====================================================================== *)
(* 6. states, the inserted sets                                           *)
(* ====================================================================== *)

(* equal memories; registers agree everywhere except on possible scratch registers *)
Definition eqv (pr : aparams) (nm : list reg) (a b : astate) : Prop :=
  s_mem a = s_mem b /\ forall r, ~ scratch pr nm r -> s_regs a r = s_regs b r.

Lemma eqv_refl pr nm a : eqv pr nm a a.
Proof. split; auto. Qed.

(* every candidate scratch register is a register the executor has *)
Definition params_ok (pr : aparams) : bool :=
  forallb (fun i => reg_ok (ap_bankR pr) i) (cands pr).

Lemma scratch_reg_ok pr nm r : params_ok pr = true -> scratch pr nm r -> reg_ok (fst r) (snd r) = true.
Proof.
  unfold params_ok. rewrite forallb_forall. intros H [H1 [H2 _]]. rewrite H1. apply H. exact H2.
Qed.

Definition apply_sets (ps : list (reg * Z)) (st : astate) : astate :=
  fold_left (fun s p => mkSt (upd_reg (s_regs s) (fst p) (snd p)) (s_mem s)) ps st.

Lemma apply_sets_mem ps : forall st, s_mem (apply_sets ps st) = s_mem st.
Proof. induction ps as [|p ps IH]; intros st; [reflexivity|]. cbn [apply_sets fold_left]. rewrite IH. reflexivity. Qed.

Lemma apply_sets_other ps r : forall st, ~ In r (map fst ps) -> s_regs (apply_sets ps st) r = s_regs st r.
Proof.
  induction ps as [|p ps IH]; intros st Hni; [reflexivity|].
  cbn [apply_sets fold_left]. fold (apply_sets ps). rewrite IH.
  - cbn [s_regs]. unfold upd_reg. destruct (reg_eqb (fst p) r) eqn:E; [|reflexivity].
    apply reg_eqb_eq in E. exfalso. apply Hni. left. exact E.
  - intros Hin. apply Hni. right. exact Hin.
Qed.

Lemma apply_sets_in ps r z : forall st,
  NoDup (map fst ps) -> In (r, z) ps -> s_regs (apply_sets ps st) r = Some z.
Proof.
  induction ps as [|p ps IH]; intros st Hnd Hin; [destruct Hin|].
  cbn [map] in Hnd. inversion Hnd as [|? ? Hp Hnd']; subst.
  cbn [apply_sets fold_left]. fold (apply_sets ps). destruct Hin as [->|Hin].
  - cbn [fst snd] in *. rewrite apply_sets_other by exact Hp. cbn [s_regs]. unfold upd_reg.
    rewrite reg_eqb_refl. reflexivity.
  - apply IH; assumption.
Qed.

Lemma opc_of_set : opc_of SET = Xset.
Proof. reflexivity. Qed.

Lemma arun_add P a b c : arun P (a + b) c = arun P b (arun P a c).
Proof.
  revert c. induction a as [|a IH]; intros c; [reflexivity|].
  cbn [Nat.add arun]. destruct c as [pc st|st|k st|k st]; try (destruct b; reflexivity). apply IH.
Qed.

(* the inserted sets run without fault and only write their scratch registers *)
Lemma run_sets T ps : forallb is_ins T = true ->
  forall base st,
  (forall i, (i < List.length ps)%nat -> nth_error T (base + i) = nth_error (map setc ps) i) ->
  Forall (fun p => reg_ok (fst (fst p)) (snd (fst p)) = true) ps ->
  arun T (List.length ps) (Run base st) = Run (base + List.length ps) (apply_sets ps st).
Proof.
  intros HT. induction ps as [|p ps IH]; intros base st Hnth Hok.
  - cbn [List.length arun apply_sets fold_left]. f_equal. lia.
  - inversion Hok as [|? ? Hp Hok']; subst. destruct p as [[b i] z]. cbn [fst snd] in Hp.
    cbn [List.length arun]. unfold astep. rewrite (fetch_nolab T HT).
    pose proof (Hnth O ltac:(cbn [List.length]; lia)) as H0. rewrite Nat.add_0_r in H0.
    rewrite H0. cbn [map nth_error setc set_cmd all_ops app fst snd].
    rewrite opc_of_set. cbn [exec wr next_or_fault]. rewrite Hp. cbn [next_or_fault].
    rewrite IH.
    + cbn [apply_sets fold_left]. f_equal. lia.
    + intros j Hj. specialize (Hnth (S j) ltac:(cbn [List.length]; lia)).
      replace (S base + j)%nat with (base + S j)%nat by lia. rewrite Hnth. reflexivity.
    + exact Hok'.
Qed.

(* ====================================================================== *)
(* 7. one instruction: source operands vs materialised operands           *)
(* ====================================================================== *)

Definition vsim (ss st : astate) (v v' : aval) : Prop :=
  rd ss v = rd st v' /\ (forall b i, v = VReg b i -> v' = v).

Inductive osim (tbl : list (string * nat)) (ss st : astate) : aopnd -> aopnd -> Prop :=
| OS_V v v' : vsim ss st v v' -> osim tbl ss st (AV v) (AV v')
| OS_L l : osim tbl ss st (ALabel l) (resolve_opnd tbl (ALabel l))
| OS_A a : osim tbl ss st (AAddr a) (AAddr a)
| OS_E a v v' : vsim ss st v v' -> osim tbl ss st (AEntry a v) (AEntry a v')
| OS_S a v1 v1' v2 v2' : vsim ss st v1 v1' -> vsim ss st v2 v2' ->
    osim tbl ss st (ASlice a v1 v2) (ASlice a v1' v2').

Definition eres_rel (pr : aparams) (nm : list reg) (tbl : list (string * nat)) (a b : eres) : Prop :=
  match a, b with
  | ENext x, ENext y => eqv pr nm x y
  | EJump t x, EJump t' y => eqv pr nm x y /\ t' = resolve_opnd tbl t /\ is_label t = true
  | EFault, EFault => True
  | EStuck, EStuck => True
  | _, _ => False
  end.

Lemma is_regop_inv o : is_regop o = true -> exists b i, o = AV (VReg b i).
Proof. destruct o as [[z|b i]|l|a|a v|a v w]; try discriminate. eauto. Qed.
Lemma is_val_inv o : is_val o = true -> exists v, o = AV v.
Proof. destruct o as [v|l|a|a v|a v w]; try discriminate. eauto. Qed.
Lemma is_litop_inv o : is_litop o = true -> exists z, o = AV (VLit z).
Proof. destruct o as [[z|b i]|l|a|a v|a v w]; try discriminate. eauto. Qed.
Lemma is_label_inv o : is_label o = true -> exists l, o = ALabel l.
Proof. destruct o as [v|l|a|a v|a v w]; try discriminate. eauto. Qed.
Lemma is_addr_inv o : is_addr o = true -> exists a, o = AAddr a.
Proof. destruct o as [v|l|a|a v|a v w]; try discriminate. eauto. Qed.
Lemma is_entry_inv o : is_entry o = true -> exists a v, o = AEntry a v.
Proof. destruct o as [v|l|a|a v|a v w]; try discriminate. eauto. Qed.

Lemma is_slice_inv o : is_slice o = true -> exists a v w, o = ASlice a v w.
Proof. destruct o as [v|l|a|a v|a v w]; try discriminate. eauto. Qed.

Lemma osim_AV tbl ss st v o' : osim tbl ss st (AV v) o' -> exists v', o' = AV v' /\ vsim ss st v v'.
Proof. intros H. inversion H; subst. eauto. Qed.
Lemma osim_reg tbl ss st b i o' : osim tbl ss st (AV (VReg b i)) o' -> o' = AV (VReg b i).
Proof. intros H. inversion H as [v v' [_ Hv]| | | |]; subst. rewrite (Hv b i eq_refl). reflexivity. Qed.
Lemma osim_label tbl ss st l o' : osim tbl ss st (ALabel l) o' -> o' = resolve_opnd tbl (ALabel l).
Proof. intros H. inversion H; subst. reflexivity. Qed.
Lemma osim_addr tbl ss st a o' : osim tbl ss st (AAddr a) o' -> o' = AAddr a.
Proof. intros H. inversion H; subst. reflexivity. Qed.
Lemma osim_entry tbl ss st a v o' : osim tbl ss st (AEntry a v) o' -> exists v', o' = AEntry a v' /\ vsim ss st v v'.
Proof. intros H. inversion H; subst. eauto. Qed.

Lemma osim_slice tbl ss st a v w o' :
  osim tbl ss st (ASlice a v w) o' -> exists v' w', o' = ASlice a v' w' /\ vsim ss st v v' /\ vsim ss st w w'.
Proof. intros H. inversion H; subst. eauto. Qed.

Lemma rdv_sim ss st v v' : vsim ss st v v' -> rdv ss v = rdv st v'.
Proof. intros [H _]. unfold rdv. rewrite H. reflexivity. Qed.

Lemma wr_sim pr nm tbl ss st b i z :
  eqv pr nm ss st -> ~ scratch pr nm (b, i) ->
  eres_rel pr nm tbl (next_or_fault (wr ss (VReg b i) z)) (next_or_fault (wr st (VReg b i) z)).
Proof.
  intros [Hm Hr] Hns. cbn [wr]. destruct (reg_ok b i); cbn [next_or_fault eres_rel]; [|exact I].
  split; cbn [s_mem s_regs]; [exact Hm|].
  intros r Hr'. unfold upd_reg. destruct (reg_eqb (b, i) r); [reflexivity|apply Hr; exact Hr'].
Qed.

Lemma with_mem_sim pr nm tbl ss st o :
  eqv pr nm ss st -> eres_rel pr nm tbl (with_mem ss o) (with_mem st o).
Proof.
  intros [Hm Hr]. destruct o as [m|]; cbn [with_mem eres_rel]; [|exact I].
  split; cbn [s_mem s_regs]; auto.
Qed.

Lemma branch_sim pr nm tbl ss st c t :
  eqv pr nm ss st -> is_label t = true ->
  eres_rel pr nm tbl (branch c t ss) (branch c (resolve_opnd tbl t) st).
Proof. intros He Ht. unfold branch. destruct c; cbn [eres_rel]; auto. Qed.

Ltac inv_f2 H :=
  repeat match type of H with
         | Forall2 _ (_ :: _) _ =>
             let a := fresh "o'" in let r := fresh "r'" in let Ha := fresh "Ho" in let Hr := fresh "Hr" in
             inversion H as [|? a ? r Ha Hr]; subst; clear H; rename Hr into H
         | Forall2 _ [] _ => inversion H; subst; clear H
         end.

Theorem exec_rel pr nm tbl o ops ops' ss st :
  shape_ok o ops = true ->
  Forall2 (osim tbl ss st) ops ops' ->
  eqv pr nm ss st ->
  (forall b i, In (AV (VReg b i)) ops -> ~ scratch pr nm (b, i)) ->
  (o = Xset -> forall d z, ops = [d; AV (VLit z)] -> exists d', ops' = [d'; AV (VLit z)]) ->
  eres_rel pr nm tbl (exec o ops ss) (exec o ops' st).
Proof.
  intros Hshape HF He Hdst Hset.
  pose proof He as [Hm Hregs].
  destruct o.
  - (* set *)
    destruct ops as [|d [|z [|? ?]]]; try discriminate Hshape.
    cbn [shape_ok] in Hshape. apply andb_true_iff in Hshape as [H1 H2].
    apply is_regop_inv in H1 as [b [i ->]]. apply is_litop_inv in H2 as [z0 ->].
    destruct (Hset eq_refl _ _ eq_refl) as [d' ->].
    inv_f2 HF. apply osim_reg in Ho. subst d'.
    cbn [exec]. apply wr_sim; [exact He|]. apply Hdst. left. reflexivity.
  - (* add *)
    destruct ops as [|d [|a [|c [|? ?]]]]; try discriminate Hshape.
    cbn [shape_ok] in Hshape. apply andb_true_iff in Hshape as [H12 H3]. apply andb_true_iff in H12 as [H1 H2].
    apply is_regop_inv in H1 as [b [i ->]]. apply is_val_inv in H2 as [va ->]. apply is_val_inv in H3 as [vc ->].
    inv_f2 HF. apply osim_reg in Ho. subst.
    apply osim_AV in Ho0 as [va' [-> Ha]]. apply osim_AV in Ho1 as [vc' [-> Hc]].
    cbn [exec]. rewrite (rdv_sim _ _ _ _ Ha), (rdv_sim _ _ _ _ Hc).
    destruct (rdv st va'); [|exact I]. destruct (rdv st vc'); [|exact I].
    apply wr_sim; [exact He|]. apply Hdst. left. reflexivity.
  - (* sub *)
    destruct ops as [|d [|a [|c [|? ?]]]]; try discriminate Hshape.
    cbn [shape_ok] in Hshape. apply andb_true_iff in Hshape as [H12 H3]. apply andb_true_iff in H12 as [H1 H2].
    apply is_regop_inv in H1 as [b [i ->]]. apply is_val_inv in H2 as [va ->]. apply is_val_inv in H3 as [vc ->].
    inv_f2 HF. apply osim_reg in Ho. subst.
    apply osim_AV in Ho0 as [va' [-> Ha]]. apply osim_AV in Ho1 as [vc' [-> Hc]].
    cbn [exec]. rewrite (rdv_sim _ _ _ _ Ha), (rdv_sim _ _ _ _ Hc).
    destruct (rdv st va'); [|exact I]. destruct (rdv st vc'); [|exact I].
    apply wr_sim; [exact He|]. apply Hdst. left. reflexivity.
  - (* addm *)
    destruct ops as [|d [|a [|c [|m [|? ?]]]]]; try discriminate Hshape.
    cbn [shape_ok] in Hshape. apply andb_true_iff in Hshape as [H123 H4]. apply andb_true_iff in H123 as [H12 H3].
    apply andb_true_iff in H12 as [H1 H2].
    apply is_regop_inv in H1 as [b [i ->]]. apply is_val_inv in H2 as [va ->]. apply is_val_inv in H3 as [vc ->].
    apply is_val_inv in H4 as [vm ->].
    inv_f2 HF. apply osim_reg in Ho. subst.
    apply osim_AV in Ho0 as [va' [-> Ha]]. apply osim_AV in Ho1 as [vc' [-> Hc]]. apply osim_AV in Ho2 as [vm' [-> Hmm]].
    cbn [exec]. rewrite (rdv_sim _ _ _ _ Ha), (rdv_sim _ _ _ _ Hc), (rdv_sim _ _ _ _ Hmm).
    destruct (rdv st va'); [|exact I]. destruct (rdv st vc'); [|exact I]. destruct (rdv st vm') as [n|]; [|exact I].
    destruct (n <? 1); [exact I|].
    apply wr_sim; [exact He|]. apply Hdst. left. reflexivity.
  - (* subm *)
    destruct ops as [|d [|a [|c [|m [|? ?]]]]]; try discriminate Hshape.
    cbn [shape_ok] in Hshape. apply andb_true_iff in Hshape as [H123 H4]. apply andb_true_iff in H123 as [H12 H3].
    apply andb_true_iff in H12 as [H1 H2].
    apply is_regop_inv in H1 as [b [i ->]]. apply is_val_inv in H2 as [va ->]. apply is_val_inv in H3 as [vc ->].
    apply is_val_inv in H4 as [vm ->].
    inv_f2 HF. apply osim_reg in Ho. subst.
    apply osim_AV in Ho0 as [va' [-> Ha]]. apply osim_AV in Ho1 as [vc' [-> Hc]]. apply osim_AV in Ho2 as [vm' [-> Hmm]].
    cbn [exec]. rewrite (rdv_sim _ _ _ _ Ha), (rdv_sim _ _ _ _ Hc), (rdv_sim _ _ _ _ Hmm).
    destruct (rdv st va'); [|exact I]. destruct (rdv st vc'); [|exact I]. destruct (rdv st vm') as [n|]; [|exact I].
    destruct (n <? 1); [exact I|].
    apply wr_sim; [exact He|]. apply Hdst. left. reflexivity.
  - (* load *)
    destruct ops as [|d [|e [|? ?]]]; try discriminate Hshape.
    cbn [shape_ok] in Hshape. apply andb_true_iff in Hshape as [H1 H2].
    apply is_regop_inv in H1 as [b [i ->]]. apply is_entry_inv in H2 as [a [v ->]].
    inv_f2 HF. apply osim_reg in Ho. subst. apply osim_entry in Ho0 as [v' [-> Hv]].
    cbn [exec]. rewrite (rdv_sim _ _ _ _ Hv), Hm.
    destruct (rdv st v') as [idx|]; [|exact I].
    destruct (arr_get (s_mem st) a idx) as [[z|]|]; try exact I.
    apply wr_sim; [exact He|]. apply Hdst. left. reflexivity.
  - (* store *)
    destruct ops as [|s [|e [|? ?]]]; try discriminate Hshape.
    cbn [shape_ok] in Hshape. apply andb_true_iff in Hshape as [H1 H2].
    apply is_val_inv in H1 as [vs ->]. apply is_entry_inv in H2 as [a [v ->]].
    inv_f2 HF. apply osim_AV in Ho as [vs' [-> Hs]]. apply osim_entry in Ho0 as [v' [-> Hv]].
    cbn [exec]. rewrite (rdv_sim _ _ _ _ Hs), (rdv_sim _ _ _ _ Hv), Hm.
    destruct (rdv st vs'); [|exact I]. destruct (rdv st v'); [|exact I].
    apply with_mem_sim. exact He.
  - (* lea *)
    destruct ops as [|d [|a [|? ?]]]; try discriminate Hshape.
    cbn [shape_ok] in Hshape. apply andb_true_iff in Hshape as [H1 H2].
    apply is_regop_inv in H1 as [b [i ->]]. apply is_addr_inv in H2 as [a0 ->].
    inv_f2 HF. apply osim_reg in Ho. apply osim_addr in Ho0. subst.
    cbn [exec]. apply wr_sim; [exact He|]. apply Hdst. left. reflexivity.
  - (* undef *)
    destruct ops as [|e [|? ?]]; try discriminate Hshape.
    cbn [shape_ok] in Hshape. apply is_entry_inv in Hshape as [a [v ->]].
    inv_f2 HF. apply osim_entry in Ho as [v' [-> Hv]].
    cbn [exec]. rewrite (rdv_sim _ _ _ _ Hv), Hm.
    destruct (rdv st v'); [|exact I]. apply with_mem_sim. exact He.
  - (* array *)
    destruct ops as [|n [|a [|? ?]]]; try discriminate Hshape.
    cbn [shape_ok] in Hshape. apply andb_true_iff in Hshape as [H1 H2].
    apply is_val_inv in H1 as [vn ->]. apply is_addr_inv in H2 as [a0 ->].
    inv_f2 HF. apply osim_AV in Ho as [vn' [-> Hn]]. apply osim_addr in Ho0. subst.
    cbn [exec]. rewrite (rdv_sim _ _ _ _ Hn), Hm.
    destruct (rdv st vn'); [|exact I]. cbn [eres_rel]. split; cbn [s_mem s_regs]; auto.
  - (* jmp *)
    destruct ops as [|t [|? ?]]; try discriminate Hshape.
    cbn [shape_ok] in Hshape. apply is_label_inv in Hshape as [l ->].
    inv_f2 HF. apply osim_label in Ho. subst.
    cbn [exec eres_rel]. auto.
  - (* bez *)
    destruct ops as [|r [|t [|? ?]]]; try discriminate Hshape.
    cbn [shape_ok] in Hshape. apply andb_true_iff in Hshape as [H1 H2].
    apply is_val_inv in H1 as [vr ->]. apply is_label_inv in H2 as [l ->].
    inv_f2 HF. apply osim_AV in Ho as [vr' [-> [Hr _]]]. apply osim_label in Ho0. subst.
    cbn [exec]. rewrite Hr. destruct (rd st vr'); [|exact I]. apply branch_sim; [exact He|reflexivity].
  - (* bnz *)
    destruct ops as [|r [|t [|? ?]]]; try discriminate Hshape.
    cbn [shape_ok] in Hshape. apply andb_true_iff in Hshape as [H1 H2].
    apply is_val_inv in H1 as [vr ->]. apply is_label_inv in H2 as [l ->].
    inv_f2 HF. apply osim_AV in Ho as [vr' [-> [Hr _]]]. apply osim_label in Ho0. subst.
    cbn [exec]. rewrite Hr. destruct (rd st vr'); [|exact I]. apply branch_sim; [exact He|reflexivity].
  - (* beq *)
    destruct ops as [|a [|c [|t [|? ?]]]]; try discriminate Hshape.
    cbn [shape_ok] in Hshape. apply andb_true_iff in Hshape as [H12 H3]. apply andb_true_iff in H12 as [H1 H2].
    apply is_val_inv in H1 as [va ->]. apply is_val_inv in H2 as [vc ->]. apply is_label_inv in H3 as [l ->].
    inv_f2 HF. apply osim_AV in Ho as [va' [-> [Ha _]]]. apply osim_AV in Ho0 as [vc' [-> [Hc _]]].
    apply osim_label in Ho1. subst.
    cbn [exec]. rewrite Ha, Hc. destruct (rd st va'); [|exact I]. destruct (rd st vc'); [|exact I].
    apply branch_sim; [exact He|reflexivity].
  - (* bne *)
    destruct ops as [|a [|c [|t [|? ?]]]]; try discriminate Hshape.
    cbn [shape_ok] in Hshape. apply andb_true_iff in Hshape as [H12 H3]. apply andb_true_iff in H12 as [H1 H2].
    apply is_val_inv in H1 as [va ->]. apply is_val_inv in H2 as [vc ->]. apply is_label_inv in H3 as [l ->].
    inv_f2 HF. apply osim_AV in Ho as [va' [-> [Ha _]]]. apply osim_AV in Ho0 as [vc' [-> [Hc _]]].
    apply osim_label in Ho1. subst.
    cbn [exec]. rewrite Ha, Hc. destruct (rd st va'); [|exact I]. destruct (rd st vc'); [|exact I].
    apply branch_sim; [exact He|reflexivity].
  - (* blt *)
    destruct ops as [|a [|c [|t [|? ?]]]]; try discriminate Hshape.
    cbn [shape_ok] in Hshape. apply andb_true_iff in Hshape as [H12 H3]. apply andb_true_iff in H12 as [H1 H2].
    apply is_val_inv in H1 as [va ->]. apply is_val_inv in H2 as [vc ->]. apply is_label_inv in H3 as [l ->].
    inv_f2 HF. apply osim_AV in Ho as [va' [-> Ha]]. apply osim_AV in Ho0 as [vc' [-> Hc]].
    apply osim_label in Ho1. subst.
    cbn [exec]. rewrite (rdv_sim _ _ _ _ Ha), (rdv_sim _ _ _ _ Hc).
    destruct (rdv st va'); [|exact I]. destruct (rdv st vc'); [|exact I].
    apply branch_sim; [exact He|reflexivity].
  - (* bge *)
    destruct ops as [|a [|c [|t [|? ?]]]]; try discriminate Hshape.
    cbn [shape_ok] in Hshape. apply andb_true_iff in Hshape as [H12 H3]. apply andb_true_iff in H12 as [H1 H2].
    apply is_val_inv in H1 as [va ->]. apply is_val_inv in H2 as [vc ->]. apply is_label_inv in H3 as [l ->].
    inv_f2 HF. apply osim_AV in Ho as [va' [-> Ha]]. apply osim_AV in Ho0 as [vc' [-> Hc]].
    apply osim_label in Ho1. subst.
    cbn [exec]. rewrite (rdv_sim _ _ _ _ Ha), (rdv_sim _ _ _ _ Hc).
    destruct (rdv st va'); [|exact I]. destruct (rdv st vc'); [|exact I].
    apply branch_sim; [exact He|reflexivity].
  - (* ret_reg *)
    destruct ops as [|r [|? ?]]; try discriminate Hshape.
    cbn [shape_ok] in Hshape. apply is_regop_inv in Hshape as [b [i ->]].
    inv_f2 HF. pose proof Ho as Ho'. apply osim_reg in Ho. subst.
    apply osim_AV in Ho' as [v' [Hv' Hv]]. injection Hv' as <-.
    cbn [exec]. rewrite (rdv_sim _ _ _ _ Hv), Hm.
    destruct (rdv st (VReg b i)); [|exact I]. cbn [eres_rel]. split; cbn [s_mem s_regs]; auto.
  - (* ret_arr *)
    destruct ops as [|a [|? ?]]; try discriminate Hshape.
    cbn [shape_ok] in Hshape. apply is_addr_inv in Hshape as [a0 ->].
    inv_f2 HF. apply osim_addr in Ho. subst.
    cbn [exec]. rewrite Hm. destruct (zlookup (m_arr (s_mem st)) a0); [|exact I].
    cbn [eres_rel]. split; cbn [s_mem s_regs]; auto.
  - (* wait_all *)
    destruct ops as [|e [|? ?]]; try discriminate Hshape.
    cbn [shape_ok] in Hshape. apply is_slice_inv in Hshape as [a [v [w ->]]].
    inv_f2 HF. apply osim_slice in Ho as [v' [w' [-> [Hv Hw]]]].
    cbn [exec]. rewrite (rdv_sim _ _ _ _ Hv), (rdv_sim _ _ _ _ Hw), Hm.
    destruct (rdv st v'); [|exact I]. destruct (rdv st w'); [|exact I].
    destruct (zlookup (m_arr (s_mem st)) a) as [l|]; [|exact I].
    destruct (forallb is_some (py_slice l z z0)); cbn [eres_rel]; [exact He|exact I].
  - (* other *)
    assert (H1 : forall l s, exec Xother l s = EStuck) by (intros [|? ?] ?; reflexivity).
    rewrite !H1. exact I.
Qed.

(* ====================================================================== *)
(* 8. from the syntactic relation to the semantic one                     *)
(* ====================================================================== *)

Section OpsSim.
  Variables (pr : aparams) (nm : list reg) (tbl : list (string * nat)).
  Variables (ps : list (reg * Z)) (ss st : astate).
  Hypothesis He : eqv pr nm ss st.
  Hypothesis Hps : forall r z, In (r, z) ps -> reg_ok (fst r) (snd r) = true /\ s_regs st r = Some z.

  Lemma val_rel_vsim v v' :
    val_rel ps v v' -> (forall r, In r (regs_of_val v) -> ~ scratch pr nm r) -> vsim ss st v v'.
  Proof.
    intros [->|[z [r [-> [-> Hin]]]]] Hns.
    - split; [|auto]. destruct v as [z|b i]; [reflexivity|]. cbn [rd].
      destruct He as [_ Hr]. rewrite (Hr (b, i)); [reflexivity|]. apply Hns. left. reflexivity.
    - split; [|intros b i [=]]. destruct (Hps _ _ Hin) as [Hok Hv]. cbn [rd]. rewrite Hok.
      destruct r as [rb ri]. cbn [fst snd] in *. rewrite Hv. reflexivity.
  Qed.

  Lemma op_rel_osim ex mn j o o' :
    op_rel ex mn ps j o o' -> (forall r, In r (regs_of_opnd o) -> ~ scratch pr nm r) ->
    osim tbl ss st o (resolve_opnd tbl o').
  Proof.
    intros Hrel Hns. destruct o as [[z|b i]|l|a|a v|a v1 v2]; cbn [op_rel] in Hrel.
    - destruct (is_exempt ex mn j).
      + subst o'. cbn [resolve_opnd]. constructor. split; [reflexivity|intros b i [=]].
      + destruct Hrel as [r [-> Hin]]. cbn [resolve_opnd]. constructor.
        apply val_rel_vsim; [|intros r' []]. right. exists z, r. auto.
    - subst o'. cbn [resolve_opnd]. constructor. apply val_rel_vsim; [left; reflexivity|exact Hns].
    - subst o'. constructor.
    - subst o'. cbn [resolve_opnd]. constructor.
    - destruct Hrel as [v' [-> Hv]]. cbn [resolve_opnd]. constructor. apply val_rel_vsim; [exact Hv|exact Hns].
    - destruct Hrel as [v1' [v2' [-> [Hv1 Hv2]]]]. cbn [resolve_opnd]. constructor.
      + apply val_rel_vsim; [exact Hv1|]. intros r Hr. apply Hns. cbn [regs_of_opnd]. apply in_or_app. left. exact Hr.
      + apply val_rel_vsim; [exact Hv2|]. intros r Hr. apply Hns. cbn [regs_of_opnd]. apply in_or_app. right. exact Hr.
  Qed.

  Lemma ops_rel_osim ex mn ops : forall j ops',
    ops_rel ex mn ps j ops ops' -> (forall r, In r (flat_map regs_of_opnd ops) -> ~ scratch pr nm r) ->
    Forall2 (osim tbl ss st) ops (map (resolve_opnd tbl) ops').
  Proof.
    induction ops as [|o ops IH]; intros j [|o' ops'] Hrel Hns; cbn [ops_rel] in Hrel; try contradiction.
    - constructor.
    - destruct Hrel as [H1 H2]. cbn [map]. constructor.
      + eapply op_rel_osim; [exact H1|]. intros r Hr. apply Hns. cbn [flat_map]. apply in_or_app. left. exact Hr.
      + eapply IH; [exact H2|]. intros r Hr. apply Hns. cbn [flat_map]. apply in_or_app. right. exact Hr.
  Qed.
End OpsSim.

(* ====================================================================== *)
(* 9. the simulation                                                      *)
(* ====================================================================== *)

Definition cmd_shape (c : acmd) : bool :=
  match c with
  | ALab _ => true
  | AIns mn args ops => shape_ok (opc_of mn) (all_ops args ops)
  end.

(* well-formed source: every modelled instruction has operands of the shape the
   source semantics gives a meaning to (destinations are registers, branch targets labels) *)
Definition wf_src (P : list acmd) : bool := forallb cmd_shape P.

(* the last line of the block of source position k (where the instruction itself sits) *)
Definition last_line (pr : aparams) (P : list acmd) (k : nat) : nat :=
  (pcmap pr P k + match nth_error P k with Some c => nsets pr (named P) c | None => O end)%nat.

Definition cfg_rel (pr : aparams) (P : list acmd) (a b : acfg) : Prop :=
  match a, b with
  | Run pc s, Run pc' t => pc' = pcmap pr P pc /\ eqv pr (named P) s t
  | Halted s, Halted t => eqv pr (named P) s t
  | Fault k s, Fault k' t => k' = last_line pr P k /\ eqv pr (named P) s t
  | Stuck k s, Stuck k' t => k' = last_line pr P k /\ eqv pr (named P) s t
  | _, _ => False
  end.

Lemma pcmap_from_S pr nm P : forall k c,
  nth_error P k = Some c -> pcmap_from pr nm P (S k) = (pcmap_from pr nm P k + bsize pr nm c)%nat.
Proof.
  induction P as [|c0 P IH]; intros k c Hk; [destruct k; discriminate|].
  destruct k as [|k]; cbn [nth_error] in Hk.
  - injection Hk as ->. cbn [pcmap_from]. destruct P; cbn [pcmap_from]; lia.
  - change (pcmap_from pr nm (c0 :: P) (S (S k))) with (bsize pr nm c0 + pcmap_from pr nm P (S k))%nat.
    rewrite (IH _ _ Hk). cbn [pcmap_from]. lia.
Qed.

Lemma opc_of_set_inv mn : opc_of mn = Xset -> mn = SET.
Proof.
  unfold opc_of, opc_table. cbn [opc_find].
  destruct (String.eqb_spec "set" mn) as [<-|_]; [reflexivity|].
  repeat match goal with
         | |- context [String.eqb ?a mn] => destruct (String.eqb a mn); [discriminate|]
         end.
  discriminate.
Qed.

Lemma regs_in_named P k mn args ops :
  nth_error P k = Some (AIns mn args ops) ->
  forall r, In r (flat_map regs_of_opnd (all_ops args ops)) -> In r (named P).
Proof.
  intros Hk r Hr. unfold named. apply in_flat_map. exists (AIns mn args ops). split.
  - eapply nth_error_In. exact Hk.
  - cbn [regs_of_cmd]. unfold all_ops in Hr. rewrite flat_map_app, flat_map_lit_regs in Hr. exact Hr.
Qed.

Lemma arun_terminal P n c : (forall pc s, c <> Run pc s) -> arun P n c = c.
Proof. intros H. destruct n; [reflexivity|]. destruct c; try reflexivity. exfalso. eapply H. reflexivity. Qed.

Section Sim.
  Variables (pr : aparams) (P T : list acmd).
  Hypothesis Hpar : params_ok pr = true.
  Hypothesis Hex : is_exempt (ap_exempt pr) SET 1 = true.
  Hypothesis Hwf : wf_src P = true.
  Hypothesis Hasm : assemble_ir pr P = AOk T.

  Lemma step_sim pc ss st :
    eqv pr (named P) ss st ->
    exists m, (1 <= m)%nat /\ cfg_rel pr P (astep P pc ss) (arun T m (Run (pcmap pr P pc) st)).
  Proof.
    intros He.
    destruct (assemble_struct _ _ _ Hasm) as [tbl [Htbl [HT HF]]].
    pose proof (table_is_pcmap _ _ _ Htbl HF) as Hfind.
    set (nm := named P) in *.
    assert (HTnl : forallb is_ins T = true) by (rewrite HT; apply blocks_nolab).
    assert (HTlen : List.length T = pcmap_from pr nm P (List.length P))
      by (rewrite HT; apply length_blocks; exact HF).
    unfold astep at 1. pose proof (fetch_pcmap pr nm P pc) as Hf.
    destruct (fetch P pc) as [[[k mn] ops]|].
    2:{ (* no instruction left: both halt *)
      exists 1%nat. split; [lia|]. cbn [arun]. unfold astep. rewrite (fetch_nolab T HTnl).
      unfold pcmap. fold nm. rewrite Hf, <- HTlen.
      assert (Hn : nth_error T (List.length T) = None) by (apply nth_error_None; lia).
      rewrite Hn. cbn [cfg_rel]. exact He. }
    destruct Hf as [[args [ops0 [Hk ->]]] Hpc].
    assert (Hok : cmd_ok pr nm (AIns mn args ops0)).
    { rewrite Forall_forall in HF. apply HF. eapply nth_error_In. exact Hk. }
    cbn [cmd_ok] in Hok.
    destruct (repl_ops pr nm mn 0 (all_ops args ops0) []) as [[[s ops'] tmp]|] eqn:Hr; [|congruence].
    destruct (repl_ops_spec _ _ _ _ _ _ _ _ _ Hr (good_tmp_nil pr nm)) as [ps [-> [Htmp [[Hnd Hsc] Hrel]]]].
    cbn [app] in Htmp. subst tmp.
    assert (Hblk : blk pr nm tbl (AIns mn args ops0) = map setc ps ++ [AIns mn [] (map (resolve_opnd tbl) ops')])
      by (cbn [blk]; rewrite Hr; reflexivity).
    assert (Hns : nsets pr nm (AIns mn args ops0) = List.length ps)
      by (cbn [nsets]; rewrite Hr, map_length; reflexivity).
    set (base := pcmap_from pr nm P k) in *.
    assert (Hnth : forall i, (i <= List.length ps)%nat ->
              nth_error T (base + i) = nth_error (map setc ps ++ [AIns mn [] (map (resolve_opnd tbl) ops')]) i).
    { intros i Hi. rewrite HT, <- Hblk. apply nth_block; [exact HF|exact Hk|].
      rewrite Hblk, app_length, map_length. cbn [List.length]. lia. }
    (* the sets *)
    set (st' := apply_sets ps st).
    assert (Hrun : arun T (List.length ps) (Run base st) = Run (base + List.length ps) st').
    { apply run_sets; [exact HTnl| |].
      - intros i Hi. rewrite (Hnth i ltac:(lia)). apply nth_error_app1. rewrite map_length. exact Hi.
      - rewrite Forall_forall. intros [r z] Hin. cbn [fst].
        apply (scratch_reg_ok pr nm r Hpar). rewrite Forall_forall in Hsc. apply Hsc.
        apply in_map_iff. exists (r, z). auto. }
    assert (He' : eqv pr nm ss st').
    { destruct He as [Hm Hregs]. split.
      - unfold st'. rewrite apply_sets_mem. exact Hm.
      - intros r Hr'. unfold st'. rewrite apply_sets_other; [apply Hregs; exact Hr'|].
        intros Hin. apply Hr'. rewrite Forall_forall in Hsc. apply Hsc. exact Hin. }
    assert (Hps : forall r z, In (r, z) ps -> reg_ok (fst r) (snd r) = true /\ s_regs st' r = Some z).
    { intros r z Hin. split.
      - apply (scratch_reg_ok pr nm r Hpar). rewrite Forall_forall in Hsc. apply Hsc.
        apply in_map_iff. exists (r, z). auto.
      - unfold st'. apply apply_sets_in; assumption. }
    (* the instruction itself *)
    exists (List.length ps + 1)%nat. split; [lia|].
    unfold pcmap. fold nm. rewrite <- Hpc. fold base.
    rewrite arun_add, Hrun. cbn [arun]. unfold astep at 1. rewrite (fetch_nolab T HTnl).
    rewrite (Hnth (List.length ps) (le_n _)).
    rewrite nth_error_app2 by (rewrite map_length; lia).
    rewrite map_length, Nat.sub_diag. cbn [nth_error all_ops map app].
    assert (Hnamed : forall r, In r (flat_map regs_of_opnd (all_ops args ops0)) -> ~ scratch pr nm r).
    { intros r Hin [_ [_ Hni]]. apply Hni. eapply regs_in_named; eassumption. }
    assert (Hshape : shape_ok (opc_of mn) (all_ops args ops0) = true).
    { unfold wf_src in Hwf. rewrite forallb_forall in Hwf.
      apply (Hwf (AIns mn args ops0)). eapply nth_error_In. exact Hk. }
    pose proof (exec_rel pr nm tbl (opc_of mn) (all_ops args ops0) (map (resolve_opnd tbl) ops') ss st'
                  Hshape (ops_rel_osim pr nm tbl ps ss st' He' Hps _ _ _ _ _ Hrel Hnamed) He') as Hexec.
    assert (Hlast : last_line pr P k = (base + List.length ps)%nat).
    { unfold last_line, pcmap. fold nm. fold base. rewrite Hk, Hns. reflexivity. }
    assert (HS : pcmap pr P (S k) = S (base + List.length ps)).
    { unfold pcmap. fold nm. rewrite (pcmap_from_S _ _ _ _ _ Hk). fold base. cbn [bsize]. rewrite Hns. lia. }
    specialize (Hexec ltac:(intros b i Hin; apply Hnamed; apply in_flat_map; exists (AV (VReg b i));
                               split; [exact Hin|left; reflexivity])).
    assert (Hset : opc_of mn = Xset -> forall d z, all_ops args ops0 = [d; AV (VLit z)] ->
                   exists d', map (resolve_opnd tbl) ops' = [d'; AV (VLit z)]).
    { intros Ho d z Hops. apply opc_of_set_inv in Ho. subst mn. rewrite Hops in Hrel.
      destruct ops' as [|d1 [|z1 [|? ?]]]; cbn [ops_rel] in Hrel; try tauto.
      destruct Hrel as [_ [Hz _]]. cbn [op_rel] in Hz. rewrite Hex in Hz. subst z1.
      exists (resolve_opnd tbl d1). reflexivity. }
    specialize (Hexec Hset).
    destruct (exec (opc_of mn) (all_ops args ops0) ss) as [x|t x| |];
      destruct (exec (opc_of mn) (map (resolve_opnd tbl) ops') st') as [y|t' y| |];
      cbn [eres_rel] in Hexec; try contradiction.
    - cbn [cfg_rel]. split; [symmetry; exact HS|exact Hexec].
    - destruct Hexec as [Hxy [-> Hlab]]. apply is_label_inv in Hlab as [l ->].
      cbn [target resolve_opnd]. rewrite Hfind.
      destruct (label_pos P l) as [j|]; cbn [option_map target].
      + assert (H0 : (0 <=? Z.of_nat (pcmap pr P j)) = true) by (apply Z.leb_le; lia).
        rewrite H0, Nat2Z.id. cbn [cfg_rel]. split; [reflexivity|exact Hxy].
      + rewrite (label_pos_nolab T l HTnl). cbn [cfg_rel]. split; [symmetry; exact Hlast|exact He'].
    - cbn [cfg_rel]. split; [symmetry; exact Hlast|exact He'].
    - cbn [cfg_rel]. split; [symmetry; exact Hlast|exact He'].
  Qed.

  Lemma sim_steps : forall n a b,
    cfg_rel pr P a b ->
    exists m, (n <= m)%nat /\ cfg_rel pr P (arun P n a) (arun T m b).
  Proof.
    induction n as [|n IH]; intros a b Hab.
    - exists O. split; [lia|exact Hab].
    - destruct a as [pc ss|ss|k ss|k ss]; destruct b as [pc' st|st|k' st|k' st]; cbn [cfg_rel] in Hab; try contradiction.
      + destruct Hab as [-> He]. destruct (step_sim pc ss st He) as [m1 [Hm1 Hrel]].
        destruct (IH _ _ Hrel) as [m2 [Hm2 Hrel2]].
        exists (m1 + m2)%nat. split; [lia|]. cbn [arun]. rewrite arun_add. exact Hrel2.
      + exists (S n). split; [lia|]. cbn [arun cfg_rel]. exact Hab.
      + exists (S n). split; [lia|]. cbn [arun cfg_rel]. exact Hab.
      + exists (S n). split; [lia|]. cbn [arun cfg_rel]. exact Hab.
  Qed.
End Sim.

(* C03 main theorem: for every well-formed source program of any length that the
   assembler accepts, every start state and every number n of source steps, the
   assembled program reaches after some m >= n steps the corresponding
   configuration: same position (through the line map), equal memory (arrays,
   shared memory), equal registers except unnamed R registers, the same kind of
   outcome (halted / fault / outside the model) at the mapped line.  "Still
   running" is related to "still running", so a diverging source is matched by
   a diverging target and vice versa (both are deterministic). *)
Theorem assemble_simulates pr P T :
  params_ok pr = true -> is_exempt (ap_exempt pr) SET 1 = true ->
  wf_src P = true -> assemble_ir pr P = AOk T ->
  forall n ss st, eqv pr (named P) ss st ->
  exists m, (n <= m)%nat /\ cfg_rel pr P (arun P n (Run 0 ss)) (arun T m (Run 0 st)).
Proof.
  intros Hpar Hex Hwf Hasm n ss st He.
  apply (sim_steps pr P T Hpar Hex Hwf Hasm n (Run 0 ss) (Run 0 st)).
  cbn [cfg_rel]. split; [unfold pcmap; destruct P; reflexivity|exact He].
Qed.

(* ====================================================================== *)
(* 10. the structural theorems                                            *)
(* ====================================================================== *)

(* registers inside array entries and slices are named registers *)
Lemma named_deep P k mn args ops :
  nth_error P k = Some (AIns mn args ops) ->
  (forall a b i, In (AEntry a (VReg b i)) ops -> In (b, i) (named P)) /\
  (forall a b i v, In (ASlice a (VReg b i) v) ops \/ In (ASlice a v (VReg b i)) ops -> In (b, i) (named P)) /\
  (forall b i, In (AV (VReg b i)) ops -> In (b, i) (named P)).
Proof.
  intros Hk.
  assert (H : forall o r, In o ops -> In r (regs_of_opnd o) -> In r (named P)).
  { intros o r Ho Hr. eapply regs_in_named; [exact Hk|]. unfold all_ops. rewrite flat_map_app.
    apply in_or_app. right. apply in_flat_map. exists o. auto. }
  split; [|split].
  - intros a b i Hin. eapply H; [exact Hin|]. left. reflexivity.
  - intros a b i v [Hin|Hin]; (eapply H; [exact Hin|]); cbn [regs_of_opnd regs_of_val].
    + left. reflexivity.
    + apply in_or_app. right. left. reflexivity.
  - intros b i Hin. eapply H; [exact Hin|]. left. reflexivity.
Qed.

(* every inserted instruction is a `set` of an R register that the source
   program names nowhere (top level, array index, slice bound), and the scratch
   registers of one command are pairwise distinct *)
Theorem scratch_fresh pr P T :
  assemble_ir pr P = AOk T ->
  forall k c, nth_error P k = Some c -> is_ins c = true ->
  exists ps : list (reg * Z),
    List.length ps = nsets pr (named P) c /\
    NoDup (map fst ps) /\
    (forall i p, nth_error ps i = Some p ->
       nth_error T (pcmap pr P k + i) = Some (set_cmd (fst p) (snd p)) /\
       fst (fst p) = ap_bankR pr /\ ~ In (fst p) (named P)).
Proof.
  intros Hasm k c Hk Hc.
  destruct (assemble_struct _ _ _ Hasm) as [tbl [Htbl [HT HF]]].
  destruct c as [l|mn args ops]; [discriminate|].
  assert (Hok : cmd_ok pr (named P) (AIns mn args ops)).
  { rewrite Forall_forall in HF. apply HF. eapply nth_error_In. exact Hk. }
  cbn [cmd_ok] in Hok.
  destruct (repl_ops pr (named P) mn 0 (all_ops args ops) []) as [[[s ops'] tmp]|] eqn:Hr; [|congruence].
  destruct (repl_ops_spec _ _ _ _ _ _ _ _ _ Hr (good_tmp_nil pr (named P))) as [ps [-> [Htmp [[Hnd Hsc] Hrel]]]].
  cbn [app] in Htmp. subst tmp. exists ps. split; [|split].
  - cbn [nsets]. rewrite Hr, map_length. reflexivity.
  - exact Hnd.
  - intros i p Hi.
    assert (Hlt : (i < List.length ps)%nat) by (apply nth_error_Some; congruence).
    split.
    + unfold pcmap. rewrite HT, (nth_block _ _ _ _ HF _ _ _ Hk).
      * cbn [blk]. rewrite Hr, nth_error_app1 by (rewrite map_length; exact Hlt).
        rewrite nth_error_map, Hi. reflexivity.
      * cbn [blk]. rewrite Hr, app_length, map_length. lia.
    + rewrite Forall_forall in Hsc.
      assert (Hs : scratch pr (named P) (fst p)).
      { apply Hsc. apply in_map. eapply nth_error_In. exact Hi. }
      destruct Hs as [H1 [_ H3]]. auto.
Qed.

Lemma ops_rel_nth ex mn ps ops : forall j0 ops' j o,
  ops_rel ex mn ps j0 ops ops' -> nth_error ops j = Some o ->
  exists o', nth_error ops' j = Some o' /\ op_rel ex mn ps (j0 + j) o o'.
Proof.
  induction ops as [|o0 ops IH]; intros j0 [|o0' ops'] j o Hrel Hj; cbn [ops_rel] in Hrel; try contradiction.
  - destruct j; discriminate.
  - destruct Hrel as [H1 H2]. destruct j as [|j]; cbn [nth_error] in *.
    + injection Hj as <-. exists o0'. rewrite Nat.add_0_r. auto.
    + destruct (IH _ _ _ _ H2 Hj) as [o' [E1 E2]]. exists o'. split; [exact E1|].
      replace (j0 + S j)%nat with (S j0 + j)%nat by lia. exact E2.
Qed.

(* every label operand becomes the index, in the assembled program, of the
   position of its label; that index is the first line of the block of the
   first instruction after the label, or the length of the program when no
   instruction follows (consecutive labels share it) *)
Theorem labels_resolve pr P T :
  assemble_ir pr P = AOk T ->
  forall k mn args ops j l p,
  nth_error P k = Some (AIns mn args ops) ->
  nth_error (all_ops args ops) j = Some (ALabel l) ->
  label_pos P l = Some p ->
  (exists ops'', nth_error T (last_line pr P k) = Some (AIns mn [] ops'')
                 /\ nth_error ops'' j = Some (AV (VLit (Z.of_nat (pcmap pr P p)))))
  /\ match fetch P p with
     | Some (k', _, _) => (p <= k')%nat /\ pcmap pr P p = pcmap pr P k' /\ (pcmap pr P p < List.length T)%nat
     | None => pcmap pr P p = List.length T
     end.
Proof.
  intros Hasm k mn args ops j l p Hk Hj Hp.
  destruct (assemble_struct _ _ _ Hasm) as [tbl [Htbl [HT HF]]].
  pose proof (table_is_pcmap _ _ _ Htbl HF) as Hfind.
  assert (HTlen : List.length T = pcmap_from pr (named P) P (List.length P))
    by (rewrite HT; apply length_blocks; exact HF).
  split.
  - assert (Hok : cmd_ok pr (named P) (AIns mn args ops)).
    { rewrite Forall_forall in HF. apply HF. eapply nth_error_In. exact Hk. }
    cbn [cmd_ok] in Hok.
    destruct (repl_ops pr (named P) mn 0 (all_ops args ops) []) as [[[s ops'] tmp]|] eqn:Hr; [|congruence].
    destruct (repl_ops_spec _ _ _ _ _ _ _ _ _ Hr (good_tmp_nil pr (named P))) as [ps [-> [_ [_ Hrel]]]].
    exists (map (resolve_opnd tbl) ops'). split.
    + unfold last_line, pcmap. rewrite Hk. cbn [nsets]. rewrite Hr, HT, (nth_block _ _ _ _ HF _ _ _ Hk).
      * cbn [blk]. rewrite Hr, nth_error_app2 by lia. rewrite Nat.sub_diag. reflexivity.
      * cbn [blk]. rewrite Hr, app_length. cbn [List.length]. lia.
    + destruct (ops_rel_nth _ _ _ _ _ _ _ _ Hrel Hj) as [o' [E1 E2]]. cbn [op_rel] in E2. subst o'.
      rewrite nth_error_map, E1. cbn [option_map resolve_opnd]. rewrite Hfind, Hp. reflexivity.
  - pose proof (fetch_pcmap pr (named P) P p) as Hf. unfold pcmap.
    destruct (fetch P p) as [[[k' mn'] ops0]|].
    + destruct Hf as [[args' [ops1 [Hk' _]]] Hpc]. split; [|split].
      * (* k' >= p: the map is monotone and the block of k' is not empty *)
        destruct (Nat.le_gt_cases p k') as [Hle|Hgt]; [exact Hle|exfalso].
        assert (Hmono : forall P0 a b, (a <= b)%nat -> (pcmap_from pr (named P) P0 a <= pcmap_from pr (named P) P0 b)%nat).
        { induction P0 as [|c0 P0 IHP]; intros a b Hab; [destruct a, b; cbn [pcmap_from]; lia|].
          destruct a as [|a]; [cbn [pcmap_from]; lia|]. destruct b as [|b]; [lia|].
          cbn [pcmap_from]. specialize (IHP a b ltac:(lia)). lia. }
        pose proof (pcmap_from_S pr (named P) P _ _ Hk') as HS. cbn [bsize] in HS.
        pose proof (Hmono P (S k') p ltac:(lia)). lia.
      * symmetry. exact Hpc.
      * rewrite HTlen, <- Hpc.
        assert (Hmono : forall P0 a b, (a <= b)%nat -> (pcmap_from pr (named P) P0 a <= pcmap_from pr (named P) P0 b)%nat).
        { induction P0 as [|c0 P0 IHP]; intros a b Hab; [destruct a, b; cbn [pcmap_from]; lia|].
          destruct a as [|a]; [cbn [pcmap_from]; lia|]. destruct b as [|b]; [lia|].
          cbn [pcmap_from]. specialize (IHP a b ltac:(lia)). lia. }
        pose proof (pcmap_from_S pr (named P) P _ _ Hk') as HS. cbn [bsize] in HS.
        assert (Hlt : (k' < List.length P)%nat) by (apply nth_error_Some; congruence).
        pose proof (Hmono P (S k') (List.length P) ltac:(lia)). lia.
    + rewrite HTlen. exact Hf.
Qed.

(* one block per source instruction, in source order: nothing dropped, duplicated
   or reordered; the block ends with the source instruction under the same
   mnemonic, its operands being the source operands up to literal -> scratch
   register (held by one of the block's sets) and label -> line number *)
Definition block_of (pr : aparams) (nm : list reg) (tbl : list (string * nat)) (c : acmd)
           (b : list (reg * Z) * acmd) : Prop :=
  exists mn args ops ops',
    c = AIns mn args ops /\ snd b = AIns mn [] (map (resolve_opnd tbl) ops')
    /\ ops_rel (ap_exempt pr) mn (fst b) 0 (all_ops args ops) ops'
    /\ Forall (scratch pr nm) (map fst (fst b)).

Theorem no_drop_dup_reorder pr P T :
  assemble_ir pr P = AOk T ->
  exists tbl bs,
    (forall l, tbl_find tbl l = option_map (pcmap pr P) (label_pos P l)) /\
    T = flat_map (fun b => map setc (fst b) ++ [snd b]) bs /\
    Forall2 (block_of pr (named P) tbl) (filter is_ins P) bs.
Proof.
  intros Hasm.
  destruct (assemble_struct _ _ _ Hasm) as [tbl [Htbl [HT HF]]].
  exists tbl.
  assert (H : forall P0, Forall (cmd_ok pr (named P)) P0 ->
            exists bs, flat_map (blk pr (named P) tbl) P0 = flat_map (fun b => map setc (fst b) ++ [snd b]) bs
                       /\ Forall2 (block_of pr (named P) tbl) (filter is_ins P0) bs).
  { induction P0 as [|c P0 IH]; intros HF0.
    - exists []. split; [reflexivity|constructor].
    - inversion HF0 as [|? ? Hc HP0]; subst. destruct (IH HP0) as [bs [E1 E2]].
      destruct c as [l|mn args ops].
      + exists bs. split; [exact E1|exact E2].
      + cbn [cmd_ok] in Hc.
        destruct (repl_ops pr (named P) mn 0 (all_ops args ops) []) as [[[s ops'] tmp]|] eqn:Hr; [|congruence].
        destruct (repl_ops_spec _ _ _ _ _ _ _ _ _ Hr (good_tmp_nil pr (named P))) as [ps [-> [Htmp [[_ Hsc] Hrel]]]].
        cbn [app] in Htmp. subst tmp.
        exists ((ps, AIns mn [] (map (resolve_opnd tbl) ops')) :: bs). split.
        * cbn [flat_map blk fst snd]. rewrite Hr, E1. reflexivity.
        * cbn [filter is_ins]. constructor; [|exact E2].
          exists mn, args, ops, ops'. cbn [fst snd]. auto. }
  destruct (H P HF) as [bs [E1 E2]]. exists bs. split; [|split].
  - apply table_is_pcmap; assumption.
  - rewrite HT. exact E1.
  - exact E2.
Qed.

(* ====================================================================== *)
(* 11. when no scratch register exists the assembler refuses              *)
(* ====================================================================== *)

Lemma repl_val_count pr nm v tmp s v' tmp' :
  repl_val pr nm v tmp = Some (s, v', tmp') -> List.length tmp' = (List.length tmp + lits_of_val v)%nat.
Proof.
  destruct v as [z|b i]; cbn [repl_val lits_of_val].
  - destruct (pick pr nm tmp); [|discriminate]. intros [= <- <- <-]. rewrite app_length. reflexivity.
  - intros [= <- <- <-]. lia.
Qed.

Lemma repl_opnd_count pr nm mn j o tmp s o' tmp' :
  repl_opnd pr nm mn j o tmp = Some (s, o', tmp') ->
  List.length tmp' = (List.length tmp + need_opnd (ap_exempt pr) mn j o)%nat.
Proof.
  destruct o as [[z|b i]|l|a|a v|a v1 v2]; cbn [repl_opnd need_opnd].
  - destruct (is_exempt (ap_exempt pr) mn j).
    + intros [= <- <- <-]. lia.
    + destruct (repl_val pr nm (VLit z) tmp) as [[[s1 w] t1]|] eqn:Hr; [|discriminate].
      intros [= <- <- <-]. apply repl_val_count in Hr. exact Hr.
  - intros [= <- <- <-]. lia.
  - intros [= <- <- <-]. lia.
  - intros [= <- <- <-]. lia.
  - destruct (repl_val pr nm v tmp) as [[[s1 w] t1]|] eqn:Hr; [|discriminate].
    intros [= <- <- <-]. apply repl_val_count in Hr. exact Hr.
  - destruct (repl_val pr nm v1 tmp) as [[[s1 w1] t1]|] eqn:Hr1; [|discriminate].
    destruct (repl_val pr nm v2 t1) as [[[s2 w2] t2]|] eqn:Hr2; [|discriminate].
    intros [= <- <- <-]. apply repl_val_count in Hr1, Hr2. lia.
Qed.

Lemma repl_ops_count pr nm mn ops : forall j tmp s ops' tmp',
  repl_ops pr nm mn j ops tmp = Some (s, ops', tmp') ->
  List.length tmp' = (List.length tmp + need_ops (ap_exempt pr) mn j ops)%nat.
Proof.
  induction ops as [|o ops IH]; intros j tmp s ops' tmp'; cbn [repl_ops need_ops].
  - intros [= <- <- <-]. lia.
  - destruct (repl_opnd pr nm mn j o tmp) as [[[s1 o1] t1]|] eqn:Ho; [|discriminate].
    destruct (repl_ops pr nm mn (S j) ops t1) as [[[s2 r2] t2]|] eqn:Hr; [|discriminate].
    intros [= <- <- <-]. apply repl_opnd_count in Ho. apply IH in Hr. lia.
Qed.

(* distinct scratch registers are distinct free candidates *)
Lemma good_tmp_bound pr nm tmp : good_tmp pr nm tmp -> (List.length tmp <= List.length (free_regs pr nm))%nat.
Proof.
  intros [Hnd Hsc]. apply Nat.le_trans with (List.length (map snd tmp)); [rewrite map_length; apply le_n|].
  apply NoDup_incl_length.
  - (* all registers share the bank, so the indices are distinct *)
    clear - Hnd Hsc. induction tmp as [|r tmp IH]; [constructor|].
    inversion Hnd as [|? ? Hr Hnd']; subst. inversion Hsc as [|? ? Hs Hsc']; subst.
    cbn [map]. constructor; [|apply IH; assumption].
    intros Hin. apply in_map_iff in Hin as [r' [E Hin']]. apply Hr.
    rewrite Forall_forall in Hsc'. destruct (Hsc' _ Hin') as [F' _]. destruct Hs as [F _].
    destruct r as [a b], r' as [a' b']. cbn [fst snd] in *. subst. exact Hin'.
  - intros i Hin. apply in_map_iff in Hin as [r [<- Hin]].
    rewrite Forall_forall in Hsc. destruct (Hsc _ Hin) as [F [C N]].
    unfold free_regs. apply filter_In. split; [exact C|].
    apply negb_true_iff. apply mem_reg_notIn. rewrite <- F. destruct r; exact N.
Qed.

(* a command that needs more scratch registers than there are unnamed R registers
   makes the assembler fail with "no registers left" — it never reuses or
   clobbers a register instead *)
Theorem assemble_rejects pr P c :
  In c P -> (List.length (free_regs pr (named P)) < need_cmd (ap_exempt pr) c)%nat ->
  assemble_ir pr P = AErr ENoScratch.
Proof.
  intros Hin Hneed. unfold assemble_ir, replace_constants, abind. rewrite named_make_args.
  destruct (repl_all pr (named P) (map make_args P)) as [Q|] eqn:HQ; [exfalso|reflexivity].
  destruct (repl_all_struct _ _ _ _ HQ) as [_ HF]. rewrite Forall_forall in HF. specialize (HF c Hin).
  destruct c as [l|mn args ops]; [cbn [need_cmd] in Hneed; lia|]. cbn [cmd_ok need_cmd] in *.
  destruct (repl_ops pr (named P) mn 0 (all_ops args ops) []) as [[[s ops'] tmp]|] eqn:Hr; [|congruence].
  pose proof (repl_ops_count _ _ _ _ _ _ _ _ _ Hr) as Hc. cbn [List.length] in Hc.
  destruct (repl_ops_spec _ _ _ _ _ _ _ _ _ Hr (good_tmp_nil pr (named P))) as [ps [_ [_ [G _]]]].
  apply good_tmp_bound in G. lia.
Qed.

(* ====================================================================== *)
(* 12. the instruction objects (flavour lookup, from_operands)            *)
(* ====================================================================== *)

Lemma conv_embed k o x : conv k o = Some x -> embed_op x = o.
Proof.
  destruct k, o as [[z|b i]|l|a|a [z|b i]|a [z1|b1 i1] [z2|b2 i2]]; cbn [conv]; intros [= <-]; reflexivity.
Qed.

Lemma conv_all_embed ks : forall ops xs, conv_all ks ops = Some xs -> map embed_op xs = ops.
Proof.
  induction ks as [|k ks IH]; intros [|o ops] xs; cbn [conv_all]; try discriminate.
  - intros [= <-]. reflexivity.
  - destruct (conv k o) as [x|] eqn:Hx; [|discriminate].
    destruct (conv_all ks ops) as [r|] eqn:Hr; [|discriminate].
    intros [= <-]. cbn [map]. rewrite (conv_embed _ _ _ Hx), (IH _ _ Hr). reflexivity.
Qed.

Lemma lookup_mn_name t : forall mn r, lookup_mn t mn = Some r -> r_mn r = mn.
Proof.
  induction t as [|r0 t IH]; intros mn r; cbn [lookup_mn]; [discriminate|].
  destruct (lookup_mn t mn) as [r'|] eqn:Hl.
  - intros [= <-]. apply IH. exact Hl.
  - destruct (String.eqb_spec (r_mn r0) mn) as [E|_]; [intros [= <-]; exact E|discriminate].
Qed.

(* the instruction objects handed to the executor are exactly the commands the
   IR-level passes produced, provided those carry no bracket args any more *)
Lemma build_embed t : forall T B,
  build t T = Some B -> Forall (fun c => match c with AIns _ args _ => args = [] | ALab _ => True end) T ->
  map embed B = T.
Proof.
  induction T as [|c T IH]; intros B; cbn [build].
  - intros [= <-] _. reflexivity.
  - destruct (build_cmd t c) as [x|] eqn:Hx; [|discriminate].
    destruct (build t T) as [xs|] eqn:Hxs; [|discriminate].
    intros [= <-] HF. inversion HF as [|? ? Hc HT]; subst. cbn [map]. rewrite (IH _ eq_refl HT). f_equal.
    destruct c as [l|mn args ops]; cbn [build_cmd] in Hx; [discriminate|]. subst args.
    destruct (lookup_mn t mn) as [r|] eqn:Hl; [|discriminate].
    destruct (conv_all (r_kinds r) ops) as [ys|] eqn:Hy; [|discriminate].
    injection Hx as <-. unfold embed. cbn [fst snd].
    rewrite (lookup_mn_name _ _ _ Hl), (conv_all_embed _ _ _ Hy). reflexivity.
Qed.

Lemma blocks_noargs pr nm tbl P :
  Forall (fun c => match c with AIns _ args _ => args = [] | ALab _ => True end) (flat_map (blk pr nm tbl) P).
Proof.
  induction P as [|c P IH]; [constructor|]. cbn [flat_map]. apply Forall_app. split; [|exact IH].
  destruct c as [l|mn args ops]; [constructor|]. cbn [blk].
  destruct (repl_ops pr nm mn 0 (all_ops args ops) []) as [[[s ops'] t]|] eqn:Hr; [|constructor].
  destruct (repl_ops_spec _ _ _ _ _ _ _ _ _ Hr (good_tmp_nil pr nm)) as [ps [-> _]].
  apply Forall_app. split.
  - rewrite Forall_forall. intros x Hx. apply in_map_iff in Hx as [p [<- _]]. reflexivity.
  - constructor; [reflexivity|constructor].
Qed.

(* C03 for the instruction objects of a flavour: what the executor runs is the
   simulated program *)
Theorem assemble_simulates_flavour pr t P B :
  params_ok pr = true -> is_exempt (ap_exempt pr) SET 1 = true ->
  wf_src P = true -> assemble pr t P = AOk B ->
  forall n ss st, eqv pr (named P) ss st ->
  exists m, (n <= m)%nat /\ cfg_rel pr P (arun P n (Run 0 ss)) (arun (map embed B) m (Run 0 st)).
Proof.
  intros Hpar Hex Hwf Hasm. unfold assemble, abind in Hasm.
  destruct (assemble_ir pr P) as [T|e] eqn:HT; [|discriminate].
  destruct (build t T) as [B'|] eqn:HB; [|discriminate]. injection Hasm as ->.
  destruct (assemble_struct _ _ _ HT) as [tbl [_ [HT' _]]].
  rewrite (build_embed _ _ _ HB) by (rewrite HT'; apply blocks_noargs).
  exact (assemble_simulates pr P T Hpar Hex Hwf HT).
Qed.

(* consequence for terminating runs: a source run that halts / faults is matched
   for every sufficiently large fuel *)
Lemma arun_stable P n m c : (forall pc s, arun P n c <> Run pc s) -> (n <= m)%nat -> arun P m c = arun P n c.
Proof.
  intros H Hle. replace m with (n + (m - n))%nat by lia. rewrite arun_add. apply arun_terminal. exact H.
Qed.

Corollary assemble_preserves_result pr P T :
  params_ok pr = true -> is_exempt (ap_exempt pr) SET 1 = true ->
  wf_src P = true -> assemble_ir pr P = AOk T ->
  forall n ss st, eqv pr (named P) ss st ->
  (forall pc s, arun P n (Run 0 ss) <> Run pc s) ->
  exists m0, forall m, (m0 <= m)%nat -> cfg_rel pr P (arun P n (Run 0 ss)) (arun T m (Run 0 st)).
Proof.
  intros Hpar Hex Hwf Hasm n ss st He Hterm.
  destruct (assemble_simulates pr P T Hpar Hex Hwf Hasm n ss st He) as [m0 [_ Hrel]].
  exists m0. intros m Hm. rewrite (arun_stable T m0 m); [exact Hrel| |exact Hm].
  intros pc s E. rewrite E in Hrel.
  destruct (arun P n (Run 0 ss)) as [pc0 s0|s0|k s0|k s0]; cbn [cfg_rel] in Hrel; try contradiction.
  eapply Hterm. reflexivity.
Qed.
