(* TextFrontMacroProofs.v — C03: macro expansion at character level.
   (A) apply_macros_subst: the parser's macro pass (Text.apply_macros: one
       Python str.replace per key, longest key first) on a line whose macro
       uses are whole `$key` tokens equals the simultaneous substitution
       TextFront.subst.
   (B) with_defines_parse: Text.parse_text treats a text with `# DEFINE k v`
       lines like the text in which every use has been substituted. *)
From Coq Require Import ZArith List Bool String Ascii Lia.
From NQ Require Import Base.Bits Lang.Codec Lang.Asm Lang.Text Lang.TextFront.
From NQ Require Import Proofs.TextProofs.
Import ListNotations.
Open Scope Z_scope.

(* ================= characters ================= *)

Definition nodollar (c : ascii) : bool := negb (Ascii.eqb c DOLLAR).

Lemma name_char_facts c :
  is_name_char c = true ->
  nodollar c = true /\ is_space c = false /\ Ascii.eqb c SP = false /\
  Ascii.eqb c SLASH = false /\ Ascii.eqb c LCUR = false /\ Ascii.eqb c HASH = false.
Proof.
  destruct c as [[] [] [] [] [] [] [] []]; vm_compute; intros H;
    first [discriminate H | repeat split].
Qed.

Lemma value_char_facts c :
  value_char c = true ->
  nodollar c = true /\ is_space c = false /\ Ascii.eqb c SP = false /\
  Ascii.eqb c SLASH = false /\ Ascii.eqb c LCUR = false /\ Ascii.eqb c HASH = false /\
  is_one_of LCUR RCUR c = false.
Proof.
  destruct c as [[] [] [] [] [] [] [] []]; vm_compute; intros H;
    first [discriminate H | repeat split].
Qed.

Lemma lit_char_facts c :
  lit_char c = true -> nodollar c = true /\ Ascii.eqb c SLASH = false.
Proof.
  unfold lit_char, nodollar. rewrite andb_true_iff, !negb_true_iff. intros [H1 H2].
  now rewrite H1, H2.
Qed.

Lemma variable_name_chars k :
  is_variable_name k = true -> k <> EmptyString /\ sall is_name_char k = true.
Proof.
  destruct k as [|c k]; [discriminate|]. unfold is_variable_name.
  rewrite andb_true_iff. intros [_ H]. split; [discriminate|exact H].
Qed.

(* ================= str.replace with a `$key` pattern ================= *)

Lemma prefix_cons a p b s :
  String.prefix (String a p) (String b s) = if Ascii.eqb a b then String.prefix p s else false.
Proof.
  cbn [String.prefix]. destruct (ascii_dec a b) as [->|Hne].
  - now rewrite Ascii.eqb_refl.
  - destruct (Ascii.eqb_spec a b); [congruence|reflexivity].
Qed.

Lemma replace_go_cons old new c r :
  replace_go old new (String c r) O =
  if String.prefix old (String c r)
  then new +++ replace_go old new r (String.length old - 1)
  else String c (replace_go old new r O).
Proof. reflexivity. Qed.

(* text without '$' is copied *)
Lemma replace_go_lit k new s rest :
  sall nodollar s = true ->
  replace_go (String DOLLAR k) new (s +++ rest) O = s +++ replace_go (String DOLLAR k) new rest O.
Proof.
  intros H. induction s as [|c s IH]; [reflexivity|].
  cbn [sall] in H. apply andb_true_iff in H as [Hc Hs].
  change (String c s +++ rest) with (String c (s +++ rest)).
  rewrite replace_go_cons, prefix_cons.
  unfold nodollar in Hc. apply negb_true_iff in Hc. rewrite Ascii.eqb_sym, Hc.
  rewrite (IH Hs). reflexivity.
Qed.

(* the skip counter jumps over the rest of the matched pattern *)
Lemma replace_go_skip old new x rest :
  replace_go old new (x +++ rest) (String.length x) = replace_go old new rest O.
Proof. induction x as [|c x IH]; [reflexivity|exact IH]. Qed.

(* `k` (name characters) is a prefix of `id ++ rest`, where rest is empty or starts
   with a non-name character and id is not longer than k, only if id = k *)
Lemma prefix_key k : forall id rest,
  sall is_name_char k = true ->
  (String.length id <= String.length k)%nat ->
  (rest = EmptyString \/ exists c t, rest = String c t /\ is_name_char c = false) ->
  String.prefix k (id +++ rest) = String.eqb id k.
Proof.
  induction k as [|a k IH]; intros id rest Hk Hlen Hrest.
  - destruct id as [|b id]; [|cbn in Hlen; lia].
    cbn. now destruct rest.
  - cbn [sall] in Hk. apply andb_true_iff in Hk as [Ha Hk].
    destruct id as [|b id].
    + change (EmptyString +++ rest) with rest.
      destruct Hrest as [->|(c & t & -> & Hc)]; [reflexivity|].
      rewrite prefix_cons. destruct (Ascii.eqb_spec a c) as [->|_]; [congruence|reflexivity].
    + change (String b id +++ rest) with (String b (id +++ rest)).
      rewrite prefix_cons. cbn [String.eqb]. rewrite (Ascii.eqb_sym b a).
      destruct (Ascii.eqb a b); [|reflexivity].
      apply IH; [exact Hk|cbn in Hlen; lia|exact Hrest].
Qed.

(* ================= piece lists during the passes ================= *)

(* the text after a use: the end of the line or a character that cannot continue a name *)
Definition follow_ok (r : list piece) : Prop :=
  match r with
  | [] => True
  | PLit (String c _) :: _ => is_name_char c = false
  | _ => False
  end.

(* literals without '$'; every use satisfies P and is a whole token *)
Fixpoint inv (P : string -> Prop) (ps : list piece) : Prop :=
  match ps with
  | [] => True
  | PLit s :: r => sall nodollar s = true /\ inv P r
  | PUse id :: r => P id /\ follow_ok r /\ inv P r
  end.

(* one pass: the uses of k become the literal text v *)
Definition pass1 (k v : string) (p : piece) : piece :=
  match p with
  | PUse id => if String.eqb id k then PLit v else p
  | PLit _ => p
  end.

Lemma follow_render r :
  follow_ok r ->
  render r = EmptyString \/ exists c t, render r = String c t /\ is_name_char c = false.
Proof.
  destruct r as [|[[|c s]|id] r]; cbn [follow_ok]; intros H; try contradiction.
  - now left.
  - right. exists c, (s +++ render r). split; [reflexivity|exact H].
Qed.

Lemma follow_pass k v r : follow_ok r -> follow_ok (map (pass1 k v) r).
Proof. destruct r as [|[[|c s]|id] r]; cbn [follow_ok map pass1]; intros H; try contradiction; auto. Qed.

Lemma inv_impl (P Q : string -> Prop) ps :
  (forall id, P id -> Q id) -> inv P ps -> inv Q ps.
Proof.
  intros HPQ. induction ps as [|[s|id] r IH]; cbn [inv]; [auto| |].
  - intros [Hs Hr]. auto.
  - intros (Hid & Hf & Hr). auto.
Qed.

Lemma inv_pass k v P ps :
  sall nodollar v = true -> inv P ps -> inv (fun id => P id /\ id <> k) (map (pass1 k v) ps).
Proof.
  intros Hv. induction ps as [|[s|id] r IH]; cbn [inv map pass1]; [auto| |].
  - intros [Hs Hr]. auto.
  - intros (Hid & Hf & Hr). destruct (String.eqb_spec id k) as [->|Hne]; cbn [inv].
    + auto.
    + split; [auto|]. split; [now apply follow_pass|auto].
Qed.

Lemma name_nodollar s : sall is_name_char s = true -> sall nodollar s = true.
Proof. apply sall_impl. intros c Hc. apply (name_char_facts c Hc). Qed.

(* one str.replace of `$k` rewrites exactly the uses of k *)
Lemma pass_render k v (P : string -> Prop) ps :
  sall is_name_char k = true ->
  (forall id, P id -> sall is_name_char id = true /\ (String.length id <= String.length k)%nat) ->
  inv P ps ->
  replace (String DOLLAR k) v (render ps) = render (map (pass1 k v) ps).
Proof.
  intros Hk HP. unfold replace. induction ps as [|[s|id] r IH]; intros Hinv.
  - reflexivity.
  - destruct Hinv as [Hs Hr]. cbn [render render_piece map pass1].
    rewrite replace_go_lit by exact Hs. f_equal. apply IH, Hr.
  - destruct Hinv as (Hid & Hf & Hr). destruct (HP id Hid) as [Hn Hlen].
    cbn [render render_piece map pass1].
    change (String DOLLAR id +++ render r) with (String DOLLAR (id +++ render r)).
    rewrite replace_go_cons, prefix_cons, Ascii.eqb_refl.
    rewrite (prefix_key k id (render r) Hk Hlen (follow_render r Hf)).
    destruct (String.eqb_spec id k) as [->|Hne].
    + cbn [String.length]. replace (S (String.length k) - 1)%nat with (String.length k) by lia.
      rewrite replace_go_skip. cbn [render render_piece]. f_equal. apply IH, Hr.
    + rewrite replace_go_lit by now apply name_nodollar.
      cbn [render render_piece].
      change (String DOLLAR id +++ render (map (pass1 k v) r))
        with (String DOLLAR (id +++ render (map (pass1 k v) r))).
      do 2 f_equal. apply IH, Hr.
Qed.

Lemma subst_pass k v L ps : subst L (map (pass1 k v) ps) = subst ((k, v) :: L) ps.
Proof.
  induction ps as [|[s|id] r IH]; [reflexivity| |].
  - cbn [map pass1 subst subst_piece]. now rewrite IH.
  - cbn [map pass1 subst]. rewrite <- IH. f_equal.
    cbn [subst_piece macro_value]. rewrite (String.eqb_sym k id).
    destruct (String.eqb id k); reflexivity.
Qed.

Lemma subst_nil ps : subst [] ps = render ps.
Proof. induction ps as [|[s|id] r IH]; [reflexivity| |]; cbn [subst render]; now rewrite IH. Qed.

Lemma subst_ext L L' ps :
  (forall id, macro_value L id = macro_value L' id) -> subst L ps = subst L' ps.
Proof.
  intros H. induction ps as [|[s|id] r IH]; [reflexivity| |]; cbn [subst subst_piece]; rewrite IH;
    [reflexivity|]. now rewrite H.
Qed.

(* ================= the sorted list of macros ================= *)

Fixpoint sorted_desc (L : list (string * string)) : Prop :=
  match L with
  | [] => True
  | x :: r =>
      (forall y, In y r -> (String.length (fst y) <= String.length (fst x))%nat) /\ sorted_desc r
  end.

Lemma in_ins_desc x l y : In y (ins_desc x l) <-> y = x \/ In y l.
Proof.
  induction l as [|z r IH]; cbn [ins_desc].
  - cbn. intuition.
  - destruct (Nat.leb _ _); cbn [In]; [intuition|]. rewrite IH. intuition.
Qed.

Lemma sorted_ins x l : sorted_desc l -> sorted_desc (ins_desc x l).
Proof.
  induction l as [|z r IH]; cbn [ins_desc sorted_desc].
  - intros _. split; [intros y []|exact I].
  - intros [Hz Hr]. destruct (Nat.leb_spec (String.length (fst z)) (String.length (fst x))) as [Hle|Hgt].
    + cbn [sorted_desc]. split; [|split; assumption].
      intros y [<-|Hy]; [exact Hle|]. specialize (Hz y Hy). lia.
    + cbn [sorted_desc]. split; [|now apply IH].
      intros y Hy. apply in_ins_desc in Hy as [->|Hy]; [lia|now apply Hz].
Qed.

Lemma sorted_sort ds : sorted_desc (sort_desc ds).
Proof. induction ds as [|d ds IH]; [exact I|]. cbn [sort_desc fold_right]. now apply sorted_ins. Qed.

Lemma in_sort ds y : In y (sort_desc ds) <-> In y ds.
Proof.
  induction ds as [|d ds IH]; [reflexivity|].
  cbn [sort_desc fold_right In]. rewrite in_ins_desc. fold (sort_desc ds). rewrite IH. intuition.
Qed.

(* the sort is stable, so the first binding of a key stays the first *)
Lemma macro_value_ins k v l id :
  macro_value (ins_desc (k, v) l) id = macro_value ((k, v) :: l) id.
Proof.
  induction l as [|[k' v'] r IH]; [reflexivity|].
  cbn [ins_desc fst].
  destruct (Nat.leb_spec (String.length k') (String.length k)) as [Hle|Hgt]; [reflexivity|].
  cbn [macro_value] in *. rewrite IH.
  destruct (String.eqb_spec k' id) as [->|H1]; [|reflexivity].
  destruct (String.eqb_spec k id) as [->|H2]; [lia|reflexivity].
Qed.

Lemma macro_value_sort ds id : macro_value (sort_desc ds) id = macro_value ds id.
Proof.
  induction ds as [|[k v] ds IH]; [reflexivity|].
  cbn [sort_desc fold_right]. fold (sort_desc ds). rewrite macro_value_ins.
  cbn [macro_value]. now rewrite IH.
Qed.

Lemma macro_value_in ds k v : macro_value ds k = Some v -> In (k, v) ds.
Proof.
  induction ds as [|[k' v'] r IH]; cbn [macro_value]; [discriminate|].
  destruct (String.eqb_spec k' k) as [->|Hne].
  - intros [= ->]. now left.
  - intros H. right. auto.
Qed.

(* ================= all passes ================= *)

(* what is needed of one macro: the key is made of name characters, the value has
   no '$' and no braces to strip *)
Definition macro_good (d : string * string) : Prop :=
  sall is_name_char (fst d) = true /\ sall nodollar (snd d) = true
  /\ strip (is_one_of LCUR RCUR) (snd d) = snd d.

Lemma fold_passes L : forall ps,
  sorted_desc L ->
  (forall d, In d L -> macro_good d) ->
  inv (fun id => In id (map fst L)) ps ->
  fold_left (fun l m => replace (String DOLLAR (fst m)) (strip (is_one_of LCUR RCUR) (snd m)) l)
            L (render ps) = subst L ps.
Proof.
  induction L as [|[k v] L IH]; intros ps Hsort Hgood Hinv.
  - cbn [fold_left]. now rewrite subst_nil.
  - destruct Hsort as [Hmax Hsort].
    destruct (Hgood (k, v) (or_introl eq_refl)) as (Hk & Hv & Hstrip). cbn [fst snd] in Hk, Hv, Hstrip.
    cbn [fold_left fst snd]. rewrite Hstrip.
    rewrite (pass_render k v (fun id => In id (map fst ((k, v) :: L))) ps Hk); [| |exact Hinv].
    + rewrite IH; [apply subst_pass|exact Hsort|intros d Hd; apply Hgood; now right|].
      eapply inv_impl; [|apply inv_pass; [exact Hv|exact Hinv]].
      cbn [map fst In]. intros id [[Hid|Hid] Hne]; [congruence|exact Hid].
    + cbn [map fst In]. intros id [<-|Hid]; [split; [exact Hk|lia]|].
      apply in_map_iff in Hid as (d & <- & Hd).
      split; [apply (Hgood d (or_intror Hd))|apply (Hmax d Hd)].
Qed.

Lemma defines_ok_good ds d : defines_ok ds = true -> In d ds ->
  is_variable_name (fst d) = true /\ snd d <> EmptyString /\ sall value_char (snd d) = true.
Proof.
  unfold defines_ok. rewrite andb_true_iff. intros [H _] Hd.
  rewrite forallb_forall in H. specialize (H d Hd). apply andb_true_iff in H as [Hk Hv].
  split; [exact Hk|]. destruct (snd d); [discriminate|]. split; [discriminate|exact Hv].
Qed.

Lemma defines_ok_macro_good ds d : defines_ok ds = true -> In d ds -> macro_good d.
Proof.
  intros Hds Hd. destruct (defines_ok_good ds d Hds Hd) as (Hk & _ & Hv).
  split; [apply (variable_name_chars _ Hk)|]. split.
  - revert Hv. apply sall_impl. intros c Hc. apply (value_char_facts c Hc).
  - apply strip_id. revert Hv. apply sall_impl. intros c Hc.
    apply negb_true_iff. apply (value_char_facts c Hc).
Qed.

Lemma pieces_ok_inv ds ps :
  pieces_ok ds ps = true -> inv (fun id => In id (map fst ds)) ps.
Proof.
  induction ps as [|[s|id] r IH]; cbn [pieces_ok inv]; [auto| |].
  - rewrite andb_true_iff. intros [Hs Hr]. split; [|auto].
    revert Hs. apply sall_impl. intros c Hc. apply (lit_char_facts c Hc).
  - rewrite !andb_true_iff. intros [[Hm Hf] Hr]. split; [|split; [|auto]].
    + destruct (macro_value ds id) as [v|] eqn:E; [|discriminate].
      apply macro_value_in in E. apply in_map_iff. now exists (id, v).
    + destruct r as [|[[|c s]|id'] r']; cbn [follow_ok]; try discriminate; [exact I|].
      now apply negb_true_iff.
Qed.

(* (A) sequential replacement, longest key first = simultaneous substitution *)
Theorem apply_macros_subst ds ps :
  defines_ok ds = true -> pieces_ok ds ps = true -> apply_macros ds (render ps) = subst ds ps.
Proof.
  intros Hds Hps. unfold apply_macros.
  rewrite fold_passes.
  - apply subst_ext, macro_value_sort.
  - apply sorted_sort.
  - intros d Hd. apply (proj1 (in_sort ds d)) in Hd. exact (defines_ok_macro_good ds d Hds Hd).
  - eapply inv_impl; [|apply pieces_ok_inv, Hps].
    intros id Hid. apply in_map_iff in Hid as (d & <- & Hd). apply in_map. exact (proj2 (in_sort ds d) Hd).
Qed.

(* ================= the parser on a text with DEFINE lines ================= *)

Definition nonspace (c : ascii) : bool := negb (is_space c).

Lemma find_slashes_none s : nochar SLASH s = true -> find_str SLASHES s = None.
Proof.
  unfold nochar, SLASHES. induction s as [|c s IH]; [reflexivity|].
  cbn [sall]. rewrite andb_true_iff, negb_true_iff. intros [Hc Hs].
  cbn [find_str]. rewrite prefix_cons, (Ascii.eqb_sym SLASH c), Hc, (IH Hs). reflexivity.
Qed.

Lemma remove_comment_id l : nochar SLASH l = true -> remove_comment l = l.
Proof. intros H. unfold remove_comment. fold SLASHES. now rewrite find_slashes_none. Qed.

Lemma strip_ws_id c r :
  is_space c = false -> last_sat nonspace (String c r) -> strip_ws (String c r) = String c r.
Proof.
  intros Hc Hl. unfold strip_ws, strip. rewrite lstrip_head by exact Hc. now apply rstrip_last.
Qed.

(* a line of the body: nothing to strip, no comment, not a preamble line *)
Definition line_ok (l : string) : Prop :=
  (exists c r, l = String c r /\ is_space c = false /\ Ascii.eqb c HASH = false)
  /\ last_sat nonspace l /\ nochar SLASH l = true.

Lemma split_body_line l rest b :
  line_ok l ->
  split_preamble (l :: rest) b =
  match split_preamble rest false with Some (p, bd) => Some (p, l :: bd) | None => None end.
Proof.
  intros ((c & r & -> & Hc & Hh) & Hl & Hs).
  cbn [split_preamble]. rewrite (strip_ws_id c r Hc Hl), (remove_comment_id _ Hs).
  cbn [starts_with]. rewrite Hh. reflexivity.
Qed.

Lemma split_body body b :
  Forall line_ok body -> split_preamble body b = Some ([], body).
Proof.
  intros H. revert b. induction H as [|l body Hl _ IH]; intros b; [reflexivity|].
  rewrite (split_body_line l body b Hl), IH. reflexivity.
Qed.

Lemma split_pre_line r rest :
  last_sat nonspace (String HASH r) -> nochar SLASH (String HASH r) = true ->
  split_preamble (String HASH r :: rest) true =
  match split_preamble rest true with
  | Some (p, b) => Some (strip_ws (lstrip (is_char HASH) (String HASH r)) :: p, b)
  | None => None
  end.
Proof.
  intros Hl Hs. cbn [split_preamble].
  rewrite (strip_ws_id HASH r eq_refl Hl), (remove_comment_id _ Hs). reflexivity.
Qed.

(* ---- the DEFINE lines ---- *)

Local Open Scope string_scope.
Definition def_entry (d : string * string) : string := "DEFINE " +++ fst d +++ String SP (snd d).
Definition PRE_HEADER : list string := ["NETQASM 1.0"; "APPID 0"].
Local Close Scope string_scope.

Lemma define_line_shape d : define_line d = String HASH (String SP (def_entry d)).
Proof. reflexivity. Qed.

Section DefineLine.
  Variable d : string * string.
  Hypothesis Hk : is_variable_name (fst d) = true.
  Hypothesis Hne : snd d <> EmptyString.
  Hypothesis Hv : sall value_char (snd d) = true.

  Lemma key_nochar a :
    (forall c, is_name_char c = true -> Ascii.eqb c a = false) -> nochar a (fst d) = true.
  Proof.
    intros H. unfold nochar. apply (sall_impl is_name_char); [|apply (variable_name_chars _ Hk)].
    intros c Hc. now rewrite (H c Hc).
  Qed.

  Lemma value_nochar a :
    (forall c, value_char c = true -> Ascii.eqb c a = false) -> nochar a (snd d) = true.
  Proof.
    intros H. unfold nochar. apply (sall_impl value_char); [|exact Hv].
    intros c Hc. now rewrite (H c Hc).
  Qed.

  Lemma def_entry_last : last_sat nonspace (def_entry d).
  Proof.
    unfold def_entry.
    apply last_sat_app; [destruct (fst d); discriminate|].
    apply last_sat_app; [discriminate|].
    change (String SP (snd d)) with (s1 SP +++ snd d).
    apply last_sat_app; [exact Hne|]. apply last_sat_sall.
    revert Hv. apply sall_impl. intros c Hc. unfold nonspace.
    now rewrite (proj1 (proj2 (value_char_facts c Hc))).
  Qed.

  Lemma def_entry_noslash : nochar SLASH (def_entry d) = true.
  Proof.
    unfold def_entry, nochar. rewrite !sall_app. cbn [sall].
    fold (nochar SLASH (fst d)). fold (nochar SLASH (snd d)).
    rewrite key_nochar by (intros c Hc; apply (name_char_facts c Hc)).
    rewrite value_nochar by (intros c Hc; apply (value_char_facts c Hc)).
    reflexivity.
  Qed.

  Lemma define_line_last : last_sat nonspace (define_line d).
  Proof.
    rewrite define_line_shape.
    change (String HASH (String SP (def_entry d))) with (String HASH (s1 SP) +++ def_entry d).
    apply last_sat_app; [discriminate|apply def_entry_last].
  Qed.

  Lemma define_line_noslash : nochar SLASH (define_line d) = true.
  Proof.
    rewrite define_line_shape. unfold nochar. cbn [sall]. fold (nochar SLASH (def_entry d)).
    now rewrite def_entry_noslash.
  Qed.

  (* what _split_preamble_body keeps of the line *)
  Lemma define_line_entry : strip_ws (lstrip (is_char HASH) (define_line d)) = def_entry d.
  Proof.
    rewrite define_line_shape. cbn [lstrip].
    change (is_char HASH HASH) with true. change (is_char HASH SP) with false. cbv iota.
    unfold strip_ws, strip. cbn [lstrip]. change (is_space SP) with true. cbv iota.
    unfold def_entry at 1. cbn [String.append lstrip].
    match goal with |- context [is_space ?c] => change (is_space c) with false end. cbv iota.
    apply rstrip_last. apply def_entry_last.
  Qed.

  Lemma def_entry_strip : strip_ws (def_entry d) = def_entry d.
  Proof.
    pose proof def_entry_last as Hl. unfold def_entry in *. cbn [String.append] in *.
    now apply strip_ws_id.
  Qed.

  Lemma def_entry_join : def_entry d +++ s1 SP = join_sp [P_DEFINE; fst d; snd d].
  Proof.
    unfold def_entry, P_DEFINE. cbn [join_sp String.append]. rewrite app_assoc_s.
    cbn [String.append]. reflexivity.
  Qed.

  Lemma def_entry_words : group_by_word LCUR RCUR (def_entry d) = Some [P_DEFINE; fst d; snd d].
  Proof.
    unfold group_by_word. rewrite def_entry_strip, def_entry_join.
    apply gbw_join.
    - repeat constructor.
      + apply key_nochar. intros c Hc. apply (name_char_facts c Hc).
      + apply value_nochar. intros c Hc. apply (value_char_facts c Hc).
    - apply join_sp_nochar; [reflexivity|]. repeat constructor.
      + apply key_nochar. intros c Hc. apply (name_char_facts c Hc).
      + apply value_nochar. intros c Hc. apply (value_char_facts c Hc).
    - apply length_join_sp.
  Qed.
End DefineLine.

Lemma split_defines ds rest :
  defines_ok ds = true ->
  split_preamble (map define_line ds ++ rest) true =
  match split_preamble rest true with
  | Some (p, b) => Some (map def_entry ds ++ p, b)
  | None => None
  end.
Proof.
  intros Hds.
  assert (H : forall d, In d ds -> In d ds) by auto. revert H. generalize ds at 1 3 4.
  intros l. induction l as [|d l IH]; intros Hin.
  - cbn [map app]. destruct (split_preamble rest true) as [[p b]|]; reflexivity.
  - destruct (defines_ok_good ds d Hds (Hin d (or_introl eq_refl))) as (Hk & Hne & Hv).
    cbn [map app].
    pose proof (define_line_last d Hk Hne Hv) as Hl.
    pose proof (define_line_noslash d Hk Hv) as Hs.
    pose proof (define_line_entry d Hk Hne Hv) as He.
    rewrite define_line_shape in Hl, Hs, He |- *.
    rewrite (split_pre_line _ _ Hl Hs), He, IH by (intros x Hx; apply Hin; now right).
    destruct (split_preamble rest true) as [[p b]|]; reflexivity.
Qed.

Lemma split_header rest :
  split_preamble (HEADER ++ rest) true =
  match split_preamble rest true with
  | Some (p, b) => Some (PRE_HEADER ++ p, b)
  | None => None
  end.
Proof.
  unfold HEADER. cbn [app].
  rewrite split_pre_line;
    [|intros c Hc; vm_compute in Hc; injection Hc as <-; reflexivity|vm_compute; reflexivity].
  rewrite split_pre_line;
    [|intros c Hc; vm_compute in Hc; injection Hc as <-; reflexivity|vm_compute; reflexivity].
  destruct (split_preamble rest true) as [[p b]|]; [|reflexivity].
  f_equal.
Qed.

Lemma parse_preamble_defs ds :
  defines_ok ds = true ->
  parse_preamble (map def_entry ds) = Some (mkPre [] [] (map (fun d => [fst d; snd d]) ds)).
Proof.
  intros Hds.
  assert (H : forall d, In d ds -> In d ds) by auto. revert H. generalize ds at 1 3 4.
  intros l. induction l as [|d l IH]; intros Hin; [reflexivity|].
  destruct (defines_ok_good ds d Hds (Hin d (or_introl eq_refl))) as (Hk & Hne & Hv).
  cbn [map parse_preamble].
  rewrite (def_entry_words d Hk Hne Hv), IH by (intros x Hx; apply Hin; now right).
  reflexivity.
Qed.

Lemma parse_preamble_header rest p :
  parse_preamble rest = Some p ->
  parse_preamble (PRE_HEADER ++ rest) =
  Some (mkPre ([s1 (ch 49) +++ s1 DOT +++ s1 (ch 48)] :: p_netqasm p) ([s1 (ch 48)] :: p_appid p) (p_define p)).
Proof.
  intros H. unfold PRE_HEADER. cbn [app parse_preamble]. rewrite H.
  reflexivity.
Qed.

Lemma defines_pairs ds :
  forallb (fun d => is_variable_name (fst d)) ds = true ->
  defines (map (fun d => [fst d; snd d]) ds) = Some ds.
Proof.
  induction ds as [|[k v] ds IH]; [reflexivity|].
  cbn [forallb map defines fst snd]. rewrite andb_true_iff. intros [Hk Hr].
  now rewrite Hk, (IH Hr).
Qed.

(* ---- the body lines, before and after substitution ---- *)

Lemma uses_defined ds k :
  defines_ok ds = true ->
  match macro_value ds k with Some _ => true | None => false end = true ->
  exists c v, macro_value ds k = Some (String c v) /\ value_char c = true
              /\ sall value_char v = true /\ sall is_name_char k = true.
Proof.
  intros Hds H. destruct (macro_value ds k) as [v|] eqn:E; [|discriminate].
  apply macro_value_in in E. destruct (defines_ok_good ds _ Hds E) as (Hk & Hne & Hv).
  cbn [fst snd] in *. destruct v as [|c v]; [congruence|].
  cbn [sall] in Hv. apply andb_true_iff in Hv as [Hc Hv].
  exists c, v. repeat split; try assumption. apply (variable_name_chars _ Hk).
Qed.

Lemma render_noslash ds ps :
  defines_ok ds = true -> pieces_ok ds ps = true -> nochar SLASH (render ps) = true.
Proof.
  intros Hds. unfold nochar. induction ps as [|[s|k] r IH]; cbn [pieces_ok render render_piece]; [reflexivity| |].
  - rewrite andb_true_iff. intros [Hs Hr]. rewrite sall_app, (IH Hr), andb_true_r.
    revert Hs. apply sall_impl. intros c Hc. now rewrite (proj2 (lit_char_facts c Hc)).
  - rewrite !andb_true_iff. intros [[Hm _] Hr].
    destruct (uses_defined ds k Hds Hm) as (c & v & _ & _ & _ & Hk).
    change (String DOLLAR k +++ render r) with (String DOLLAR (k +++ render r)).
    cbn [sall]. rewrite sall_app, (IH Hr), andb_true_r.
    change (negb (Ascii.eqb DOLLAR SLASH)) with true. cbn [andb].
    revert Hk. apply sall_impl. intros a Ha.
    now rewrite (proj1 (proj2 (proj2 (proj2 (name_char_facts a Ha))))).
Qed.

Lemma subst_noslash ds ps :
  defines_ok ds = true -> pieces_ok ds ps = true -> nochar SLASH (subst ds ps) = true.
Proof.
  intros Hds. unfold nochar. induction ps as [|[s|k] r IH]; cbn [pieces_ok subst subst_piece]; [reflexivity| |].
  - rewrite andb_true_iff. intros [Hs Hr]. rewrite sall_app, (IH Hr), andb_true_r.
    revert Hs. apply sall_impl. intros c Hc. now rewrite (proj2 (lit_char_facts c Hc)).
  - rewrite !andb_true_iff. intros [[Hm _] Hr].
    destruct (uses_defined ds k Hds Hm) as (c & v & -> & Hc & Hv & _).
    rewrite sall_app, (IH Hr), andb_true_r.
    apply (sall_impl value_char); [|cbn [sall]; now rewrite Hc, Hv].
    intros a Ha. now rewrite (proj1 (proj2 (proj2 (proj2 (value_char_facts a Ha))))).
Qed.

Lemma app_empty_s (a b : string) : a +++ b = EmptyString -> a = EmptyString /\ b = EmptyString.
Proof. destruct a; [auto|discriminate]. Qed.

Lemma subst_empty ds ps :
  defines_ok ds = true -> pieces_ok ds ps = true ->
  (render ps = EmptyString <-> subst ds ps = EmptyString).
Proof.
  intros Hds. induction ps as [|[s|k] r IH]; cbn [pieces_ok render render_piece subst subst_piece]; [tauto| |].
  - rewrite andb_true_iff. intros [_ Hr]. specialize (IH Hr).
    split; intros H; apply app_empty_s in H as [-> H]; apply IH in H; now rewrite H.
  - rewrite !andb_true_iff. intros [[Hm _] _].
    destruct (uses_defined ds k Hds Hm) as (c & v & -> & _).
    split; discriminate.
Qed.

Lemma subst_last ds ps :
  defines_ok ds = true -> pieces_ok ds ps = true ->
  last_sat nonspace (render ps) -> last_sat nonspace (subst ds ps).
Proof.
  intros Hds. induction ps as [|[s|k] r IH]; [auto| |]; intros Hps Hl.
  - pose proof Hps as Hr. cbn [pieces_ok] in Hr. apply andb_true_iff in Hr as [_ Hr].
    cbn [render render_piece subst subst_piece] in *.
    destruct (subst ds r) as [|c t] eqn:E.
    + apply (subst_empty ds r Hds Hr) in E. now rewrite E in Hl.
    + apply last_sat_app; [discriminate|]. apply (IH Hr).
      destruct (render r) as [|c' t'] eqn:E'.
      * apply (subst_empty ds r Hds Hr) in E'. congruence.
      * unfold last_sat in *. now rewrite last_char_app in Hl.
  - pose proof Hps as Hr. cbn [pieces_ok] in Hr. apply andb_true_iff in Hr as [Hm Hr].
    apply andb_true_iff in Hm as [Hm _].
    destruct (uses_defined ds k Hds Hm) as (c & v & Hmv & Hc & Hv & _).
    cbn [render render_piece subst subst_piece] in *. rewrite Hmv.
    destruct (subst ds r) as [|c1 t] eqn:E.
    + rewrite app_nil_r_s. apply last_sat_sall. cbn [sall].
      apply andb_true_iff. split; [|revert Hv; apply sall_impl; intros a Ha];
        unfold nonspace; now rewrite (proj1 (proj2 (value_char_facts _ ltac:(eassumption)))).
    + apply last_sat_app; [discriminate|]. apply (IH Hr).
      destruct (render r) as [|c' t'] eqn:E'.
      * apply (subst_empty ds r Hds Hr) in E'. congruence.
      * unfold last_sat in *. now rewrite last_char_app in Hl.
Qed.

Lemma body_line_parts ds ps :
  body_line_ok ds ps = true ->
  pieces_ok ds ps = true
  /\ match ps with
     | PLit (String c _) :: _ => is_space c = false /\ Ascii.eqb c HASH = false
     | PUse _ :: _ => True
     | _ => False
     end
  /\ last_sat nonspace (render ps).
Proof.
  unfold body_line_ok. rewrite !andb_true_iff. intros [[Hp Hf] Hl]. split; [exact Hp|]. split.
  - destruct ps as [|[[|c s]|k] r]; try discriminate; [|exact I].
    apply andb_true_iff in Hf as [H1 H2]. now rewrite negb_true_iff in H1, H2.
  - intros c Hc. rewrite Hc in Hl. exact Hl.
Qed.

Lemma render_line_ok ds ps :
  defines_ok ds = true -> body_line_ok ds ps = true -> line_ok (render ps).
Proof.
  intros Hds Hb. destruct (body_line_parts ds ps Hb) as (Hp & Hf & Hl).
  split; [|split; [exact Hl|now apply (render_noslash ds)]].
  destruct ps as [|[[|c s]|k] r]; try contradiction.
  - exists c, (s +++ render r). split; [reflexivity|exact Hf].
  - exists DOLLAR, (k +++ render r). split; [reflexivity|split; reflexivity].
Qed.

Lemma subst_line_ok ds ps :
  defines_ok ds = true -> body_line_ok ds ps = true -> line_ok (subst ds ps).
Proof.
  intros Hds Hb. destruct (body_line_parts ds ps Hb) as (Hp & Hf & Hl).
  split; [|split; [now apply subst_last|now apply subst_noslash]].
  destruct ps as [|[[|c s]|k] r]; try contradiction.
  - exists c, (s +++ subst ds r). split; [reflexivity|exact Hf].
  - cbn [pieces_ok] in Hp. apply andb_true_iff in Hp as [Hm _]. apply andb_true_iff in Hm as [Hm _].
    destruct (uses_defined ds k Hds Hm) as (c & v & Hmv & Hc & _).
    exists c, (v +++ subst ds r). cbn [subst subst_piece]. rewrite Hmv.
    split; [reflexivity|]. split; apply (value_char_facts c Hc).
Qed.

Lemma apply_macros_nil l : apply_macros [] l = l.
Proof. reflexivity. Qed.

(* (B) the parser treats the text with DEFINE lines like the substituted text *)
Theorem with_defines_parse bk gi ds body :
  defines_ok ds = true -> forallb (body_line_ok ds) body = true ->
  parse_text bk gi (with_defines ds body) = parse_text bk gi (substituted ds body).
Proof.
  intros Hds Hbody. rewrite forallb_forall in Hbody.
  unfold parse_text, with_defines, substituted.
  rewrite !split_header, (split_defines ds _ Hds).
  rewrite !split_body by (apply Forall_forall; intros l Hl; apply in_map_iff in Hl as (ps & <- & Hps);
                          first [apply (render_line_ok ds)|apply (subst_line_ok ds)]; auto).
  rewrite !app_nil_r.
  rewrite (parse_preamble_header _ _ (parse_preamble_defs ds Hds)).
  rewrite (parse_preamble_header [] (mkPre [] [] []) eq_refl : parse_preamble PRE_HEADER = _).
  cbn [p_netqasm p_appid p_define single_arg].
  rewrite defines_pairs.
  2:{ pose proof Hds as H. unfold defines_ok in H. apply andb_true_iff in H as [H _].
      rewrite forallb_forall in H |- *. intros d Hd. specialize (H d Hd).
      now apply andb_true_iff in H as [H _]. }
  cbn [defines map nodup_str].
  pose proof Hds as Hnd. unfold defines_ok in Hnd. apply andb_true_iff in Hnd as [_ Hnd]. rewrite Hnd.
  change (version_ok (s1 (ch 49) +++ s1 DOT +++ s1 (ch 48))) with true.
  change (parse_int (s1 (ch 48))) with (Some 0).
  cbn [andb]. rewrite !map_map. f_equal. apply map_ext_in. intros ps Hps.
  rewrite apply_macros_nil. f_equal. apply apply_macros_subst; [exact Hds|].
  apply (body_line_parts ds ps (Hbody ps Hps)).
Qed.

(* ================= examples: the hypotheses are satisfiable ================= *)

Local Open Scope string_scope.

(* one key is a proper prefix of another and is defined first: the longest-first order
   of the passes is what makes `$qq` a use of qq *)
Definition ex_ds : list (string * string) := [("q", "Q0"); ("qq", "Q1"); ("v", "1")].
Definition ex_line : list piece := [PLit "set "; PUse "qq"; PLit " "; PUse "v"].
Definition ex_body : list (list piece) :=
  [ex_line; [PUse "v"; PLit ":"]; [PLit "add "; PUse "q"; PLit " "; PUse "qq"; PLit " "; PUse "q"]].

Example ex_hyps :
  defines_ok ex_ds = true /\ pieces_ok ex_ds ex_line = true
  /\ forallb (body_line_ok ex_ds) ex_body = true.
Proof. vm_compute. repeat split. Qed.

Example ex_apply_macros :
  render ex_line = "set $qq $v" /\ apply_macros ex_ds (render ex_line) = "set Q1 1"
  /\ subst ex_ds ex_line = "set Q1 1".
Proof. vm_compute. repeat split. Qed.

(* without the sort (keys in the order of the DEFINE lines) the result is different *)
Example ex_order_matters :
  fold_left (fun l m => replace (String DOLLAR (fst m)) (snd m) l) ex_ds (render ex_line) = "set Q0q 1".
Proof. vm_compute. reflexivity. Qed.

Example ex_with_defines :
  with_defines ex_ds ex_body =
    ["# NETQASM 1.0"; "# APPID 0"; "# DEFINE q Q0"; "# DEFINE qq Q1"; "# DEFINE v 1";
     "set $qq $v"; "$v:"; "add $q $qq $q"]
  /\ substituted ex_ds ex_body = ["# NETQASM 1.0"; "# APPID 0"; "set Q1 1"; "1:"; "add Q0 Q1 Q0"].
Proof. vm_compute. split; reflexivity. Qed.

Example ex_parse :
  let bk := [(2, "Q"%char)] in
  let gi := ["set"; "add"] in
  parse_text bk gi (with_defines ex_ds [ex_line; [PLit "add "; PUse "q"; PLit " "; PUse "qq"; PLit " "; PUse "q"]])
  = Some [AIns "set" [] [AV (VReg 2 1); AV (VLit 1)];
          AIns "add" [] [AV (VReg 2 0); AV (VReg 2 1); AV (VReg 2 0)]].
Proof. vm_compute. reflexivity. Qed.

Local Close Scope string_scope.
