(* SdkWfProofs.v — consequences of the well-formedness predicates of Sdk/Wf.v for the lowering
   state: bodies leave the qubit table as they found it; bodies without register measurements
   leave the register-future table alone. *)
From Coq Require Import ZArith List Bool Arith Lia.
From NQ Require Import Sdk.SdkAst Sdk.Target Sdk.Eval Sdk.MemMgr Sdk.Lower Sdk.Flatten Sdk.SdkCheck Sdk.Wf.
From NQ Require Import Proofs.SdkRegProofs Proofs.SdkMapLemmas Proofs.SdkInvProofs.
Import ListNotations.
Local Open Scope nat_scope.

Ltac split_andb :=
  repeat match goal with H : _ && _ = true |- _ => apply andb_prop in H; destruct H end.

Lemma wfs_plain :
  (forall s, wfs s = true -> plain s = true /\ noepr s = true) /\
  (forall b, bwfs b = true -> bplain b = true /\ bnoepr b = true).
Proof.
  apply stmt_block_ind; try (intros; cbn in *; auto; discriminate).
  - intros c cb x y body IH H. cbn [wfs] in H. split_andb. cbn [plain noepr]. auto.
  - intros cb v oreg a e st body IH H. cbn [wfs] in H. split_andb.
    cbn [plain noepr]. auto.
  - intros enum v a body IH H. cbn [wfs] in H. split_andb. cbn [plain noepr]. auto.
  - intros v mx body IHb cx bound cl IHc H. cbn [wfs] in H. split_andb. cbn [plain noepr].
    match goal with Hb : bwfs body = true, Hc : bwfs cl = true |- _ =>
      destruct (IHb Hb), (IHc Hc) end.
    split; apply andb_true_intro; auto.
  - intros s IHs b IHb H. cbn [bwfs] in H. split_andb. cbn [bplain bnoepr].
    match goal with Hs : wfs s = true, Hb : bwfs b = true |- _ => destruct (IHs Hs), (IHb Hb) end.
    split; apply andb_true_intro; auto.
Qed.

(* ---- register futures *)
Lemma noreg_rf :
  (forall s, noreg s = true -> plain s = true -> noepr s = true -> forall st c st',
     lower_stmt true s st = Ok (c, st') -> l_rf st' = l_rf st /\ l_ret st' = l_ret st) /\
  (forall b, bnoreg b = true -> bplain b = true -> bnoepr b = true -> forall st c st',
     lower_block true b st = Ok (c, st') -> l_rf st' = l_rf st /\ l_ret st' = l_ret st).
Proof.
  apply stmt_block_ind.
  - intros q _ _ _ st c st' H. cbn [lower_stmt] in H. destruct (alook q (l_q st)); [discriminate|].
    inversion H; subst. cbn. auto.
  - intros g q _ _ _ st c st' H. cbn [lower_stmt] in H.
    destruct (qubit_id q st); cbn [bind] in H; [|discriminate]. inversion H; subst. auto.
  - intros ax q n d _ _ _ st c st' H. cbn [lower_stmt] in H.
    destruct (qubit_id q st); cbn [bind] in H; [|discriminate]. inversion H; subst. auto.
  - intros t q1 q2 _ _ _ st c st' H. cbn [lower_stmt] in H.
    destruct (qubit_id q1 st); cbn [bind] in H; [|discriminate].
    destruct (qubit_id q2 st); cbn [bind] in H; [|discriminate]. inversion H; subst. auto.
  - intros q ip a ix _ _ _ st c st' H. cbn [lower_stmt] in H.
    destruct (low_ix ix st); cbn [bind] in H; [|discriminate].
    destruct (low_meas q ip false st) as [[[m c0] s1]|] eqn:Em; cbn [bind] in H; [|discriminate].
    inversion H; subst.
    destruct (low_meas_facts _ _ _ _ _ _ _ Em) as (id & _ & _ & _ & _ & _ & R1 & _ & _ & _ & _ & Rt & _). auto.
  - intros q ip a _ _ _ st c st' H. cbn [lower_stmt] in H.
    destruct (declare a 1 None st) as [s0|] eqn:Ed; cbn [bind] in H; [|discriminate].
    destruct (low_meas q ip false s0) as [[[m c0] s1]|] eqn:Em; cbn [bind] in H; [|discriminate].
    inversion H; subst.
    destruct (low_meas_facts _ _ _ _ _ _ _ Em) as (id & _ & _ & _ & _ & _ & R1 & _ & _ & _ & _ & Rt & _).
    destruct (declare_facts _ _ _ _ _ Ed) as (_ & _ & _ & _ & _ & _ & _ & E4 & E5 & _).
    split; congruence.
  - intros q ip r H. discriminate.
  - intros q _ _ _ st c st' H. cbn [lower_stmt] in H.
    destruct (qubit_id q st); cbn [bind] in H; [|discriminate]. inversion H; subst. cbn. auto.
  - intros a len init _ _ _ st c st' H. cbn [lower_stmt] in H.
    destruct (Nat.eqb _ 0); [discriminate|].
    destruct (declare a _ init st) as [s1|] eqn:Ed; cbn [bind] in H; [|discriminate]. inversion H; subst.
    destruct (declare_facts _ _ _ _ _ Ed) as (_ & _ & _ & _ & _ & _ & _ & E4 & E5 & _). auto.
  - intros a ix o m _ Hp He st c st' H.
    cbn [lower_stmt] in H.
    destruct (low_ix ix st); cbn [bind] in H; [|discriminate].
    destruct (take st) as [[t s1]|] eqn:Ht; cbn [bind] in H; [|discriminate].
    destruct (low_src o s1) as [[[[lo y] ts] s2]|] eqn:Hs; cbn [bind] in H; [|discriminate].
    match type of H with Ok (_, ?X) = _ => assert (Es : st' = X) by (inversion H; reflexivity) end.
    assert (S : sba st st').
    { rewrite Es. eapply sba_trans; [eapply sba_take; eauto|].
      eapply sba_trans; [eapply low_src_sba; eauto|].
      eapply sba_trans; [apply sba_release|apply sba_release_all]. }
    destruct S as (_ & _ & _ & A & B & _). auto.
  - intros r o m _ _ _ st c st' H. cbn [lower_stmt] in H.
    destruct (rf_lookup r st) as [[[] k]|]; try discriminate.
    destruct (low_src o st) as [[[[lo y] ts] s1]|] eqn:Hs; cbn [bind] in H; [|discriminate].
    match type of H with Ok (_, ?X) = _ => assert (Es : st' = X) by (inversion H; reflexivity) end.
    assert (S : sba st st').
    { rewrite Es. eapply sba_trans; [eapply low_src_sba; eauto|apply sba_release_all]. }
    destruct S as (_ & _ & _ & A & B & _). auto.
  - intros r init _ Hp. discriminate.
  - intros r o m _ Hp. discriminate.
  - (* SIf *) intros c cb x y body IH Hn Hp He st code st' H. cbn [noreg plain noepr] in *.
    cbn [lower_stmt] in H.
    destruct (lower_block true body st) as [[cbody s1]|] eqn:Hb; cbn [bind] in H; [|discriminate].
    destruct (IH Hn Hp He _ _ _ Hb) as [R1 T1].
    destruct (is_nil cbody); [inversion H; subst; auto|].
    destruct (low_cval x s1) as [[[[lx px] tx] s2]|] eqn:Hx; cbn [bind] in H; [|discriminate].
    assert (Sx := low_cval_sba _ _ _ _ _ _ Hx).
    destruct c;
      try (inversion H; subst;
           assert (S : sba s1 (release_all tx s2)) by (eapply sba_trans; [exact Sx|apply sba_release_all]);
           destruct S as (_ & _ & _ & A & B & _); split; congruence);
      (destruct (low_cval y s2) as [[[[ly py] ty] s3]|] eqn:Hy; cbn [bind] in H; [|discriminate];
       inversion H; subst;
       assert (S : sba s1 (release_all (tx ++ ty) s3))
         by (eapply sba_trans; [exact Sx|eapply sba_trans; [eapply low_cval_sba; eauto|apply sba_release_all]]);
       destruct S as (_ & _ & _ & A & B & _); split; congruence).
  - (* SLoop *) intros cb v oreg start stop step body IH Hn Hp He st code st' H.
    cbn [noreg plain noepr] in *. cbn [lower_stmt] in H.
    destruct (alook v (l_lv st)); [discriminate|].
    destruct (take_at oreg st) as [[r s1]|] eqn:Ht; cbn [bind] in H; [|discriminate].
    destruct (lower_block true body (bind_lvr v r s1)) as [[cbody s2]|] eqn:Hb; cbn [bind] in H; [|discriminate].
    destruct (IH Hn Hp He _ _ _ Hb) as [R1 T1]. cbn in R1, T1.
    destruct (sba_take_at _ _ _ _ Ht) as (_ & _ & _ & A & B & _).
    destruct (is_nil cbody); inversion H; subst; cbn; split; congruence.
  - (* SForeach *) intros enum v a body IH Hn Hp He st code st' H.
    cbn [noreg plain noepr] in *. cbn [lower_stmt] in H.
    destruct (alook a (l_len st)); [|discriminate].
    destruct (alook v (l_lv st)); [discriminate|].
    destruct (take st) as [[r s1]|] eqn:Ht; cbn [bind] in H; [|discriminate].
    destruct (lower_block true body (bind_lvr v r s1)) as [[cbody s2]|] eqn:Hb; cbn [bind] in H; [|discriminate].
    destruct (IH Hn Hp He _ _ _ Hb) as [R1 T1]. cbn in R1, T1.
    destruct (sba_take _ _ _ Ht) as (_ & _ & _ & A & B & _).
    destruct (is_nil cbody); inversion H; subst; cbn; split; congruence.
  - (* SLoopUntil *) intros v maxit body IHb cx bound cleanup IHc Hn Hp He st code st' H.
    cbn [noreg plain noepr] in *.
    apply andb_prop in Hn. destruct Hn as [Hn1 Hn2]. apply andb_prop in Hp. destruct Hp as [Hp1 Hp2].
    apply andb_prop in He. destruct He as [He1 He2]. cbn [lower_stmt] in H.
    destruct (alook v (l_lv st)); [discriminate|].
    destruct (take st) as [[r s1]|] eqn:Ht; cbn [bind] in H; [|discriminate].
    destruct (sba_take _ _ _ Ht) as (_ & _ & _ & A & B & _).
    destruct (lower_block true body (bind_lvr v r s1)) as [[cbody s2]|] eqn:Hb; cbn [bind] in H; [|discriminate].
    destruct (IHb Hn1 Hp1 He1 _ _ _ Hb) as [R1 T1]. cbn in R1, T1.
    destruct (is_nil cbody); [inversion H; subst; cbn; split; congruence|].
    destruct (low_cval cx s2) as [[[[lx px] tx] s3]|] eqn:Hx; cbn [bind] in H; [|discriminate].
    assert (S3 : sba s2 (release_all tx s3)) by (eapply sba_trans; [eapply low_cval_sba; eauto|apply sba_release_all]).
    destruct S3 as (_ & _ & _ & A3 & B3 & _).
    destruct (lower_block true cleanup (release_all tx s3)) as [[ccl s4]|] eqn:Hc; cbn [bind] in H; [|discriminate].
    destruct (IHc Hn2 Hp2 He2 _ _ _ Hc) as [R4 T4].
    inversion H; subst; cbn; split; congruence.
  - intros k body IH _ _ He. discriminate.
  - intros _ _ _ st c st' H. discriminate.
  - intros a b n o m _ Hp He st c st' H. cbn [lower_stmt] in H.
    destruct (take st) as [[t s1]|] eqn:Ht; cbn [bind] in H; [|discriminate].
    destruct (take s1) as [[ti s1i]|] eqn:Hti; cbn [bind] in H; [|discriminate].
    destruct (low_src o (release ti s1i)) as [[[[lo y] ts] s2]|] eqn:Hs; cbn [bind] in H; [|discriminate].
    match type of H with Ok (_, ?X) = _ => assert (Es : st' = X) by (inversion H; reflexivity) end.
    assert (S : sba st st').
    { rewrite Es. eapply sba_trans; [eapply sba_take; eauto|].
      eapply sba_trans; [eapply sba_take; eauto|].
      eapply sba_trans; [apply sba_release|].
      eapply sba_trans; [eapply low_src_sba; eauto|].
      eapply sba_trans; [apply sba_release|apply sba_release_all]. }
    destruct S as (_ & _ & _ & A & B & _). auto.
  - intros q ip a b n _ _ _ st c st' H. cbn [lower_stmt] in H.
    destruct (low_meas q ip false st) as [[[m c0] s1]|] eqn:Em; cbn [bind] in H; [|discriminate].
    destruct (take s1) as [[ti s1i]|] eqn:Hti; cbn [bind] in H; [|discriminate]. inversion H; subst.
    destruct (low_meas_facts _ _ _ _ _ _ _ Em) as (id & _ & _ & _ & _ & _ & R1 & _ & _ & _ & _ & Rt & _).
    assert (S : sba s1 (release ti s1i)) by (eapply sba_trans; [eapply sba_take; eauto|apply sba_release]).
    destruct S as (_ & _ & _ & A & B & _). split; congruence.
  - intros _ _ _ st c st' H. inversion H; subst. auto.
  - intros s IHs b IHb Hn Hp He st c st' H. cbn [bnoreg bplain bnoepr] in *.
    apply andb_prop in Hn. destruct Hn as [Hn1 Hn2]. apply andb_prop in Hp. destruct Hp as [Hp1 Hp2].
    apply andb_prop in He. destruct He as [He1 He2]. cbn [lower_block] in H.
    destruct (lower_stmt true s st) as [[c1 s1]|] eqn:H1; cbn [bind] in H; [|discriminate].
    destruct (lower_block true b s1) as [[c2 s2]|] eqn:H2; cbn [bind] in H; [|discriminate].
    inversion H; subst.
    destruct (IHs Hn1 Hp1 He1 _ _ _ H1), (IHb Hn2 Hp2 He2 _ _ _ H2). split; congruence.
Qed.

(* ---- qubits *)
Lemma adel_app_notin : forall A (base L : list (nat * A)) q,
  ~ In q (map fst base) -> adel q (base ++ L) = base ++ adel q L.
Proof.
  induction base as [|[k v] base IH]; intros L q H; cbn; [reflexivity|].
  destruct (Nat.eqb q k) eqn:E.
  - apply Nat.eqb_eq in E. subst. exfalso. apply H. left; reflexivity.
  - rewrite IH; [reflexivity|]. intro. apply H. right; assumption.
Qed.
Lemma map_fst_adel : forall A (L : list (nat * A)) q, map fst (adel q L) = ndel q (map fst L).
Proof.
  induction L as [|[k v] L IH]; intro q; cbn; [reflexivity|].
  destruct (Nat.eqb q k); [reflexivity|]. cbn. rewrite IH. reflexivity.
Qed.
Lemma memn_in : forall q l, memn q l = true -> In q l.
Proof.
  intros q l H. unfold memn in H. apply existsb_exists in H. destruct H as (x & Hx & E).
  apply Nat.eqb_eq in E. subst. exact Hx.
Qed.

(* consuming a qubit created in this body *)
Lemma consume_local : forall st base Lq q,
  NoDup (map fst (l_q st)) -> l_q st = base ++ Lq -> memn q (map fst Lq) = true ->
  exists Lq', adel q (l_q st) = base ++ Lq' /\ map fst Lq' = ndel q (map fst Lq).
Proof.
  intros st base Lq q ND E M. rewrite E in *. exists (adel q Lq). split; [|apply map_fst_adel].
  apply adel_app_notin. rewrite map_app in ND. apply memn_in in M.
  intro Hb. revert ND. generalize (map fst base) (map fst Lq) Hb M. clear.
  induction l as [|x l IH]; intros l2 Hb M ND; [destruct Hb|].
  cbn in ND. inversion ND; subst. destruct Hb as [->|Hb].
  - apply H1. apply in_or_app. right. exact M.
  - eapply IH; eauto.
Qed.

Definition qfact_stmt (s : stmt) : Prop :=
  forall loc loc', qs s loc = Some loc' -> plain s = true -> noepr s = true ->
  forall st c st' base Lq,
  lower_stmt true s st = Ok (c, st') -> Inv st -> l_q st = base ++ Lq -> map fst Lq = loc ->
  exists Lq', l_q st' = base ++ Lq' /\ map fst Lq' = loc'.
Definition qfact_block (b : block) : Prop :=
  forall loc loc', qb b loc = Some loc' -> bplain b = true -> bnoepr b = true ->
  forall st c st' base Lq,
  lower_block true b st = Ok (c, st') -> Inv st -> l_q st = base ++ Lq -> map fst Lq = loc ->
  exists Lq', l_q st' = base ++ Lq' /\ map fst Lq' = loc'.

Lemma body_restores : forall b, qfact_block b -> bplain b = true -> bnoepr b = true -> wf_body b = true ->
  forall st c st', lower_block true b st = Ok (c, st') -> Inv st -> l_q st' = l_q st.
Proof.
  intros b Q Hp He Hw st c st' H I. unfold wf_body in Hw.
  destruct (qb b []) as [[|x l]|] eqn:E; try discriminate.
  destruct (Q [] [] E Hp He st c st' (l_q st) [] H I) as (Lq' & E1 & E2); [rewrite app_nil_r; reflexivity|reflexivity|].
  destruct Lq'; [|discriminate]. rewrite app_nil_r in E1. exact E1.
Qed.

Ltac inv_ok H := inversion H; subst; clear H.

Theorem qubit_facts : (forall s, qfact_stmt s) /\ (forall b, qfact_block b).
Proof.
  apply stmt_block_ind; unfold qfact_stmt, qfact_block.
  - (* SNewQubit *) intros q loc loc' Hq _ _ st c st' base Lq H I E <-. cbn [qs] in Hq.
    destruct (memn q (map fst Lq)); [discriminate|]. inv_ok Hq. cbn [lower_stmt] in H.
    destruct (alook q (l_q st)); [discriminate|]. inv_ok H. cbn [l_q with_qs].
    exists (Lq ++ [(q, new_qubit_id st)]). rewrite E, map_app. split; [apply app_assoc_reverse|reflexivity].
  - intros g q loc loc' Hq _ _ st c st' base Lq H I E <-. inv_ok Hq. cbn [lower_stmt] in H.
    destruct (qubit_id q st); cbn [bind] in H; [|discriminate]. inv_ok H. eauto.
  - intros ax q n d loc loc' Hq _ _ st c st' base Lq H I E <-. inv_ok Hq. cbn [lower_stmt] in H.
    destruct (qubit_id q st); cbn [bind] in H; [|discriminate]. inv_ok H. eauto.
  - intros t q1 q2 loc loc' Hq _ _ st c st' base Lq H I E <-. inv_ok Hq. cbn [lower_stmt] in H.
    destruct (qubit_id q1 st); cbn [bind] in H; [|discriminate].
    destruct (qubit_id q2 st); cbn [bind] in H; [|discriminate]. inv_ok H. eauto.
  - (* SMeasFut *) intros q ip a ix loc loc' Hq _ _ st c st' base Lq H I E <-. cbn [lower_stmt] in H.
    destruct (low_ix ix st); cbn [bind] in H; [|discriminate].
    destruct (low_meas q ip false st) as [[[m c0] s1]|] eqn:Em; cbn [bind] in H; [|discriminate]. inv_ok H.
    destruct (low_meas_facts _ _ _ _ _ _ _ Em) as (id & _ & _ & Q1 & _). rewrite Q1.
    destruct ip; cbn [qs] in Hq.
    + inv_ok Hq. eauto.
    + destruct (memn q (map fst Lq)) eqn:Mq; [|discriminate]. inv_ok Hq.
      apply (consume_local st base Lq q (i_qn _ I) E Mq).
  - (* SMeasNew *) intros q ip a loc loc' Hq _ _ st c st' base Lq H I E <-. cbn [lower_stmt] in H.
    destruct (declare a 1 None st) as [s0|] eqn:Ed; cbn [bind] in H; [|discriminate].
    destruct (low_meas q ip false s0) as [[[m c0] s1]|] eqn:Em; cbn [bind] in H; [|discriminate]. inv_ok H.
    destruct (low_meas_facts _ _ _ _ _ _ _ Em) as (id & _ & _ & Q1 & _). rewrite Q1.
    destruct (declare_facts _ _ _ _ _ Ed) as (_ & _ & _ & _ & _ & _ & Q0 & _).
    destruct (Inv_declare _ _ _ _ _ Ed I) as [I0 _].
    destruct ip; cbn [qs] in Hq.
    + inv_ok Hq. rewrite Q0. eauto.
    + destruct (memn q (map fst Lq)) eqn:Mq; [|discriminate]. inv_ok Hq.
      apply (consume_local s0 base Lq q (i_qn _ I0)); [congruence|exact Mq].
  - (* SMeasReg *) intros q ip r loc loc' Hq _ _ st c st' base Lq H I E <-. cbn [lower_stmt] in H.
    destruct (alook r (l_rf st)); [discriminate|].
    destruct (low_meas q ip true st) as [[[m c0] s1]|] eqn:Em; cbn [bind] in H; [|discriminate]. inv_ok H.
    destruct (low_meas_facts _ _ _ _ _ _ _ Em) as (id & _ & _ & Q1 & _). cbn [bind_rf l_q]. rewrite Q1.
    destruct ip; cbn [qs] in Hq.
    + inv_ok Hq. eauto.
    + destruct (memn q (map fst Lq)) eqn:Mq; [|discriminate]. inv_ok Hq.
      apply (consume_local st base Lq q (i_qn _ I) E Mq).
  - (* SFree *) intros q loc loc' Hq _ _ st c st' base Lq H I E <-. cbn [qs] in Hq.
    destruct (memn q (map fst Lq)) eqn:Mq; [|discriminate]. inv_ok Hq. cbn [lower_stmt] in H.
    destruct (qubit_id q st); cbn [bind] in H; [|discriminate]. inv_ok H. cbn.
    apply (consume_local st base Lq q (i_qn _ I) E Mq).
  - intros a len init loc loc' Hq. discriminate.
  - (* SFutAdd *) intros a ix o m loc loc' Hq _ _ st c st' base Lq H I E <-. inv_ok Hq. cbn [lower_stmt] in H.
    destruct (low_ix ix st); cbn [bind] in H; [|discriminate].
    destruct (take st) as [[t s1]|] eqn:Ht; cbn [bind] in H; [|discriminate].
    destruct (low_src o s1) as [[[[lo y] ts] s2]|] eqn:Hs; cbn [bind] in H; [|discriminate].
    match type of H with Ok (_, ?X) = _ => assert (Es : st' = X) by (inversion H; reflexivity) end.
    assert (S : sba st st').
    { rewrite Es. eapply sba_trans; [eapply sba_take; eauto|].
      eapply sba_trans; [eapply low_src_sba; eauto|].
      eapply sba_trans; [apply sba_release|apply sba_release_all]. }
    destruct S as (_ & Q & _). rewrite Q. eauto.
  - (* SRegAdd *) intros r o m loc loc' Hq _ _ st c st' base Lq H I E <-. inv_ok Hq. cbn [lower_stmt] in H.
    destruct (rf_lookup r st) as [[[] k]|]; try discriminate.
    destruct (low_src o st) as [[[[lo y] ts] s1]|] eqn:Hs; cbn [bind] in H; [|discriminate].
    match type of H with Ok (_, ?X) = _ => assert (Es : st' = X) by (inversion H; reflexivity) end.
    assert (S : sba st st').
    { rewrite Es. eapply sba_trans; [eapply low_src_sba; eauto|apply sba_release_all]. }
    destruct S as (_ & Q & _). rewrite Q. eauto.
  - intros r init loc loc' Hq. discriminate.
  - intros r o m loc loc' Hq. discriminate.
  - (* SIf *) intros c cb x y body IH loc loc' Hq Hp He st code st' base Lq H I E <-.
    cbn [qs] in Hq. destruct (qb body []) as [[|? ?]|] eqn:Eb; try discriminate. inv_ok Hq.
    cbn [plain noepr] in Hp, He.
    assert (Hw : wf_body body = true) by (unfold wf_body; rewrite Eb; reflexivity).
    cbn [lower_stmt] in H.
    destruct (lower_block true body st) as [[cbody s1]|] eqn:Hb; cbn [bind] in H; [|discriminate].
    assert (Q1 := body_restores body IH Hp He Hw _ _ _ Hb I).
    assert (Fin : forall sF, sba s1 sF -> exists Lq', l_q sF = base ++ Lq' /\ map fst Lq' = map fst Lq).
    { intros sF (_ & Q & _). exists Lq. split; [congruence|reflexivity]. }
    destruct (is_nil cbody); [inv_ok H; apply Fin, sba_refl|].
    destruct (low_cval x s1) as [[[[lx px] tx] s2]|] eqn:Hx; cbn [bind] in H; [|discriminate].
    assert (Sx := low_cval_sba _ _ _ _ _ _ Hx).
    destruct c;
      try (inv_ok H; apply Fin; eapply sba_trans; [exact Sx|apply sba_release_all]);
      (destruct (low_cval y s2) as [[[[ly py] ty] s3]|] eqn:Hy; cbn [bind] in H; [|discriminate];
       inv_ok H; apply Fin;
       eapply sba_trans; [exact Sx|eapply sba_trans; [eapply low_cval_sba; eauto|apply sba_release_all]]).
  - (* SLoop *) intros cb v oreg start stop step body IH loc loc' Hq Hp He st code st' base Lq H I E <-.
    cbn [qs] in Hq. destruct (qb body []) as [[|? ?]|] eqn:Eb; try discriminate. inv_ok Hq.
    cbn [plain noepr] in Hp, He.
    assert (Hw : wf_body body = true) by (unfold wf_body; rewrite Eb; reflexivity).
    cbn [lower_stmt] in H.
    destruct (alook v (l_lv st)); [discriminate|].
    destruct (take_at oreg st) as [[r s1]|] eqn:Ht; cbn [bind] in H; [|discriminate].
    destruct (lower_block true body (bind_lvr v r s1)) as [[cbody s2]|] eqn:Hb; cbn [bind] in H; [|discriminate].
    assert (Q1 := body_restores body IH Hp He Hw _ _ _ Hb (Inv_bind_loop_at _ _ _ _ v Ht I)). cbn in Q1.
    destruct (sba_take_at _ _ _ _ Ht) as (_ & Q0 & _).
    exists Lq. split; [|reflexivity]. destruct (is_nil cbody); inv_ok H; cbn; congruence.
  - (* SForeach *) intros enum v a body IH loc loc' Hq Hp He st code st' base Lq H I E <-.
    cbn [qs] in Hq. destruct (qb body []) as [[|? ?]|] eqn:Eb; try discriminate. inv_ok Hq.
    cbn [plain noepr] in Hp, He.
    assert (Hw : wf_body body = true) by (unfold wf_body; rewrite Eb; reflexivity).
    cbn [lower_stmt] in H.
    destruct (alook a (l_len st)); [|discriminate].
    destruct (alook v (l_lv st)); [discriminate|].
    destruct (take st) as [[r s1]|] eqn:Ht; cbn [bind] in H; [|discriminate].
    destruct (lower_block true body (bind_lvr v r s1)) as [[cbody s2]|] eqn:Hb; cbn [bind] in H; [|discriminate].
    assert (Q1 := body_restores body IH Hp He Hw _ _ _ Hb (Inv_bind_loop _ _ _ v Ht I)). cbn in Q1.
    destruct (sba_take _ _ _ Ht) as (_ & Q0 & _).
    exists Lq. split; [|reflexivity]. destruct (is_nil cbody); inv_ok H; cbn; congruence.
  - (* SLoopUntil *) intros v maxit body IHb cx bound cleanup IHc loc loc' Hq Hp He st code st' base Lq H I E <-.
    cbn [qs] in Hq. destruct (qb body []) as [[|? ?]|] eqn:Eb; try discriminate.
    destruct (qb cleanup []) as [[|? ?]|] eqn:Ec; try discriminate. inv_ok Hq.
    cbn [plain noepr] in Hp, He. apply andb_prop in Hp. destruct Hp as [Hp1 Hp2].
    apply andb_prop in He. destruct He as [He1 He2].
    assert (Hw1 : wf_body body = true) by (unfold wf_body; rewrite Eb; reflexivity).
    assert (Hw2 : wf_body cleanup = true) by (unfold wf_body; rewrite Ec; reflexivity).
    cbn [lower_stmt] in H.
    destruct (alook v (l_lv st)); [discriminate|].
    destruct (take st) as [[r s1]|] eqn:Ht; cbn [bind] in H; [|discriminate].
    destruct (sba_take _ _ _ Ht) as (_ & Q0 & _).
    destruct (lower_block true body (bind_lvr v r s1)) as [[cbody s2]|] eqn:Hb; cbn [bind] in H; [|discriminate].
    assert (Ib := Inv_bind_loop _ _ _ v Ht I).
    assert (Q1 := body_restores body IHb Hp1 He1 Hw1 _ _ _ Hb Ib). cbn in Q1.
    exists Lq. split; [|reflexivity].
    destruct (is_nil cbody); [inv_ok H; cbn; congruence|].
    destruct (low_cval cx s2) as [[[[lx px] tx] s3]|] eqn:Hx; cbn [bind] in H; [|discriminate].
    assert (Hh := low_cval_held _ _ _ _ _ _ Hx).
    assert (S3 : sba s2 (release_all tx s3)) by (eapply sba_trans; [eapply sba_held; eauto|apply sba_release_all]).
    assert (A3 := proj1 (held_release _ _ _ Hh)).
    destruct (lower_block true cleanup (release_all tx s3)) as [[ccl s4]|] eqn:Hc; cbn [bind] in H; [|discriminate].
    destruct (proj2 lower_facts body Hp1 He1 _ _ _ Hb Ib) as [I2 _].
    assert (Q4 := body_restores cleanup IHc Hp2 He2 Hw2 _ _ _ Hc (Inv_sba _ _ S3 A3 I2)).
    destruct S3 as (_ & Q3 & _). inv_ok H. cbn. congruence.
  - intros k body IH loc loc' Hq. discriminate.
  - intros loc loc' Hq. discriminate.
  - (* SFutAddX *) intros a b n o m loc loc' Hq _ _ st c st' base Lq H I E <-. inv_ok Hq. cbn [lower_stmt] in H.
    destruct (take st) as [[t s1]|] eqn:Ht; cbn [bind] in H; [|discriminate].
    destruct (take s1) as [[ti s1i]|] eqn:Hti; cbn [bind] in H; [|discriminate].
    destruct (low_src o (release ti s1i)) as [[[[lo y] ts] s2]|] eqn:Hs; cbn [bind] in H; [|discriminate].
    match type of H with Ok (_, ?X) = _ => assert (Es : st' = X) by (inversion H; reflexivity) end.
    assert (S : sba st st').
    { rewrite Es. eapply sba_trans; [eapply sba_take; eauto|].
      eapply sba_trans; [eapply sba_take; eauto|].
      eapply sba_trans; [apply sba_release|].
      eapply sba_trans; [eapply low_src_sba; eauto|].
      eapply sba_trans; [apply sba_release|apply sba_release_all]. }
    destruct S as (_ & Q & _). rewrite Q. eauto.
  - (* SMeasFutX *) intros q ip a b n loc loc' Hq _ _ st c st' base Lq H I E <-. cbn [lower_stmt] in H.
    destruct (low_meas q ip false st) as [[[m c0] s1]|] eqn:Em; cbn [bind] in H; [|discriminate].
    destruct (take s1) as [[ti s1i]|] eqn:Hti; cbn [bind] in H; [|discriminate]. inv_ok H.
    destruct (low_meas_facts _ _ _ _ _ _ _ Em) as (id & _ & _ & Q1 & _).
    assert (S : sba s1 (release ti s1i)) by (eapply sba_trans; [eapply sba_take; eauto|apply sba_release]).
    destruct S as (_ & Q & _). rewrite Q, Q1.
    destruct ip; cbn [qs] in Hq.
    + inv_ok Hq. eauto.
    + destruct (memn q (map fst Lq)) eqn:Mq; [|discriminate]. inv_ok Hq.
      apply (consume_local st base Lq q (i_qn _ I) E Mq).
  - intros loc loc' Hq _ _ st c st' base Lq H I E <-. inv_ok Hq. inv_ok H. eauto.
  - intros s IHs b IHb loc loc' Hq Hp He st c st' base Lq H I E <-. cbn [qb] in Hq.
    destruct (qs s (map fst Lq)) as [l1|] eqn:E1; [|discriminate]. cbn [bplain bnoepr] in Hp, He.
    apply andb_prop in Hp. destruct Hp as [Hp1 Hp2]. apply andb_prop in He. destruct He as [He1 He2].
    cbn [lower_block] in H.
    destruct (lower_stmt true s st) as [[c1 s1]|] eqn:H1; cbn [bind] in H; [|discriminate].
    destruct (lower_block true b s1) as [[c2 s2]|] eqn:H2; cbn [bind] in H; [|discriminate]. inv_ok H.
    destruct (IHs _ _ E1 Hp1 He1 _ _ _ _ _ H1 I E eq_refl) as (L1 & EL1 & M1).
    destruct (proj1 lower_facts s Hp1 He1 _ _ _ H1 I) as [I1 _].
    exact (IHb _ _ Hq Hp2 He2 _ _ _ _ _ H2 I1 EL1 M1).
Qed.

Lemma body_q_restored : forall b st c st',
  bplain b = true -> bnoepr b = true -> wf_body b = true ->
  lower_block true b st = Ok (c, st') -> Inv st -> l_q st' = l_q st.
Proof. intros b st c st' Hp He Hw H I. eapply body_restores; eauto. apply qubit_facts. Qed.
