(* QMatAlgebra.v — a CONCRETE state space carrying the functorial action of exact
   matrices on lists of qubit ids that Proofs/QActProofs.v (C08) assumes.

   For every commutative ring R with omega^32 = -1 and 2 invertible (in particular the
   complex numbers, Proofs/ComplexInstance.v):

     QS      := amplitude functions  (Z -> bool) -> R  on the basis assignments of ALL
                qubit ids (respecting pointwise equality of assignments).  Every
                finite-register state vector is such a function (a cylinder function:
                it ignores the qubits outside the register), so this is "state vectors
                on n wires" for every n at once, and the action is total in the wire
                list W (the laws of QActProofs quantify over all duplicate-free W).
     act W U psi sigma := sum over l in {0,1}^|W| of
                U_R[index of sigma on W][index l] * psi (sigma with W := l)
                (U_R = image of the K32 matrix under keval; index = bits of W, first
                 wire most significant: the convention of QMat.embed)
     qeq     := equal up to a global phase omega^p

   Proved: act_mul (composition = matrix product), act_id, act_phase, act_embed
   (locality: the operator embedded on sub-wires ws of W acts as the operator on those
   qubits), act_proper, and qeq is an equivalence.  No axioms. *)
From Coq Require Import ZArith List Bool Lia Ring Ring_theory Arith FinFun.
From NQ Require Import Base.Cyclo Base.QMat Proofs.CycloProofs Proofs.QMatLift.
Import ListNotations.
Open Scope nat_scope.

(* ------------------------------------------------------------------ bit lists *)
Definition b2n (l : list bool) : nat :=
  fold_left (fun acc (b : bool) => 2 * acc + (if b then 1 else 0)) l 0.

Lemma fold_b2n_acc : forall l a,
  fold_left (fun acc (b : bool) => 2 * acc + (if b then 1 else 0)) l a = a * 2 ^ List.length l + b2n l.
Proof.
  induction l as [|b l IH]; intros a; unfold b2n in *; cbn [fold_left List.length].
  - cbn. lia.
  - rewrite IH. rewrite (IH (2 * 0 + (if b then 1 else 0))). cbn [Nat.pow]. destruct b; lia.
Qed.

Lemma b2n_cons : forall b l, b2n (b :: l) = (if b then 1 else 0) * 2 ^ List.length l + b2n l.
Proof. intros b l. unfold b2n at 1. cbn [fold_left]. rewrite fold_b2n_acc. destruct b; lia. Qed.

Lemma b2n_lt : forall l, b2n l < 2 ^ List.length l.
Proof.
  induction l as [|b l IH]; [cbn; lia|]. rewrite b2n_cons. cbn [List.length Nat.pow]. destruct b; lia.
Qed.

Fixpoint beqb (a b : list bool) : bool :=
  match a, b with
  | [], [] => true
  | x :: a', y :: b' => Bool.eqb x y && beqb a' b'
  | _, _ => false
  end.

Lemma b2n_eqb : forall a b, List.length a = List.length b -> Nat.eqb (b2n a) (b2n b) = beqb a b.
Proof.
  induction a as [|x a IH]; intros [|y b] H; cbn [List.length] in H; try discriminate; [reflexivity|].
  injection H as H. rewrite !b2n_cons, <- H. cbn [beqb]. rewrite <- (IH b H).
  pose proof (b2n_lt a) as La. pose proof (b2n_lt b) as Lb. rewrite <- H in Lb.
  destruct x, y; cbn [Bool.eqb andb];
    try (destruct (Nat.eqb (b2n a) (b2n b)) eqn:E;
         [apply Nat.eqb_eq in E; apply Nat.eqb_eq; lia | apply Nat.eqb_neq in E; apply Nat.eqb_neq; lia]);
    apply Nat.eqb_neq; lia.
Qed.

Lemma sub_index_b2n : forall n ws r, sub_index n ws r = b2n (map (bit n r) ws).
Proof.
  intros n ws r. unfold sub_index, b2n.
  assert (H : forall a, fold_left (fun acc j : nat => 2 * acc + (if bit n r j then 1 else 0)) ws a =
                        fold_left (fun acc (b : bool) => 2 * acc + (if b then 1 else 0)) (map (bit n r) ws) a).
  { induction ws as [|j ws IH]; intros a; cbn [fold_left map]; [reflexivity | apply IH]. }
  apply H.
Qed.

(* bit j (first = most significant) of the number of a bit list *)
Lemma testbit_top : forall (x : bool) k r, r < 2 ^ k ->
  Nat.testbit ((if x then 1 else 0) * 2 ^ k + r) k = x.
Proof.
  intros x k r Hr. rewrite Nat.testbit_eqb.
  rewrite Nat.div_add_l by (apply Nat.pow_nonzero; lia).
  rewrite (Nat.div_small r) by exact Hr. destruct x; reflexivity.
Qed.

Lemma testbit_low : forall (x : bool) k r i, i < k ->
  Nat.testbit ((if x then 1 else 0) * 2 ^ k + r) i = Nat.testbit r i.
Proof.
  intros x k r i Hi. rewrite !Nat.testbit_eqb.
  replace (2 ^ k) with (2 ^ (k - i) * 2 ^ i) by (rewrite <- Nat.pow_add_r; f_equal; lia).
  rewrite Nat.mul_assoc. rewrite Nat.div_add_l by (apply Nat.pow_nonzero; lia).
  replace (k - i) with (S (k - i - 1)) by lia. cbn [Nat.pow].
  replace ((if x then 1 else 0) * (2 * 2 ^ (k - i - 1)) + r / 2 ^ i)
    with (r / 2 ^ i + ((if x then 1 else 0) * 2 ^ (k - i - 1)) * 2) by lia.
  rewrite Nat.mod_add by lia. reflexivity.
Qed.

Lemma bit_b2n : forall l j, j < List.length l -> bit (List.length l) (b2n l) j = nth j l false.
Proof.
  unfold bit. induction l as [|b l IH]; intros j Hj; cbn [List.length] in *; [lia|].
  rewrite b2n_cons. destruct j as [|j].
  - replace (S (List.length l) - 1 - 0) with (List.length l) by lia.
    rewrite testbit_top by apply b2n_lt. reflexivity.
  - replace (S (List.length l) - 1 - S j) with (List.length l - 1 - j) by lia.
    rewrite testbit_low by lia. cbn [nth]. apply IH. lia.
Qed.

Lemma nth_skipn_add : forall (k d : nat) (s : list bool), nth d (skipn k s) false = nth (k + d) s false.
Proof.
  induction k as [|k IH]; intros d s; [reflexivity|]. destruct s as [|x s]; [destruct d; reflexivity|]. cbn [skipn]. apply IH.
Qed.

(* replace position j *)
Definition setb (j : nat) (b : bool) (s : list bool) : list bool := firstn j s ++ b :: skipn (S j) s.

Lemma setb_length : forall j b s, j < List.length s -> List.length (setb j b s) = List.length s.
Proof.
  intros j b s H. unfold setb. rewrite app_length, firstn_length_le by lia. cbn [List.length].
  rewrite skipn_length. lia.
Qed.

Lemma setb_nth_same : forall j b s, j < List.length s -> nth j (setb j b s) false = b.
Proof.
  intros j b s H. unfold setb. rewrite app_nth2; rewrite firstn_length_le by lia; [|lia].
  replace (j - j) with 0 by lia. reflexivity.
Qed.

Lemma setb_nth_other : forall j b s i, j < List.length s -> i <> j -> nth i (setb j b s) false = nth i s false.
Proof.
  intros j b s i H Hi. unfold setb. destruct (Nat.lt_ge_cases i j) as [L|G].
  - rewrite app_nth1 by (rewrite firstn_length_le; lia).
    rewrite <- (firstn_skipn j s) at 2. rewrite app_nth1 by (rewrite firstn_length_le; lia). reflexivity.
  - rewrite app_nth2 by (rewrite firstn_length_le; lia). rewrite firstn_length_le by lia.
    destruct (i - j) as [|d] eqn:E; [lia|]. cbn [nth]. rewrite nth_skipn_add. f_equal. lia.
Qed.

(* put the bits k at the positions ws of s *)
Fixpoint put (ws : list nat) (k : list bool) (s : list bool) : list bool :=
  match ws, k with
  | j :: ws', b :: k' => put ws' k' (setb j b s)
  | _, _ => s
  end.

Lemma put_length : forall ws k s, (forall j, In j ws -> j < List.length s) -> List.length (put ws k s) = List.length s.
Proof.
  induction ws as [|j ws IH]; intros k s H; cbn [put]; [reflexivity|]. destruct k as [|b k]; [reflexivity|].
  assert (Hj : j < List.length s) by (apply H; left; reflexivity).
  rewrite IH; [apply setb_length; exact Hj|]. intros i Hi. rewrite setb_length by exact Hj. apply H. right. exact Hi.
Qed.

Lemma put_nth_out : forall ws k s i, (forall j, In j ws -> j < List.length s) -> ~ In i ws ->
  nth i (put ws k s) false = nth i s false.
Proof.
  induction ws as [|j ws IH]; intros k s i H Hi; cbn [put]; [reflexivity|]. destruct k as [|b k]; [reflexivity|].
  assert (Hj : j < List.length s) by (apply H; left; reflexivity).
  rewrite IH.
  - apply setb_nth_other; [exact Hj|]. intros E. apply Hi. left. symmetry. exact E.
  - intros x Hx. rewrite setb_length by exact Hj. apply H. right. exact Hx.
  - intros Hx. apply Hi. right. exact Hx.
Qed.

Lemma put_nth_in : forall ws k s t, NoDup ws -> (forall j, In j ws -> j < List.length s) ->
  List.length k = List.length ws -> t < List.length ws ->
  nth (nth t ws 0) (put ws k s) false = nth t k false.
Proof.
  induction ws as [|j ws IH]; intros k s t Hnd H Hk Ht; cbn [List.length] in *; [lia|].
  destruct k as [|b k]; [discriminate|]. cbn [put]. inversion Hnd as [|? ? Hnj Hnd']; subst.
  assert (Hj : j < List.length s) by (apply H; left; reflexivity).
  assert (H' : forall x, In x ws -> x < List.length (setb j b s))
    by (intros x Hx; rewrite setb_length by exact Hj; apply H; right; exact Hx).
  destruct t as [|t]; cbn [nth].
  - rewrite put_nth_out by assumption. apply setb_nth_same. exact Hj.
  - apply IH; try assumption; cbn [List.length] in Hk; lia.
Qed.

(* ------------------------------------------------------------------ assignments *)
Fixpoint upd (sg : Z -> bool) (W : list Z) (l : list bool) : Z -> bool :=
  match W, l with
  | w :: W', b :: l' => fun q => if Z.eqb q w then b else upd sg W' l' q
  | _, _ => sg
  end.

Lemma upd_ext : forall W l sg sg', (forall q, sg q = sg' q) -> forall q, upd sg W l q = upd sg' W l q.
Proof.
  induction W as [|w W IH]; intros l sg sg' H q; cbn [upd]; [apply H|].
  destruct l as [|b l]; [apply H|]. destruct (Z.eqb q w); [reflexivity|]. apply IH. exact H.
Qed.

Lemma upd_out : forall W l sg q, ~ In q W -> upd sg W l q = sg q.
Proof.
  induction W as [|w W IH]; intros l sg q H; cbn [upd]; [reflexivity|]. destruct l as [|b l]; [reflexivity|].
  destruct (Z.eqb q w) eqn:E.
  - apply Z.eqb_eq in E. exfalso. apply H. left. symmetry. exact E.
  - apply IH. intros Hq. apply H. right. exact Hq.
Qed.

Lemma upd_nth : forall W l sg i, NoDup W -> List.length l = List.length W -> i < List.length W ->
  upd sg W l (nth i W 0%Z) = nth i l false.
Proof.
  induction W as [|w W IH]; intros l sg i Hnd Hl Hi; cbn [List.length] in *; [lia|].
  destruct l as [|b l]; [discriminate|]. inversion Hnd as [|? ? Hnw Hnd']; subst. cbn [upd].
  destruct i as [|i]; cbn [nth].
  - rewrite Z.eqb_refl. reflexivity.
  - destruct (Z.eqb (nth i W 0%Z) w) eqn:E.
    + apply Z.eqb_eq in E. exfalso. apply Hnw. rewrite <- E. apply nth_In. lia.
    + apply IH; try assumption; cbn [List.length] in Hl; lia.
Qed.

Lemma map_upd_self : forall W l sg, NoDup W -> List.length l = List.length W -> map (upd sg W l) W = l.
Proof.
  intros W l sg Hnd Hl. apply (nth_ext _ _ false false); [rewrite map_length; lia|].
  intros i Hi. rewrite map_length in Hi.
  rewrite (nth_indep _ false (upd sg W l 0%Z)) by (rewrite map_length; exact Hi).
  rewrite (map_nth (upd sg W l)). apply upd_nth; assumption.
Qed.

Lemma upd_base_irrel : forall W l tau tau' q, List.length l = List.length W ->
  (~ In q W -> tau q = tau' q) -> upd tau W l q = upd tau' W l q.
Proof.
  induction W as [|w W IH]; intros l tau tau' q Hl H; destruct l as [|b l]; cbn [List.length] in Hl; try discriminate.
  - cbn [upd]. apply H. intros [].
  - cbn [upd]. destruct (Z.eqb q w) eqn:E; [reflexivity|]. apply IH; [lia|].
    intros Hq. apply H. intros [Hw|Hw]; [|exact (Hq Hw)]. apply Z.eqb_neq in E. congruence.
Qed.

Lemma upd_upd : forall W l l' sg q, List.length l = List.length W ->
  upd (upd sg W l') W l q = upd sg W l q.
Proof.
  intros W l l' sg q Hl. apply upd_base_irrel; [exact Hl|]. intros Hq. apply upd_out. exact Hq.
Qed.

Lemma upd_self : forall W sg q, upd sg W (map sg W) q = sg q.
Proof.
  induction W as [|w W IH]; intros sg q; cbn [upd map]; [reflexivity|].
  destruct (Z.eqb q w) eqn:E; [apply Z.eqb_eq in E; subst; reflexivity | apply IH].
Qed.

Lemma nth_map_seq : forall (A : Type) (f : nat -> A) N i d, i < N -> nth i (map f (seq 0 N)) d = f i.
Proof.
  intros A f N i d H. rewrite (nth_indep _ d (f 0)) by (rewrite map_length, seq_length; exact H).
  rewrite (map_nth f). rewrite seq_nth by exact H. reflexivity.
Qed.

Lemma nth_map_in : forall (A B : Type) (f : A -> B) l i d d', i < List.length l -> nth i (map f l) d = f (nth i l d').
Proof.
  intros A B f l i d d' H. rewrite (nth_indep _ d (f d')) by (rewrite map_length; exact H). apply map_nth.
Qed.

Lemma dims_spec : forall r c A, dims_ok r c A = true ->
  List.length A = r /\ forall row, In row A -> List.length row = c.
Proof.
  intros r c A H. unfold dims_ok in H. apply andb_true_iff in H. destruct H as [H1 H2].
  apply Nat.eqb_eq in H1. rewrite forallb_forall in H2. split; [exact H1|].
  intros row Hr. apply Nat.eqb_eq. apply H2. exact Hr.
Qed.

Lemma dims_ok_square : forall m (f : nat -> nat -> K32),
  dims_ok m m (map (fun r => map (fun c => f r c) (seq 0 m)) (seq 0 m)) = true.
Proof.
  intros m f. unfold dims_ok. rewrite map_length, seq_length, Nat.eqb_refl. cbn [andb].
  apply forallb_forall. intros row Hr. apply in_map_iff in Hr. destruct Hr as [r [E _]]. subst row.
  rewrite map_length, seq_length. apply Nat.eqb_refl.
Qed.

(* ------------------------------------------------------------------ sums over a ring *)
Section Alg.
  Variable R : Type.
  Variables (rO rI : R) (radd rmul rsub : R -> R -> R) (ropp : R -> R).
  Hypothesis Rth : ring_theory rO rI radd rmul rsub ropp (@eq R).
  Variables (omega half : R).
  Hypothesis omega32 : opow R rI rmul omega 32 = ropp rI.
  Hypothesis half2 : rmul (radd rI rI) half = rI.

  Add Ring RringA : Rth.
  Local Notation "a [+] b" := (radd a b) (at level 50, left associativity).
  Local Notation "a [*] b" := (rmul a b) (at level 40, left associativity).
  Local Notation ev := (QMatLift.ev R rO rI radd rmul ropp omega half).
  Local Notation mev := (map (map ev)).
  Local Notation opw := (opow R rI rmul omega).

  Fixpoint sumbits (m : nat) (F : list bool -> R) : R :=
    match m with
    | O => F []
    | S m' => sumbits m' (fun l => F (false :: l)) [+] sumbits m' (fun l => F (true :: l))
    end.

  Lemma sumbits_ext : forall m F G, (forall l, List.length l = m -> F l = G l) -> sumbits m F = sumbits m G.
  Proof.
    induction m as [|m IH]; intros F G H; cbn [sumbits]; [apply H; reflexivity|].
    f_equal; apply IH; intros l Hl; apply H; cbn [List.length]; lia.
  Qed.

  Lemma sumbits_add : forall m F G, sumbits m (fun l => F l [+] G l) = sumbits m F [+] sumbits m G.
  Proof. induction m as [|m IH]; intros F G; cbn [sumbits]; [reflexivity|]. rewrite !IH. ring. Qed.

  Lemma sumbits_zero : forall m, sumbits m (fun _ => rO) = rO.
  Proof. induction m as [|m IH]; cbn [sumbits]; [reflexivity|]. rewrite IH. ring. Qed.

  Lemma sumbits_scale_l : forall m c F, c [*] sumbits m F = sumbits m (fun l => c [*] F l).
  Proof. induction m as [|m IH]; intros c F; cbn [sumbits]; [reflexivity|]. rewrite <- !IH. ring. Qed.

  Lemma sumbits_scale_r : forall m c F, sumbits m F [*] c = sumbits m (fun l => F l [*] c).
  Proof. induction m as [|m IH]; intros c F; cbn [sumbits]; [reflexivity|]. rewrite <- !IH. ring. Qed.

  Lemma sumbits_swap : forall m k (F : list bool -> list bool -> R),
    sumbits m (fun l => sumbits k (fun l' => F l l')) = sumbits k (fun l' => sumbits m (fun l => F l l')).
  Proof.
    induction m as [|m IH]; intros k F; cbn [sumbits]; [reflexivity|].
    rewrite !IH. rewrite <- sumbits_add. reflexivity.
  Qed.

  Lemma sumbits_delta : forall m s F, List.length s = m ->
    sumbits m (fun l => if beqb s l then F l else rO) = F s.
  Proof.
    induction m as [|m IH]; intros s F Hs.
    - destruct s; [reflexivity | discriminate].
    - destruct s as [|x s]; [discriminate|]. cbn [List.length] in Hs. cbn [sumbits beqb].
      destruct x; cbn [Bool.eqb andb].
      + rewrite sumbits_zero. rewrite (IH s (fun l => F (true :: l))) by lia. ring.
      + rewrite sumbits_zero. rewrite (IH s (fun l => F (false :: l))) by lia. ring.
  Qed.

  Fixpoint nsum (N : nat) (F : nat -> R) : R :=
    match N with O => rO | S N' => F 0 [+] nsum N' (fun i => F (S i)) end.

  Lemma nsum_ext : forall N F G, (forall i, i < N -> F i = G i) -> nsum N F = nsum N G.
  Proof.
    induction N as [|N IH]; intros F G H; cbn [nsum]; [reflexivity|].
    rewrite (H 0) by lia. f_equal. apply IH. intros i Hi. apply H. lia.
  Qed.

  Lemma nsum_split : forall a b F, nsum (a + b) F = nsum a F [+] nsum b (fun i => F (a + i)).
  Proof.
    induction a as [|a IH]; intros b F; cbn [nsum Nat.add].
    - rewrite (nsum_ext b (fun i => F i) F) by reflexivity. ring.
    - rewrite IH. ring.
  Qed.

  Lemma nsum_pow2 : forall m F, nsum (2 ^ m) F = sumbits m (fun l => F (b2n l)).
  Proof.
    induction m as [|m IH]; intros F.
    - cbn. ring.
    - replace (2 ^ S m) with (2 ^ m + 2 ^ m) by (cbn [Nat.pow]; lia).
      rewrite nsum_split, !IH. cbn [sumbits]. f_equal; apply sumbits_ext; intros l Hl; rewrite b2n_cons, Hl; f_equal; lia.
  Qed.

  (* ---------------------------------------------------------------- matrix entries *)
  Local Notation rget := (rget R rO).
  Local Notation rmm := (rmmul R rO radd rmul).
  Local Notation rvad := (rvadd R radd).
  Local Notation rvsc := (rvscale R rmul).
  Local Notation rrt := (rrow_times R radd rmul).

  Lemma rvadd_nth : forall u v c, List.length u = List.length v ->
    nth c (rvad u v) rO = nth c u rO [+] nth c v rO.
  Proof.
    induction u as [|a u IH]; intros [|b v] c H; cbn [List.length] in H; try discriminate.
    - cbn. destruct c; ring.
    - cbn [rvadd]. destruct c as [|c]; cbn [nth]; [reflexivity|]. apply IH. lia.
  Qed.

  Lemma rvadd_length : forall u v, List.length u = List.length v -> List.length (rvad u v) = List.length u.
  Proof.
    induction u as [|a u IH]; intros [|b v] H; cbn [List.length] in *; try discriminate; [reflexivity|].
    cbn [rvadd List.length]. f_equal. apply IH. lia.
  Qed.

  Lemma rvscale_nth : forall x y c, nth c (rvsc x y) rO = x [*] nth c y rO.
  Proof.
    intros x. induction y as [|a y IH]; intros c.
    - cbn. destruct c; ring.
    - cbn [rvscale map]. destruct c as [|c]; cbn [nth]; [reflexivity|]. apply IH.
  Qed.

  Fixpoint dotcol (a : list R) (Y : list (list R)) (c : nat) : R :=
    match a, Y with
    | x :: a', y :: Y' => x [*] nth c y rO [+] dotcol a' Y' c
    | _, _ => rO
    end.

  Lemma rrow_times_nth : forall a Y acc c,
    (forall y, In y Y -> List.length y = List.length acc) ->
    nth c (rrt a Y acc) rO = nth c acc rO [+] dotcol a Y c.
  Proof.
    induction a as [|x a IH]; intros Y acc c H; cbn [rrow_times dotcol]; [ring|].
    destruct Y as [|y Y]; [ring|].
    assert (Hy : List.length y = List.length acc) by (apply H; left; reflexivity).
    assert (Hl : List.length (rvad acc (rvsc x y)) = List.length acc).
    { apply rvadd_length. unfold rvscale. rewrite map_length. lia. }
    rewrite IH.
    - rewrite rvadd_nth by (unfold rvscale; rewrite map_length; lia). rewrite rvscale_nth. ring.
    - intros y' Hy'. rewrite Hl. apply H. right. exact Hy'.
  Qed.

  Lemma dotcol_nsum : forall a Y c K, List.length a = K -> List.length Y = K ->
    dotcol a Y c = nsum K (fun j => nth j a rO [*] nth c (nth j Y []) rO).
  Proof.
    induction a as [|x a IH]; intros Y c K Ha HY; cbn [List.length] in Ha; subst K.
    - reflexivity.
    - destruct Y as [|y Y]; [discriminate|]. cbn [List.length] in HY. cbn [dotcol nsum nth].
      f_equal. apply IH; [reflexivity | lia].
  Qed.

  Lemma rmmul_entry : forall X Y r c K CC,
    r < List.length X -> List.length (nth r X []) = K -> List.length Y = K ->
    (forall y, In y Y -> List.length y = CC) -> rncols R Y = CC ->
    rget (rmm X Y) r c = nsum K (fun j => rget X r j [*] rget Y j c).
  Proof.
    intros X Y r c K CC Hr Hrow HY Hrows Hnc. unfold QMatLift.rget, rmmul, rvec in *.
    rewrite (nth_map_in _ _ _ X r [] []) by exact Hr.
    rewrite rrow_times_nth by (intros y Hy; rewrite repeat_length, Hnc; apply Hrows; exact Hy).
    rewrite nth_repeat. rewrite (dotcol_nsum _ _ c K Hrow HY). ring.
  Qed.

  Lemma ev_mget : forall G r c, ev (mget G r c) = rget (mev G) r c.
  Proof. intros. apply (mev_get R rO rI radd rmul rsub ropp Rth omega half). Qed.

  Lemma E_mul : forall N B A r c, 0 < N -> r < N ->
    dims_ok N N B = true -> dims_ok N N A = true ->
    ev (mget (mmul B A) r c) = nsum N (fun j => ev (mget B r j) [*] ev (mget A j c)).
  Proof.
    intros N B A r c HN Hr HB HA. destruct N as [|N']; [lia|].
    rewrite ev_mget.
    rewrite (mmul_lift_dims R rO rI radd rmul rsub ropp Rth omega half omega32 half2 N' (S N') B A HA).
    destruct (dims_spec _ _ _ HB) as [HB1 HB2]. destruct (dims_spec _ _ _ HA) as [HA1 HA2].
    unfold mat, vec in *.
    rewrite (rmmul_entry (mev B) (mev A) r c (S N') (S N')).
    - apply nsum_ext. intros j Hj. rewrite !ev_mget. reflexivity.
    - rewrite map_length, HB1. exact Hr.
    - rewrite (nth_map_in _ _ _ B r [] []) by (rewrite HB1; exact Hr). rewrite map_length. apply HB2. apply nth_In. rewrite HB1. exact Hr.
    - rewrite map_length. exact HA1.
    - intros y Hy. apply in_map_iff in Hy. destruct Hy as [y' [E Hy']]. subst y. rewrite map_length. apply HA2. exact Hy'.
    - destruct A as [|a A]; [discriminate|]. cbn. rewrite map_length. apply HA2. left. reflexivity.
  Qed.

  Lemma E_id : forall N r c, r < N -> c < N -> ev (mget (mid N) r c) = if Nat.eqb r c then rI else rO.
  Proof.
    intros N r c Hr Hc. unfold mget, mid. rewrite nth_map_seq by exact Hr. rewrite nth_map_seq by exact Hc.
    destruct (Nat.eqb r c);
      [apply (ev_one R rO rI radd rmul rsub ropp Rth omega half) | apply (ev_zero R rO rI radd rmul rsub ropp Rth omega half)].
  Qed.

  Lemma E_scale : forall N x M r c, dims_ok N N M = true -> r < N -> c < N ->
    ev (mget (mscale x M) r c) = ev x [*] ev (mget M r c).
  Proof.
    intros N x M r c HM Hr Hc. destruct (dims_spec _ _ _ HM) as [H1 H2]. unfold mget, mscale, vscale, mat, vec in *.
    rewrite (nth_map_in _ _ _ M r [] []) by lia.
    rewrite (nth_map_in _ _ _ (nth r M []) c kzero kzero) by (rewrite H2; [exact Hc | apply nth_In; lia]).
    apply (ev_mul R rO rI radd rmul rsub ropp Rth omega half omega32 half2).
  Qed.

  Lemma E_embed : forall m ws G r c, r < 2 ^ m -> c < 2 ^ m ->
    ev (mget (embed m ws G) r c) =
      if same_outside m ws r c then ev (mget G (sub_index m ws r) (sub_index m ws c)) else rO.
  Proof.
    intros m ws G r c Hr Hc. unfold mget at 1, embed. rewrite nth_map_seq by exact Hr. rewrite nth_map_seq by exact Hc.
    destruct (same_outside m ws r c); [reflexivity | apply (ev_zero R rO rI radd rmul rsub ropp Rth omega half)].
  Qed.

  (* ---------------------------------------------------------------- states and the action *)
  Definition assignment := Z -> bool.
  Definition ext_fun (f : assignment -> R) : Prop :=
    forall sg sg', (forall q, sg q = sg' q) -> f sg = f sg'.

  Record qstate : Type := mkQ { amp : assignment -> R; amp_ext : ext_fun amp }.

  Definition actf (W : list Z) (U : mat) (f : assignment -> R) : assignment -> R :=
    fun sg => sumbits (List.length W)
                (fun l => ev (mget U (b2n (map sg W)) (b2n l)) [*] f (upd sg W l)).

  Lemma actf_ext : forall W U f, ext_fun f -> ext_fun (actf W U f).
  Proof.
    intros W U f Hf sg sg' H. unfold actf.
    rewrite (map_ext sg sg' H). apply sumbits_ext. intros l _. f_equal. apply Hf. apply upd_ext. exact H.
  Qed.

  Definition act (W : list Z) (U : mat) (psi : qstate) : qstate :=
    mkQ (actf W U (amp psi)) (actf_ext W U (amp psi) (amp_ext psi)).

  (* equal up to a global phase omega^p *)
  Definition qeq (a b : qstate) : Prop := exists p : nat, forall sg, amp a sg = opw p [*] amp b sg.

  Lemma opw_add : forall a b, opw (a + b) = opw a [*] opw b.
  Proof. apply (opow_add R rO rI radd rmul rsub ropp Rth omega). Qed.
  Lemma opw_mul64 : forall q, opw (64 * q) = rI.
  Proof. apply (opow_mul64 R rO rI radd rmul rsub ropp Rth omega omega32). Qed.

  Lemma qeq_refl : forall a, qeq a a.
  Proof. intros a. exists 0. intros sg. cbn [opow]. ring. Qed.

  Lemma qeq_sym : forall a b, qeq a b -> qeq b a.
  Proof.
    intros a b [p H]. exists (63 * p). intros sg. rewrite H.
    transitivity (opw (63 * p + p) [*] amp b sg); [|rewrite opw_add; ring].
    replace (63 * p + p) with (64 * p) by lia. rewrite opw_mul64. ring.
  Qed.

  Lemma qeq_trans : forall a b d, qeq a b -> qeq b d -> qeq a d.
  Proof.
    intros a b d [p H] [q H']. exists (p + q). intros sg. rewrite H, H', opw_add. ring.
  Qed.

  Lemma act_proper : forall W M a b, qeq a b -> qeq (act W M a) (act W M b).
  Proof.
    intros W M a b [p H]. exists p. intros sg. cbn [act amp]. unfold actf.
    rewrite sumbits_scale_l. apply sumbits_ext. intros l _. rewrite H. ring.
  Qed.

  Lemma idx_lt : forall (sg : assignment) W, b2n (map sg W) < 2 ^ List.length W.
  Proof. intros sg W. pose proof (b2n_lt (map sg W)) as H. rewrite map_length in H. exact H. Qed.

  Lemma b2n_lt_len : forall l m, List.length l = m -> b2n l < 2 ^ m.
  Proof. intros l m H. subst m. apply b2n_lt. Qed.

  Lemma pow2_pos' : forall m, 0 < 2 ^ m.
  Proof. intros m. pose proof (Nat.pow_nonzero 2 m). lia. Qed.

  (* composition *)
  Theorem act_mul : forall W A B psi, NoDup W ->
    dims_ok (2 ^ List.length W) (2 ^ List.length W) A = true ->
    dims_ok (2 ^ List.length W) (2 ^ List.length W) B = true ->
    qeq (act W (mmul B A) psi) (act W B (act W A psi)).
  Proof.
    intros W A B psi Hnd HA HB. exists 0. intros sg. cbn [opow act amp]. unfold actf.
    set (m := List.length W). set (s := b2n (map sg W)).
    assert (Hs : s < 2 ^ m) by apply idx_lt.
    transitivity (sumbits m (fun l => sumbits m (fun l' =>
                    ev (mget B s (b2n l')) [*] ev (mget A (b2n l') (b2n l)) [*] amp psi (upd sg W l)))).
    - apply sumbits_ext. intros l Hl.
      rewrite (E_mul (2 ^ m) B A s (b2n l) (pow2_pos' m) Hs HB HA).
      rewrite nsum_pow2. rewrite sumbits_scale_r. reflexivity.
    - rewrite sumbits_swap. rewrite <- (Rmul_1_l Rth (sumbits m _)) at 1.
      transitivity (sumbits m (fun l' => ev (mget B s (b2n l')) [*]
                      sumbits m (fun l => ev (mget A (b2n l') (b2n l)) [*] amp psi (upd sg W l)))).
      + rewrite (Rmul_1_l Rth). apply sumbits_ext. intros l' Hl'. rewrite sumbits_scale_l.
        apply sumbits_ext. intros l Hl. ring.
      + rewrite (Rmul_1_l Rth). apply sumbits_ext. intros l' Hl'. f_equal.
        rewrite (map_upd_self W l' sg Hnd Hl'). apply sumbits_ext. intros l Hl. f_equal.
        apply (amp_ext psi). intros q. symmetry. apply upd_upd. exact Hl.
  Qed.

  (* identity *)
  Theorem act_id : forall W psi, NoDup W -> qeq (act W (mid (2 ^ List.length W)) psi) psi.
  Proof.
    intros W psi Hnd. exists 0. intros sg. cbn [opow act amp]. unfold actf.
    set (m := List.length W).
    transitivity (sumbits m (fun l => if beqb (map sg W) l then amp psi (upd sg W l) else rO)).
    - apply sumbits_ext. intros l Hl.
      rewrite (E_id (2 ^ m) _ _ (idx_lt sg W) (b2n_lt_len l m Hl)).
      rewrite b2n_eqb by (rewrite map_length; symmetry; exact Hl).
      destruct (beqb (map sg W) l); ring.
    - rewrite sumbits_delta by apply map_length.
      rewrite (amp_ext psi (upd sg W (map sg W)) sg (upd_self W sg)). ring.
  Qed.

  (* global phase *)
  Theorem act_phase : forall W p M psi, NoDup W ->
    dims_ok (2 ^ List.length W) (2 ^ List.length W) M = true ->
    qeq (act W (mscale (kw p) M) psi) (act W M psi).
  Proof.
    intros W p M psi Hnd HM. exists p. intros sg. cbn [act amp]. unfold actf.
    rewrite sumbits_scale_l. apply sumbits_ext. intros l Hl.
    rewrite (E_scale _ (kw p) M _ _ HM (idx_lt sg W) (b2n_lt_len l _ Hl)).
    rewrite (ev_kw R rO rI radd rmul rsub ropp Rth omega half omega32). ring.
  Qed.

  (* ---------------------------------------------------------------- locality *)
  Definition sel (ws : list nat) (l : list bool) : list bool := map (fun j => nth j l false) ws.
  Definition agree (m : nat) (ws : list nat) (s l : list bool) : bool :=
    forallb (fun j => existsb (Nat.eqb j) ws || Bool.eqb (nth j s false) (nth j l false)) (seq 0 m).

  Lemma forallb_ext_in : forall (A : Type) (f g : A -> bool) l,
    (forall x, In x l -> f x = g x) -> forallb f l = forallb g l.
  Proof.
    intros A f g l. induction l as [|x l IH]; intros H; cbn [forallb]; [reflexivity|].
    rewrite (H x) by (left; reflexivity). rewrite IH; [reflexivity|]. intros y Hy. apply H. right. exact Hy.
  Qed.

  Lemma same_outside_agree : forall ws s l, List.length l = List.length s ->
    same_outside (List.length s) ws (b2n s) (b2n l) = agree (List.length s) ws s l.
  Proof.
    intros ws s l Hl. unfold same_outside, agree. apply forallb_ext_in. intros j Hj. apply in_seq in Hj.
    rewrite (bit_b2n s j) by lia. rewrite <- Hl at 1. rewrite (bit_b2n l j) by lia. reflexivity.
  Qed.

  Lemma sub_index_sel : forall ws l, (forall j, In j ws -> j < List.length l) ->
    sub_index (List.length l) ws (b2n l) = b2n (sel ws l).
  Proof.
    intros ws l H. rewrite sub_index_b2n. unfold sel. f_equal. apply map_ext_in. intros j Hj.
    apply bit_b2n. apply H. exact Hj.
  Qed.

  Lemma forallb_map : forall (A B : Type) (f : B -> bool) (g : A -> B) l,
    forallb f (map g l) = forallb (fun x => f (g x)) l.
  Proof. intros A B f g l. induction l as [|x l IH]; cbn [map forallb]; [reflexivity | rewrite IH; reflexivity]. Qed.

  Lemma agree_nil : forall s l, List.length l = List.length s -> agree (List.length s) [] s l = beqb s l.
  Proof.
    unfold agree. induction s as [|x s IH]; intros [|y l] Hl; cbn [List.length] in Hl; try discriminate; [reflexivity|].
    cbn [List.length seq forallb existsb orb nth beqb]. f_equal.
    rewrite <- seq_shift, forallb_map. cbn [nth]. apply IH. lia.
  Qed.

  Lemma existsb_in : forall i ws, existsb (Nat.eqb i) ws = true <-> In i ws.
  Proof.
    intros i ws. rewrite existsb_exists. split.
    - intros [x [Hx E]]. apply Nat.eqb_eq in E. subst. exact Hx.
    - intros H. exists i. split; [exact H | apply Nat.eqb_refl].
  Qed.

  Lemma agree_step : forall m j ws s l b, j < m -> ~ In j ws -> List.length s = m ->
    agree m ws (setb j b s) l = agree m (j :: ws) s l && Bool.eqb b (nth j l false).
  Proof.
    intros m j ws s l b Hj Hnj Hs. apply eq_true_iff_eq. unfold agree.
    rewrite andb_true_iff, !forallb_forall. split.
    - intros H. split.
      + intros i Hi. specialize (H i Hi). apply in_seq in Hi. cbn [existsb].
        destruct (Nat.eqb i j) eqn:E; [reflexivity|]. apply Nat.eqb_neq in E.
        rewrite setb_nth_other in H by lia. exact H.
      + specialize (H j ltac:(apply in_seq; lia)).
        assert (Hex : existsb (Nat.eqb j) ws = false).
        { destruct (existsb (Nat.eqb j) ws) eqn:E; [|reflexivity]. apply existsb_in in E. contradiction. }
        rewrite Hex, setb_nth_same in H by lia. exact H.
    - intros [H1 H2] i Hi. pose proof (H1 i Hi) as H. apply in_seq in Hi. cbn [existsb] in H.
      destruct (Nat.eq_dec i j) as [->|Hne].
      + rewrite setb_nth_same by lia. rewrite H2. apply orb_true_r.
      + rewrite setb_nth_other by lia. destruct (Nat.eqb i j) eqn:E; [apply Nat.eqb_eq in E; contradiction | exact H].
  Qed.

  (* sum over the assignments that agree with s outside ws = sum over the bits put at ws *)
  Lemma reindex : forall ws m s (H : list bool -> R), NoDup ws -> (forall j, In j ws -> j < m) ->
    List.length s = m ->
    sumbits m (fun l => if agree m ws s l then H l else rO) =
    sumbits (List.length ws) (fun k => H (put ws k s)).
  Proof.
    induction ws as [|j ws IH]; intros m s H Hnd Hr Hs.
    - cbn [List.length sumbits put]. rewrite <- (sumbits_delta m s H Hs). apply sumbits_ext. intros l Hl.
      subst m. rewrite agree_nil by exact Hl. reflexivity.
    - inversion Hnd as [|? ? Hnj Hnd']; subst.
      assert (Hj : j < List.length s) by (apply Hr; left; reflexivity).
      assert (Hr' : forall x, In x ws -> x < List.length s) by (intros x Hx; apply Hr; right; exact Hx).
      cbn [List.length sumbits put].
      rewrite <- (IH (List.length s) (setb j false s) H Hnd' Hr' (setb_length j false s Hj)).
      rewrite <- (IH (List.length s) (setb j true s) H Hnd' Hr' (setb_length j true s Hj)).
      rewrite <- sumbits_add. apply sumbits_ext. intros l Hl.
      rewrite !(agree_step (List.length s) j ws s l) by auto.
      destruct (agree (List.length s) (j :: ws) s l); destruct (nth j l false); cbn [andb Bool.eqb]; ring.
  Qed.

  Lemma sel_put : forall ws k s, NoDup ws -> (forall j, In j ws -> j < List.length s) ->
    List.length k = List.length ws -> sel ws (put ws k s) = k.
  Proof.
    intros ws k s Hnd Hr Hk. unfold sel. apply (nth_ext _ _ false false); [rewrite map_length; lia|].
    intros t Ht. rewrite map_length in Ht.
    rewrite (nth_map_in _ _ (fun j => nth j (put ws k s) false) ws t false 0) by exact Ht.
    apply put_nth_in; assumption.
  Qed.

  Definition subwires (W : list Z) (ws : list nat) : list Z := map (fun i => nth i W 0%Z) ws.

  Lemma subwires_nodup : forall W ws, NoDup W -> NoDup ws -> (forall j, In j ws -> j < List.length W) ->
    NoDup (subwires W ws).
  Proof.
    intros W. induction ws as [|j ws IH]; intros HW Hws Hr; cbn [subwires map]; [constructor|].
    inversion Hws as [|? ? Hnj Hws']; subst. constructor.
    - intros Hin. apply in_map_iff in Hin. destruct Hin as [j' [E Hj']].
      assert (j' = j).
      { apply (proj1 (NoDup_nth W 0%Z) HW); [apply Hr; right; exact Hj' | apply Hr; left; reflexivity | exact E]. }
      subst j'. contradiction.
    - apply IH; [exact HW | exact Hws' | intros x Hx; apply Hr; right; exact Hx].
  Qed.

  Lemma map_subwires : forall (sg : assignment) W ws, (forall j, In j ws -> j < List.length W) ->
    map sg (subwires W ws) = sel ws (map sg W).
  Proof.
    intros sg W ws Hr. unfold subwires, sel. rewrite map_map. apply map_ext_in. intros j Hj.
    symmetry. apply (nth_map_in _ _ sg W j false 0%Z). apply Hr. exact Hj.
  Qed.

  Lemma upd_put : forall (sg : assignment) W ws k q, NoDup W -> NoDup ws ->
    (forall j, In j ws -> j < List.length W) -> List.length k = List.length ws ->
    upd sg W (put ws k (map sg W)) q = upd sg (subwires W ws) k q.
  Proof.
    intros sg W ws k q HW Hws Hr Hk.
    assert (Hr' : forall j, In j ws -> j < List.length (map sg W)) by (intros j Hj; rewrite map_length; apply Hr; exact Hj).
    assert (Hpl : List.length (put ws k (map sg W)) = List.length W) by (rewrite put_length by exact Hr'; apply map_length).
    assert (HV : NoDup (subwires W ws)) by (apply subwires_nodup; assumption).
    destruct (in_dec Z.eq_dec q W) as [Hq|Hq].
    - destruct (In_nth W q 0%Z Hq) as [i [Hi Ei]]. subst q.
      rewrite (upd_nth W _ sg i HW Hpl Hi).
      destruct (in_dec Nat.eq_dec i ws) as [Hiw|Hiw].
      + destruct (In_nth ws i 0 Hiw) as [t [Ht Et]]. subst i.
        rewrite put_nth_in by assumption.
        assert (Ev : nth (nth t ws 0) W 0%Z = nth t (subwires W ws) 0%Z).
        { unfold subwires. symmetry. apply (nth_map_in _ _ (fun i => nth i W 0%Z) ws t 0%Z 0). exact Ht. }
        rewrite Ev. symmetry. apply upd_nth; [exact HV | unfold subwires; rewrite map_length; exact Hk |
                                              unfold subwires; rewrite map_length; exact Ht].
      + rewrite put_nth_out by assumption.
        rewrite (nth_map_in _ _ sg W i false 0%Z) by exact Hi.
        symmetry. apply upd_out. intros Hin. unfold subwires in Hin. apply in_map_iff in Hin.
        destruct Hin as [j [E Hj]].
        assert (j = i) by (apply (proj1 (NoDup_nth W 0%Z) HW); [apply Hr; exact Hj | exact Hi | exact E]).
        subst j. contradiction.
    - rewrite upd_out by exact Hq. symmetry. apply upd_out. intros Hin. apply Hq.
      unfold subwires in Hin. apply in_map_iff in Hin. destruct Hin as [j [E Hj]]. subst q. apply nth_In. apply Hr. exact Hj.
  Qed.

  Lemma nodupb_NoDup : forall l, nodupb l = true -> NoDup l.
  Proof.
    induction l as [|x l IH]; intros H; [constructor|]. cbn [nodupb] in H. apply andb_true_iff in H.
    destruct H as [H1 H2]. constructor; [|apply IH; exact H2].
    intros Hin. apply existsb_in in Hin. rewrite Hin in H1. discriminate.
  Qed.

  Theorem act_embed : forall W ws G psi, NoDup W -> embed_ok (List.length W) ws G = true ->
    qeq (act W (embed (List.length W) ws G) psi) (act (map (fun i => nth i W 0%Z) ws) G psi).
  Proof.
    intros W ws G psi HW Hok. unfold embed_ok in Hok.
    apply andb_true_iff in Hok. destruct Hok as [Hok _]. apply andb_true_iff in Hok. destruct Hok as [Hr Hnd].
    assert (Hr' : forall j, In j ws -> j < List.length W).
    { intros j Hj. rewrite forallb_forall in Hr. apply Nat.ltb_lt. apply Hr. exact Hj. }
    apply nodupb_NoDup in Hnd.
    exists 0. intros sg. cbn [opow act amp]. unfold actf. fold (subwires W ws).
    set (m := List.length W). set (s := map sg W).
    assert (Hs : List.length s = m) by apply map_length.
    assert (Hrs : forall j, In j ws -> j < List.length s) by (intros j Hj; rewrite Hs; apply Hr'; exact Hj).
    transitivity (sumbits m (fun l => if agree m ws s l
                    then ev (mget G (b2n (sel ws s)) (b2n (sel ws l))) [*] amp psi (upd sg W l) else rO)).
    - apply sumbits_ext. intros l Hl.
      rewrite (E_embed m ws G (b2n s) (b2n l) (b2n_lt_len s m Hs) (b2n_lt_len l m Hl)).
      rewrite <- Hs. rewrite same_outside_agree by lia.
      rewrite (sub_index_sel ws s Hrs).
      replace (List.length s) with (List.length l) at 2 by lia.
      rewrite (sub_index_sel ws l) by (intros j Hj; rewrite Hl; apply Hr'; exact Hj).
      destruct (agree (List.length s) ws s l); ring.
    - rewrite (reindex ws m s (fun l => ev (mget G (b2n (sel ws s)) (b2n (sel ws l))) [*] amp psi (upd sg W l))
                 Hnd Hr' Hs).
      unfold subwires at 1. rewrite map_length. fold (subwires W ws).
      transitivity (sumbits (List.length ws) (fun k =>
                      ev (mget G (b2n (map sg (subwires W ws))) (b2n k)) [*] amp psi (upd sg (subwires W ws) k)));
        [|ring].
      apply sumbits_ext. intros k Hk.
      rewrite (sel_put ws k s Hnd Hrs Hk). rewrite (map_subwires sg W ws Hr'). fold s. f_equal.
      apply (amp_ext psi). intros q. unfold s. apply upd_put; assumption.
  Qed.
  (* projective measurement with a recorded outcome: keep the amplitudes of the assignments in
     which qubit q has the value b (unnormalised post-measurement state; its squared norm is the
     probability of that outcome) *)
  Definition proj_q (q : Z) (b : bool) (psi : qstate) : qstate.
  Proof.
    refine (mkQ (fun sg => if Bool.eqb (sg q) b then amp psi sg else rO) _).
    intros sg sg' H. rewrite (H q). destruct (Bool.eqb (sg' q) b); [apply (amp_ext psi); exact H | reflexivity].
  Defined.

  Lemma proj_q_proper : forall q b x y, qeq x y -> qeq (proj_q q b x) (proj_q q b y).
  Proof.
    intros q b x y [p H]. exists p. intros sg. cbn [proj_q amp].
    destruct (Bool.eqb (sg q) b); [apply H | ring].
  Qed.
End Alg.

(* ---- rotation operators as total functions of the immediates: the exact matrix on
   representable angles (0 <= n, 0 <= d <= 4), the identity elsewhere (never used by
   a table row) ---- *)
Definition rot_opK (a : axis) (n d : Z) : mat :=
  match half_units n d with Some k => rot_k a k | None => mid 2 end.
Definition crot_opK (a : axis) (n d : Z) : mat :=
  match half_units n d with Some k => crot_k a k | None => mid 4 end.

Lemma rot_exactK : forall a n d k, half_units n d = Some k -> rot_opK a n d = rot_k a k.
Proof. intros a n d k H. unfold rot_opK. rewrite H. reflexivity. Qed.
Lemma crot_exactK : forall a n d k, half_units n d = Some k -> crot_opK a n d = crot_k a k.
Proof. intros a n d k H. unfold crot_opK. rewrite H. reflexivity. Qed.

Lemma half_units_hw : forall n d, (0 <= d <= 4)%Z -> half_units (n * 2 ^ (4 - d)) 4 = half_units n d.
Proof.
  intros n d Hd. unfold half_units.
  assert (P : (0 < 2 ^ (4 - d))%Z) by (apply Z.pow_pos_nonneg; lia).
  replace (0 <=? d)%Z with true by (symmetry; apply Z.leb_le; lia).
  replace (d <=? 4)%Z with true by (symmetry; apply Z.leb_le; lia).
  replace (0 <=? 4)%Z with true by reflexivity. replace (4 <=? 4)%Z with true by reflexivity.
  replace (4 - 4)%Z with 0%Z by reflexivity. rewrite Z.pow_0_r, Z.mul_1_r.
  replace (0 <=? n * 2 ^ (4 - d))%Z with (0 <=? n)%Z; [reflexivity|].
  destruct (0 <=? n)%Z eqn:E.
  - apply Z.leb_le in E. symmetry. apply Z.leb_le. apply Z.mul_nonneg_nonneg; lia.
  - apply Z.leb_gt in E. symmetry. apply Z.leb_gt. apply Z.mul_neg_pos; lia.
Qed.

Lemma rot_angle_onlyK : forall a n d, (0 <= d <= 4)%Z -> rot_opK a (n * 2 ^ (4 - d)) 4 = rot_opK a n d.
Proof. intros a n d Hd. unfold rot_opK. rewrite half_units_hw by exact Hd. reflexivity. Qed.

(* ---- a concrete state and a non-trivial action: |0> on qubit 0 (a cylinder function:
   it ignores every other qubit); X on qubit 0 turns it into |1> ---- *)
Section Example.
  Variable R : Type.
  Variables (rO rI : R) (radd rmul rsub : R -> R -> R) (ropp : R -> R).
  Hypothesis Rth : ring_theory rO rI radd rmul rsub ropp (@eq R).
  Variables (omega half : R).
  Add Ring RringE : Rth.

  Definition ket0_q0 : qstate R.
  Proof.
    refine (mkQ R (fun sg => if sg 0%Z then rO else rI) _).
    intros sg sg' H. rewrite (H 0%Z). reflexivity.
  Defined.

  Lemma act_X_on_ket0 : forall sg,
    amp R (act R rO rI radd rmul ropp omega half [0%Z] gX ket0_q0) sg = if sg 0%Z then rI else rO.
  Proof.
    intros sg. cbn [act amp]. unfold actf. cbn [List.length sumbits map upd ket0_q0 amp Z.eqb].
    unfold b2n. cbn [fold_left].
    destruct (sg 0%Z); cbn [Nat.mul Nat.add]; unfold mget, gX, k0, k1; cbn [nth];
      rewrite ?(ev_one R rO rI radd rmul rsub ropp Rth omega half), ?(ev_zero R rO rI radd rmul rsub ropp Rth omega half); ring.
  Qed.
End Example.

(* ---- finite registers: a state vector v on n wires (a column of 2^n ring elements) is
   the cylinder function  sigma |-> v[index of sigma on qubits 0..n-1];  on such states
   the action of U on the wires ws IS the matrix-vector product (embed n ws U)_R . v ---- *)
Section Cylinder.
  Variable R : Type.
  Variables (rO rI : R) (radd rmul rsub : R -> R -> R) (ropp : R -> R).
  Hypothesis Rth : ring_theory rO rI radd rmul rsub ropp (@eq R).
  Variables (omega half : R).
  Hypothesis omega32 : opow R rI rmul omega 32 = ropp rI.
  Hypothesis half2 : rmul (radd rI rI) half = rI.
  Add Ring RringC : Rth.

  Local Notation ev := (QMatLift.ev R rO rI radd rmul ropp omega half).
  Local Notation mev := (map (map ev)).
  Local Notation Act := (act R rO rI radd rmul ropp omega half).
  Local Notation Qeq := (qeq R rI rmul omega).

  Definition register (n : nat) : list Z := map Z.of_nat (seq 0 n).

  Lemma register_length : forall n, List.length (register n) = n.
  Proof. intros n. unfold register. rewrite map_length, seq_length. reflexivity. Qed.

  Lemma register_nth : forall n i, i < n -> nth i (register n) 0%Z = Z.of_nat i.
  Proof. intros n i H. unfold register. rewrite (nth_map_seq _ Z.of_nat n i 0%Z H). reflexivity. Qed.

  Lemma register_nodup : forall n, NoDup (register n).
  Proof.
    intros n. unfold register. apply Injective_map_NoDup; [|apply seq_NoDup].
    intros a b H. apply Nat2Z.inj. exact H.
  Qed.

  Definition cyl (n : nat) (v : list R) : qstate R.
  Proof.
    refine (mkQ R (fun sg => nth (b2n (map sg (register n))) v rO) _).
    intros sg sg' H. rewrite (map_ext sg sg' H). reflexivity.
  Defined.

  (* matrix (over R) times column vector *)
  Definition rmatvec (M : list (list R)) (v : list R) : list R :=
    map (fun row => nsum R rO radd (List.length v) (fun j => rmul (nth j row rO) (nth j v rO))) M.

  (* the full-register action on a cylinder state is the matrix-vector product *)
  Theorem act_register_cyl : forall n M v sg,
    dims_ok (2 ^ n) (2 ^ n) M = true -> List.length v = 2 ^ n ->
    amp R (Act (register n) M (cyl n v)) sg = amp R (cyl n (rmatvec (mev M) v)) sg.
  Proof.
    intros n M v sg HM Hv. cbn [act amp cyl]. unfold actf. rewrite register_length.
    set (s := b2n (map sg (register n))).
    assert (Hs : s < 2 ^ n).
    { unfold s. pose proof (b2n_lt (map sg (register n))) as H. rewrite map_length, register_length in H. exact H. }
    destruct (dims_spec _ _ _ HM) as [HM1 HM2]. unfold mat, vec in *.
    unfold rmatvec. rewrite (nth_map_in _ _ _ (mev M) s rO []) by (rewrite map_length, HM1; exact Hs).
    rewrite Hv. rewrite (nsum_pow2 R rO rI radd rmul rsub ropp Rth).
    apply (sumbits_ext R radd). intros l Hl. f_equal.
    - unfold mget. rewrite (nth_map_in _ _ (map ev) M s [] []) by (rewrite HM1; exact Hs).
      assert (Hlt : b2n l < 2 ^ n) by (rewrite <- Hl; apply b2n_lt).
      symmetry. apply (nth_map_in _ _ ev (nth s M []) (b2n l) rO kzero).
      rewrite HM2; [exact Hlt | apply nth_In; rewrite HM1; exact Hs].
    - rewrite (map_upd_self (register n) l sg (register_nodup n)) by (rewrite register_length; exact Hl).
      reflexivity.
  Qed.

  (* hence: U on the wires ws of an n-qubit register acts as (embed n ws U) . v *)
  Theorem act_wires_cyl : forall n ws U v, embed_ok n ws U = true -> List.length v = 2 ^ n ->
    Qeq (Act (map Z.of_nat ws) U (cyl n v)) (cyl n (rmatvec (mev (embed n ws U)) v)).
  Proof.
    intros n ws U v Hok Hv.
    assert (Hr : forall j, In j ws -> j < n).
    { unfold embed_ok in Hok. apply andb_true_iff in Hok. destruct Hok as [Hok _].
      apply andb_true_iff in Hok. destruct Hok as [Hr _]. rewrite forallb_forall in Hr.
      intros j Hj. apply Nat.ltb_lt. apply Hr. exact Hj. }
    assert (Hsub : map (fun i => nth i (register n) 0%Z) ws = map Z.of_nat ws).
    { apply map_ext_in. intros j Hj. apply register_nth. apply Hr. exact Hj. }
    apply (qeq_sym R rO rI radd rmul rsub ropp Rth omega omega32).
    apply (qeq_trans R rO rI radd rmul rsub ropp Rth omega) with (b := Act (register n) (embed n ws U) (cyl n v)).
    - exists 0. intros sg. cbn [opow].
      rewrite <- (act_register_cyl n (embed n ws U) v sg); [ring | | exact Hv].
      unfold embed. apply dims_ok_square.
    - pose proof (act_embed R rO rI radd rmul rsub ropp Rth omega half (register n) ws U (cyl n v)
                    (register_nodup n)) as H.
      rewrite register_length in H. specialize (H Hok). rewrite Hsub in H. exact H.
  Qed.
End Cylinder.
