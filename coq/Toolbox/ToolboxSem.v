(* ToolboxSem.v — operator semantics of the SDK toolbox call sequences (model only).

   Unitary circuits (toffoli_gate, t_inverse) are QMat.circuit.  parity_meas is a
   gate list with one Z-basis measurement and optional result flips; its meaning
   is, per returned classical value r, the Kraus operator on the DATA qubits
   (ancilla, if any, is the last wire: prepared in |0>, measured, freed). *)
From Coq Require Import ZArith List Bool Arith.
From NQ Require Import Base.Cyclo Base.QMat.
Import ListNotations.

Inductive pauli := PI | PX | PY | PZ.
Definition pauli_mat (p : pauli) : mat :=
  match p with PI => mid 2 | PX => gX | PY => gY | PZ => gZ end.
Fixpoint pauli_string (ps : list pauli) : mat :=
  match ps with
  | [] => [[kone]]
  | p :: ps' => kron (pauli_mat p) (pauli_string ps')
  end.

Inductive tbop :=
| TG (o : qop)        (* unitary gate *)
| TMeas (q : nat) (keep : bool)
                      (* measure wire q in the computational basis; the result is the returned value m;
                         keep = measured in place (qubit stays allocated), otherwise the qubit is freed *)
| TFlip.              (* m := (m + 1) mod 2 *)

Record pmrow := mkPm {
  pm_bases : list pauli;
  pm_neg : bool;            (* the string started with '-' *)
  pm_anc : bool;            (* an ancilla (wire = number of data qubits) was created *)
  pm_ops : list tbop;
  pm_const : option bool }. (* Some c: no measurement, the constant c is returned *)

Definition pm_ndata (r : pmrow) : nat := List.length (pm_bases r).
Definition pm_nwires (r : pmrow) : nat := pm_ndata r + (if pm_anc r then 1 else 0).

Definition proj (b : bool) : mat :=
  if b then [[kzero; kzero]; [kzero; kone]] else [[kone; kzero]; [kzero; kzero]].
Definition bra (b : bool) : mat := if b then [[kzero; kone]] else [[kone; kzero]].

(* run the operations with physical measurement outcome b:
   (operator on all wires, number of measurements seen, accumulated result flip) *)
Fixpoint pm_run (n : nat) (b : bool) (ops : list tbop) (U : mat) (nmeas : nat) (flip : bool)
  : option (mat * nat * bool) :=
  match ops with
  | [] => Some (U, nmeas, flip)
  | TG o :: ops' =>
      match op_gate o with
      | Some (ws, G) => if embed_ok n ws G then pm_run n b ops' (mmul (embed n ws G) U) nmeas flip else None
      | None => None
      end
  | TMeas q _ :: ops' =>
      if Nat.ltb q n then pm_run n b ops' (mmul (embed n [q] (proj b)) U) (S nmeas) flip else None
  | TFlip :: ops' =>
      match nmeas with
      | O => None                          (* a flip before any result exists *)
      | _ => pm_run n b ops' U nmeas (negb flip)
      end
  end.

(* Kraus operator on the data qubits for physical outcome b, with the returned value *)
Definition pm_kraus (r : pmrow) (b : bool) : option (mat * bool) :=
  let n := pm_nwires r in
  match pm_run n b (pm_ops r) (mid (2 ^ n)) 0 false with
  | Some (U, 1%nat, flip) =>
      let nd := pm_ndata r in
      let D := if pm_anc r
               then mmul (kron (mid (2 ^ nd)) (bra b)) (mmul U (kron (mid (2 ^ nd)) ket0))
               else U in
      Some (D, xorb b flip)
  | _ => None
  end.

(* the documented operator for returned value m: (I + (-1)^(m xor neg) P) / 2 *)
Definition pm_expected (r : pmrow) (m : bool) : mat :=
  let P := pauli_string (pm_bases r) in
  let Id := mid (2 ^ pm_ndata r) in
  let sgn := if xorb m (pm_neg r) then kneg kone else kone in
  mscale khalf (madd Id (mscale sgn P)).

Definition mzero (n : nat) : mat := repeat (repeat kzero n) n.

(* the measured wire is the ancilla when there is one, and then it is NOT kept
   (measured and freed: after the call only the data qubits are allocated); a data
   qubit is measured in place *)
Definition pm_meas_wire_ok (r : pmrow) : bool :=
  forallb (fun o => match o with
                    | TMeas q keep => if pm_anc r then Nat.eqb q (pm_ndata r) && negb keep
                                      else Nat.ltb q (pm_ndata r) && keep
                    | _ => true end) (pm_ops r).

Definition pm_row_ok (r : pmrow) : bool :=
  pm_meas_wire_ok r &&
  match pm_const r with
  | Some c =>
      (* nothing is measured: the returned constant is certain and the state is untouched *)
      match pm_ops r with [] => true | _ => false end && negb (pm_anc r) &&
      meqb (pm_expected r c) (mid (2 ^ pm_ndata r)) &&
      meqb (pm_expected r (negb c)) (mzero (2 ^ pm_ndata r))
  | None =>
      match pm_kraus r false, pm_kraus r true with
      | Some (D0, m0), Some (D1, m1) =>
          meqb D0 (pm_expected r m0) && meqb D1 (pm_expected r m1) && xorb m0 m1
      | _, _ => false
      end
  end.

Definition pm_row_spec (r : pmrow) : Prop :=
  match pm_const r with
  | Some c => pm_ops r = [] /\ pm_anc r = false /\
              pm_expected r c = mid (2 ^ pm_ndata r) /\
              pm_expected r (negb c) = mzero (2 ^ pm_ndata r)
  | None => exists D0 m0 D1 m1,
              pm_kraus r false = Some (D0, m0) /\ pm_kraus r true = Some (D1, m1) /\
              D0 = pm_expected r m0 /\ D1 = pm_expected r m1 /\ m0 <> m1
  end.

Definition pm_bad_idx (rows : list pmrow) : list nat :=
  map fst (filter (fun p : nat * pmrow => negb (pm_row_ok (snd p))) (combine (seq 0 (List.length rows)) rows)).

(* every string over {I,X,Y,Z} of length 1..3, each with and without sign, in the
   translator's enumeration order *)
Definition all_paulis := [PI; PX; PY; PZ].
Fixpoint strings (n : nat) : list (list pauli) :=
  match n with
  | O => [[]]
  | S n' => flat_map (fun p => map (cons p) (strings n')) all_paulis
  end.
Definition all_keys : list (list pauli * bool) :=
  flat_map (fun s => [(s, false); (s, true)]) (strings 1 ++ strings 2 ++ strings 3).
Definition pauli_eqb (a b : pauli) : bool :=
  match a, b with PI, PI | PX, PX | PY, PY | PZ, PZ => true | _, _ => false end.
Fixpoint ps_eqb (a b : list pauli) : bool :=
  match a, b with
  | [], [] => true
  | x :: a', y :: b' => pauli_eqb x y && ps_eqb a' b'
  | _, _ => false
  end.
Definition keys_match (rows : list pmrow) : bool :=
  Nat.eqb (List.length rows) (List.length all_keys) &&
  forallb (fun p : pmrow * (list pauli * bool) =>
             ps_eqb (pm_bases (fst p)) (fst (snd p)) && Bool.eqb (pm_neg (fst p)) (snd (snd p)))
          (combine rows all_keys).

(* ---- reference operators ---- *)
Definition gTOFFOLI : mat :=
  map (fun r => map (fun c => if Nat.eqb (match r with 6 => 7 | 7 => 6 | _ => r end)%nat c then kone else kzero)
                    (seq 0 8)) (seq 0 8).
Definition gTdg : mat := [[kone; kzero]; [kzero; kw 56]].      (* diag(1, e^{-i pi/4}) *)

(* ---- set_qubit_state: symbolic rotations ---- *)
Inductive spangle := SpPhi | SpTheta.
Inductive sprot := SpRot (a : axis) (which : spangle).

(* Evaluation of a symbolic rotation list on an amplitude pair over ANY ring:
   chalf/shalf w = cos, sin of half the angle w; ehalf/einv w = e^{+i w/2}, e^{-i w/2}.
   Ry(w) = [[c, -s], [s, c]],  Rz(w) = diag(e^{-i w/2}, e^{+i w/2}).  X rotations
   are not used by set_qubit_state and are rejected (None). *)
Section SpEval.
  Variable R : Type.
  Variables (radd rmul rsub : R -> R -> R).
  Variables (chalf shalf ehalf einv : spangle -> R).
  Definition sp_step (r : sprot) (v : R * R) : option (R * R) :=
    match r with
    | SpRot AY w => Some (rsub (rmul (chalf w) (fst v)) (rmul (shalf w) (snd v)),
                          radd (rmul (shalf w) (fst v)) (rmul (chalf w) (snd v)))
    | SpRot AZ w => Some (rmul (einv w) (fst v), rmul (ehalf w) (snd v))
    | SpRot AX _ => None
    end.
  Fixpoint sp_eval (l : list sprot) (v : R * R) : option (R * R) :=
    match l with
    | [] => Some v
    | r :: l' => match sp_step r v with Some v' => sp_eval l' v' | None => None end
    end.
End SpEval.
