(* Exec.v — model of netqasm/backend/executor.py (+ sdk/shared_memory.py) for
   the core classical instructions.  It follows the code: an exception monad,
   the Python list primitives (negative indices wrap, slices clamp), the helper
   methods (_get_register, _expand_array_part, Arrays.__getitem__/__setitem__,
   _allocate_physical_qubit, ...), one definition per handler, the
   inc_program_counter decorator, and the dispatch of _execute_command (by
   mnemonic first, then by instruction class).  Quirks are modelled, not
   repaired.  No proofs in this file. *)
From Coq Require Import ZArith List Bool.
From NQ Require Import Exec.State.
Import ListNotations.
Open Scope Z_scope.

(* ------------------------------------------------------------------ exceptions *)
Inductive exc (A : Type) :=
| Ok (a : A)
| Raise (k : fkind)
| Block.                        (* _do_wait() called: the busy-wait loop would spin forever *)
Arguments Ok {A} a.
Arguments Raise {A} k.
Arguments Block {A}.

Definition bind {A B} (m : exc A) (f : A -> exc B) : exc B :=
  match m with Ok a => f a | Raise k => Raise k | Block => Block end.
Notation "x <- m ;; f" := (bind m (fun x => f)) (at level 61, m at next level, right associativity).

(* ------------------------------------------------------------------ Python lists *)
(* l[i]: negative i counts from the end; IndexError outside -len..len-1 *)
Definition py_index (len i : Z) : exc Z :=
  if i <? 0 then (if i + len <? 0 then Raise FIndex else Ok (i + len))
  else if len <=? i then Raise FIndex else Ok i.

Definition py_getitem {A} (l : list A) (i : Z) : exc A :=
  j <- py_index (Zlen l) i ;;
  match nth_error l (Z.to_nat j) with Some x => Ok x | None => Raise FIndex end.

Fixpoint list_set {A} (l : list A) (n : nat) (v : A) : list A :=
  match l, n with
  | [], _ => []
  | _ :: t, O => v :: t
  | h :: t, S n' => h :: list_set t n' v
  end.

Definition py_setitem {A} (l : list A) (i : Z) (v : A) : exc (list A) :=
  j <- py_index (Zlen l) i ;; Ok (list_set l (Z.to_nat j) v).

(* slice(start, stop).indices(len) with step 1 *)
Definition py_clamp (len x : Z) : Z :=
  if x <? 0 then Z.max (x + len) 0 else Z.min x len.
Definition py_getslice {A} (l : list A) (start stop : Z) : list A :=
  let s := py_clamp (Zlen l) start in
  let e := py_clamp (Zlen l) stop in
  if s <? e then firstn (Z.to_nat (e - s)) (skipn (Z.to_nat s) l) else [].

(* [None] * n  (n <= 0 gives []) *)
Definition py_repeat_none (n : Z) : list cell := repeat None (Z.to_nat n).

(* a % m = a - m * floor(a / m)   (Z.div is floor division) *)
Definition py_mod (a m : Z) : Z := a - m * (a / m).

Definition is_none (c : cell) : bool := match c with None => true | Some _ => false end.

(* ------------------------------------------------------------------ registers *)
(* RegisterGroup._assert_within_length *)
Definition assert_within_length (index : Z) : exc unit :=
  if (0 <=? index) && (index <? 16) then Ok tt else Raise FRegIndex.

(* Executor._get_register -> RegisterGroup.__getitem__ (dict.get: absent = None) *)
Definition get_register (st : state) (r : reg) : exc cell :=
  _ <- assert_within_length (snd r) ;; Ok (find reg_eqb r (regs st)).

(* Executor._set_register -> RegisterGroup.__setitem__ *)
Definition set_register (st : state) (r : reg) (v : Z) : exc state :=
  _ <- assert_within_length (snd r) ;; Ok (with_regs st (upd reg_eqb r v (regs st))).

(* ------------------------------------------------------------------ arrays *)
(* Executor._expand_array_part, ArrayEntry case *)
Definition expand_entry (st : state) (ix : opnd) : exc Z :=
  match ix with
  | OImm n => Ok n
  | OReg r => v <- get_register st r ;;
              match v with None => Raise FUndefReg | Some n => Ok n end
  end.

(* Executor._expand_array_part, ArraySlice case: start first, then stop *)
Definition expand_slice (st : state) (start stop : opnd) : exc (Z * Z) :=
  s <- expand_entry st start ;; e <- expand_entry st stop ;; Ok (s, e).

(* Arrays._get_array *)
Definition arrays_get_array (st : state) (a : Z) : exc (list cell) :=
  match find Z.eqb a (arrs st) with None => Raise FNoArray | Some l => Ok l end.

(* Arrays.__getitem__ with an int index: a missing array gives None (the
   IndexError of _get_array is swallowed), a bad index gives IndexError *)
Definition arrays_getitem (st : state) (a : Z) (i : Z) : exc cell :=
  match arrays_get_array st a with
  | Ok l => py_getitem l i
  | _ => Ok None
  end.

(* Arrays.__getitem__ with a slice: None for a missing array, never IndexError *)
Definition arrays_getslice (st : state) (a : Z) (s e : Z) : exc (option (list cell)) :=
  match arrays_get_array st a with
  | Ok l => Ok (Some (py_getslice l s e))
  | _ => Ok None
  end.

(* Arrays.__setitem__ with an int index: array[index] = value on the list object *)
Definition arrays_setitem (st : state) (a : Z) (i : Z) (v : cell) : exc state :=
  l <- arrays_get_array st a ;;
  l' <- py_setitem l i v ;;
  Ok (write_array a l' st).

(* Executor._get_array_entry / _set_array_entry *)
Definition get_array_entry (st : state) (a : Z) (ix : opnd) : exc cell :=
  i <- expand_entry st ix ;; arrays_getitem st a i.
Definition set_array_entry (st : state) (a : Z) (ix : opnd) (v : cell) : exc state :=
  i <- expand_entry st ix ;; arrays_setitem st a i v.

(* ------------------------------------------------------------------ handlers (_instr_XXX) *)
Definition instr_set (r : reg) (imm : Z) (st : state) : exc state := set_register st r imm.

Definition instr_lea (r : reg) (a : Z) (st : state) : exc state := set_register st r a.

Definition instr_array (size : reg) (a : Z) (st : state) : exc state :=
  length <- get_register st size ;;
  match length with
  | None => Raise FAssert                                (* assert length is not None *)
  | Some n => Ok (bind_array a (py_repeat_none n) st)    (* Arrays.init_new_array *)
  end.

Definition instr_store (r : reg) (a : Z) (ix : opnd) (st : state) : exc state :=
  value <- get_register st r ;;
  match value with
  | None => Raise FUndefReg
  | Some v => set_array_entry st a ix (Some v)
  end.

Definition instr_load (r : reg) (a : Z) (ix : opnd) (st : state) : exc state :=
  value <- get_array_entry st a ix ;;
  match value with
  | None => Raise FUndefEntry
  | Some v => set_register st r v
  end.

Definition instr_undef (a : Z) (ix : opnd) (st : state) : exc state :=
  set_array_entry st a ix None.

Definition instr_ret_reg (r : reg) (st : state) : exc state :=
  value <- get_register st r ;;
  match value with
  | None => Raise FUndefReg
  | Some v =>                                           (* SharedMemory.set_register *)
      _ <- assert_within_length (snd r) ;;
      Ok (with_sregs st (upd reg_eqb r v (sregs st)))
  end.

Definition instr_ret_arr (a : Z) (st : state) : exc state :=
  _ <- arrays_get_array st a ;;                         (* self._get_array *)
  Ok (publish a st).                                    (* init_new_array(new_array=array): same object *)

(* Executor._get_unused_physical_qubit: `for physical_address in count(0)`, the
   first one not in the in-use set; it is ALSO added to the set here.  (count(0)
   is bounded by len(set)+1 candidates; "should never get here" otherwise.) *)
Fixpoint count_unused (fuel : nat) (k : Z) (u : list Z) : exc Z :=
  match fuel with
  | O => Raise FBook
  | S f => if set_mem k u then count_unused f (k + 1) u else Ok k
  end.
Definition get_unused_physical_qubit (u : list Z) : exc (Z * list Z) :=
  p <- count_unused (S (List.length u)) 0 u ;; Ok (p, set_add p u).

(* Executor._allocate_physical_qubit: range check, already-allocated check, THEN
   the physical qubit is chosen and (again) added to the in-use set *)
Definition allocate_physical_qubit (st : state) (q : Z) : exc state :=
  if Zlen (um st) <=? q then Raise FUnitRange
  else c <- py_getitem (um st) q ;;
       match c with
       | Some _ => Raise FAlloc
       | None =>
           pu <- get_unused_physical_qubit (used st) ;;
           let u' := set_add (fst pu) (snd pu) in
           m <- py_setitem (um st) q (Some (fst pu)) ;; Ok (with_um st m u')
       end.

Definition instr_qalloc (r : reg) (st : state) : exc state :=
  qa <- get_register st r ;;
  match qa with
  | None => Raise FUndefReg
  | Some q => allocate_physical_qubit st q
  end.

(* Executor._free_physical_qubit: unit_module[address] = None, then
   _used_physical_qubit_addresses.remove(physical_address) (KeyError if absent) *)
Definition free_physical_qubit (st : state) (q : Z) : exc state :=
  c <- py_getitem (um st) q ;;
  match c with
  | None => Raise FFree
  | Some p =>
      m <- py_setitem (um st) q None ;;
      if set_mem p (used st) then Ok (with_um st m (set_remove p (used st))) else Raise FBook
  end.

Definition instr_qfree (r : reg) (st : state) : exc state :=
  qa <- get_register st r ;;
  match qa with
  | None => Raise FAssert                               (* assert q_address is not None *)
  | Some q => free_physical_qubit st q
  end.

Definition instr_wait_all (a : Z) (start stop : opnd) (st : state) : exc state :=
  se <- expand_slice st start stop ;;
  values <- arrays_getslice st a (fst se) (snd se) ;;
  match values with
  | None => Raise FNoSlice                              (* not isinstance(values, list) *)
  | Some vs => if existsb is_none vs then Block else Ok st
  end.

Definition instr_wait_any (a : Z) (start stop : opnd) (st : state) : exc state :=
  se <- expand_slice st start stop ;;                   (* _get_array_slice *)
  values <- arrays_getslice st a (fst se) (snd se) ;;
  match values with
  | None => Raise FNoSlice
  | Some vs => if forallb is_none vs then Block else Ok st
  end.

Definition instr_wait_single (a : Z) (ix : opnd) (st : state) : exc state :=
  value <- get_array_entry st a ix ;;
  match value with None => Block | Some _ => Ok st end.

(* ------------------------------------------------------------------ branches *)
(* check_condition of the six branch classes on Optional[int] operands *)
Definition check_unary (c : ucond) (a : cell) : exc bool :=
  match c, a with
  | Cez, Some x => Ok (x =? 0)
  | Cez, None => Ok false                               (* None == 0 *)
  | Cnz, Some x => Ok (negb (x =? 0))
  | Cnz, None => Ok true                                (* None != 0 *)
  end.

Definition check_binary (c : bcond) (a b : cell) : exc bool :=
  match c, a, b with
  | Ceq, Some x, Some y => Ok (x =? y)
  | Ceq, None, None => Ok true
  | Ceq, _, _ => Ok false
  | Cne, Some x, Some y => Ok (negb (x =? y))
  | Cne, None, None => Ok false
  | Cne, _, _ => Ok true
  | Clt, Some x, Some y => Ok (x <? y)
  | Cge, Some x, Some y => Ok (x >=? y)
  | _, _, _ => Raise FType                              (* '<' / '>=' with NoneType *)
  end.

(* Executor._handle_branch_instr: NOT wrapped by inc_program_counter; it sets
   the program counter itself *)
Definition handle_branch_instr (b : brinstr) (st : state) (pc : Z) : exc (state * Z) :=
  condition_line <-
    match b with
    | BJmp t => Ok (true, t)
    | BUn c r t => a <- get_register st r ;; k <- check_unary c a ;; Ok (k, t)
    | BBin c r0 r1 t =>
        a <- get_register st r0 ;; b' <- get_register st r1 ;;
        k <- check_binary c a b' ;; Ok (k, t)
    end ;;
  if fst condition_line then Ok (st, snd condition_line) else Ok (st, pc + 1).

(* ------------------------------------------------------------------ add sub addm subm *)
(* regout / regin0 / regin1 properties of ClassicalOp(Mod)Instruction *)
Definition cl_op (c : clinstr) : binop := match c with COp o _ _ _ | COpm o _ _ _ _ => o end.
Definition regout (c : clinstr) : reg := match c with COp _ d _ _ | COpm _ d _ _ _ => d end.
Definition regin0 (c : clinstr) : reg := match c with COp _ _ a _ | COpm _ _ a _ _ => a end.
Definition regin1 (c : clinstr) : reg := match c with COp _ _ _ b | COpm _ _ _ b _ => b end.

(* Executor._compute_binary_classical_instr: isinstance chain Add, Addm, Sub, Subm *)
Definition compute_binary_classical_instr (c : clinstr) (a b : Z) (md : option Z) : exc Z :=
  match c with
  | COp OAdd _ _ _ => Ok (a + b)
  | COpm OAdd _ _ _ _ => match md with None => Raise FAssert | Some m => Ok (py_mod (a + b) m) end
  | COp OSub _ _ _ => Ok (a - b)
  | COpm OSub _ _ _ _ => match md with None => Raise FAssert | Some m => Ok (py_mod (a - b) m) end
  end.

(* Executor._handle_binary_classical_instr *)
Definition handle_binary_classical_instr (c : clinstr) (st : state) : exc state :=
  md <- match c with
        | COpm _ _ _ _ rm => get_register st rm         (* isinstance(instr, ClassicalOpModInstruction) *)
        | COp _ _ _ _ => Ok None
        end ;;
  _ <- match md with
       | Some m => if m <? 1 then Raise FModulus else Ok tt
       | None => Ok tt                                  (* mod is None: no check here *)
       end ;;
  a <- get_register st (regin0 c) ;;
  b <- get_register st (regin1 c) ;;
  match a, b with
  | Some x, Some y =>
      value <- compute_binary_classical_instr c x y md ;;
      set_register st (regout c) value
  | _, _ => Raise FAssert                               (* assert a is not None / assert b is not None *)
  end.

(* ------------------------------------------------------------------ dispatch *)
(* the inc_program_counter decorator: pc += 1 after the method returned; an
   exception propagates before the increment *)
Definition inc_program_counter (h : state -> exc state) (st : state) (pc : Z) : exc (state * Z) :=
  st' <- h st ;; Ok (st', pc + 1).

(* Executor._execute_command: mnemonic table first, then the isinstance chain *)
Definition execute_command (i : instr) (st : state) (pc : Z) : exc (state * Z) :=
  match i with
  | ISet r v => inc_program_counter (instr_set r v) st pc
  | ILea r a => inc_program_counter (instr_lea r a) st pc
  | IArray sz a => inc_program_counter (instr_array sz a) st pc
  | ILoad r a ix => inc_program_counter (instr_load r a ix) st pc
  | IStore r a ix => inc_program_counter (instr_store r a ix) st pc
  | IUndef a ix => inc_program_counter (instr_undef a ix) st pc
  | IRetReg r => inc_program_counter (instr_ret_reg r) st pc
  | IRetArr a => inc_program_counter (instr_ret_arr a) st pc
  | IQalloc r => inc_program_counter (instr_qalloc r) st pc
  | IQfree r => inc_program_counter (instr_qfree r) st pc
  | IWaitAll a s e => inc_program_counter (instr_wait_all a s e) st pc
  | IWaitAny a s e => inc_program_counter (instr_wait_any a s e) st pc
  | IWaitSingle a ix => inc_program_counter (instr_wait_single a ix) st pc
  | IBranch b => handle_branch_instr b st pc
  | IClassical c => inc_program_counter (handle_binary_classical_instr c) st pc
  end.

(* Executor._execute_commands: while pc < len(commands): fetch (outside the try),
   execute; an exception is re-raised as "At line <pc>: ..." and ends the loop.
   The state at a fault is the state before the instruction (handlers check
   before they mutate) and the pc has not been incremented. *)
Fixpoint run_from (prog : list instr) (st : state) (pc : Z) (fuel : nat) : result :=
  if pc <? Zlen prog then
    match py_getitem prog pc with
    | Ok i =>
        match fuel with
        | O => (st, pc, OutOfFuel)
        | S f => match execute_command i st pc with
                 | Ok (st', pc') => run_from prog st' pc' f
                 | Raise k => (st, pc, Fault k pc)
                 | Block => (st, pc, Blocked pc)
                 end
        end
    | _ => (st, pc, Crash)                               (* commands[pc] with pc < -len *)
    end
  else (st, pc, Halt).

(* Executor.execute_subroutine: the program counter of a new subroutine is 0 *)
Definition run (prog : list instr) (st : state) (fuel : nat) : result := run_from prog st 0 fuel.

Fixpoint run_many (subs : list (list instr)) (st : state) (fuel : nat) : list result :=
  match subs with
  | [] => []
  | p :: ps => let r := run p st fuel in r :: run_many ps (fst (fst r)) fuel
  end.
