(* State.v — syntax of the core classical NetQASM instructions and the
   application state shared by the ISA specification (Sem.v) and the model of
   netqasm/backend/executor.py (Exec.v).  No proofs in this file.

   Only *data* and the primitive dictionary operations live here; how an
   instruction uses them is written twice, independently: mathematically in
   Sem.v, and following the handlers of executor.py in Exec.v. *)
From Coq Require Import ZArith List Bool.
Import ListNotations.
Open Scope Z_scope.

(* ------------------------------------------------------------------ syntax *)
Inductive bank := BR | BC | BQ | BM.            (* RegisterName: R=0 C=1 Q=2 M=3 *)
Definition reg := (bank * Z)%type.              (* Register(name, index) *)

Definition bank_num (b : bank) : Z :=
  match b with BR => 0 | BC => 1 | BQ => 2 | BM => 3 end.
Definition bank_eqb (a b : bank) : bool := bank_num a =? bank_num b.
Definition reg_eqb (a b : reg) : bool := bank_eqb (fst a) (fst b) && (snd a =? snd b).

(* index of an ArrayEntry / bound of an ArraySlice: a register, or a plain int
   (the executor accepts both, see _expand_array_part) *)
Inductive opnd := OReg (r : reg) | OImm (n : Z).

Inductive ucond := Cez | Cnz.                    (* bez bnz *)
Inductive bcond := Ceq | Cne | Clt | Cge.        (* beq bne blt bge *)
Inductive binop := OAdd | OSub.

(* JmpInstruction / BranchUnaryInstruction / BranchBinaryInstruction *)
Inductive brinstr :=
| BJmp (line : Z)
| BUn (c : ucond) (r : reg) (line : Z)
| BBin (c : bcond) (r0 r1 : reg) (line : Z).

(* ClassicalOpInstruction (add, sub) / ClassicalOpModInstruction (addm, subm) *)
Inductive clinstr :=
| COp (o : binop) (rd ra rb : reg)
| COpm (o : binop) (rd ra rb rm : reg).

Inductive instr :=
| ISet (r : reg) (imm : Z)
| ILea (r : reg) (addr : Z)
| IArray (size : reg) (addr : Z)
| ILoad (r : reg) (addr : Z) (ix : opnd)
| IStore (r : reg) (addr : Z) (ix : opnd)
| IUndef (addr : Z) (ix : opnd)
| IClassical (c : clinstr)
| IBranch (b : brinstr)
| IRetReg (r : reg)
| IRetArr (addr : Z)
| IQalloc (r : reg)
| IQfree (r : reg)
| IWaitAll (addr : Z) (start stop : opnd)
| IWaitAny (addr : Z) (start stop : opnd)
| IWaitSingle (addr : Z) (ix : opnd).

(* ------------------------------------------------------------------ results *)
(* why an instruction faulted (semantic reason; ExecCheck.kind_class maps it to
   the Python exception class the implementation raises) *)
Inductive fkind :=
| FUndefReg     (* a register whose value is needed is undefined (store, ret_reg, qalloc, index/bound register) *)
| FUndefEntry   (* load of an undefined array entry (a missing array reads as undefined) *)
| FModulus      (* addm/subm with modulus < 1 *)
| FAlloc        (* qalloc of an already allocated virtual qubit *)
| FFree         (* qfree of a virtual qubit that is not allocated *)
| FIndex        (* index past the end of an array / of the unit module (qfree) *)
| FNoArray      (* store/undef/ret_arr on an address with no array *)
| FUnitRange    (* qalloc of a virtual id >= capacity of the unit module *)
| FAssert       (* undefined operand of add/sub/addm/subm, undefined array size, undefined qfree operand *)
| FNoSlice      (* wait_all/wait_any on an address with no array *)
| FRegIndex     (* register index outside 0..15 (cannot come from the binary format) *)
| FType         (* ordering comparison with an undefined register (blt/bge), Python TypeError *)
| FOverflow     (* hardware configuration only: a value / index / address written to a register or an
                   array (or returned to the host) does not fit the declared width (OverflowError) *)
| FBook.        (* inconsistent qubit bookkeeping: qfree of a physical id that is not in the in-use set
                   (set.remove -> KeyError), or no unused physical id found ("should never get here") *)

Inductive outcome :=
| Halt                         (* pc ran past the last instruction *)
| Fault (k : fkind) (line : Z) (* the instruction at [line] faulted; the error names [line] *)
| Blocked (line : Z)           (* a wait_* whose condition does not hold (nobody else writes) *)
| OutOfFuel
| Crash                        (* Exec only: exception outside the per-instruction handler (no line named) *)
| Unspec (line : Z).           (* Sem only: the property leaves the behaviour of this instruction open *)

(* ------------------------------------------------------------------ dictionaries *)
Section Assoc.
  Variables (K V : Type) (eqb : K -> K -> bool).
  Fixpoint find (k : K) (l : list (K * V)) : option V :=
    match l with
    | [] => None
    | (k', v) :: t => if eqb k k' then Some v else find k t
    end.
  (* d[k] = v : replace in place, or append (keys stay unique) *)
  Fixpoint upd (k : K) (v : V) (l : list (K * V)) : list (K * V) :=
    match l with
    | [] => [(k, v)]
    | (k', v') :: t => if eqb k k' then (k, v) :: t else (k', v') :: upd k v t
    end.
End Assoc.
Arguments find {K V} eqb k l.
Arguments upd {K V} eqb k v l.

(* ------------------------------------------------------------------ state *)
Definition cell := option Z.                     (* None = undefined *)

(* What the host sees at an array address of the shared memory.  [ret_arr]
   stores the controller's *list object itself* in the shared memory
   (SharedMemory.init_new_array -> Arrays._set_array), so later stores are
   visible to the host: [Live].  Re-declaring the array ([array] binds a fresh
   list to the address) leaves the host with the old object, which nobody can
   mutate any more: [Frozen old]. *)
Inductive pub := Live | Frozen (l : list cell).

Record state := mkState {
  regs : list (reg * Z);            (* RegisterGroup._register dicts: absent = None *)
  arrs : list (Z * list cell);      (* Arrays._arrays of the application *)
  sregs : list (reg * Z);           (* shared memory registers (ret_reg) *)
  sarrs : list (Z * pub);           (* shared memory arrays (ret_arr) *)
  um : list (option Z);             (* unit module: physical qubit mapped to each virtual id
                                       (None = not allocated); length = capacity *)
  used : list Z                     (* Executor._used_physical_qubit_addresses (a set) *)
}.

Definition init_state (cap : nat) : state := mkState [] [] [] [] (repeat None cap) [].

Definition with_regs (st : state) (x : list (reg * Z)) := mkState x (arrs st) (sregs st) (sarrs st) (um st) (used st).
Definition with_sregs (st : state) (x : list (reg * Z)) := mkState (regs st) (arrs st) x (sarrs st) (um st) (used st).
(* unit module and in-use set change together (qalloc / qfree) *)
Definition with_um (st : state) (x : list (option Z)) (u : list Z) :=
  mkState (regs st) (arrs st) (sregs st) (sarrs st) x u.

(* arrays[a] is bound to a NEW list object l *)
Definition bind_array (a : Z) (l : list cell) (st : state) : state :=
  let sa := match find Z.eqb a (sarrs st), find Z.eqb a (arrs st) with
            | Some Live, Some old => upd Z.eqb a (Frozen old) (sarrs st)
            | _, _ => sarrs st
            end in
  mkState (regs st) (upd Z.eqb a l (arrs st)) (sregs st) sa (um st) (used st).

(* the list object bound at a is mutated in place and now has contents l *)
Definition write_array (a : Z) (l : list cell) (st : state) : state :=
  mkState (regs st) (upd Z.eqb a l (arrs st)) (sregs st) (sarrs st) (um st) (used st).

(* shared_memory._arrays[a] = arrays[a] (the same object) *)
Definition publish (a : Z) (st : state) : state :=
  mkState (regs st) (arrs st) (sregs st) (upd Z.eqb a Live (sarrs st)) (um st) (used st).

(* host-visible arrays *)
Definition shm_arrays (st : state) : list (Z * list cell) :=
  map (fun ap => (fst ap,
                  match snd ap with
                  | Frozen l => l
                  | Live => match find Z.eqb (fst ap) (arrs st) with Some l => l | None => [] end
                  end)) (sarrs st).

(* the in-use set as a list without duplicates: set.add / set.remove / `in` *)
Definition set_mem (x : Z) (l : list Z) : bool := existsb (Z.eqb x) l.
Definition set_add (x : Z) (l : list Z) : list Z := if set_mem x l then l else l ++ [x].
Definition set_remove (x : Z) (l : list Z) : list Z := filter (fun y => negb (Z.eqb x y)) l.

Definition Zlen {A} (l : list A) : Z := Z.of_nat (List.length l).

(* ------------------------------------------------------------------ configuration
   netqasm.runtime.settings.set_is_using_hardware(True) makes every write to a register
   or an array entry (and the addresses used to reach arrays) check the declared width
   (sdk/shared_memory._assert_within_width, ADDRESS_BITS = 32, two's complement);
   in simulation (the default) values are unbounded. *)
Record config := mkConfig { cfg_hw : bool }.
Definition cfg_sim : config := mkConfig false.
Definition cfg_hardware : config := mkConfig true.

Definition WIDTH : Z := 32.
Definition fits (v : Z) : bool := (- 2 ^ (WIDTH - 1) <=? v) && (v <=? 2 ^ (WIDTH - 1) - 1).
Definition cell_fits (c : cell) : bool := match c with Some v => fits v | None => true end.

(* result of running one subroutine *)
Definition result := (state * Z * outcome)%type.
