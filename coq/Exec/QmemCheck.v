(* QmemCheck.v — executable comparison of the Qmem model with observations
   recorded from the real Executor / QNodeController (correspondence, H-tie).
   Proof-free. *)
From Coq Require Import ZArith List Bool.
From NQ Require Import Exec.Qmem Exec.QmemStop.
Import ListNotations.
Open Scope Z_scope.

(* ---------------------------------------------------------------- canonical views *)
Definition pair_ltb (a b : Z * Z) : bool :=
  (fst a <? fst b) || ((fst a =? fst b) && (snd a <? snd b)).

Section Sort.
  Context {K V : Type} (ltb : K -> K -> bool).
  Fixpoint ins (x : K * V) (l : list (K * V)) : list (K * V) :=
    match l with
    | [] => [x]
    | y :: t => if ltb (fst x) (fst y) then x :: l else y :: ins x t
    end.
  Definition sort_keys (l : list (K * V)) : list (K * V) := fold_right ins [] l.
End Sort.

Definition sort_set (l : list (Z * Z)) : list (Z * Z) :=
  map fst (sort_keys pair_ltb (map (fun x => (x, tt)) l)).

Definition arr := list (option Z).
Definition app_view := (list (option Z) * list (reg * Z) * list (Z * arr) * (list (reg * Z) * list (Z * arr)))%type.

Definition view_app (a : appst) : app_view :=
  let shv := map (fun '(addr, x) =>
                    (addr, match x with
                           | Own l => l
                           | Alias => match aget Z.eqb addr (a_arrs a) with Some l => l | None => [] end
                           end)) (sh_arrs (a_shm a)) in
  (a_um a, sort_keys pair_ltb (a_regs a), sort_keys Z.ltb (a_arrs a),
   (sort_keys pair_ltb (sh_regs (a_shm a)), sort_keys Z.ltb shv)).

Record obs := mkObs {
  o_out : Z;                       (* 0 done, 1 deferred, 10 + exception class for a fault *)
  o_apps : list (pid * app_view);  (* sorted by key *)
  o_used : list (Z * Z);           (* sorted *)
  o_resv : list (Z * Z);           (* sorted: marked in use but not mapped, as seen on the executor *)
  o_shreg : list pid               (* sorted keys of SharedMemoryManager._MEMORIES *)
}.

Definition out_code (o : outcome) : Z :=
  match o with Done => 0 | Deferred => 1 | Fault e => 10 + err_class e end.

(* ---------------------------------------------------------------- equality *)
Fixpoint list_eqb {A} (eqb : A -> A -> bool) (a b : list A) : bool :=
  match a, b with
  | [], [] => true
  | x :: a', y :: b' => eqb x y && list_eqb eqb a' b'
  | _, _ => false
  end.
Definition opt_eqb {A} (eqb : A -> A -> bool) (a b : option A) : bool :=
  match a, b with
  | None, None => true
  | Some x, Some y => eqb x y
  | _, _ => false
  end.
Definition kv_eqb {K V} (ke : K -> K -> bool) (ve : V -> V -> bool) (a b : K * V) : bool :=
  ke (fst a) (fst b) && ve (snd a) (snd b).

Definition arr_eqb : arr -> arr -> bool := list_eqb (opt_eqb Z.eqb).
Definition regs_eqb : list (reg * Z) -> list (reg * Z) -> bool := list_eqb (kv_eqb pair_eqb Z.eqb).
Definition arrs_eqb : list (Z * arr) -> list (Z * arr) -> bool := list_eqb (kv_eqb Z.eqb arr_eqb).

Definition app_view_eqb (a b : app_view) : bool :=
  let '(um, rg, ar, (sr, sa)) := a in
  let '(um', rg', ar', (sr', sa')) := b in
  arr_eqb um um' && regs_eqb rg rg' && arrs_eqb ar ar' && regs_eqb sr sr' && arrs_eqb sa sa'.

Definition obs_ok (r : state * outcome) (ob : obs) : bool :=
  let s := fst r in
  (out_code (snd r) =? o_out ob) &&
  list_eqb (kv_eqb pair_eqb app_view_eqb)
           (sort_keys pair_ltb (map (fun '(k, a) => (k, view_app a)) (apps s))) (o_apps ob) &&
  list_eqb pair_eqb (sort_set (used s)) (o_used ob) &&
  list_eqb pair_eqb (sort_set (resv s)) (o_resv ob) &&
  list_eqb pair_eqb (sort_set (shreg s)) (o_shreg ob).

(* ---------------------------------------------------------------- histories as a prefix tree *)
Inductive tcase := T (id : Z) (e : xev) (ob : obs) (kids : list tcase).

(* ids of the nodes at which model and implementation first differ on a path *)
(* events are those of Exec/QmemStop.v: uninterrupted operations (XOp) and the steps of a
   StopAppMessage handler that is suspended at its yields *)
Fixpoint bad_t (xs : xstate) (t : tcase) : list Z :=
  match t with
  | T id e ob kids =>
      let r := xstep xs e in
      (* o_out = -1: the implementation was not observable after this operation (it ran
         between two yield points of an interleaved subroutine): apply it, compare later *)
      if (o_out ob =? -1) || obs_ok (x_st (fst r), snd r) ob then flat_map (bad_t (fst r)) kids else [id]
  end.

Definition failing (ts : list tcase) : list Z := flat_map (bad_t xinit) ts.
