(* SemQ.v — the common semantics extended with ABSTRACT quantum instructions.
   Sem.v (classical instructions, qalloc/qfree bookkeeping) is untouched; this
   file layers on top of it
     - a trace of host-/hardware-visible actions (gate events on the virtual
       qubit ids held by the operand registers, measurements, qalloc/qfree,
       ret_reg/ret_arr), newest first,
     - gate instructions: every operand register must hold a value (the
       executor's `assert q_address is not None`), then the event is emitted --
       what the gate does to the quantum state is left to the extension points
       (_do_single_qubit_instr, ... ), exactly as in executor.py,
     - meas: the outcome comes from a script (the environment; the base executor's
       _do_meas returns 0, i.e. the empty script) and is written to the classical
       register.
   A program without quantum instructions runs exactly as in Sem (SemQProofs:
   run_from_classical).  No proofs in this file. *)
From Coq Require Import ZArith List Bool.
From NQ Require Import Exec.State Exec.Sem.
Import ListNotations.
Open Scope Z_scope.

Inductive qinstr :=
| QC (i : instr)                                    (* an instruction of Sem *)
| QGate (tag : Z) (imms : list Z) (rs : list reg)   (* init / gate / rotation / two-qubit gate *)
| QMeas (q c : reg).

Inductive qevent :=
| QEvGate (tag : Z) (imms : list Z) (qs : list Z)
| QEvMeas (q o : Z)
| QEvAlloc (q : Z)
| QEvFree (q : Z)
| QEvRetReg (r : reg) (v : Z)
| QEvRetArr (a : Z) (l : list cell).

Record qstate := mkQ {
  q_st : state;
  q_script : list Z;          (* measurement outcomes still to be delivered *)
  q_trace : list qevent       (* newest first *)
}.

Inductive qres := QNext (s : qstate) (pc : Z) | QStop (o : outcome).

(* values of a list of registers: None if one of them is undefined *)
Fixpoint rd_all (st : state) (rs : list reg) : option (list Z) :=
  match rs with
  | [] => Some []
  | r :: t => match rd st r, rd_all st t with
              | Some v, Some vs => Some (v :: vs)
              | _, _ => None
              end
  end.

(* the action an instruction of Sem makes visible, computed in the state before it *)
Definition events_of (i : instr) (st : state) : list qevent :=
  match i with
  | IQalloc r => match rd st r with Some q => [QEvAlloc q] | None => [] end
  | IQfree r => match rd st r with Some q => [QEvFree q] | None => [] end
  | IRetReg r => match rd st r with Some v => [QEvRetReg r v] | None => [] end
  | IRetArr a => match find Z.eqb a (arrs st) with Some l => [QEvRetArr a l] | None => [] end
  | _ => []
  end.

Definition hd_outcome (script : list Z) : Z := match script with [] => 0 | o :: _ => o end.

Definition qstep (i : qinstr) (s : qstate) (pc : Z) : qres :=
  match i with
  | QC c =>
      match step c (q_st s) pc with
      | Next st' pc' => QNext (mkQ st' (q_script s) (events_of c (q_st s) ++ q_trace s)) pc'
      | Stop o => QStop o
      end
  | QGate tag imms rs =>
      if negb (forallb reg_ok rs) then QStop (Unspec pc)
      else match rd_all (q_st s) rs with
           | Some qs => QNext (mkQ (q_st s) (q_script s) (QEvGate tag imms qs :: q_trace s)) (pc + 1)
           | None => QStop (Fault FAssert pc)
           end
  | QMeas q c =>
      if negb (reg_ok q && reg_ok c) then QStop (Unspec pc)
      else match rd (q_st s) q with
           | Some qa =>
               let o := hd_outcome (q_script s) in
               QNext (mkQ (wr (q_st s) c o) (tl (q_script s)) (QEvMeas qa o :: q_trace s)) (pc + 1)
           | None => QStop (Fault FAssert pc)
           end
  end.

Definition qresult := (qstate * Z * outcome)%type.

Fixpoint qrun_from (prog : list qinstr) (s : qstate) (pc : Z) (fuel : nat) : qresult :=
  if pc <? 0 then (s, pc, Unspec pc)
  else if Zlen prog <=? pc then (s, pc, Halt)
  else match nth_error prog (Z.to_nat pc) with
       | None => (s, pc, Halt)
       | Some i =>
           match fuel with
           | O => (s, pc, OutOfFuel)
           | S f => match qstep i s pc with
                    | QNext s' pc' => qrun_from prog s' pc' f
                    | QStop o => (s, pc, o)
                    end
           end
       end.

Definition qrun (prog : list qinstr) (s : qstate) (fuel : nat) : qresult := qrun_from prog s 0 fuel.

Definition qdefined_from (prog : list qinstr) (s : qstate) (pc : Z) : Prop :=
  forall fuel, is_unspec (snd (qrun_from prog s pc fuel)) = false.
Definition qdefined_domain (prog : list qinstr) (s : qstate) : Prop := qdefined_from prog s 0.
