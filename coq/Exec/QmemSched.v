(* QmemSched.v — subroutines of several applications as interleaved, suspendable
   programs on top of Exec/Qmem.v (executor.py: execute_subroutine, _subroutines,
   _program_counters, _get_new_subroutine_id).  A subroutine is a list of instruction
   blocks (operations of Qmem) of ONE application; it is suspended between blocks (at a
   yield point inside a gate or wait) while other subroutines run.  The table maps a
   subroutine id to (owner, blocks still to run) -- the model's counterpart of
   `_subroutines[id]` + `_program_counters[id]`.  Proof-free. *)
From Coq Require Import ZArith List Bool.
From NQ Require Import Exec.Qmem.
Import ListNotations.
Open Scope Z_scope.

Record sub := mkSub { sb_app : pid; sb_rest : list op }.

Record sstate := mkSS {
  ss_st : state;
  ss_table : list (Z * sub);          (* suspended subroutines *)
  ss_next : Z                         (* _next_subroutine_id *)
}.

Inductive ev :=
| Start (k : pid) (blocks : list op)  (* a subroutine message of application k arrives *)
| Resume (sid : Z)                    (* the back end resumes a suspended subroutine *)
| Atomic (o : op).                    (* everything else: Init, Stop, Reserve, deliveries *)

(* how a new subroutine gets its id: a parameter, so that the theorem visibly depends on it *)
Definition allocator := sstate -> Z.
Definition by_counter : allocator := fun ss => ss_next ss.
Definition by_table_size : allocator := fun ss => Z.of_nat (List.length (ss_table ss)).

(* run the next block of subroutine (sid, sb): a fault ends the subroutine, so does running
   out of blocks (_clear_subroutine) *)
Definition run_block (ss : sstate) (tbl : list (Z * sub)) (nxt sid : Z) (sb : sub) : sstate :=
  match sb_rest sb with
  | [] => mkSS (ss_st ss) (adel Z.eqb sid tbl) nxt
  | o :: rest =>
      let r := step (ss_st ss) o in
      match snd r, rest with
      | Fault _, _ | _, [] => mkSS (fst r) (adel Z.eqb sid tbl) nxt
      | _, _ => mkSS (fst r) (aset Z.eqb sid (mkSub (sb_app sb) rest) tbl) nxt
      end
  end.

Definition sched_step (alloc : allocator) (ss : sstate) (e : ev) : sstate :=
  match e with
  | Start k blocks =>
      let sid := alloc ss in
      (* self._subroutines[sid] = subroutine; self._reset_program_counter(sid) *)
      run_block ss (aset Z.eqb sid (mkSub k blocks) (ss_table ss)) (ss_next ss + 1) sid (mkSub k blocks)
  | Resume sid =>
      match aget Z.eqb sid (ss_table ss) with
      | None => ss
      | Some sb => run_block ss (ss_table ss) (ss_next ss) sid sb
      end
  | Atomic o => mkSS (fst (step (ss_st ss) o)) (ss_table ss) (ss_next ss)
  end.

Fixpoint sched_run (alloc : allocator) (ss : sstate) (es : list ev) : sstate :=
  match es with
  | [] => ss
  | e :: t => sched_run alloc (sched_step alloc ss e) t
  end.

Definition sched_init : sstate := mkSS init_state [] 0.

(* the application on whose behalf an event executes instructions *)
Definition ev_owner (ss : sstate) (e : ev) : option pid :=
  match e with
  | Start k _ => Some k
  | Resume sid => match aget Z.eqb sid (ss_table ss) with Some sb => Some (sb_app sb) | None => None end
  | Atomic o => op_pid o
  end.

(* subroutine messages carry blocks of their own application only (the APPID header) *)
Definition ev_wf (e : ev) : Prop :=
  match e with
  | Start k blocks => Forall (fun o => op_pid o = Some k) blocks
  | _ => True
  end.

(* deliveries happen between subroutine steps and obey the delivery contract; blocks of
   subroutines are plain instructions (no deliveries) *)
Definition is_keep (o : op) : bool := match o with Keep _ _ _ _ _ _ => true | _ => false end.
Definition ev_env_ok (ss : sstate) (e : ev) : Prop :=
  match e with
  | Start _ blocks => Forall (fun o => is_keep o = false) blocks
  | Resume _ => True
  | Atomic o => fresh_delivery (ss_st ss) o
  end.

Definition table_ok (ss : sstate) : Prop :=
  (forall sid sb, aget Z.eqb sid (ss_table ss) = Some sb ->
                  sid < ss_next ss /\
                  Forall (fun o => op_pid o = Some (sb_app sb) /\ is_keep o = false) (sb_rest sb)).
