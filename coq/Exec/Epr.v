(* Epr.v — model of the controller's entanglement bookkeeping
   (netqasm/backend/executor.py: _do_create_epr/_do_recv_epr, _handle_epr_response,
   _handle_pending_epr_responses, _extract_epr_info, _handle_last_epr_pair,
   _store_ent_info, _handle_epr_ok_k_response, wait_all/wait_any/wait_single;
   qlink_compat.get_creator_node_id).  Proof-free: proofs are in Proofs/EprProofs.v.

   Several applications on one controller (registered and stopped by Init / Stop), each
   with its own arrays and unit module; several subroutines alive at once (each blocked in
   a wait instruction), responses arriving at any time, the back end retrying pending
   responses at its yield points.  The request queues and the pending list are shared by
   all applications (keyed by remote node, purpose and role only), as in the code.

   Representation: the code keeps a dict (remote, purpose) -> list per role and
   works on list[0] / append / pop(0).  The model keeps ONE list `reqs` of all
   outstanding requests in issue order; the queue of a (key, role) is the
   sub-list with that key and role (order preserved), its head is the first
   match.  The checker compares these sub-lists with the code's dict entries. *)
From Coq Require Import ZArith List Bool Lia.
From NQ Require Import Exec.Qmem.
Import ListNotations.
Open Scope Z_scope.

Definition key := (Z * Z)%type.                       (* (remote node id, purpose id) *)

Record req := mkReq {
  q_id : nat;              (* ghost: serial number of the request *)
  q_key : key;
  q_creator : bool;        (* true: _epr_create_requests, false: _epr_recv_requests *)
  q_sid : Z;               (* issuing subroutine *)
  q_app : Z;               (* its application (the code finds it through the subroutine id) *)
  q_res : Z;               (* ent_results_array_address *)
  q_qarr : option Z;       (* q_array_address (None for measure-directly) *)
  q_tot : nat;
  q_left : nat
}.

(* a link-layer OK response; r_k = create-and-keep (K) vs measure-directly (M) *)
Record resp := mkResp {
  r_id : nat;              (* ghost: arrival number *)
  r_k : bool;
  r_remote : Z; r_purpose : Z; r_flag : Z;
  r_q : Z;                 (* K: logical_qubit_id, M: measurement_outcome *)
  r_cid : Z; r_seq : Z; r_good : Z;
  r_x : Z;                 (* K: goodness_time, M: measurement_basis *)
  r_bell : Z
}.

(* the tuple as _store_ent_info writes it (Enum members by value) *)
Definition info_of (r : resp) : list Z :=
  if r_k r
  then [0; r_cid r; r_q r; r_flag r; r_seq r; r_purpose r; r_remote r; r_good r; r_x r; r_bell r]
  else [1; r_cid r; r_q r; r_x r; r_flag r; r_seq r; r_purpose r; r_remote r; r_good r; r_bell r].

Definition OK_FIELDS : nat := 10.

(* get_creator_node_id(...) == node_id *)
Definition is_creator (node : Z) (r : resp) : bool :=
  (if r_flag r =? 1 then r_remote r else node) =? node.

Inductive wspec :=
| WAll (addr : Z) (lo hi : nat)
| WAny (addr : Z) (lo hi : nat)
| WSingle (addr : Z) (i : nat).

Record state := mkSt {
  node : Z;
  reqs : list req;
  pend : list resp;                            (* _pending_epr_responses *)
  arrs : list ((Z * Z) * list (option Z));     (* (application, address) -> array *)
  ums : list (Z * list (option Z));            (* application -> unit module; registered = has an entry *)
  used : list (Z * Z);                         (* (0, p): reuse of the pool functions of Qmem *)
  subs : list (Z * (Z * list wspec));          (* alive subroutines: application, waits still ahead *)
  next_sid : Z;
  next_req : nat;                              (* ghost *)
  next_resp : nat;                             (* ghost *)
  log : list (nat * nat * nat);                (* ghost, newest first: (response id, request id, pair index) *)
  issued : list (nat * nat)                    (* ghost: (request id, number of pairs) of every request ever issued *)
}.

Definition init_state (nd : Z) : state :=
  mkSt nd [] [] [] [] [] [] 0 0 0 [] [].

(* the arrays of one application, keyed by address *)
Definition app_arrs (ar : list ((Z * Z) * list (option Z))) (app : Z) : list (Z * list (option Z)) :=
  flat_map (fun x => if fst (fst x) =? app then [(snd (fst x), snd x)] else []) ar.

Inductive err :=
| ETypeMismatch      (* K response for a request without qubit array *)
| EVirtNone          (* RuntimeError: virtual address is None *)
| EIndex             (* IndexError *)
| EOutHigh           (* ValueError: virtual address outside the unit module *)
| EBusy              (* RuntimeError: already allocated (negative-index alias) *)
| EResSlice          (* AssertionError / IndexError: result array missing or too short *)
| ENotAllocated      (* RuntimeError: qfree of an unallocated qubit *)
| ENoApp             (* KeyError / RuntimeError: the application is not registered (any more) *)
| EAlready           (* RuntimeError: application id already registered *)
| EBadEvent          (* harness never produces: malformed event *)
| EFuel.             (* model only *)

(* ------------------------------------------------------------------ matching *)
Definition key_eqb (a b : key) : bool := pair_eqb a b.

Definition matches (nd : Z) (r : resp) (q : req) : bool :=
  key_eqb (q_key q) (r_remote r, r_purpose r) && Bool.eqb (q_creator q) (is_creator nd r).

(* pairs_left -= 1 on the head; pop(0) when it reaches zero *)
Fixpoint dec_first (f : req -> bool) (l : list req) : list req :=
  match l with
  | [] => []
  | q :: t =>
      if f q
      then match q_left q with
           | S (S m) => mkReq (q_id q) (q_key q) (q_creator q) (q_sid q) (q_app q) (q_res q) (q_qarr q) (q_tot q) (S m) :: t
           | _ => t
           end
      else q :: dec_first f t
  end.

Inductive hres := Handled (s' : state) | NotNow | HFault (e : err).

Definition with_handled (s : state) (rq : list req) (ar : list ((Z * Z) * list (option Z)))
           (u : list (Z * list (option Z))) (us : list (Z * Z)) (e : nat * nat * nat) : state :=
  mkSt (node s) rq (pend s) ar u us (subs s) (next_sid s) (next_req s) (next_resp s) (e :: log s) (issued s).

(* one iteration of the loop body of _handle_pending_epr_responses for response r *)
Definition try_handle (s : state) (r : resp) : hres :=
  match find (matches (node s) r) (reqs s) with
  | None => NotNow                                          (* _extract_epr_info returns None *)
  | Some q =>
      let k := (q_tot q - q_left q)%nat in                  (* pair_index *)
      (* the application is recorded in the request: the issuing subroutine may have ended *)
      let app := q_app q in
      let finish (u : list (Z * list (option Z))) (us : list (Z * Z)) : hres :=
          match aget pair_eqb (app, q_res q) (arrs s) with
          | None => HFault EResSlice
          | Some l =>
              if Nat.leb ((k + 1) * OK_FIELDS) (List.length l)
              then Handled (with_handled s (dec_first (matches (node s) r) (reqs s))
                                         (aset pair_eqb (app, q_res q) (write_from l (k * OK_FIELDS) (map Some (info_of r))) (arrs s))
                                         u us (r_id r, q_id q, k))
              else HFault EResSlice
          end in
      if r_k r then
        match q_qarr q with
        | None => HFault ETypeMismatch
        | Some qa =>
            match aget pair_eqb (app, qa) (arrs s) with
            | None => HFault EVirtNone
            | Some l =>
                match nth_error l k with
                | None => HFault EIndex
                | Some None => HFault EVirtNone
                | Some (Some v) =>
                    match aget Z.eqb app (ums s) with
                    | None => HFault ENoApp                   (* the application was stopped meanwhile *)
                    | Some um =>
                        if has_virtual um v then NotNow       (* defer: virtual qubit still allocated *)
                        else
                          match slot (List.length um) v with
                          | High => HFault EOutHigh
                          | Low => HFault EIndex
                          | Slot i =>
                              match nth_error um i with
                              | Some None => finish (aset Z.eqb app (set_nth um i (Some (r_q r))) (ums s))
                                                    (add2 (0, r_q r) (used s))
                              | _ => HFault EBusy
                              end
                          end
                    end
                end
            end
        end
      else finish (ums s) (used s)
  end.

(* first handleable response wins *)
Inductive scan_res := SNone | SHit (r : resp) (s' : state) (rest : list resp) | SFault (e : err).

Fixpoint scan (s : state) (l : list resp) : scan_res :=
  match l with
  | [] => SNone
  | r :: t =>
      match try_handle s r with
      | Handled s' => SHit r s' t
      | HFault e => SFault e
      | NotNow =>
          match scan s t with
          | SHit r' s' t' => SHit r' s' (r :: t')
          | x => x
          end
      end
  end.

Definition set_pend (s : state) (p : list resp) : state :=
  mkSt (node s) (reqs s) p (arrs s) (ums s) (used s) (subs s) (next_sid s) (next_req s) (next_resp s) (log s) (issued s).

Inductive pres := Quiet (s : state) | PFault (e : err) | OutOfFuel.

(* _handle_pending_epr_responses: handle one, recurse; stop at the back end's yield
   point (_wait_to_handle_epr_responses) when nothing can be handled *)
Fixpoint handle_pending (fuel : nat) (s : state) : pres :=
  match fuel with
  | O => OutOfFuel
  | S f =>
      match scan s (pend s) with
      | SNone => Quiet s
      | SFault e => PFault e
      | SHit _ s' rest => handle_pending f (set_pend s' rest)
      end
  end.

Definition handle_all (s : state) : pres := handle_pending (S (List.length (pend s))) s.

(* ------------------------------------------------------------------ waits *)
(* Python slice l[lo:hi] *)
Definition pyslice {A} (l : list A) (lo hi : nat) : list A := firstn (hi - lo) (skipn lo l).
Definition is_some {A} (x : option A) : bool := match x with Some _ => true | None => false end.

(* true = the instruction stops waiting; None = it faults *)
Definition wait_done (ar : list (Z * list (option Z))) (w : wspec) : option bool :=
  match w with
  | WAll a lo hi =>
      match aget Z.eqb a ar with
      | None => None
      | Some l => Some (forallb is_some (pyslice l lo hi))       (* not any(v is None) *)
      end
  | WAny a lo hi =>
      match aget Z.eqb a ar with
      | None => None
      | Some l => Some (existsb is_some (pyslice l lo hi))       (* not all(v is None) *)
      end
  | WSingle a i =>
      match aget Z.eqb a ar with
      | None => None
      | Some l => match nth_error l i with
                  | None => None
                  | Some x => Some (is_some x)
                  end
      end
  end.

(* advance a subroutine: pass every wait whose condition holds, stop at the first
   that does not; a subroutine past its last wait ends (_clear_subroutine) *)
Fixpoint advance (ar : list (Z * list (option Z))) (ws : list wspec) : option (list wspec) :=
  match ws with
  | [] => Some []
  | w :: t =>
      match wait_done ar w with
      | None => None
      | Some true => advance ar t
      | Some false => Some ws
      end
  end.

Definition set_subs (s : state) (x : list (Z * (Z * list wspec))) : state :=
  mkSt (node s) (reqs s) (pend s) (arrs s) (ums s) (used s) x (next_sid s) (next_req s) (next_resp s) (log s) (issued s).

Definition poll (s : state) (sid : Z) : state * option err :=
  match aget Z.eqb sid (subs s) with
  | None => (s, Some EBadEvent)
  | Some (app, ws) =>
      match advance (app_arrs (arrs s) app) ws with
      | None => (set_subs s (adel Z.eqb sid (subs s)), Some EIndex)
      | Some [] => (set_subs s (adel Z.eqb sid (subs s)), None)
      | Some ws' => (set_subs s (aset Z.eqb sid (app, ws') (subs s)), None)
      end
  end.

(* ------------------------------------------------------------------ events *)
Inductive event :=
| Init (app : Z) (n : nat)
| Stop (app : Z)
| Create (app : Z) (k : key) (tpk : bool) (vs : list Z) (n : nat) (qarr args res : Z) (ws : list wspec)
| Recv (app : Z) (k : key) (vs : option (list Z)) (n : nat) (qarr res : Z) (ws : list wspec)
| CreateRefused (app : Z) (k : key) (tpk : bool) (vs : list Z) (n : nat) (qarr args res : Z)
    (* the same subroutine, but network_stack.put raises (the stack refuses the request):
       create_epr faults at that line and the subroutine ends *)
| Resp (r : resp)
| Retry
| Poll (sid : Z)
| Free (app v : Z)
| Alloc (app v : Z).

Definition registered (s : state) (app : Z) : bool :=
  match aget Z.eqb app (ums s) with Some _ => true | None => false end.

Definition enqueue (s : state) (app : Z) (k : key) (creator : bool) (qa : option Z) (res : Z) (n : nat)
           (ar : list ((Z * Z) * list (option Z))) (ws : list wspec) : state :=
  let sid := next_sid s in
  mkSt (node s)
       (reqs s ++ [mkReq (next_req s) k creator sid app res qa n n])
       (pend s) ar (ums s) (used s)
       (aset Z.eqb sid (app, ws) (subs s)) (sid + 1) (S (next_req s)) (next_resp s) (log s)
       ((next_req s, n) :: issued s).

Definition create_args (tpk : bool) (n : nat) : list (option Z) :=
  [Some (if tpk then 0 else 1); Some (Z.of_nat n)] ++ repeat None 18.

(* changes that touch neither the requests, the pending list, the log nor the waiting
   subroutines: arrays declared, unit modules / in-use set changed, subroutine counter advanced *)
Definition frame (s : state) (ar : list ((Z * Z) * list (option Z))) (u : list (Z * list (option Z)))
           (us : list (Z * Z)) (sid : Z) : state :=
  mkSt (node s) (reqs s) (pend s) ar u us (subs s) sid (next_req s) (next_resp s) (log s) (issued s).

(* the arrays a create subroutine declares before create_epr *)
Definition create_arrays (s : state) (app : Z) (tpk : bool) (vs : list Z) (n : nat) (qarr args res : Z) :=
  let ar := if tpk then aset pair_eqb (app, qarr) (map Some vs) (arrs s) else arrs s in
  let ar := aset pair_eqb (app, args) (create_args tpk n) ar in
  aset pair_eqb (app, res) (repeat None (n * OK_FIELDS)) ar.

Definition of_pres (s0 : state) (p : pres) : state * option err :=
  match p with
  | Quiet s => (s, None)
  | PFault e => (s0, Some e)
  | OutOfFuel => (s0, Some EFuel)
  end.

Definition step (s : state) (e : event) : state * option err :=
  match e with
  | Init app n =>
      (* InitNewAppMessage *)
      if registered s app then (s, Some EAlready)
      else (frame s (arrs s) (aset Z.eqb app (repeat None n) (ums s)) (used s) (next_sid s), None)
  | Stop app =>
      (* StopAppMessage: qubits released, arrays dropped; the request queues and the pending
         list are NOT touched *)
      match aget Z.eqb app (ums s) with
      | None => (s, Some ENoApp)
      | Some um =>
          (frame s (filter (fun x => negb (fst (fst x) =? app)) (arrs s)) (adel Z.eqb app (ums s))
                 (filter (fun x => negb (existsb (fun o => match o with Some p => pair_eqb x (0, p) | None => false end) um))
                         (used s))
                 (next_sid s), None)
      end
  | Create app k tpk vs n qarr args res ws =>
      (* subroutine: declare the arrays, create_epr, then run into its first wait *)
      if negb (registered s app) then (s, Some ENoApp) else
      if (Nat.eqb n 0) || (tpk && negb (Nat.eqb (List.length vs) n)) then (s, Some EBadEvent) else
      let s1 := enqueue s app k true (if tpk then Some qarr else None) res n
                        (create_arrays s app tpk vs n qarr args res) ws in
      poll s1 (next_sid s)
  | CreateRefused app k tpk vs n qarr args res =>
      (* the arrays were declared by the instructions before create_epr; the refused request
         leaves NO outstanding request behind: the queues are as before the instruction *)
      if negb (registered s app) then (s, Some ENoApp) else
      if (Nat.eqb n 0) || (tpk && negb (Nat.eqb (List.length vs) n)) then (s, Some EBadEvent) else
      (frame s (create_arrays s app tpk vs n qarr args res) (ums s) (used s) (next_sid s + 1), None)
  | Recv app k vs n qarr res ws =>
      if negb (registered s app) then (s, Some ENoApp) else
      if Nat.eqb n 0 then (s, Some EBadEvent) else
      let ar := match vs with Some l => aset pair_eqb (app, qarr) (map Some l) (arrs s) | None => arrs s end in
      let ar := aset pair_eqb (app, res) (repeat None (n * OK_FIELDS)) ar in
      let s1 := enqueue s app k false (match vs with Some _ => Some qarr | None => None end) res n ar ws in
      poll s1 (next_sid s)
  | Resp r =>
      (* _handle_epr_response: append, then handle what can be handled *)
      let r' := mkResp (next_resp s) (r_k r) (r_remote r) (r_purpose r) (r_flag r) (r_q r) (r_cid r) (r_seq r)
                       (r_good r) (r_x r) (r_bell r) in
      let s1 := mkSt (node s) (reqs s) (pend s ++ [r']) (arrs s) (ums s) (used s) (subs s) (next_sid s)
                     (next_req s) (S (next_resp s)) (log s) (issued s) in
      of_pres s1 (handle_all s1)
  | Retry => of_pres s (handle_all s)
  | Poll sid => poll s sid
  | Free app v =>
      (* subroutine `set Q0 v; qfree Q0` *)
      match aget Z.eqb app (ums s) with
      | None => (s, Some ENoApp)
      | Some um =>
          match slot (List.length um) v with
          | High | Low => (frame s (arrs s) (ums s) (used s) (next_sid s + 1), Some EIndex)
          | Slot i =>
              match nth_error um i with
              | Some (Some p) =>
                  (frame s (arrs s) (aset Z.eqb app (set_nth um i None) (ums s)) (rem2 (0, p) (used s)) (next_sid s + 1), None)
              | _ => (frame s (arrs s) (ums s) (used s) (next_sid s + 1), Some ENotAllocated)
              end
          end
      end
  | Alloc app v =>
      (* subroutine `set Q0 v; qalloc Q0` *)
      match aget Z.eqb app (ums s) with
      | None => (s, Some ENoApp)
      | Some um =>
          match slot (List.length um) v with
          | High => (frame s (arrs s) (ums s) (used s) (next_sid s + 1), Some EOutHigh)
          | Low => (frame s (arrs s) (ums s) (used s) (next_sid s + 1), Some EIndex)
          | Slot i =>
              match nth_error um i, first_unused 0 (used s) with
              | Some None, Some p =>
                  (frame s (arrs s) (aset Z.eqb app (set_nth um i (Some p)) (ums s)) ((0, p) :: used s) (next_sid s + 1), None)
              | Some None, None => (s, Some EFuel)
              | _, _ => (frame s (arrs s) (ums s) (used s) (next_sid s + 1), Some EBusy)
              end
          end
      end
  end.

(* a run stops at the first fault (the exception propagates out of the executor) *)
Fixpoint run (s : state) (es : list event) : option state :=
  match es with
  | [] => Some s
  | e :: t => match step s e with
              | (s', None) => run s' t
              | (_, Some _) => None
              end
  end.

(* the queue the code keeps for one (key, role) *)
Definition queue (s : state) (k : key) (creator : bool) : list req :=
  filter (fun q => key_eqb (q_key q) k && Bool.eqb (q_creator q) creator) (reqs s).

(* ------------------------------------------------------------------ sockets and purposes *)
(* create_epr / recv_epr name the LOCAL EPR socket; the request is queued under the purpose id
   the network stack assigns to that socket (_get_purpose_id), which is also what responses
   carry.  The assignment is the stack's business: identity, cross-connected sockets
   (purpose = the remote side's socket id), a constant offset, ... *)
Inductive pmap := PId | PSwap | POff (d : Z).

Definition purpose_of (pm : pmap) (remote sock : Z) : Z :=
  match pm with
  | PId => sock
  | PSwap => 1 - sock
  | POff d => sock + d
  end.

(* events as the instructions state them: (remote node, local socket) *)
Inductive ievent :=
| ICreate (app remote sock : Z) (tpk : bool) (vs : list Z) (n : nat) (qarr args res : Z) (ws : list wspec)
| IRecv (app remote sock : Z) (vs : option (list Z)) (n : nat) (qarr res : Z) (ws : list wspec)
| ICreateRefused (app remote sock : Z) (tpk : bool) (vs : list Z) (n : nat) (qarr args res : Z)
| IOther (e : event).

Definition lower (pm : pmap) (ie : ievent) : event :=
  match ie with
  | ICreate app remote sock tpk vs n qarr args res ws =>
      Create app (remote, purpose_of pm remote sock) tpk vs n qarr args res ws
  | IRecv app remote sock vs n qarr res ws =>
      Recv app (remote, purpose_of pm remote sock) vs n qarr res ws
  | ICreateRefused app remote sock tpk vs n qarr args res =>
      CreateRefused app (remote, purpose_of pm remote sock) tpk vs n qarr args res
  | IOther e => e
  end.
