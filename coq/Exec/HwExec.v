(* HwExec.v — the model of executor.py / shared_memory.py under the configuration:
   the same handlers as Exec.v with sdk/shared_memory._assert_within_width active
   (get_is_using_hardware()) at exactly the places the code has it:
     RegisterGroup.__setitem__      value                      (registers, shared-memory registers)
     Arrays._extract_key            address                    (every __getitem__ / __setitem__)
     Arrays.__setitem__ (int index) value and index, only when the value is an int
     Arrays.init_new_array          address
     Arrays._assert_list            every defined element and the length  (ret_arr -> _set_array)
   No proofs in this file. *)
From Coq Require Import ZArith List Bool.
From NQ Require Import Exec.State Exec.Exec.
Import ListNotations.
Open Scope Z_scope.

(* _assert_within_width(value, ADDRESS_BITS) with the flag on *)
Definition assert_within_width (v : Z) : exc unit := if fits v then Ok tt else Raise FOverflow.

(* RegisterGroup.__setitem__: _assert_within_length(index); _assert_within_width(value) *)
Definition hset_register (st : state) (r : reg) (v : Z) : exc state :=
  _ <- assert_within_length (snd r) ;; _ <- assert_within_width v ;;
  Ok (with_regs st (upd reg_eqb r v (regs st))).

(* Arrays._extract_key *)
Definition extract_key (a : Z) : exc unit := assert_within_width a.

(* Arrays.__getitem__ *)
Definition harrays_getitem (st : state) (a i : Z) : exc cell :=
  _ <- extract_key a ;; arrays_getitem st a i.
Definition harrays_getslice (st : state) (a s e : Z) : exc (option (list cell)) :=
  _ <- extract_key a ;; arrays_getslice st a s e.

(* Arrays.__setitem__ with an int index *)
Definition harrays_setitem (st : state) (a i : Z) (v : cell) : exc state :=
  _ <- extract_key a ;;
  _ <- match v with
       | Some x => _ <- assert_within_width x ;; assert_within_width i     (* isinstance(value, int) *)
       | None => Ok tt
       end ;;
  arrays_setitem st a i v.

Definition hget_array_entry (st : state) (a : Z) (ix : opnd) : exc cell :=
  i <- expand_entry st ix ;; harrays_getitem st a i.
Definition hset_array_entry (st : state) (a : Z) (ix : opnd) (v : cell) : exc state :=
  i <- expand_entry st ix ;; harrays_setitem st a i v.

(* ------------------------------------------------------------------ handlers *)
Definition hinstr_set (r : reg) (imm : Z) (st : state) : exc state := hset_register st r imm.
Definition hinstr_lea (r : reg) (a : Z) (st : state) : exc state := hset_register st r a.

Definition hinstr_array (size : reg) (a : Z) (st : state) : exc state :=
  length <- get_register st size ;;
  match length with
  | None => Raise FAssert
  | Some n => _ <- assert_within_width a ;;              (* Arrays.init_new_array *)
              Ok (bind_array a (py_repeat_none n) st)
  end.

Definition hinstr_store (r : reg) (a : Z) (ix : opnd) (st : state) : exc state :=
  value <- get_register st r ;;
  match value with
  | None => Raise FUndefReg
  | Some v => hset_array_entry st a ix (Some v)
  end.

Definition hinstr_load (r : reg) (a : Z) (ix : opnd) (st : state) : exc state :=
  value <- hget_array_entry st a ix ;;
  match value with
  | None => Raise FUndefEntry
  | Some v => hset_register st r v
  end.

Definition hinstr_undef (a : Z) (ix : opnd) (st : state) : exc state := hset_array_entry st a ix None.

Definition hinstr_ret_reg (r : reg) (st : state) : exc state :=
  value <- get_register st r ;;
  match value with
  | None => Raise FUndefReg
  | Some v =>
      _ <- assert_within_length (snd r) ;; _ <- assert_within_width v ;;   (* SharedMemory.set_register *)
      Ok (with_sregs st (upd reg_eqb r v (sregs st)))
  end.

(* SharedMemory.init_new_array(address, new_array=array): Arrays.init_new_array(address, len)
   [width(address)], then _set_array -> _assert_list.  When _assert_list raises, the shared
   memory already holds a fresh all-None list at that address: a partial update this
   exception monad cannot express; the model raises FBook there and the reference semantics
   leaves the case open (HwSem), so the refinement theorem does not cover it. *)
Definition hinstr_ret_arr (a : Z) (st : state) : exc state :=
  l <- arrays_get_array st a ;;
  _ <- assert_within_width a ;;
  if forallb cell_fits l && fits (Zlen l) then Ok (publish a st) else Raise FBook.

Definition hinstr_wait_all (a : Z) (start stop : opnd) (st : state) : exc state :=
  se <- expand_slice st start stop ;;
  values <- harrays_getslice st a (fst se) (snd se) ;;
  match values with
  | None => Raise FNoSlice
  | Some vs => if existsb is_none vs then Block else Ok st
  end.

Definition hinstr_wait_any (a : Z) (start stop : opnd) (st : state) : exc state :=
  se <- expand_slice st start stop ;;
  values <- harrays_getslice st a (fst se) (snd se) ;;
  match values with
  | None => Raise FNoSlice
  | Some vs => if forallb is_none vs then Block else Ok st
  end.

Definition hinstr_wait_single (a : Z) (ix : opnd) (st : state) : exc state :=
  value <- hget_array_entry st a ix ;;
  match value with None => Block | Some _ => Ok st end.

Definition hhandle_binary_classical_instr (c : clinstr) (st : state) : exc state :=
  md <- match c with
        | COpm _ _ _ _ rm => get_register st rm
        | COp _ _ _ _ => Ok None
        end ;;
  _ <- match md with
       | Some m => if m <? 1 then Raise FModulus else Ok tt
       | None => Ok tt
       end ;;
  a <- get_register st (regin0 c) ;;
  b <- get_register st (regin1 c) ;;
  match a, b with
  | Some x, Some y =>
      value <- compute_binary_classical_instr c x y md ;;
      hset_register st (regout c) value
  | _, _ => Raise FAssert
  end.

Definition hw_execute_command (i : instr) (st : state) (pc : Z) : exc (state * Z) :=
  match i with
  | ISet r v => inc_program_counter (hinstr_set r v) st pc
  | ILea r a => inc_program_counter (hinstr_lea r a) st pc
  | IArray sz a => inc_program_counter (hinstr_array sz a) st pc
  | ILoad r a ix => inc_program_counter (hinstr_load r a ix) st pc
  | IStore r a ix => inc_program_counter (hinstr_store r a ix) st pc
  | IUndef a ix => inc_program_counter (hinstr_undef a ix) st pc
  | IRetReg r => inc_program_counter (hinstr_ret_reg r) st pc
  | IRetArr a => inc_program_counter (hinstr_ret_arr a) st pc
  | IQalloc r => inc_program_counter (instr_qalloc r) st pc
  | IQfree r => inc_program_counter (instr_qfree r) st pc
  | IWaitAll a s e => inc_program_counter (hinstr_wait_all a s e) st pc
  | IWaitAny a s e => inc_program_counter (hinstr_wait_any a s e) st pc
  | IWaitSingle a ix => inc_program_counter (hinstr_wait_single a ix) st pc
  | IBranch b => handle_branch_instr b st pc
  | IClassical c => inc_program_counter (hhandle_binary_classical_instr c) st pc
  end.

Definition hexecute_command (cfg : config) (i : instr) (st : state) (pc : Z) : exc (state * Z) :=
  if cfg_hw cfg then hw_execute_command i st pc else execute_command i st pc.

(* the fetch / execute loop of Exec.run_from, parametric in the dispatcher *)
Fixpoint run_from_with (execf : instr -> state -> Z -> exc (state * Z))
         (prog : list instr) (st : state) (pc : Z) (fuel : nat) : result :=
  if pc <? Zlen prog then
    match py_getitem prog pc with
    | Ok i =>
        match fuel with
        | O => (st, pc, OutOfFuel)
        | S f => match execf i st pc with
                 | Ok (st', pc') => run_from_with execf prog st' pc' f
                 | Raise k => (st, pc, Fault k pc)
                 | Block => (st, pc, Blocked pc)
                 end
        end
    | _ => (st, pc, Crash)
    end
  else (st, pc, Halt).

Definition hrun_from (cfg : config) := run_from_with (hexecute_command cfg).
Definition hrun (cfg : config) (prog : list instr) (st : state) (fuel : nat) : result := hrun_from cfg prog st 0 fuel.

Fixpoint hrun_many (cfg : config) (subs : list (list instr)) (st : state) (fuel : nat) : list result :=
  match subs with
  | [] => []
  | p :: ps => let r := hrun cfg p st fuel in r :: hrun_many cfg ps (fst (fst r)) fuel
  end.
