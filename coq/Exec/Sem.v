(* Sem.v — reference semantics of the core classical NetQASM instructions
   (the SPEC side of C04).  Written directly from the instruction descriptions:
   one [match] on the instruction, mathematical operations ([Z.modulo],
   [nth_error], quantification over index ranges by [seq]), explicit faults that
   carry the line, and an explicit [Unspec] result wherever the property leaves
   the behaviour open.  Nothing here follows the structure of executor.py.
   No proofs in this file. *)
From Coq Require Import ZArith List Bool.
From NQ Require Import Exec.State.
Import ListNotations.
Open Scope Z_scope.

(* one step: continue in a new state at a new pc, or stop *)
Inductive sres := Next (st : state) (pc : Z) | Stop (o : outcome).

(* register file: 4 banks x 16 *)
Definition reg_ok (r : reg) : bool := (0 <=? snd r) && (snd r <? 16).
Definition rd (st : state) (r : reg) : cell := find reg_eqb r (regs st).
Definition wr (st : state) (r : reg) (v : Z) : state := with_regs st (upd reg_eqb r v (regs st)).

Definition opnd_ok (o : opnd) : bool := match o with OReg r => reg_ok r | OImm _ => true end.
Definition oval (st : state) (o : opnd) : cell := match o with OReg r => rd st r | OImm n => Some n end.

(* every register named by the instruction exists *)
Definition instr_regs_ok (i : instr) : bool :=
  match i with
  | ISet r _ | ILea r _ | IArray r _ | IRetReg r | IQalloc r | IQfree r => reg_ok r
  | ILoad r _ ix | IStore r _ ix => reg_ok r && opnd_ok ix
  | IUndef _ ix | IWaitSingle _ ix => opnd_ok ix
  | IClassical (COp _ d a b) => reg_ok d && reg_ok a && reg_ok b
  | IClassical (COpm _ d a b m) => reg_ok d && reg_ok a && reg_ok b && reg_ok m
  | IBranch (BJmp _) => true
  | IBranch (BUn _ r _) => reg_ok r
  | IBranch (BBin _ r0 r1 _) => reg_ok r0 && reg_ok r1
  | IRetArr _ => true
  | IWaitAll _ s e | IWaitAny _ s e => opnd_ok s && opnd_ok e
  end.

(* l with position n replaced by v *)
Definition sset {A} (n : nat) (v : A) (l : list A) : list A := firstn n l ++ v :: skipn (S n) l.

Definition defined (c : option cell) : bool := match c with Some (Some _) => true | _ => false end.

(* entries s, s+1, ..., e-1 of l *)
Definition range (s e : Z) : list nat := seq (Z.to_nat s) (Z.to_nat (e - s)).

Definition ucond_holds (c : ucond) (a : Z) : bool :=
  match c with Cez => a =? 0 | Cnz => negb (a =? 0) end.
Definition bcond_holds (c : bcond) (a b : Z) : bool :=
  match c with Ceq => a =? b | Cne => negb (a =? b) | Clt => a <? b | Cge => b <=? a end.
Definition binop_val (o : binop) (a b : Z) : Z := match o with OAdd => a + b | OSub => a - b end.

(* the least k >= 0 with k not in l: it is among 0 .. length l *)
Definition least_unused (l : list Z) : option Z :=
  List.find (fun k => negb (set_mem k l)) (map Z.of_nat (seq 0 (S (List.length l)))).

Definition step (i : instr) (st : state) (pc : Z) : sres :=
  let fault k := Stop (Fault k pc) in
  let open := Stop (Unspec pc) in
  let next st' := Next st' (pc + 1) in
  if negb (instr_regs_ok i) then open          (* not an instruction of the language *)
  else match i with
  | ISet r v => next (wr st r v)
  | ILea r a => next (wr st r a)
  | IArray sz a =>
      match rd st sz with
      | None => fault FAssert
      | Some n => if n <? 0 then open            (* negative length: open *)
                  else next (bind_array a (repeat None (Z.to_nat n)) st)
      end
  | ILoad r a ix =>
      match oval st ix with
      | None => fault FUndefReg
      | Some n =>
          if n <? 0 then open                    (* negative index: open *)
          else match find Z.eqb a (arrs st) with
               | None => fault FUndefEntry
               | Some l => if Zlen l <=? n then fault FIndex
                           else match nth_error l (Z.to_nat n) with
                                | None => fault FIndex
                                | Some None => fault FUndefEntry
                                | Some (Some v) => next (wr st r v)
                                end
               end
      end
  | IStore r a ix =>
      match rd st r with
      | None => fault FUndefReg
      | Some v =>
          match oval st ix with
          | None => fault FUndefReg
          | Some n =>
              if n <? 0 then open
              else match find Z.eqb a (arrs st) with
                   | None => fault FNoArray
                   | Some l => if n <? Zlen l
                               then next (write_array a (sset (Z.to_nat n) (Some v) l) st)
                               else fault FIndex
                   end
          end
      end
  | IUndef a ix =>
      match oval st ix with
      | None => fault FUndefReg
      | Some n =>
          if n <? 0 then open
          else match find Z.eqb a (arrs st) with
               | None => fault FNoArray
               | Some l => if n <? Zlen l
                           then next (write_array a (sset (Z.to_nat n) None l) st)
                           else fault FIndex
               end
      end
  | IClassical (COp o d ra rb) =>
      match rd st ra, rd st rb with
      | Some a, Some b => next (wr st d (binop_val o a b))
      | _, _ => fault FAssert
      end
  | IClassical (COpm o d ra rb rm) =>
      match rd st rm with
      | None => fault FAssert
      | Some m =>
          if m <? 1 then fault FModulus
          else match rd st ra, rd st rb with
               | Some a, Some b => next (wr st d (Z.modulo (binop_val o a b) m))
               | _, _ => fault FAssert
               end
      end
  | IBranch (BJmp t) => Next st t
  | IBranch (BUn c r t) =>
      match rd st r with
      | None => open                             (* branching on an undefined register: open *)
      | Some a => Next st (if ucond_holds c a then t else pc + 1)
      end
  | IBranch (BBin c r0 r1 t) =>
      match rd st r0, rd st r1 with
      | Some a, Some b => Next st (if bcond_holds c a b then t else pc + 1)
      | _, _ => open
      end
  | IRetReg r =>
      match rd st r with
      | None => fault FUndefReg
      | Some v => next (with_sregs st (upd reg_eqb r v (sregs st)))
      end
  | IRetArr a =>
      match find Z.eqb a (arrs st) with
      | None => fault FNoArray
      | Some _ => next (publish a st)
      end
  | IQalloc r =>
      match rd st r with
      | None => fault FUndefReg
      | Some q =>
          if q <? 0 then open                    (* negative virtual id: open *)
          else if Zlen (um st) <=? q then fault FUnitRange      (* q >= capacity *)
          else match nth_error (um st) (Z.to_nat q) with
               | None => fault FUnitRange
               | Some (Some _) => fault FAlloc
               | Some None =>
                   (* the least physical qubit that is not in use is mapped and marked in use *)
                   match least_unused (used st) with
                   | Some p => next (with_um st (sset (Z.to_nat q) (Some p) (um st)) (set_add p (used st)))
                   | None => fault FBook
                   end
               end
      end
  | IQfree r =>
      match rd st r with
      | None => fault FAssert
      | Some q =>
          if q <? 0 then open
          else if Zlen (um st) <=? q then fault FIndex
          else match nth_error (um st) (Z.to_nat q) with
               | None => fault FIndex
               | Some None => fault FFree
               | Some (Some p) =>
                   (* the mapping is removed and the physical qubit released *)
                   if set_mem p (used st)
                   then next (with_um st (sset (Z.to_nat q) None (um st)) (set_remove p (used st)))
                   else fault FBook
               end
      end
  | IWaitAll a so eo =>
      match oval st so, oval st eo with
      | Some s, Some e =>
          match find Z.eqb a (arrs st) with
          | None => fault FNoSlice
          | Some l =>
              if (0 <=? s) && (s <=? e) && (e <=? Zlen l)
              then if forallb (fun k => defined (nth_error l k)) (range s e)
                   then next st else Stop (Blocked pc)
              else open                          (* bounds outside 0 <= s <= e <= len: open *)
          end
      | _, _ => fault FUndefReg
      end
  | IWaitAny a so eo =>
      match oval st so, oval st eo with
      | Some s, Some e =>
          match find Z.eqb a (arrs st) with
          | None => fault FNoSlice
          | Some l =>
              if (0 <=? s) && (s <=? e) && (e <=? Zlen l)
              then if existsb (fun k => defined (nth_error l k)) (range s e)
                   then next st else Stop (Blocked pc)
              else open
          end
      | _, _ => fault FUndefReg
      end
  | IWaitSingle a ix =>
      match oval st ix with
      | None => fault FUndefReg
      | Some n =>
          if n <? 0 then open
          else match find Z.eqb a (arrs st) with
               | None => Stop (Blocked pc)       (* a missing array reads as undefined *)
               | Some l => if Zlen l <=? n then fault FIndex
                           else match nth_error l (Z.to_nat n) with
                                | None => fault FIndex
                                | Some None => Stop (Blocked pc)
                                | Some (Some _) => next st
                                end
               end
      end
  end.

(* Run a subroutine from [pc].  Jump targets >= length halt; a negative pc is open. *)
Fixpoint run_from (prog : list instr) (st : state) (pc : Z) (fuel : nat) : result :=
  if pc <? 0 then (st, pc, Unspec pc)
  else if Zlen prog <=? pc then (st, pc, Halt)
  else match nth_error prog (Z.to_nat pc) with
       | None => (st, pc, Halt)
       | Some i =>
           match fuel with
           | O => (st, pc, OutOfFuel)
           | S f => match step i st pc with
                    | Next st' pc' => run_from prog st' pc' f
                    | Stop o => (st, pc, o)
                    end
           end
       end.

Definition run (prog : list instr) (st : state) (fuel : nat) : result := run_from prog st 0 fuel.

(* several subroutines against one application state (each starts at pc 0) *)
Fixpoint run_many (subs : list (list instr)) (st : state) (fuel : nat) : list result :=
  match subs with
  | [] => []
  | p :: ps => let r := run p st fuel in r :: run_many ps (fst (fst r)) fuel
  end.

Definition is_unspec (o : outcome) : bool := match o with Unspec _ => true | _ => false end.

(* ---------------------------------------------------------------- defined domain
   The executions the property speaks about: the reference semantics never
   reaches an instruction whose behaviour the property leaves open.  [step]
   returns [Unspec] in exactly these situations (each marked "open" above):
     1. an instruction names a register outside the 4 x 16 register file
        (not representable in the binary format);
     2. a NEGATIVE array index (load/store/undef/wait_single), a negative array
        length, a negative virtual qubit id (qalloc/qfree), a negative program
        counter (jump target) -- Python wraps negative list indices;
     3. a conditional branch on an undefined register (Python: None == None);
     4. wait_all/wait_any slice bounds outside 0 <= start <= stop <= length
        (Python clamps slices silently; the wait instructions are not in the
        property's list).
   Every fault listed in the property (store/load of an undefined value,
   modulus < 1, double allocation, free of an unallocated qubit, index >= length)
   is INSIDE the domain: there [step] returns a [Fault]. *)
Definition defined_from (prog : list instr) (st : state) (pc : Z) : Prop :=
  forall fuel, is_unspec (snd (run_from prog st pc fuel)) = false.
Definition defined_domain (prog : list instr) (st : state) : Prop := defined_from prog st 0.

Fixpoint defined_many (subs : list (list instr)) (st : state) (fuel : nat) : Prop :=
  match subs with
  | [] => True
  | p :: ps => defined_domain p st /\ defined_many ps (fst (fst (run p st fuel))) fuel
  end.
