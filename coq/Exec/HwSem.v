(* HwSem.v — the reference semantics with the CONFIGURATION (State.config):
   cfg_hw = false is Sem.step unchanged (simulation: unbounded values);
   cfg_hw = true (set_is_using_hardware(True)) prescribes, in addition, that every
   value written to a register, every value / index written to an array entry,
   every array address used, and every value returned to the host fits the
   declared width (32 bits, two's complement): otherwise the instruction faults
   with FOverflow at its line and changes nothing.  The position of the width
   check among the other faults of an instruction is part of the prescription
   (e.g. store: undefined value / index first, then address, value, index width,
   then missing array, then index range).  Spec style, one match; no proofs. *)
From Coq Require Import ZArith List Bool.
From NQ Require Import Exec.State Exec.Sem.
Import ListNotations.
Open Scope Z_scope.

Definition hw_step (i : instr) (st : state) (pc : Z) : sres :=
  let fault k := Stop (Fault k pc) in
  let open := Stop (Unspec pc) in
  let next st' := Next st' (pc + 1) in
  let ovf := Stop (Fault FOverflow pc) in
  if negb (instr_regs_ok i) then open
  else match i with
  | ISet r v => if fits v then next (wr st r v) else ovf
  | ILea r a => if fits a then next (wr st r a) else ovf
  | IArray sz a =>
      match rd st sz with
      | None => fault FAssert
      | Some n => if n <? 0 then open
                  else if fits a then next (bind_array a (repeat None (Z.to_nat n)) st) else ovf
      end
  | ILoad r a ix =>
      match oval st ix with
      | None => fault FUndefReg
      | Some n =>
          if n <? 0 then open
          else if negb (fits a) then ovf
          else match find Z.eqb a (arrs st) with
               | None => fault FUndefEntry
               | Some l => if Zlen l <=? n then fault FIndex
                           else match nth_error l (Z.to_nat n) with
                                | None => fault FIndex
                                | Some None => fault FUndefEntry
                                | Some (Some v) => if fits v then next (wr st r v) else ovf
                                end
               end
      end
  | IStore r a ix =>
      match rd st r with
      | None => fault FUndefReg
      | Some v =>
          match oval st ix with
          | None => fault FUndefReg
          | Some n =>
              if n <? 0 then open
              else if negb (fits a && fits v && fits n) then ovf
              else match find Z.eqb a (arrs st) with
                   | None => fault FNoArray
                   | Some l => if n <? Zlen l
                               then next (write_array a (sset (Z.to_nat n) (Some v) l) st)
                               else fault FIndex
                   end
          end
      end
  | IUndef a ix =>
      match oval st ix with
      | None => fault FUndefReg
      | Some n =>
          if n <? 0 then open
          else if negb (fits a) then ovf           (* an undefined value has no width: only the address is checked *)
          else match find Z.eqb a (arrs st) with
               | None => fault FNoArray
               | Some l => if n <? Zlen l
                           then next (write_array a (sset (Z.to_nat n) None l) st)
                           else fault FIndex
               end
      end
  | IClassical (COp o d ra rb) =>
      match rd st ra, rd st rb with
      | Some a, Some b => if fits (binop_val o a b) then next (wr st d (binop_val o a b)) else ovf
      | _, _ => fault FAssert
      end
  | IClassical (COpm o d ra rb rm) =>
      match rd st rm with
      | None => fault FAssert
      | Some m =>
          if m <? 1 then fault FModulus
          else match rd st ra, rd st rb with
               | Some a, Some b =>
                   if fits (Z.modulo (binop_val o a b) m)
                   then next (wr st d (Z.modulo (binop_val o a b) m)) else ovf
               | _, _ => fault FAssert
               end
      end
  | IRetReg r =>
      match rd st r with
      | None => fault FUndefReg
      | Some v => if fits v then next (with_sregs st (upd reg_eqb r v (sregs st))) else ovf
      end
  | IRetArr a =>
      match find Z.eqb a (arrs st) with
      | None => fault FNoArray
      | Some l =>
          if negb (fits a) then ovf
          else if forallb cell_fits l && fits (Zlen l) then next (publish a st)
          else open     (* an element outside the width: the code has already replaced the host's array
                           when it notices (partial update) -- left open; unreachable while all stores
                           are width-checked *)
      end
  | IWaitAll a so eo =>
      match oval st so, oval st eo with
      | Some s, Some e => if negb (fits a) then ovf else step i st pc
      | _, _ => fault FUndefReg
      end
  | IWaitAny a so eo =>
      match oval st so, oval st eo with
      | Some s, Some e => if negb (fits a) then ovf else step i st pc
      | _, _ => fault FUndefReg
      end
  | IWaitSingle a ix =>
      match oval st ix with
      | None => fault FUndefReg
      | Some n => if n <? 0 then open else if negb (fits a) then ovf else step i st pc
      end
  | IBranch _ | IQalloc _ | IQfree _ => step i st pc     (* no register / array write *)
  end.

Definition hstep (cfg : config) (i : instr) (st : state) (pc : Z) : sres :=
  if cfg_hw cfg then hw_step i st pc else step i st pc.

(* the run functions of Sem, parametric in the step function *)
Fixpoint run_from_with (stepf : instr -> state -> Z -> sres)
         (prog : list instr) (st : state) (pc : Z) (fuel : nat) : result :=
  if pc <? 0 then (st, pc, Unspec pc)
  else if Zlen prog <=? pc then (st, pc, Halt)
  else match nth_error prog (Z.to_nat pc) with
       | None => (st, pc, Halt)
       | Some i =>
           match fuel with
           | O => (st, pc, OutOfFuel)
           | S f => match stepf i st pc with
                    | Next st' pc' => run_from_with stepf prog st' pc' f
                    | Stop o => (st, pc, o)
                    end
           end
       end.

Definition hrun_from (cfg : config) := run_from_with (hstep cfg).
Definition hrun (cfg : config) (prog : list instr) (st : state) (fuel : nat) : result := hrun_from cfg prog st 0 fuel.

Fixpoint hrun_many (cfg : config) (subs : list (list instr)) (st : state) (fuel : nat) : list result :=
  match subs with
  | [] => []
  | p :: ps => let r := hrun cfg p st fuel in r :: hrun_many cfg ps (fst (fst r)) fuel
  end.

Definition hdefined_from (cfg : config) (prog : list instr) (st : state) (pc : Z) : Prop :=
  forall fuel, is_unspec (snd (hrun_from cfg prog st pc fuel)) = false.
Definition hdefined_domain (cfg : config) (prog : list instr) (st : state) : Prop := hdefined_from cfg prog st 0.

Fixpoint hdefined_many (cfg : config) (subs : list (list instr)) (st : state) (fuel : nat) : Prop :=
  match subs with
  | [] => True
  | p :: ps => hdefined_domain cfg p st /\ hdefined_many cfg ps (fst (fst (hrun cfg p st fuel))) fuel
  end.
