(* ExecCheck.v — executable comparison of the executor model (Exec.v) and of the
   reference semantics (Sem.v) with results recorded from the real
   netqasm.backend.executor.Executor (correspondence + oracle of C04).
   No proofs in this file. *)
From Coq Require Import ZArith List Bool.
From NQ Require Import Exec.State Exec.Sem Exec.Exec Exec.SemQ.
From NQ Require Exec.HwSem Exec.HwExec.
Import ListNotations.
Open Scope Z_scope.

(* Python exception class raised by the implementation for each fault reason:
   0 RuntimeError  1 AssertionError  2 IndexError  3 ValueError  4 TypeError  6 OverflowError  (5 anything else) *)
Definition kind_class (k : fkind) : Z :=
  match k with
  | FUndefReg | FUndefEntry | FModulus | FAlloc | FFree | FNoSlice => 0
  | FAssert => 1
  | FIndex | FNoArray | FRegIndex => 2
  | FUnitRange => 3
  | FType => 4
  | FBook => 5
  | FOverflow => 6
  end.

(* what the implementation did with one subroutine *)
Inductive iout :=
| IHalt
| IFault (cls : Z) (line : Z)     (* exception of class cls whose message names the line *)
| IBlocked (line : Z)
| IFuel
| ICrash.                         (* exception whose message names no line *)

Definition out_matches (o : outcome) (io : iout) : bool :=
  match o, io with
  | Halt, IHalt => true
  | Fault k l, IFault c l' => (kind_class k =? c) && (l =? l')
  | Blocked l, IBlocked l' => l =? l'
  | OutOfFuel, IFuel => true
  | Crash, ICrash => true
  | _, _ => false
  end.

Record expect := mkX {
  x_out : iout;
  x_pc : Z;
  x_regs : list (Z * Z * Z);              (* bank number, index, value: the defined registers *)
  x_arrs : list (Z * list cell);
  x_sregs : list (Z * Z * Z);
  x_sarrs : list (Z * list cell);
  x_um : list (option Z);                 (* physical id per virtual id *)
  x_used : list Z                         (* the in-use set of physical ids, sorted *)
}.

Record ecase := mkCase {
  c_cap : nat;
  c_fuel : nat;
  c_subs : list (list instr);
  c_expect : list expect
}.

Definition cell_eqb (a b : cell) : bool :=
  match a, b with
  | None, None => true
  | Some x, Some y => x =? y
  | _, _ => false
  end.

Fixpoint list_eqb {A} (eqb : A -> A -> bool) (a b : list A) : bool :=
  match a, b with
  | [], [] => true
  | x :: a', y :: b' => eqb x y && list_eqb eqb a' b'
  | _, _ => false
  end.

Definition bank_of (n : Z) : bank :=
  if n =? 0 then BR else if n =? 1 then BC else if n =? 2 then BQ else BM.

Definition regs_match (m : list (reg * Z)) (x : list (Z * Z * Z)) : bool :=
  (Zlen m =? Zlen x) &&
  forallb (fun t => match t with
                    | (b, i, v) => match find reg_eqb (bank_of b, i) m with
                                   | Some v' => v' =? v
                                   | None => false
                                   end
                    end) x.

Definition arrs_match (m : list (Z * list cell)) (x : list (Z * list cell)) : bool :=
  (Zlen m =? Zlen x) &&
  forallb (fun t => match find Z.eqb (fst t) m with
                    | Some l => list_eqb cell_eqb l (snd t)
                    | None => false
                    end) x.

Definition result_matches (r : result) (x : expect) : bool :=
  match r with
  | (st, pc, o) =>
      out_matches o (x_out x) && (pc =? x_pc x) &&
      regs_match (regs st) (x_regs x) && arrs_match (arrs st) (x_arrs x) &&
      regs_match (sregs st) (x_sregs x) && arrs_match (shm_arrays st) (x_sarrs x) &&
      list_eqb cell_eqb (um st) (x_um x) &&
      (Zlen (used st) =? Zlen (x_used x)) && forallb (fun p => set_mem p (used st)) (x_used x)
  end.

Fixpoint all_match (rs : list result) (xs : list expect) : bool :=
  match rs, xs with
  | [], [] => true
  | r :: rs', x :: xs' => result_matches r x && all_match rs' xs'
  | _, _ => false
  end.

(* model of executor.py == implementation ? *)
Definition check_exec (c : ecase) : bool :=
  all_match (Exec.run_many (c_subs c) (init_state (c_cap c)) (c_fuel c)) (c_expect c).

(* reference semantics vs implementation: 0 = agree on every subroutine,
   1 = agree up to a subroutine where the semantics is open (outside the
   defined domain; nothing is claimed from there on), 2 = DISAGREE inside the
   defined domain *)
Fixpoint sem_walk (rs : list result) (xs : list expect) : Z :=
  match rs, xs with
  | [], [] => 0
  | r :: rs', x :: xs' =>
      if is_unspec (snd r) then 1
      else if result_matches r x then sem_walk rs' xs' else 2
  | _, _ => 2
  end.

Definition check_sem (c : ecase) : Z :=
  sem_walk (Sem.run_many (c_subs c) (init_state (c_cap c)) (c_fuel c)) (c_expect c).

Fixpoint indices_where {A} (f : A -> bool) (l : list A) (i : Z) : list Z :=
  match l with
  | [] => []
  | x :: t => if f x then i :: indices_where f t (i + 1) else indices_where f t (i + 1)
  end.

Definition exec_failing (cs : list ecase) : list Z := indices_where (fun c => negb (check_exec c)) cs 0.
Definition sem_failing (cs : list ecase) : list Z := indices_where (fun c => check_sem c =? 2) cs 0.
Definition sem_open (cs : list ecase) : list Z := indices_where (fun c => check_sem c =? 1) cs 0.

(* ------------------------------------------------------------------ with a configuration
   (cases run on the real Executor with set_is_using_hardware(True) are compared with the
   models under cfg_hardware: width checks, FOverflow = OverflowError) *)
Definition check_exec_cfg (cfg : config) (c : ecase) : bool :=
  all_match (HwExec.hrun_many cfg (c_subs c) (init_state (c_cap c)) (c_fuel c)) (c_expect c).
Definition check_sem_cfg (cfg : config) (c : ecase) : Z :=
  sem_walk (HwSem.hrun_many cfg (c_subs c) (init_state (c_cap c)) (c_fuel c)) (c_expect c).

Definition hexec_failing (cs : list ecase) : list Z :=
  indices_where (fun c => negb (check_exec_cfg cfg_hardware c)) cs 0.
Definition hsem_failing (cs : list ecase) : list Z := indices_where (fun c => check_sem_cfg cfg_hardware c =? 2) cs 0.
Definition hsem_open (cs : list ecase) : list Z := indices_where (fun c => check_sem_cfg cfg_hardware c =? 1) cs 0.

(* ------------------------------------------------------------------ SemQ vs the real Executor
   (quantum extension points of the harness executor only record events; the
   comparison covers the gate / measurement events, oldest first, besides the
   classical state) *)
Record qcase := mkQCase {
  qc_cap : nat;
  qc_fuel : nat;
  qc_script : list Z;
  qc_subs : list (list qinstr);
  qc_expect : list (expect * list qevent)
}.

Definition is_gm (e : qevent) : bool :=
  match e with QEvGate _ _ _ | QEvMeas _ _ => true | _ => false end.

Definition qevent_eqb (a b : qevent) : bool :=
  match a, b with
  | QEvGate t i q, QEvGate t' i' q' => (t =? t') && list_eqb Z.eqb i i' && list_eqb Z.eqb q q'
  | QEvMeas q o, QEvMeas q' o' => (q =? q') && (o =? o')
  | _, _ => false
  end.

Definition qresult_matches (r : qresult) (x : expect * list qevent) : bool :=
  match r with
  | (s, pc, o) =>
      result_matches (q_st s, pc, o) (fst x) &&
      list_eqb qevent_eqb (rev (filter is_gm (q_trace s))) (snd x)
  end.

(* 0 agree, 1 agree up to open behaviour, 2 disagree inside the domain *)
Fixpoint semq_walk (subs : list (list qinstr)) (s : qstate) (fuel : nat) (xs : list (expect * list qevent)) : Z :=
  match subs, xs with
  | [], [] => 0
  | p :: ps, x :: xs' =>
      let r := qrun p s fuel in
      if is_unspec (snd r) then 1
      else if qresult_matches r x then semq_walk ps (fst (fst r)) fuel xs' else 2
  | _, _ => 2
  end.

Definition check_semq (c : qcase) : Z :=
  semq_walk (qc_subs c) (mkQ (init_state (qc_cap c)) (qc_script c) []) (qc_fuel c) (qc_expect c).

Definition semq_failing (cs : list qcase) : list Z := indices_where (fun c => check_semq c =? 2) cs 0.
Definition semq_open (cs : list qcase) : list Z := indices_where (fun c => check_semq c =? 1) cs 0.
