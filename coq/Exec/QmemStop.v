(* QmemStop.v — stop_application as the generator it is (executor.py: stop_application,
   _clear_qubits; qnodeos.py: _handle_stop_app), on top of Exec/Qmem.v.  Proof-free.

   The StopAppMessage handler pops the unit module, then releases the mapped physical
   qubits one at a time, yielding to the back end after each (_clear_phys_qubit_in_memory),
   and only after the last one clears registers, arrays and shared memory.  Between two
   yields other applications' messages are handled.  A half-stopped application therefore
   has no unit module any more, still has its classical state and registry entry, and some
   of its physical qubits are still marked in use although nothing maps them: in the model
   they sit in the ghost set `resv` (marked, not mapped) and, in order, in `pending`. *)
From Coq Require Import ZArith List Bool.
From NQ Require Import Exec.Qmem.
Import ListNotations.
Open Scope Z_scope.

Record xstate := mkX {
  x_st : state;
  x_pending : list (pid * list Z)      (* suspended stops: physical qubits not released yet, in order *)
}.

Definition xinit : xstate := mkX init_state [].

Inductive xev :=
| XOp (o : op)                         (* any operation of Qmem, handled without interruption *)
| XStopBegin (nd app : Z)              (* the StopAppMessage handler runs up to its first yield *)
| XStopStep (nd app : Z).              (* ... is resumed, up to its next yield or its end *)

(* the unit module is popped; its qubits stay marked in use, nothing maps them any more *)
Definition unmap_all (s : state) (k : pid) (a : appst) : state :=
  mkSt (aset pair_eqb k (with_um a []) (apps s)) (used s)
       (map (pair (fst k)) (somes (a_um a)) ++ resv s) (shreg s).

(* used.remove(p) for a qubit that is marked and not mapped *)
Definition release (s : state) (x : Z * Z) : state :=
  mkSt (apps s) (rem2 x (used s)) (rem2 x (resv s)) (shreg s).

(* _clear_registers, _clear_arrays, _clear_shared_memory *)
Definition finish (s : state) (k : pid) : state :=
  mkSt (adel pair_eqb k (apps s)) (used s) (resv s) (rem2 k (shreg s)).

Definition xstep (xs : xstate) (e : xev) : xstate * outcome :=
  let s := x_st xs in
  match e with
  | XOp o => let r := step s o in (mkX (fst r) (x_pending xs), snd r)
  | XStopBegin nd app =>
      let k := (nd, app) in
      match aget pair_eqb k (apps s), aget pair_eqb k (x_pending xs) with
      | Some a, None =>
          match somes (a_um a) with
          | [] => (mkX (finish (unmap_all s k a) k) (x_pending xs), Done)        (* no yield at all *)
          | p :: rest =>
              if mem2 (nd, p) (used s)
              then (mkX (release (unmap_all s k a) (nd, p)) (aset pair_eqb k rest (x_pending xs)), Done)
              else (mkX (unmap_all s k a) (x_pending xs), Fault EUsedMissing)
          end
      | _, _ => (xs, Fault ENotRegistered)                  (* _remove_app: KeyError *)
      end
  | XStopStep nd app =>
      let k := (nd, app) in
      match aget pair_eqb k (x_pending xs) with
      | None => (xs, Fault EMalformed)                      (* no such suspended handler *)
      | Some [] => (mkX (finish s k) (adel pair_eqb k (x_pending xs)), Done)
      | Some (p :: rest) =>
          if mem2 (nd, p) (used s)
          then (mkX (release s (nd, p)) (aset pair_eqb k rest (x_pending xs)), Done)
          else (xs, Fault EUsedMissing)
      end
  end.

Fixpoint xrun (xs : xstate) (es : list xev) : xstate :=
  match es with
  | [] => xs
  | e :: t => xrun (fst (xstep xs e)) t
  end.

(* x = (node, physical qubit) is still to be released by some suspended stop *)
Definition is_pending (xs : xstate) (x : Z * Z) : Prop :=
  exists app ps, aget pair_eqb (fst x, app) (x_pending xs) = Some ps /\ In (snd x) ps.

Definition stopping (xs : xstate) (k : pid) : bool :=
  match aget pair_eqb k (x_pending xs) with Some _ => true | None => false end.

(* environment contract: messages of ONE application are handled in order -- nothing for an
   application while its stop is suspended; a delivery never names a qubit that a suspended
   stop is about to release (it is not the network stack's); the usual delivery contract *)
Definition xev_ok (xs : xstate) (e : xev) : Prop :=
  match e with
  | XOp o =>
      fresh_delivery (x_st xs) o /\
      (forall k, op_pid o = Some k -> stopping xs k = false) /\
      match o with
      | Keep nd _ _ _ _ info => forall p, nth_error info 2 = Some p -> ~ is_pending xs (nd, p)
      | _ => True
      end
  | _ => True
  end.

(* the intermediate-state invariant: what a suspended stop still holds is marked in use and
   not mapped (it sits in resv), each qubit once, and the half-stopped application has no
   unit module any more but is still there *)
Definition pending_ok (xs : xstate) : Prop :=
  (forall k ps, aget pair_eqb k (x_pending xs) = Some ps ->
                NoDup ps /\ (forall p, In p ps -> In (fst k, p) (resv (x_st xs))) /\
                exists a, app_of (x_st xs) k = Some a /\ a_um a = []) /\
  (forall k1 k2 ps1 ps2 p, aget pair_eqb k1 (x_pending xs) = Some ps1 -> aget pair_eqb k2 (x_pending xs) = Some ps2 ->
                           fst k1 = fst k2 -> In p ps1 -> In p ps2 -> k1 = k2).

Definition XInv (xs : xstate) : Prop := Inv (x_st xs) /\ pending_ok xs.

Inductive xreach : xstate -> Prop :=
| xreach_init : xreach xinit
| xreach_step xs e : xreach xs -> xev_ok xs e -> xreach (fst (xstep xs e)).

(* the application on whose behalf an event runs *)
Definition xev_pid (e : xev) : option pid :=
  match e with
  | XOp o => op_pid o
  | XStopBegin nd app | XStopStep nd app => Some (nd, app)
  end.
