(* EprCheck.v — executable comparison of the Epr model with observations recorded
   from the real Executor (correspondence, H-tie).  Proof-free. *)
From Coq Require Import ZArith List Bool.
From NQ Require Import Exec.Qmem Exec.QmemCheck Exec.Epr.
Import ListNotations.
Open Scope Z_scope.

Definition qview := (Z * Z * option Z * nat * nat)%type.      (* subroutine, result array, qubit array, tot, left *)

Record obs := mkObs {
  o_fault : Z;                          (* -1 none, else exception class *)
  o_arrs : list ((Z * Z) * list (option Z));  (* (application, address), sorted *)
  o_ums : list (Z * list (option Z));         (* application -> unit module, sorted *)
  o_creq : list (key * list qview);     (* sorted by key, non-empty queues only *)
  o_rreq : list (key * list qview);
  o_pend : list (list Z);
  o_alive : list Z                      (* sorted *)
}.

Definition err_code (e : err) : Z :=
  match e with
  | EOutHigh => 1
  | EIndex => 2
  | EVirtNone | EBusy | ENotAllocated => 3
  | EAlready => 3
  | ETypeMismatch | EResSlice | ENoApp => 99     (* any exception class *)
  | EBadEvent | EFuel => 98             (* never happens in the implementation *)
  end.

Definition view_req (q : req) : qview := (q_sid q, q_res q, q_qarr q, q_tot q, q_left q).

Fixpoint ins_grp (k : key) (v : qview) (l : list (key * list qview)) : list (key * list qview) :=
  match l with
  | [] => [(k, [v])]
  | (k', vs) :: t =>
      if pair_eqb k k' then (k', vs ++ [v]) :: t
      else if pair_ltb k k' then (k, [v]) :: l
      else (k', vs) :: ins_grp k v t
  end.

Definition group (creator : bool) (l : list req) : list (key * list qview) :=
  fold_left (fun acc q => if Bool.eqb (q_creator q) creator then ins_grp (q_key q) (view_req q) acc else acc) l [].

Definition nat_opt_eqb := opt_eqb Z.eqb.
Definition qview_eqb (a b : qview) : bool :=
  let '(s1, r1, q1, t1, l1) := a in
  let '(s2, r2, q2, t2, l2) := b in
  (s1 =? s2) && (r1 =? r2) && opt_eqb Z.eqb q1 q2 && Nat.eqb t1 t2 && Nat.eqb l1 l2.

Definition queues_eqb : list (key * list qview) -> list (key * list qview) -> bool :=
  list_eqb (kv_eqb pair_eqb (list_eqb qview_eqb)).

Definition sortZ (l : list Z) : list Z := map fst (sort_keys Z.ltb (map (fun x => (x, tt)) l)).

Definition obs_ok (r : state * option err) (ob : obs) : bool :=
  match snd r with
  | Some e => (err_code e =? o_fault ob) || ((err_code e =? 99) && (0 <=? o_fault ob))
  | None =>
      let s := fst r in
      (o_fault ob =? -1) &&
      list_eqb (kv_eqb pair_eqb arr_eqb) (sort_keys pair_ltb (arrs s)) (o_arrs ob) &&
      arrs_eqb (sort_keys Z.ltb (ums s)) (o_ums ob) &&
      queues_eqb (group true (reqs s)) (o_creq ob) &&
      queues_eqb (group false (reqs s)) (o_rreq ob) &&
      list_eqb (list_eqb Z.eqb) (map info_of (pend s)) (o_pend ob) &&
      list_eqb Z.eqb (sortZ (map fst (subs s))) (o_alive ob)
  end.

Inductive tcase := T (id : Z) (e : ievent) (ob : obs) (kids : list tcase).

Fixpoint bad_t (pm : pmap) (s : state) (t : tcase) : list Z :=
  match t with
  | T id e ob kids =>
      let r := step s (lower pm e) in
      if obs_ok r ob
      then match snd r with
           | None => flat_map (bad_t pm (fst r)) kids
           | Some _ => []                      (* the run ends at a fault *)
           end
      else [id]
  end.

Definition failing (pm : pmap) (nd : Z) (ts : list tcase) : list Z := flat_map (bad_t pm (init_state nd)) ts.
