(* Qmem.v — model of the controller's qubit memory and per-application state
   (netqasm/backend/executor.py, qnodeos.py, sdk/shared_memory.py), shaped like the
   code: per-application unit module (virtual -> option physical), the set of
   physical qubits marked in use per node, registers / arrays / shared memory per
   application, and the SharedMemoryManager registry keyed by (node, app id).
   Proof-free: proofs are in Proofs/QmemProofs.v.

   An operation is what the harness sends through the real message-level
   lifecycle (QNodeController.handle_netqasm_message):
     Init    InitNewAppMessage
     Stop    StopAppMessage
     QAlloc  subroutine  `set Q0 v; qalloc Q0`
     QFree   subroutine  `set Q0 v; qfree Q0`
     SetReg  subroutine  `set r x`
     NewArr  subroutine  `set R0 len; array R0 @addr`
     Store   subroutine  `set R0 x; set R1 i; store R0 @addr[R1]`
     RetReg  subroutine  `ret_reg r`
     RetArr  subroutine  `ret_arr @addr`
     ResetMem SharedMemoryManager.reset_memories() is called behind the controllers' back [environment]
     Reserve the network stack takes a communication qubit from the executor's
             pool (_get_unused_physical_qubit)                     [environment]
     Keep    a create-and-keep response is delivered for a receive request of one
             pair whose virtual qubit id v sits in array @qa and whose result
             array is @ra (subroutine: set/array/set/set/store/set/array/set x4/recv_epr/set/set/wait_all,
             the response arrives inside the wait)                 [environment] *)
From Coq Require Import ZArith List Bool Lia.
Import ListNotations.
Open Scope Z_scope.

(* ------------------------------------------------------------------ maps *)
Section Assoc.
  Context {K V : Type} (eqb : K -> K -> bool).
  Fixpoint aget (k : K) (l : list (K * V)) : option V :=
    match l with
    | [] => None
    | (k', v) :: l' => if eqb k k' then Some v else aget k l'
    end.
  Definition adel (k : K) (l : list (K * V)) : list (K * V) :=
    filter (fun kv => negb (eqb k (fst kv))) l.
  Definition aset (k : K) (v : V) (l : list (K * V)) : list (K * V) :=
    (k, v) :: adel k l.
End Assoc.

Definition pid := (Z * Z)%type.               (* (node, application id) *)
Definition pair_eqb (a b : Z * Z) : bool := (fst a =? fst b) && (snd a =? snd b).
Definition reg := (Z * Z)%type.               (* (bank R=0 C=1 Q=2 M=3, index) *)
Definition R0 : reg := (0, 0).
Definition R1 : reg := (0, 1).
Definition R2 : reg := (0, 2).
Definition R3 : reg := (0, 3).
Definition R4 : reg := (0, 4).
Definition R5 : reg := (0, 5).
Definition Q0 : reg := (2, 0).

Definition mem2 (x : Z * Z) (l : list (Z * Z)) : bool := existsb (pair_eqb x) l.
Definition rem2 (x : Z * Z) (l : list (Z * Z)) : list (Z * Z) :=
  filter (fun y => negb (pair_eqb x y)) l.
(* set.add *)
Definition add2 (x : Z * Z) (l : list (Z * Z)) : list (Z * Z) :=
  if mem2 x l then l else x :: l.

Fixpoint set_nth {A} (l : list A) (i : nat) (x : A) : list A :=
  match l, i with
  | [], _ => []
  | _ :: t, O => x :: t
  | h :: t, S j => h :: set_nth t j x
  end.

(* ------------------------------------------------------------------ state *)
Inductive sharr := Alias | Own (l : list (option Z)).
(* ret_arr stores the controller's own list object in the shared memory: until the
   application re-declares the array, later writes show through (Alias). *)

Record shm := mkShm {
  sh_regs : list (reg * Z);
  sh_arrs : list (Z * sharr)
}.

Record appst := mkApp {
  a_um   : list (option Z);                   (* unit module *)
  a_regs : list (reg * Z);                    (* absent = None *)
  a_arrs : list (Z * list (option Z));
  a_shm  : shm
}.

Record state := mkSt {
  apps  : list (pid * appst);
  used  : list (Z * Z);                       (* (node, physical) marked in use *)
  resv  : list (Z * Z);                       (* ghost: reserved by the network stack, not delivered yet *)
  shreg : list pid                            (* keys held by the SharedMemoryManager *)
}.

Definition init_state : state := mkSt [] [] [] [].
Definition fresh_app (n : nat) : appst := mkApp (repeat None n) [] [] (mkShm [] []).

Inductive err :=
| ENotRegistered      (* KeyError: unknown application *)
| EAlready            (* RuntimeError: application id already registered *)
| EShmExists          (* RuntimeError: shared memory (node, app) already exists *)
| EOutHigh            (* ValueError: virtual address >= unit module size (allocate) *)
| EIndex              (* IndexError: list index out of range *)
| EBusy               (* RuntimeError: virtual address already allocated *)
| ENotAllocated       (* RuntimeError: not allocated, cannot be freed *)
| EUsedMissing        (* KeyError: set.remove of a physical qubit not marked in use *)
| ENoArray            (* IndexError: no array with this address *)
| EUndefReg           (* RuntimeError / AssertionError: register has no value *)
| EFuel               (* model only: search for an unused qubit ran out of fuel *)
| EMalformed.         (* model only: response tuple does not have 10 fields *)

(* exception class as seen by the harness: 0 KeyError 1 ValueError 2 IndexError
   3 RuntimeError 4 AssertionError 5 (cannot happen in the implementation) *)
Definition err_class (e : err) : Z :=
  match e with
  | ENotRegistered | EUsedMissing => 0
  | EOutHigh => 1
  | EIndex | ENoArray => 2
  | EAlready | EShmExists | EBusy | ENotAllocated | EUndefReg => 3
  | EFuel | EMalformed => 5
  end.

Inductive outcome := Done | Deferred | Fault (e : err).

(* ------------------------------------------------------------------ physical pool *)
(* _get_unused_physical_qubit: the least p >= 0 with (nd, p) not marked in use.
   |used| + 1 candidates always contain one (QmemProofs.first_unused_total). *)
Fixpoint first_unused_from (fuel : nat) (nd p : Z) (u : list (Z * Z)) : option Z :=
  match fuel with
  | O => None
  | S f => if mem2 (nd, p) u then first_unused_from f nd (p + 1) u else Some p
  end.
Definition first_unused (nd : Z) (u : list (Z * Z)) : option Z :=
  first_unused_from (S (List.length u)) nd 0 u.

(* Python list indexing unit_module[v] *)
Inductive slot_res := Slot (i : nat) | High | Low.
Definition slot (n : nat) (v : Z) : slot_res :=
  if v <? 0 then (if - Z.of_nat n <=? v then Slot (Z.to_nat (Z.of_nat n + v)) else Low)
  else if v <? Z.of_nat n then Slot (Z.to_nat v) else High.

(* _has_virtual_address *)
Definition has_virtual (um : list (option Z)) (v : Z) : bool :=
  if (v <? 0) || (Z.of_nat (List.length um) <=? v) then false
  else match nth_error um (Z.to_nat v) with Some (Some _) => true | _ => false end.

(* ------------------------------------------------------------------ classical instructions *)
Definition with_regs (a : appst) r := mkApp (a_um a) r (a_arrs a) (a_shm a).
Definition with_arrs (a : appst) x := mkApp (a_um a) (a_regs a) x (a_shm a).
Definition with_shm (a : appst) s := mkApp (a_um a) (a_regs a) (a_arrs a) s.
Definition with_um (a : appst) u := mkApp u (a_regs a) (a_arrs a) (a_shm a).

Definition i_set (r : reg) (x : Z) (a : appst) : appst :=
  with_regs a (aset pair_eqb r x (a_regs a)).

(* array r @addr : a new list object; a shared-memory alias keeps the old one *)
Definition i_array (r : reg) (addr : Z) (a : appst) : appst * option err :=
  match aget pair_eqb r (a_regs a) with
  | None => (a, Some EUndefReg)
  | Some len =>
      let sh := a_shm a in
      let sh' := match aget Z.eqb addr (sh_arrs sh), aget Z.eqb addr (a_arrs a) with
                 | Some Alias, Some old => mkShm (sh_regs sh) (aset Z.eqb addr (Own old) (sh_arrs sh))
                 | _, _ => sh
                 end in
      (mkApp (a_um a) (a_regs a) (aset Z.eqb addr (repeat None (Z.to_nat len)) (a_arrs a)) sh', None)
  end.

Definition i_store (r : reg) (addr : Z) (i : nat) (a : appst) : appst * option err :=
  match aget pair_eqb r (a_regs a) with
  | None => (a, Some EUndefReg)
  | Some x =>
      match aget Z.eqb addr (a_arrs a) with
      | None => (a, Some ENoArray)
      | Some l =>
          if Nat.ltb i (List.length l)
          then (with_arrs a (aset Z.eqb addr (set_nth l i (Some x)) (a_arrs a)), None)
          else (a, Some EIndex)
      end
  end.

Definition i_ret_reg (r : reg) (a : appst) : appst * option err :=
  match aget pair_eqb r (a_regs a) with
  | None => (a, Some EUndefReg)
  | Some x => (with_shm a (mkShm (aset pair_eqb r x (sh_regs (a_shm a))) (sh_arrs (a_shm a))), None)
  end.

Definition i_ret_arr (addr : Z) (a : appst) : appst * option err :=
  match aget Z.eqb addr (a_arrs a) with
  | None => (a, Some ENoArray)
  | Some _ => (with_shm a (mkShm (sh_regs (a_shm a)) (aset Z.eqb addr Alias (sh_arrs (a_shm a)))), None)
  end.

(* array slice assignment a[lo:lo+len(xs)] = xs on an array long enough *)
Fixpoint write_from {A} (l : list A) (i : nat) (xs : list A) : list A :=
  match xs with
  | [] => l
  | x :: xs' => write_from (set_nth l i x) (S i) xs'
  end.

(* ------------------------------------------------------------------ operations *)
Inductive op :=
| Init (nd app : Z) (n : nat)
| Stop (nd app : Z)
| QAlloc (nd app v : Z)
| QFree (nd app v : Z)
| SetReg (nd app : Z) (r : reg) (x : Z)
| NewArr (nd app addr len : Z)
| Store (nd app addr : Z) (i : nat) (x : Z)
| RetReg (nd app : Z) (r : reg)
| RetArr (nd app addr : Z)
| Reserve (nd : Z)
| Keep (nd app v qa ra : Z) (info : list Z)
| ResetMem.                                    (* SharedMemoryManager.reset_memories(): process-wide, external *)

Definition op_pid (o : op) : option pid :=
  match o with
  | Init nd a _ | Stop nd a | QAlloc nd a _ | QFree nd a _ | SetReg nd a _ _
  | NewArr nd a _ _ | Store nd a _ _ _ | RetReg nd a _ | RetArr nd a _
  | Keep nd a _ _ _ _ => Some (nd, a)
  | Reserve _ | ResetMem => None
  end.

Definition op_node (o : op) : Z :=
  match o with
  | Init nd _ _ | Stop nd _ | QAlloc nd _ _ | QFree nd _ _ | SetReg nd _ _ _
  | NewArr nd _ _ _ | Store nd _ _ _ _ | RetReg nd _ _ | RetArr nd _ _
  | Keep nd _ _ _ _ _ | Reserve nd => nd
  | ResetMem => 0
  end.

Definition put_app (s : state) (k : pid) (a : appst) : state :=
  mkSt (aset pair_eqb k a (apps s)) (used s) (resv s) (shreg s).

(* a subroutine of application k that only touches k's classical state *)
Definition classical (s : state) (k : pid) (f : appst -> appst * option err) : state * outcome :=
  match aget pair_eqb k (apps s) with
  | None => (s, Fault ENotRegistered)
  | Some a =>
      let '(a', e) := f a in
      (put_app s k a', match e with None => Done | Some e => Fault e end)
  end.

Fixpoint somes (um : list (option Z)) : list Z :=
  match um with
  | [] => []
  | Some p :: t => p :: somes t
  | None :: t => somes t
  end.

(* _clear_qubits: used.remove(p) for every mapped p, in order; None = KeyError *)
Fixpoint remove_all (nd : Z) (ps : list Z) (u : list (Z * Z)) : option (list (Z * Z)) :=
  match ps with
  | [] => Some u
  | p :: t => if mem2 (nd, p) u then remove_all nd t (rem2 (nd, p) u) else None
  end.

(* _allocate_physical_qubit(virtual v, physical = given or next unused) *)
Definition do_qalloc (s : state) (nd : Z) (k : pid) (a : appst) (v : Z) : state * outcome :=
  match slot (List.length (a_um a)) v with
  | High => (put_app s k a, Fault EOutHigh)
  | Low => (put_app s k a, Fault EIndex)
  | Slot i =>
      match nth_error (a_um a) i with
      | Some None =>
          match first_unused nd (used s) with
          | None => (put_app s k a, Fault EFuel)
          | Some p =>
              (mkSt (aset pair_eqb k (with_um a (set_nth (a_um a) i (Some p))) (apps s))
                    ((nd, p) :: used s) (resv s) (shreg s), Done)
          end
      | _ => (put_app s k a, Fault EBusy)
      end
  end.

Definition do_qfree (s : state) (nd : Z) (k : pid) (a : appst) (v : Z) : state * outcome :=
  match slot (List.length (a_um a)) v with
  | High | Low => (put_app s k a, Fault EIndex)
  | Slot i =>
      match nth_error (a_um a) i with
      | Some (Some p) =>
          let a' := with_um a (set_nth (a_um a) i None) in
          if mem2 (nd, p) (used s)
          then (mkSt (aset pair_eqb k a' (apps s)) (rem2 (nd, p) (used s)) (resv s) (shreg s), Done)
          else (put_app s k a', Fault EUsedMissing)
      | _ => (put_app s k a, Fault ENotAllocated)
      end
  end.

(* classical part of the receive subroutine, up to and including recv_epr;
   execution stops at the first fault *)
Definition bind (x : appst * option err) (f : appst -> appst * option err) : appst * option err :=
  match x with
  | (a, None) => f a
  | (a, Some e) => (a, Some e)
  end.

Definition keep_prefix (v qa ra remote sock : Z) (a : appst) : appst * option err :=
  bind (i_array R0 qa (i_set R0 1 a)) (fun a =>
  bind (i_store R0 qa 0 (i_set R4 0 (i_set R0 v a))) (fun a =>
  bind (i_array R0 ra (i_set R0 10 a)) (fun a =>
  (i_set R5 10 (i_set R4 0 (i_set R3 ra (i_set R2 qa (i_set R1 sock (i_set R0 remote a))))), None)))).

(* the mapping attempt of a delivery faulted after used.add: the response stays pending.  A
   qubit that only now became marked in use is in flight (one that was marked before is either
   reserved already or -- contract broken -- mapped by someone) *)
Definition mark_resv (s : state) (nd p : Z) : list (Z * Z) :=
  if mem2 (nd, p) (used s) then resv s else (nd, p) :: resv s.

(* _handle_epr_ok_k_response + _store_ent_info for pair 0 of that request *)
Definition do_keep (s : state) (nd : Z) (k : pid) (a : appst) (qa ra : Z) (p : Z) (info : list Z)
  : state * outcome :=
  match aget Z.eqb qa (a_arrs a) with
  | Some (Some v :: _) =>
      if has_virtual (a_um a) v then (put_app s k a, Deferred)
      else
        let u := add2 (nd, p) (used s) in            (* marked in use before the mapping is attempted;
                                                        when the attempt faults the response stays
                                                        pending: the qubit is (still) in flight *)
        match slot (List.length (a_um a)) v with
        | High => (mkSt (aset pair_eqb k a (apps s)) u (mark_resv s nd p) (shreg s), Fault EOutHigh)
        | Low => (mkSt (aset pair_eqb k a (apps s)) u (mark_resv s nd p) (shreg s), Fault EIndex)
        | Slot i =>
            match nth_error (a_um a) i with
            | Some None =>
                let a1 := with_um a (set_nth (a_um a) i (Some p)) in
                let a2 := match aget Z.eqb ra (a_arrs a1) with
                          | Some l => with_arrs a1 (aset Z.eqb ra (write_from l 0 (map Some info)) (a_arrs a1))
                          | None => a1
                          end in
                (mkSt (aset pair_eqb k a2 (apps s)) u (rem2 (nd, p) (resv s)) (shreg s), Done)
            | _ => (mkSt (aset pair_eqb k a (apps s)) u (mark_resv s nd p) (shreg s), Fault EBusy)
            end
        end
  | _ => (put_app s k a, Fault EUndefReg)
  end.

Definition step (s : state) (o : op) : state * outcome :=
  match o with
  | Init nd app n =>
      let k := (nd, app) in
      match aget pair_eqb k (apps s) with
      | Some _ => (s, Fault EAlready)
      | None =>
          if mem2 k (shreg s) then (s, Fault EShmExists)
          else (mkSt (aset pair_eqb k (fresh_app n) (apps s)) (used s) (resv s) (k :: shreg s), Done)
      end
  | Stop nd app =>
      let k := (nd, app) in
      match aget pair_eqb k (apps s) with
      | None => (s, Fault ENotRegistered)
      | Some a =>
          match remove_all nd (somes (a_um a)) (used s) with
          | Some u => (mkSt (adel pair_eqb k (apps s)) u (resv s) (rem2 k (shreg s)), Done)
          | None => (mkSt (adel pair_eqb k (apps s)) (used s) (resv s) (shreg s), Fault EUsedMissing)
          end
      end
  | QAlloc nd app v =>
      let k := (nd, app) in
      match aget pair_eqb k (apps s) with
      | None => (s, Fault ENotRegistered)
      | Some a => do_qalloc s nd k (i_set Q0 v a) v
      end
  | QFree nd app v =>
      let k := (nd, app) in
      match aget pair_eqb k (apps s) with
      | None => (s, Fault ENotRegistered)
      | Some a => do_qfree s nd k (i_set Q0 v a) v
      end
  | SetReg nd app r x => classical s (nd, app) (fun a => (i_set r x a, None))
  | NewArr nd app addr len => classical s (nd, app) (fun a => i_array R0 addr (i_set R0 len a))
  | Store nd app addr i x =>
      classical s (nd, app) (fun a => i_store R0 addr i (i_set R1 (Z.of_nat i) (i_set R0 x a)))
  | RetReg nd app r => classical s (nd, app) (i_ret_reg r)
  | RetArr nd app addr => classical s (nd, app) (i_ret_arr addr)
  | Reserve nd =>
      match first_unused nd (used s) with
      | None => (s, Fault EFuel)
      | Some p => (mkSt (apps s) ((nd, p) :: used s) ((nd, p) :: resv s) (shreg s), Done)
      end
  | Keep nd app v qa ra info =>
      let k := (nd, app) in
      match aget pair_eqb k (apps s) with
      | None => (s, Fault ENotRegistered)
      | Some a =>
          match Nat.eqb (List.length info) 10, nth_error info 2, nth_error info 5, nth_error info 6 with
          | true, Some p, Some purpose, Some remote =>
              match keep_prefix v qa ra remote purpose a with
              | (a', Some e) => (put_app s k a', Fault e)
              | (a', None) => do_keep s nd k a' qa ra p info
              end
          | _, _, _, _ => (s, Fault EMalformed)
          end
      end
  | ResetMem => (mkSt (apps s) (used s) (resv s) [], Done)
  end.

Fixpoint run (s : state) (h : list op) : state :=
  match h with
  | [] => s
  | o :: h' => run (fst (step s o)) h'
  end.

(* ------------------------------------------------------------------ invariant *)
(* application k's state is a: the dictionary lookup the code performs *)
Definition app_of (s : state) (k : pid) : option appst := aget pair_eqb k (apps s).

(* (nd, p) is the image of a virtual qubit of some application on node nd *)
Definition mapped (s : state) (nd p : Z) : Prop :=
  exists app a i, app_of s (nd, app) = Some a /\ nth_error (a_um a) i = Some (Some p).

(* per-application state is keyed only by (node, app): one entry per key *)
Definition keys_unique (s : state) : Prop := NoDup (map fst (apps s)).

(* no two allocated virtual qubits, of the same or of different applications of a
   node, map to the same physical qubit *)
Definition injective (s : state) : Prop :=
  forall nd app a i app' a' i' p,
    app_of s (nd, app) = Some a -> app_of s (nd, app') = Some a' ->
    nth_error (a_um a) i = Some (Some p) -> nth_error (a_um a') i' = Some (Some p) ->
    app = app' /\ i = i'.

(* marked in use = currently mapped, or reserved by the network stack and in flight *)
Definition used_exact (s : state) : Prop :=
  forall nd p, In (nd, p) (used s) <-> (mapped s nd p \/ In (nd, p) (resv s)).

Definition resv_fresh (s : state) : Prop :=
  forall nd p, In (nd, p) (resv s) -> ~ mapped s nd p.

(* the SharedMemoryManager holds keys of registered applications only (an external
   SharedMemoryManager.reset_memories() may have dropped entries of running applications) *)
Definition registry_sound (s : state) : Prop :=
  forall k, In k (shreg s) -> app_of s k <> None.

Definition Inv (s : state) : Prop :=
  keys_unique s /\ injective s /\ used_exact s /\ resv_fresh s /\ registry_sound s.

(* environment contract: the physical qubit named by a keep response is one the network
   stack may use for a delivery: either it was reserved from this executor's pool
   (_get_unused_physical_qubit) and not delivered yet, or it is not marked in use at all
   (free, unmapped) at the moment of delivery *)
Definition fresh_delivery (s : state) (o : op) : Prop :=
  match o with
  | Keep nd _ _ _ _ info =>
      forall p, nth_error info 2 = Some p -> In (nd, p) (resv s) \/ ~ In (nd, p) (used s)
  | _ => True
  end.

Inductive reachable : state -> Prop :=
| reach_init : reachable init_state
| reach_step s o : reachable s -> fresh_delivery s o -> reachable (fst (step s o)).
