(* Bits.v — bit-field packing of integers into a fixed-size little-endian
   record.  Model only (no proofs here); proofs in BitsProofs.v. *)
From Coq Require Import ZArith List Bool.
Import ListNotations.
Open Scope Z_scope.

(* A leaf field of a ctypes structure: absolute bit position inside the
   structure (8*byte offset + bit offset), width in bits, signedness. *)
Record field := mkF { f_pos : Z; f_width : Z; f_signed : bool }.

Definition field_eqb (f g : field) : bool :=
  (f_pos f =? f_pos g) && (f_width f =? f_width g) && Bool.eqb (f_signed f) (f_signed g).

(* v is representable in f *)
Definition fits (f : field) (v : Z) : bool :=
  if f_signed f
  then (- 2 ^ (f_width f - 1) <=? v) && (v <? 2 ^ (f_width f - 1))
  else (0 <=? v) && (v <? 2 ^ (f_width f)).

(* ctypes stores v mod 2^width in the field (silent truncation) *)
Definition put (f : field) (v : Z) : Z :=
  Z.shiftl (Z.land v (Z.ones (f_width f))) (f_pos f).

Definition get_u (f : field) (n : Z) : Z :=
  Z.land (Z.shiftr n (f_pos f)) (Z.ones (f_width f)).

Definition get (f : field) (n : Z) : Z :=
  let u := get_u f n in
  if f_signed f && (2 ^ (f_width f - 1) <=? u) then u - 2 ^ (f_width f) else u.

Fixpoint pack (l : list field) (vs : list Z) : Z :=
  match l, vs with
  | f :: l', v :: vs' => Z.lor (put f v) (pack l' vs')
  | _, _ => 0
  end.

Definition unpack (l : list field) (n : Z) : list Z := map (fun f => get f n) l.

(* little-endian bytes *)
Fixpoint to_bytes (k : nat) (n : Z) : list Z :=
  match k with
  | O => []
  | S k' => Z.land n 255 :: to_bytes k' (Z.shiftr n 8)
  end.

Fixpoint of_bytes (bs : list Z) : Z :=
  match bs with
  | [] => 0
  | b :: r => Z.lor (Z.land b 255) (Z.shiftl (of_bytes r) 8)
  end.

(* two fields do not overlap *)
Definition disjoint (f g : field) : bool :=
  (f_pos f + f_width f <=? f_pos g) || (f_pos g + f_width g <=? f_pos f).

Definition field_ok (bits : Z) (f : field) : bool :=
  (0 <=? f_pos f) && (0 <? f_width f) && (f_pos f + f_width f <=? bits).

Fixpoint pairwise_disjoint (l : list field) : bool :=
  match l with
  | [] => true
  | f :: r => forallb (disjoint f) r && pairwise_disjoint r
  end.

(* a layout is well formed inside a record of [bits] bits *)
Definition wf_layout (bits : Z) (l : list field) : bool :=
  forallb (field_ok bits) l && pairwise_disjoint l.

Fixpoint fits_all (l : list field) (vs : list Z) : bool :=
  match l, vs with
  | [], [] => true
  | f :: l', v :: vs' => fits f v && fits_all l' vs'
  | _, _ => false
  end.
