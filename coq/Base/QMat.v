(* QMat.v — matrices over K32, gates, circuits as operator products.
   Model only (no proofs).  A matrix is a list of rows.  Wire 0 is the most
   significant bit of a basis index (kron A B puts A on the earlier wires). *)
From Coq Require Import ZArith List Bool Arith.
From NQ Require Import Base.Cyclo.
Import ListNotations.

Definition vec := list K32.
Definition mat := list vec.

Fixpoint vadd (u v : vec) : vec :=
  match u, v with
  | a :: u', b :: v' => kadd a b :: vadd u' v'
  | _, _ => []
  end.
Definition vscale (c : K32) (v : vec) : vec := map (kmul c) v.
Definition vzero (n : nat) : vec := repeat kzero n.

Definition ncols (A : mat) : nat := match A with [] => O | r :: _ => List.length r end.
Definition nrows (A : mat) : nat := List.length A.
Definition dims_ok (r c : nat) (A : mat) : bool :=
  Nat.eqb (List.length A) r && forallb (fun row => Nat.eqb (List.length row) c) A.

(* row vector a times matrix B, skipping zero entries of a *)
Fixpoint row_times (a : vec) (B : mat) (acc : vec) : vec :=
  match a, B with
  | x :: a', b :: B' => row_times a' B' (if kis0 x then acc else vadd acc (vscale x b))
  | _, _ => acc
  end.
Definition mmul (A B : mat) : mat := map (fun a => row_times a B (vzero (ncols B))) A.
Definition madd (A B : mat) : mat :=
  (fix go (A B : mat) : mat := match A, B with a :: A', b :: B' => vadd a b :: go A' B' | _, _ => [] end) A B.
Definition mscale (c : K32) (A : mat) : mat := map (vscale c) A.
Definition mid (n : nat) : mat :=
  map (fun r => map (fun c => if Nat.eqb r c then kone else kzero) (seq 0 n)) (seq 0 n).
Definition kron (A B : mat) : mat :=
  flat_map (fun ra => map (fun rb => flat_map (fun x => vscale x rb) ra) B) A.

Fixpoint transpose_aux (n : nat) (A : mat) : mat :=
  match n with
  | O => []
  | S n' => map (fun r => hd kzero r) A :: transpose_aux n' (map (@tl K32) A)
  end.
Definition mtranspose (A : mat) : mat := transpose_aux (ncols A) A.
Definition mdagger (A : mat) : mat := map (map kconj) (mtranspose A).

Fixpoint veqb (u v : vec) : bool :=
  match u, v with
  | [], [] => true
  | a :: u', b :: v' => keqb a b && veqb u' v'
  | _, _ => false
  end.
Fixpoint meqb (A B : mat) : bool :=
  match A, B with
  | [], [] => true
  | a :: A', b :: B' => veqb a b && meqb A' B'
  | _, _ => false
  end.

(* equal up to a global phase w^p, p < 64 *)
Definition phase_eqb (A B : mat) : bool :=
  existsb (fun p => meqb A (mscale (kw p) B)) (seq 0 64).
Definition phase_eq (A B : mat) : Prop := exists p : nat, (p < 64)%nat /\ A = mscale (kw p) B.

(* ---- embedding a gate on the wires ws of an n-wire register ---- *)
Definition bit (n r j : nat) : bool := Nat.testbit r (n - 1 - j).
Definition sub_index (n : nat) (ws : list nat) (r : nat) : nat :=
  fold_left (fun acc j => 2 * acc + (if bit n r j then 1 else 0))%nat ws O.
Definition same_outside (n : nat) (ws : list nat) (r c : nat) : bool :=
  forallb (fun j => existsb (Nat.eqb j) ws || Bool.eqb (bit n r j) (bit n c j)) (seq 0 n).
Definition mget (G : mat) (r c : nat) : K32 := nth c (nth r G []) kzero.
Definition embed (n : nat) (ws : list nat) (G : mat) : mat :=
  map (fun r => map (fun c => if same_outside n ws r c
                              then mget G (sub_index n ws r) (sub_index n ws c) else kzero)
                    (seq 0 (2 ^ n))) (seq 0 (2 ^ n)).
Fixpoint nodupb (l : list nat) : bool :=
  match l with [] => true | x :: l' => negb (existsb (Nat.eqb x) l') && nodupb l' end.
(* the embedding is meaningful only for distinct in-range wires and a gate of the right size *)
Definition embed_ok (n : nat) (ws : list nat) (G : mat) : bool :=
  forallb (fun j => Nat.ltb j n) ws && nodupb ws &&
  dims_ok (2 ^ List.length ws) (2 ^ List.length ws) G.

(* ---- fixed gates ---- *)
Definition k0 := kzero.
Definition k1 := kone.
Definition km1 := kneg kone.
Definition kmi := kneg ki.
Definition gX : mat := [[k0; k1]; [k1; k0]].
Definition gY : mat := [[k0; kmi]; [ki; k0]].
Definition gZ : mat := [[k1; k0]; [k0; km1]].
Definition gH : mat := [[krsqrt2; krsqrt2]; [krsqrt2; kneg krsqrt2]].
Definition gK : mat :=                                   (* (Y + Z)/sqrt2 *)
  [[krsqrt2; kmul kmi krsqrt2]; [kmul ki krsqrt2; kneg krsqrt2]].
Definition gS : mat := [[k1; k0]; [k0; ki]].
Definition gT : mat := [[k1; k0]; [k0; kw 8]].
Definition gCNOT : mat := [[k1;k0;k0;k0]; [k0;k1;k0;k0]; [k0;k0;k0;k1]; [k0;k0;k1;k0]].
Definition gCPHASE : mat := [[k1;k0;k0;k0]; [k0;k1;k0;k0]; [k0;k0;k1;k0]; [k0;k0;k0;km1]].
Definition gSWAP : mat := [[k1;k0;k0;k0]; [k0;k0;k1;k0]; [k0;k1;k0;k0]; [k0;k0;k0;k1]].
Definition ket0 : mat := [[k1]; [k0]].
Definition ket1 : mat := [[k0]; [k1]].

(* ---- rotations: exp(-i theta/2 sigma_a), theta/2 = k * pi/32 ---- *)
Inductive axis := AX | AY | AZ.
Definition rot_k (a : axis) (k : nat) : mat :=
  let c := kcos k in let s := ksin k in
  match a with
  | AX => let mis := kmul kmi s in [[c; mis]; [mis; c]]
  | AY => [[c; kneg s]; [s; c]]
  | AZ => [[kw (64 - Nat.modulo k 64); k0]; [k0; kw k]]
  end.
Definition block_diag (A B : mat) : mat :=
  match A, B with
  | [[a;b];[c;d]], [[e;f];[g;h]] => [[a;b;k0;k0];[c;d;k0;k0];[k0;k0;e;f];[k0;k0;g;h]]
  | _, _ => []
  end.
(* NV conditional rotation: |0><0| (x) R(theta) + |1><1| (x) R(-theta) *)
Definition crot_k (a : axis) (k : nat) : mat :=
  block_diag (rot_k a k) (rot_k a (64 - Nat.modulo k 64)).

(* angle n*pi/2^d: half angle in units of pi/32, defined for 0<=n, 0<=d<=4 *)
Definition half_units (n d : Z) : option nat :=
  if ((0 <=? n) && (0 <=? d) && (d <=? 4))%Z
  then Some (Z.to_nat ((n * 2 ^ (4 - d)) mod 64)%Z) else None.

(* ---- circuits ---- *)
Inductive g1 := GX | GY | GZ | GH | GK | GS | GT.
Inductive g2 := GCNOT | GCPHASE.
Inductive qop :=
| ORot (a : axis) (q : nat) (n d : Z)
| OCRot (a : axis) (c t : nat) (n d : Z)
| OG1 (g : g1) (q : nat)
| OG2 (g : g2) (c t : nat).

Definition g1_mat (g : g1) : mat :=
  match g with GX => gX | GY => gY | GZ => gZ | GH => gH | GK => gK | GS => gS | GT => gT end.
Definition g2_mat (g : g2) : mat := match g with GCNOT => gCNOT | GCPHASE => gCPHASE end.

(* an operation as (wires, small matrix); None = angle not representable *)
Definition op_gate (o : qop) : option (list nat * mat) :=
  match o with
  | ORot a q n d => match half_units n d with Some k => Some ([q], rot_k a k) | None => None end
  | OCRot a c t n d => match half_units n d with Some k => Some ([c; t], crot_k a k) | None => None end
  | OG1 g q => Some ([q], g1_mat g)
  | OG2 g c t => Some ([c; t], g2_mat g)
  end.

(* the unitary of a gate list on n wires (first list element is applied first);
   None when an operation is malformed (wire out of range, control = target,
   angle outside the exact ring) *)
Fixpoint circuit_from (n : nat) (ops : list qop) (acc : mat) : option mat :=
  match ops with
  | [] => Some acc
  | o :: ops' =>
      match op_gate o with
      | Some (ws, G) => if embed_ok n ws G then circuit_from n ops' (mmul (embed n ws G) acc) else None
      | None => None
      end
  end.
Definition circuit (n : nat) (ops : list qop) : option mat := circuit_from n ops (mid (2 ^ n)).

Definition opt_phase_eqb (A : option mat) (B : mat) : bool :=
  match A with Some A' => phase_eqb A' B | None => false end.
Definition opt_meqb (A : option mat) (B : mat) : bool :=
  match A with Some A' => meqb A' B | None => false end.

(* every entry has at most 64 coefficients (canonical forms have at most 32) *)
Definition mshort (A : mat) : bool :=
  forallb (forallb (fun x => Nat.leb (List.length (kc x)) 64)) A.

(* ---- serialisation for the harness (exact values printed, parsed by python) ---- *)
Definition kser (a : K32) : list Z := Z.of_nat (ke a) :: kc a.      (* denominator exponent, then coefficients *)
Definition mser (A : mat) : list (list (list Z)) := map (map kser) A.
Definition omser (A : option mat) : list (list (list Z)) := match A with Some A' => mser A' | None => [] end.
Definition half_units_z (n d : Z) : Z :=
  match half_units n d with Some k => Z.of_nat k | None => (-1)%Z end.
