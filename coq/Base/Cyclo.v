(* Cyclo.v — the exact scalar ring K32 = Z[1/2][w]/(w^32+1).

   w stands for e^{i*pi/32}; i = w^16; sqrt2 = w^8 + w^-8 = w^8 - w^24.
   An element is a polynomial in w with integer coefficients (list, lowest degree
   first, canonical form: at most 32 coefficients, no trailing zeros) together
   with the exponent e of a power-of-two denominator (canonical form: e = 0 or
   some coefficient odd).  Every operation returns a canonical form, so equality
   of ring elements is decided by structural comparison (keqb).

   No proofs in this file (model only); the homomorphism K32 -> R for every
   commutative ring R with omega^32 = -1 and 2 invertible is in
   Proofs/CycloProofs.v. *)
From Coq Require Import ZArith List Bool.
Import ListNotations.
Open Scope Z_scope.

Definition poly := list Z.

Fixpoint padd (p q : poly) : poly :=
  match p, q with
  | [], _ => q
  | _, [] => p
  | a :: p', b :: q' => (a + b) :: padd p' q'
  end.

Definition pscale (c : Z) (p : poly) : poly := map (Z.mul c) p.
Definition pneg (p : poly) : poly := map Z.opp p.

(* schoolbook product; zero coefficients of the left factor are skipped *)
Fixpoint pmul (p q : poly) : poly :=
  match p with
  | [] => []
  | a :: p' => if a =? 0 then 0 :: pmul p' q
               else padd (pscale a q) (0 :: pmul p' q)
  end.

(* w^32 = -1 : fold the coefficients from degree 32 upward back with a sign.
   (one folding step: enough for products of two polynomials of degree < 32;
   the evaluation identity holds for every length) *)
Definition preduce (p : poly) : poly := padd (firstn 32 p) (pneg (skipn 32 p)).

Fixpoint ptrim (p : poly) : poly :=
  match p with
  | [] => []
  | a :: p' => match ptrim p' with
               | [] => if a =? 0 then [] else [a]
               | t => a :: t
               end
  end.

Fixpoint pow2 (k : nat) : Z := match k with O => 1 | S k' => 2 * pow2 k' end.

Record K32 : Type := mkK { kc : poly; ke : nat }.   (* value = kc(w) / 2^ke *)

(* cancel common factors of two against the denominator *)
Fixpoint khalve (p : poly) (e : nat) : K32 :=
  match e with
  | O => mkK p O
  | S e' => if forallb Z.even p then khalve (map Z.div2 p) e' else mkK p e
  end.

Definition knorm (x : K32) : K32 := khalve (ptrim (kc x)) (ke x).

Definition kzero : K32 := mkK [] 0.
Definition kone : K32 := mkK [1] 0.
Definition khalf : K32 := mkK [1] 1.
Definition kofZ (z : Z) : K32 := knorm (mkK [z] 0).

Definition kadd (a b : K32) : K32 :=
  knorm (mkK (padd (pscale (pow2 (ke b)) (kc a)) (pscale (pow2 (ke a)) (kc b))) (ke a + ke b)).
Definition kneg (a : K32) : K32 := mkK (pneg (kc a)) (ke a).
Definition ksub (a b : K32) : K32 := kadd a (kneg b).
Definition kmul (a b : K32) : K32 :=
  knorm (mkK (preduce (pmul (kc a) (kc b))) (ke a + ke b)).

(* w^k for every natural k (w^64 = 1) *)
Definition kw (k : nat) : K32 :=
  let k' := Nat.modulo k 64 in
  if Nat.ltb k' 32 then mkK (repeat 0 k' ++ [1]) 0
  else mkK (repeat 0 (k' - 32) ++ [-1]) 0.

Definition ki : K32 := kw 16.
Definition ksqrt2 : K32 := kadd (kw 8) (kw 56).            (* w^8 + w^-8 *)
Definition krsqrt2 : K32 := kmul khalf ksqrt2.             (* 1/sqrt2 *)

(* complex conjugation: w |-> w^-1 = w^63; the coefficient of w^k moves to
   degree 64-k and preduce folds it back to -w^(32-k) *)
Fixpoint pconj_tail (p : poly) (k : nat) : poly :=        (* p = coefficients of w^k, w^(k+1), ... *)
  match p with
  | [] => []
  | a :: p' => padd (repeat 0 (64 - k) ++ [a]) (pconj_tail p' (S k))
  end.
Definition kconj (a : K32) : K32 :=
  match kc a with
  | [] => a
  | a0 :: t => knorm (mkK (preduce (padd [a0] (pconj_tail t 1))) (ke a))
  end.

Fixpoint peqb (p q : poly) : bool :=
  match p, q with
  | [], [] => true
  | a :: p', b :: q' => (a =? b) && peqb p' q'
  | _, _ => false
  end.
Definition keqb (a b : K32) : bool := peqb (kc a) (kc b) && Nat.eqb (ke a) (ke b).
Definition kis0 (a : K32) : bool := match kc a with [] => true | _ => false end.

(* cos(k*pi/32) and sin(k*pi/32), exact *)
Definition kcos (k : nat) : K32 := kmul khalf (kadd (kw k) (kw (64 - Nat.modulo k 64))).
Definition ksin (k : nat) : K32 :=                      (* (w^k - w^-k)/(2i) = (w^k - w^-k) * w^48 / 2 *)
  kmul khalf (kmul (kw 48) (ksub (kw k) (kw (64 - Nat.modulo k 64)))).

(* canonical-form predicate (used by examples / sanity checks) *)
Definition kcanon (a : K32) : bool :=
  Nat.leb (List.length (kc a)) 32 && keqb (knorm a) a.
