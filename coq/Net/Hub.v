(* Net/Hub.v — model of the thread-socket hub
   (netqasm/sdk/classical_communication/thread_socket/socket_hub.py, socket.py).

   Shared state of `_SocketHub` (open set, remote set, per-receiver message queues,
   receive / connection-lost callback tables, the lock) and threads that run op
   scripts against it.  Every model step is ONE access to shared state, in the
   statement order of the Python code; the label of a step names that access
   (the harness logs the same accesses on the real hub and compares).

   The model follows the repaired code (fix commits `register callbacks before
   publication`, `publish under the lock`, `recv checks and pops under one lock
   acquisition`):
     connect    : with lock: [rcb[k]:=me; lcb[k]:=me]; open.add k; remote.add k
                  poll: rk in open -> return | rk in remote -> return | sleep
     send m     : k in open? ; rk in open? (else ConnectionError) ; c := rcb.get rk ;
                  c = Some cb -> cb(m)   | None -> with lock: q := messages[rk]; q.append m
     recv       : with lock: q := messages[k]; if len q > 0: q.pop(0), return it ;
                  then (non-blocking: RuntimeError | blocking: sleep, again)
     disconnect : with lock: c := lcb.get rk; c(); if k in open: open.remove k;
                  if rk in remote: remote.remove rk; rcb.pop k; lcb.pop k
   `variant` Orig keeps the statement order of the unrepaired connect (open.add;
   remote.add; callbacks; no lock) and the unrepaired recv (with lock: q := messages[k];
   len q outside the lock; with lock: pop) so that the old defects stay expressible.

   No proofs in this file. *)
From Coq Require Import List Arith Bool PeanoNat.
Import ListNotations.

Definition key := (nat * nat * nat)%type.          (* app, remote app, socket id *)
Definition msg := nat.

Definition key_eqb (a b : key) : bool :=
  match a, b with
  | (a1, a2, a3), (b1, b2, b3) => (a1 =? b1) && (a2 =? b2) && (a3 =? b3)
  end.
Definition rkey (k : key) : key := match k with (a, b, i) => (b, a, i) end.

(* sets of keys *)
Definition kmem (k : key) (l : list key) : bool := existsb (key_eqb k) l.
Definition kadd (k : key) (l : list key) : list key := if kmem k l then l else l ++ [k].
Definition kdel (k : key) (l : list key) : list key := filter (fun x => negb (key_eqb k x)) l.

(* dictionaries keyed by socket key *)
Fixpoint aget {V} (k : key) (m : list (key * V)) : option V :=
  match m with
  | [] => None
  | (k', v) :: r => if key_eqb k k' then Some v else aget k r
  end.
Fixpoint aset {V} (k : key) (v : V) (m : list (key * V)) : list (key * V) :=
  match m with
  | [] => [(k, v)]
  | (k', v') :: r => if key_eqb k k' then (k', v) :: r else (k', v') :: aset k v r
  end.
Definition adel {V} (k : key) (m : list (key * V)) : list (key * V) :=
  filter (fun kv => negb (key_eqb k (fst kv))) m.
(* `_messages` is a defaultdict(list) *)
Definition qget (k : key) (q : list (key * list msg)) : list msg :=
  match aget k q with Some l => l | None => [] end.

Inductive op := Connect | Send (m : msg) | Recv (nonblocking : bool) | Disconnect.
Inductive res := ROk | RConnErr | RMsg (m : msg) | REmpty | RIndexErr.

Inductive cpc := C_cb1 | C_cb2 | C_open | C_rem | C_rel | C_chko | C_chkr | C_sleep
               | C_orem | C_ocb1 | C_ocb2.     (* Orig variant only *)
Inductive spc := S_peer | S_get | S_call (target : nat) | S_acq | S_ref | S_app | S_rel.
Inductive rpc := R_ref | R_len | R_pop | R_rel2 (r : res) | R_rel0 | R_sleep
               | R_orel | R_olen | R_oacq2.     (* Orig variant only *)
Inductive dpc := D_getl | D_call (target : nat) | D_ochk | D_orm | D_rchk | D_rrm | D_rpop | D_lpop | D_rel.
Inductive pc := P0 | PC (c : cpc) | PS (c : spc) | PR (c : rpc) | PD (c : dpc).

Record thread := mkT {
  t_key : key; t_cb : bool;
  t_ops : list op;          (* remaining ops; the head is the op in progress *)
  t_pc : pc;
  t_out : list res;         (* results of finished ops, newest first *)
  t_store : list msg;       (* what recv_callback stored, newest first *)
  t_lost : nat }.           (* how often conn_lost_callback ran *)

(* ghost history, newest first *)
Inductive event :=
| EOpenAdd (k : key) | EOpenDel (k : key) | ERemAdd (k : key) | ERemDel (k : key)
| EDisc (k : key)                 (* endpoint k's disconnect has cleared its peer's remote entry *)
| ESend (k : key) (m : msg)       (* m appended to the queue of receiver k *)
| ECb (k : key) (m : msg)         (* m handed to the receive callback of receiver k *)
| ERecv (k : key) (m : msg)       (* m popped from the queue of k *)
| ELen (k : key) (n : nat)        (* a receiver observed len(queue k) = n *)
| EConnRet (k : key).             (* connect of endpoint k returned *)

Record state := mkS {
  s_th : list thread;
  s_open : list key; s_rem : list key;
  s_q : list (key * list msg);
  s_rcb : list (key * nat); s_lcb : list (key * nat);
  s_lock : option nat;
  s_tr : list event }.

Inductive label :=
| LAcq | LRel | LSleep
| LOpenHas (k : key) (b : bool) | LOpenAdd (k : key) | LOpenDel (k : key)
| LRemHas (k : key) (b : bool) | LRemAdd (k : key) | LRemDel (k : key)
| LQRef (k : key) | LQLen (k : key) (n : nat) | LQApp (k : key) (m : msg) | LQPop (k : key)
| LRcbGet (k : key) (c : option nat) | LRcbSet (k : key) | LRcbPop (k : key)
| LLcbGet (k : key) (c : option nat) | LLcbSet (k : key) | LLcbPop (k : key)
| LCallRecv (target : nat) (m : msg) | LCallLost (target : nat).

Inductive variant := Fixed | Orig.

Definition goto (th : thread) (p : pc) : thread :=
  mkT (t_key th) (t_cb th) (t_ops th) p (t_out th) (t_store th) (t_lost th).
Definition fin (th : thread) (r : res) : thread :=
  mkT (t_key th) (t_cb th) (tl (t_ops th)) P0 (r :: t_out th) (t_store th) (t_lost th).

(* The next access of a thread: label (with the value read), the thread's new
   local state, ghost events.  Reads look at the current shared state. *)
Definition next (v : variant) (s : state) (th : thread) : option (label * thread * list event) :=
  let k := t_key th in
  let rk := rkey k in
  match t_ops th with
  | [] => None
  | o :: _ =>
    match o, t_pc th with
    (* ---- connect *)
    | Connect, P0 =>
        match v with
        | Fixed => Some (LAcq, goto th (PC (if t_cb th then C_cb1 else C_open)), [])
        | Orig => Some (LOpenAdd k, goto th (PC C_orem), [EOpenAdd k])
        end
    | Connect, PC C_cb1 => Some (LRcbSet k, goto th (PC C_cb2), [])
    | Connect, PC C_cb2 => Some (LLcbSet k, goto th (PC C_open), [])
    | Connect, PC C_open => Some (LOpenAdd k, goto th (PC C_rem), [EOpenAdd k])
    | Connect, PC C_rem => Some (LRemAdd k, goto th (PC C_rel), [ERemAdd k])
    | Connect, PC C_rel => Some (LRel, goto th (PC C_chko), [])
    | Connect, PC C_orem =>
        match v with
        | Orig => Some (LRemAdd k, goto th (PC (if t_cb th then C_ocb1 else C_chko)), [ERemAdd k])
        | Fixed => None
        end
    | Connect, PC C_ocb1 =>
        match v with Orig => Some (LRcbSet k, goto th (PC C_ocb2), []) | Fixed => None end
    | Connect, PC C_ocb2 =>
        match v with Orig => Some (LLcbSet k, goto th (PC C_chko), []) | Fixed => None end
    | Connect, PC C_chko =>
        let b := kmem rk (s_open s) in
        Some (LOpenHas rk b, if b then fin th ROk else goto th (PC C_chkr), if b then [EConnRet k] else [])
    | Connect, PC C_chkr =>
        let b := kmem rk (s_rem s) in
        Some (LRemHas rk b, if b then fin th ROk else goto th (PC C_sleep), if b then [EConnRet k] else [])
    | Connect, PC C_sleep => Some (LSleep, goto th (PC C_chko), [])
    (* ---- send *)
    | Send m, P0 =>
        let b := kmem k (s_open s) in
        Some (LOpenHas k b, if b then goto th (PS S_peer) else fin th RConnErr, [])
    | Send m, PS S_peer =>
        let b := kmem rk (s_open s) in
        Some (LOpenHas rk b, if b then goto th (PS S_get) else fin th RConnErr, [])
    | Send m, PS S_get =>
        let c := aget rk (s_rcb s) in
        Some (LRcbGet rk c, match c with Some tg => goto th (PS (S_call tg)) | None => goto th (PS S_acq) end, [])
    | Send m, PS (S_call tg) => Some (LCallRecv tg m, fin th ROk, [ECb rk m])
    | Send m, PS S_acq => Some (LAcq, goto th (PS S_ref), [])
    | Send m, PS S_ref => Some (LQRef rk, goto th (PS S_app), [])
    | Send m, PS S_app => Some (LQApp rk m, goto th (PS S_rel), [ESend rk m])
    | Send m, PS S_rel => Some (LRel, fin th ROk, [])
    (* ---- recv *)
    | Recv nb, P0 => Some (LAcq, goto th (PR R_ref), [])
    | Recv nb, PR R_ref => Some (LQRef k, goto th (PR (match v with Fixed => R_len | Orig => R_orel end)), [])
    | Recv nb, PR R_len =>            (* still inside the locked region *)
        let n := List.length (qget k (s_q s)) in
        Some (LQLen k n, goto th (PR (if n =? 0 then R_rel0 else R_pop)), [ELen k n])
    | Recv nb, PR R_pop =>
        match qget k (s_q s) with
        | [] => Some (LQPop k, goto th (PR (R_rel2 RIndexErr)), [])
        | m :: _ => Some (LQPop k, goto th (PR (R_rel2 (RMsg m))), [ERecv k m])
        end
    | Recv nb, PR (R_rel2 r) => Some (LRel, fin th r, [])
    | Recv nb, PR R_rel0 => Some (LRel, if nb then fin th REmpty else goto th (PR R_sleep), [])
    | Recv nb, PR R_sleep => Some (LSleep, goto th P0, [])
    (* unrepaired recv: the length check and the pop are two locked regions *)
    | Recv nb, PR R_orel =>
        match v with Orig => Some (LRel, goto th (PR R_olen), []) | Fixed => None end
    | Recv nb, PR R_olen =>
        match v with
        | Orig =>
            let n := List.length (qget k (s_q s)) in
            Some (LQLen k n,
                  if n =? 0 then (if nb then fin th REmpty else goto th (PR R_sleep)) else goto th (PR R_oacq2),
                  [ELen k n])
        | Fixed => None
        end
    | Recv nb, PR R_oacq2 =>
        match v with Orig => Some (LAcq, goto th (PR R_pop), []) | Fixed => None end
    (* ---- disconnect *)
    | Disconnect, P0 => Some (LAcq, goto th (PD D_getl), [])
    | Disconnect, PD D_getl =>
        let c := aget rk (s_lcb s) in
        Some (LLcbGet rk c, match c with Some tg => goto th (PD (D_call tg)) | None => goto th (PD D_ochk) end, [])
    | Disconnect, PD (D_call tg) => Some (LCallLost tg, goto th (PD D_ochk), [])
    | Disconnect, PD D_ochk =>
        let b := kmem k (s_open s) in
        Some (LOpenHas k b, goto th (PD (if b then D_orm else D_rchk)), [])
    | Disconnect, PD D_orm => Some (LOpenDel k, goto th (PD D_rchk), [EOpenDel k])
    | Disconnect, PD D_rchk =>
        let b := kmem rk (s_rem s) in
        Some (LRemHas rk b, goto th (PD (if b then D_rrm else D_rpop)), if b then [] else [EDisc k])
    | Disconnect, PD D_rrm => Some (LRemDel rk, goto th (PD D_rpop), [EDisc k; ERemDel rk])
    | Disconnect, PD D_rpop => Some (LRcbPop k, goto th (PD D_lpop), [])
    | Disconnect, PD D_lpop => Some (LLcbPop k, goto th (PD D_rel), [])
    | Disconnect, PD D_rel => Some (LRel, fin th ROk, [])
    | _, _ => None
    end
  end.

Fixpoint set_nth {A} (n : nat) (x : A) (l : list A) : list A :=
  match l, n with
  | [], _ => []
  | _ :: r, O => x :: r
  | y :: r, S n' => y :: set_nth n' x r
  end.

Definition upd_th (f : thread -> thread) (t : nat) (l : list thread) : list thread :=
  match nth_error l t with Some th => set_nth t (f th) l | None => l end.

Definition enabled (l : label) (s : state) : bool :=
  match l with
  | LAcq => match s_lock s with None => true | Some _ => false end
  | _ => true
  end.

(* the effect of an access on the shared state (ths: thread list with the acting
   thread already advanced) *)
Definition apply (l : label) (t : nat) (ths : list thread) (s : state) (evs : list event) : state :=
  let tr := evs ++ s_tr s in
  let st ths' o r q rc lc lk := mkS ths' o r q rc lc lk tr in
  let o := s_open s in let r := s_rem s in let q := s_q s in
  let rc := s_rcb s in let lc := s_lcb s in let lk := s_lock s in
  match l with
  | LAcq => st ths o r q rc lc (Some t)
  | LRel => st ths o r q rc lc None
  | LOpenAdd k => st ths (kadd k o) r q rc lc lk
  | LOpenDel k => st ths (kdel k o) r q rc lc lk
  | LRemAdd k => st ths o (kadd k r) q rc lc lk
  | LRemDel k => st ths o (kdel k r) q rc lc lk
  | LQApp k m => st ths o r (aset k (qget k q ++ [m]) q) rc lc lk
  | LQPop k => st ths o r (aset k (tl (qget k q)) q) rc lc lk
  | LRcbSet k => st ths o r q (aset k t rc) lc lk
  | LRcbPop k => st ths o r q (adel k rc) lc lk
  | LLcbSet k => st ths o r q rc (aset k t lc) lk
  | LLcbPop k => st ths o r q rc (adel k lc) lk
  | LCallRecv tg m =>
      st (upd_th (fun x => mkT (t_key x) (t_cb x) (t_ops x) (t_pc x) (t_out x) (m :: t_store x) (t_lost x)) tg ths)
         o r q rc lc lk
  | LCallLost tg =>
      st (upd_th (fun x => mkT (t_key x) (t_cb x) (t_ops x) (t_pc x) (t_out x) (t_store x) (S (t_lost x))) tg ths)
         o r q rc lc lk
  | LSleep | LOpenHas _ _ | LRemHas _ _ | LQRef _ | LQLen _ _ | LRcbGet _ _ | LLcbGet _ _ =>
      st ths o r q rc lc lk
  end.

Definition stepl (v : variant) (s : state) (t : nat) : option (label * state) :=
  match nth_error (s_th s) t with
  | None => None
  | Some th =>
    match next v s th with
    | None => None
    | Some (l, th', evs) =>
        if enabled l s then Some (l, apply l t (set_nth t th' (s_th s)) s evs) else None
    end
  end.

Definition step (v : variant) (s : state) (t : nat) : option state :=
  match stepl v s t with Some (_, s') => Some s' | None => None end.

(* a schedule is a list of thread ids; entries naming a thread that cannot move are skipped *)
Fixpoint run (v : variant) (s : state) (sch : list nat) : state :=
  match sch with
  | [] => s
  | t :: r => match step v s t with Some s' => run v s' r | None => run v s r end
  end.

Fixpoint run_labels (v : variant) (s : state) (sch : list nat) : list label * state :=
  match sch with
  | [] => ([], s)
  | t :: r =>
      match stepl v s t with
      | Some (l, s') => let (ls, s'') := run_labels v s' r in (l :: ls, s'')
      | None => run_labels v s r
      end
  end.

Definition mk_thread (c : key * bool * list op) : thread :=
  match c with (k, cb, ops) => mkT k cb ops P0 [] [] 0 end.
Definition init (cfg : list (key * bool * list op)) : state :=
  mkS (map mk_thread cfg) [] [] [] [] [] None [].

(* ---- logs read off the history (oldest first) *)
Definition sent_ev (k : key) (e : event) : list msg :=
  match e with
  | ESend k' m | ECb k' m => if key_eqb k k' then [m] else []
  | _ => []
  end.
Definition recv_ev (k : key) (e : event) : list msg :=
  match e with
  | ERecv k' m | ECb k' m => if key_eqb k k' then [m] else []
  | _ => []
  end.
Definition sent_log (k : key) (tr : list event) : list msg := flat_map (sent_ev k) (rev tr).
Definition recv_log (k : key) (tr : list event) : list msg := flat_map (recv_ev k) (rev tr).

(* ---- observable outcome (no ghost state) *)
Definition finished (th : thread) : bool := match t_ops th with [] => true | _ => false end.
Definition observe (s : state) :=
  (map (fun th => (rev (t_out th), List.length (t_ops th), rev (t_store th), t_lost th)) (s_th s),
   filter (fun kv => negb (Nat.eqb (List.length (snd kv)) 0)) (s_q s), s_open s, s_rem s).

(* erase the ghost history (state-space exploration identifies states up to history) *)
Definition erase (s : state) : state :=
  mkS (s_th s) (s_open s) (s_rem s) (s_q s) (s_rcb s) (s_lcb s) (s_lock s) [].

(* ---- several runs in one process.  reset_socket_hub() re-initialises the hub object (`__init__`
   on the live object: fresh sets, queues, callback tables and lock); the next run brings its own
   threads.  Whatever the previous run left behind — unreceived messages, keys of endpoints that
   never disconnected, callbacks, even a held lock — is gone; the history of the new run starts
   empty.  (Not modelled: a reset while threads of the earlier run are still inside the hub.) *)
Definition reset (s : state) (cfg : list (key * bool * list op)) : state :=
  mkS (map mk_thread cfg) [] [] [] [] [] None [].

(* a history: (configuration, schedule) per run, a reset before each *)
Fixpoint run_history (v : variant) (s : state) (h : list (list (key * bool * list op) * list nat)) : state :=
  match h with
  | [] => s
  | (cfg, sch) :: r => run_history v (run v (reset s cfg) sch) r
  end.
