(* Net/Bcast.v — one endpoint owning several sockets: the BroadcastChannel of
   netqasm/sdk/classical_communication/broadcast_channel.py (BroadcastChannelBySockets)
   on top of the thread-socket hub of Net/Hub.v.

   A broadcast endpoint of application `a` with remote applications r_0 .. r_{n-1} is ONE
   thread that owns n thread sockets with keys (a, r_i, 0).  In the model every socket is a
   hub thread of Net/Hub.v (same step function, same labels: one model step = one shared
   access of the real hub), but the sockets of one endpoint never run concurrently: a
   controller (the endpoint's script position) hands ONE socket-level op at a time to one of
   its sockets (`inject`), waits for its result and decides what comes next, exactly as the
   Python loops do:
     BConnect : for each socket in order: ThreadSocket(...)   (= Connect, blocks until the peer is there)
     BSend m  : for each socket in order: socket.send(m)      (a ConnectionError aborts the loop)
     BRecv    : while True: for each socket in order: socket.recv(block=False); return (remote, msg)
                on the first one that has a message (busy-waits, no sleep)
     BClose   : for each socket in order: hub.disconnect(socket)   (what __del__ does)
   Plain thread-socket parties (a hub thread with a fixed script) can be mixed in (PRaw).

   A schedule is a list of party indices.  `bstep s p` lets party p perform its next shared
   access and then settles the controller (consumes the result of a finished socket op and
   injects the next one), so between steps every endpoint either has finished or has exactly
   one socket with an op in progress.  p_log / p_done are ghost records (what was sent on
   which socket, which ops finished with which result).  No proofs in this file. *)
From Coq Require Import List Arith Bool PeanoNat.
From NQ Require Import Net.Hub.
Import ListNotations.

Inductive bop := BConnect | BSend (m : msg) | BRecv | BClose.
Inductive bres := BOk | BConnErr | BMsg (from : nat) (m : msg).

Record endpoint := mkE {
  e_app : nat;
  e_remotes : list nat;
  e_base : nat;                     (* socket i is hub thread e_base + i *)
  e_ops : list bop;                 (* remaining ops; the head is in progress *)
  e_cur : option nat;               (* the socket whose injected op is in progress *)
  e_out : list bres;                (* results, newest first *)
  e_log : list (nat * msg);         (* ghost: (socket index, m) for every socket-level send that returned ok, newest first *)
  e_done : list (bop * bres) }.     (* ghost: finished ops with their results, newest first *)

Inductive party := PB (e : endpoint) | PRaw (t : nat).

Record bstate := mkB { b_hub : state; b_par : list party }.

(* hand a socket-level op to an idle hub thread *)
Definition inject (s : state) (t : nat) (o : op) : state :=
  mkS (upd_th (fun x => mkT (t_key x) (t_cb x) [o] P0 (t_out x) (t_store x) (t_lost x)) t (s_th s))
      (s_open s) (s_rem s) (s_q s) (s_rcb s) (s_lcb s) (s_lock s) (s_tr s).

Definition sop (o : bop) : op :=
  match o with BConnect => Connect | BSend m => Send m | BRecv => Recv true | BClose => Disconnect end.

Definition e_set (e : endpoint) (ops : list bop) (cur : option nat) (out : list bres)
                 (lg : list (nat * msg)) (dn : list (bop * bres)) : endpoint :=
  mkE (e_app e) (e_remotes e) (e_base e) ops cur out lg dn.

(* one controller move; None = nothing to do (an op is in progress, or the script is over, or
   a receive on an endpoint without sockets spins for ever) *)
Definition settle1 (h : state) (e : endpoint) : option (state * endpoint) :=
  let n := List.length (e_remotes e) in
  match e_ops e with
  | [] => None
  | o :: rest =>
    let finish r := Some (h, e_set e rest None (r :: e_out e) (e_log e) ((o, r) :: e_done e)) in
    match e_cur e with
    | None =>
        if n =? 0 then (match o with BRecv => None | _ => finish BOk end)
        else Some (inject h (e_base e) (sop o), e_set e (e_ops e) (Some 0) (e_out e) (e_log e) (e_done e))
    | Some i =>
        match nth_error (s_th h) (e_base e + i) with
        | None => None
        | Some th =>
          match t_ops th, t_out th with
          | [], r :: _ =>
              let lg := match o, r with BSend m, ROk => (i, m) :: e_log e | _, _ => e_log e end in
              let next := if S i <? n
                          then Some (inject h (e_base e + S i) (sop o), e_set e (e_ops e) (Some (S i)) (e_out e) lg (e_done e))
                          else Some (h, e_set e rest None (BOk :: e_out e) lg ((o, BOk) :: e_done e)) in
              match o, r with
              | BSend _, ROk => next
              | BSend _, _ => finish BConnErr       (* ConnectionError: the loop over the sockets is abandoned *)
              | BRecv, RMsg m => finish (BMsg (nth i (e_remotes e) 0) m)
              | BRecv, _ =>             (* nothing there: poll the next socket, wrapping around *)
                  let j := if S i <? n then S i else 0 in
                  Some (inject h (e_base e + j) (Recv true), e_set e (e_ops e) (Some j) (e_out e) (e_log e) (e_done e))
              | _, _ => next
              end
          | _, _ => None          (* still running *)
          end
        end
    end
  end.

Fixpoint settle (fuel : nat) (h : state) (e : endpoint) : state * endpoint :=
  match fuel with
  | O => (h, e)
  | S f => match settle1 h e with Some (h', e') => settle f h' e' | None => (h, e) end
  end.

Definition SETTLE_FUEL := 3.

Definition set_party (p : nat) (x : party) (l : list party) : list party := set_nth p x l.

Definition bstep (s : bstate) (p : nat) : option (label * bstate) :=
  match nth_error (b_par s) p with
  | None => None
  | Some (PRaw t) =>
      match stepl Fixed (b_hub s) t with
      | Some (l, h') => Some (l, mkB h' (b_par s))
      | None => None
      end
  | Some (PB e) =>
      match e_cur e with
      | None => None
      | Some i =>
          match stepl Fixed (b_hub s) (e_base e + i) with
          | Some (l, h') =>
              let (h'', e') := settle SETTLE_FUEL h' e in
              Some (l, mkB h'' (set_party p (PB e') (b_par s)))
          | None => None
          end
      end
  end.

Fixpoint brun_labels (s : bstate) (sch : list nat) : list label * bstate :=
  match sch with
  | [] => ([], s)
  | p :: r =>
      match bstep s p with
      | Some (l, s') => let (ls, s'') := brun_labels s' r in (l :: ls, s'')
      | None => brun_labels s r
      end
  end.
Definition brun (s : bstate) (sch : list nat) : bstate := snd (brun_labels s sch).

(* ---- configurations *)
Inductive pcfg := CB (app : nat) (remotes : list nat) (ops : list bop) | CRaw (k : key) (ops : list op).

Definition hub_threads (c : pcfg) : list (key * bool * list op) :=
  match c with
  | CB a rs _ => map (fun r => ((a, r, 0), false, [])) rs
  | CRaw k ops => [(k, false, ops)]
  end.

Fixpoint mk_parties (base : nat) (cfg : list pcfg) : list party :=
  match cfg with
  | [] => []
  | CB a rs ops :: r => PB (mkE a rs base ops None [] [] []) :: mk_parties (base + List.length rs) r
  | CRaw _ _ :: r => PRaw base :: mk_parties (S base) r
  end.

(* start every endpoint's first op *)
Fixpoint settle_all (h : state) (ps : list party) : state * list party :=
  match ps with
  | [] => (h, [])
  | PB e :: r => let (h', e') := settle SETTLE_FUEL h e in
                 let (h'', r') := settle_all h' r in (h'', PB e' :: r')
  | x :: r => let (h'', r') := settle_all h r in (h'', x :: r')
  end.

Definition binit (cfg : list pcfg) : bstate :=
  let (h, ps) := settle_all (init (flat_map hub_threads cfg)) (mk_parties 0 cfg) in mkB h ps.

(* ---- observation *)
Definition pobserve (h : state) (x : party) :=
  match x with
  | PB e => (rev (e_out e), List.length (e_ops e), @nil res)
  | PRaw t => match nth_error (s_th h) t with
              | Some th => (@nil bres, List.length (t_ops th), rev (t_out th))
              | None => (@nil bres, 0, @nil res)
              end
  end.
Definition bobserve (s : bstate) :=
  (map (pobserve (b_hub s)) (b_par s),
   filter (fun kv => negb (Nat.eqb (List.length (snd kv)) 0)) (s_q (b_hub s)), s_open (b_hub s), s_rem (b_hub s)).
