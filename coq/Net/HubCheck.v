(* Net/HubCheck.v — executable helpers used by the C18 check to re-evaluate, inside
   Coq (vm_compute), a sample of the schedules that were run through the extracted
   OCaml model: the flattened observation must be the one OCaml printed.
   No proofs in this file. *)
From Coq Require Import List Arith Bool PeanoNat.
From NQ Require Import Net.Hub.
Import ListNotations.

Definition enc_res (r : res) : list nat :=
  match r with ROk => [0] | RConnErr => [1] | RMsg m => [2; m] | REmpty => [3] | RIndexErr => [4] end.
Definition enc_key (k : key) : list nat := match k with (a, b, i) => [a; b; i] end.

Definition flat_obs (s : state) : list nat :=
  flat_map (fun th => [100] ++ flat_map enc_res (rev (t_out th)) ++ [101; List.length (t_ops th); 102]
                      ++ rev (t_store th) ++ [103; t_lost th]) (s_th s)
  ++ [104]
  ++ flat_map (fun kv => enc_key (fst kv) ++ [105] ++ snd kv ++ [106])
              (filter (fun kv => negb (Nat.eqb (List.length (snd kv)) 0)) (s_q s))
  ++ [107] ++ flat_map enc_key (s_open s) ++ [108] ++ flat_map enc_key (s_rem s).

Fixpoint list_eqb (a b : list nat) : bool :=
  match a, b with
  | [], [] => true
  | x :: a', y :: b' => (x =? y) && list_eqb a' b'
  | _, _ => false
  end.

Definition case := (list (key * bool * list op) * list nat * list nat)%type.

Definition case_ok (c : case) : bool :=
  match c with (cfg, sch, expect) => list_eqb (flat_obs (run Fixed (init cfg) sch)) expect end.

Fixpoint failing_from (i : nat) (cs : list case) : list nat :=
  match cs with
  | [] => []
  | c :: r => (if case_ok c then [] else [i]) ++ failing_from (S i) r
  end.
Definition failing (cs : list case) : list nat := failing_from 0 cs.

(* ---- the same for broadcast configurations (Net/Bcast.v) *)
From NQ Require Import Net.Bcast.

Definition enc_bres (r : bres) : list nat :=
  match r with BOk => [0] | BConnErr => [1] | BMsg f m => [2; f; m] end.

Definition bflat_obs (s : bstate) : list nat :=
  flat_map (fun x => match pobserve (b_hub s) x with
                     | (bo, lft, o) => [100] ++ flat_map enc_bres bo ++ [101; lft; 102] ++ flat_map enc_res o
                     end) (b_par s)
  ++ [104]
  ++ flat_map (fun kv => enc_key (fst kv) ++ [105] ++ snd kv ++ [106])
              (filter (fun kv => negb (Nat.eqb (List.length (snd kv)) 0)) (s_q (b_hub s)))
  ++ [107] ++ flat_map enc_key (s_open (b_hub s)) ++ [108] ++ flat_map enc_key (s_rem (b_hub s)).

Definition bcase := (list pcfg * list nat * list nat)%type.
Definition bcase_ok (c : bcase) : bool :=
  match c with (cfg, sch, expect) => list_eqb (bflat_obs (brun (binit cfg) sch)) expect end.
Fixpoint bfailing_from (i : nat) (cs : list bcase) : list nat :=
  match cs with
  | [] => []
  | c :: r => (if bcase_ok c then [] else [i]) ++ bfailing_from (S i) r
  end.
Definition bfailing (cs : list bcase) : list nat := bfailing_from 0 cs.
