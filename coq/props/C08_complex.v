(* C08_complex — the quantum half of C08 for COMPLEX amplitude functions: instantiation
   of C08_transpile_simulates_statevector at Coquelicot's complex numbers with
   omega = cos(pi/32) + i sin(pi/32) (Proofs/ComplexInstance.v).  Depends on the axioms of
   Coq's real numbers (printed below); the ring-generic theorem does not. *)
From Coq Require Import Reals ZArith List Bool String.
From Coquelicot Require Import Complex.
From NQ Require Import Base.Cyclo Base.QMat Nv.NvSem Proofs.QMatAlgebra Proofs.ComplexInstance.
From NQ Require Import Nv.Transpile Nv.TranspileCheck Nv.QAct Proofs.TranspileProofs.
From Gen Require Import Gen_NvDecomp Gen_NvBlocks C08 C08_statevector.
Import ListNotations.
Open Scope Z_scope.

Definition CSV : Type := qstate C.
Definition csv_eq : CSV -> CSV -> Prop := qeq C C1 Cmult Comega.       (* equal up to e^{i p pi/32} *)
Definition csv_act : list Z -> mat -> CSV -> CSV := act C C0 C1 Cplus Cmult Copp Comega Chalf.

Theorem C08_transpile_simulates_complex :
  forall (other : event -> CSV -> CSV),
    (forall e a b, csv_eq a b -> csv_eq (other e a) (other e b)) ->
    forall env debug hw p p' s0 fuel pcf sf psi,
      transpile (cfg debug hw) p = Ok p' -> scratch_fresh (cfg debug hw) p -> trace s0 = [] ->
      tracked_run env (cfg debug hw) p fuel 0 s0 = true ->
      run env p fuel 0 s0 = (Halted, pcf, sf) ->
      exists fuel' pcf' sf',
        run env (erase p') fuel' 0 s0 = (Halted, pcf', sf') /\
        agree (clobbered (cfg debug hw) p) (regs sf) (regs sf') /\ arrs sf = arrs sf' /\ script sf = script sf' /\
        csv_eq (run_q CSV (apply_ev CSV csv_act rot_opK crot_opK other (cfg debug hw)) (trace sf') psi)
               (run_q CSV (apply_ev CSV csv_act rot_opK crot_opK other (cfg debug hw)) (trace sf) psi).
Proof.
  intros other Hother.
  exact (C08_transpile_simulates_statevector C C0 C1 Cplus Cmult Cminus Copp C_ring_theory Comega Chalf
           Comega32 Chalf2 other Hother).
Qed.

(* END-TO-END over the complex numbers with projective measurements (see
   C08_end_to_end_statevector for the reading and the remaining hypotheses) *)
Theorem C08_end_to_end_complex : forall env debug hw p p' s0 fuel pcf sf (psi : CSV),
  transpile (cfg debug hw) p = Ok p' -> scratch_fresh_b (cfg debug hw) p = true -> trace s0 = [] ->
  tracked_run env (cfg debug hw) p fuel 0 s0 = true ->
  run env p fuel 0 s0 = (Halted, pcf, sf) ->
  exists fuel' pcf' sf',
    run env (erase p') fuel' 0 s0 = (Halted, pcf', sf') /\
    agree (clobbered (cfg debug hw) p) (regs sf) (regs sf') /\ arrs sf = arrs sf' /\ script sf = script sf' /\
    csv_eq (sv_run C C0 C1 Cplus Cmult Copp Comega Chalf debug hw (trace sf') psi)
           (sv_run C C0 C1 Cplus Cmult Copp Comega Chalf debug hw (trace sf) psi).
Proof.
  exact (C08_end_to_end_statevector C C0 C1 Cplus Cmult Cminus Copp C_ring_theory Comega Chalf Comega32 Chalf2).
Qed.

Print Assumptions C08_transpile_simulates_complex.
Print Assumptions C08_end_to_end_complex.
