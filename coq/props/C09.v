(* C09 — SDK and controller agree on which virtual qubits exist.
   Statements only; the model is Sdk/QubitAgree.v (tied to netqasm/sdk/{qubit,memmgr,
   builder}.py and netqasm/backend/executor.py by the correspondence run of the
   check), proofs are in Proofs/QubitAgreeProofs.v. *)
From Coq Require Import List Arith Bool Permutation.
From NQ Require Import Sdk.QubitAgree Proofs.QubitAgreeProofs.
Import ListNotations.

(* get_new_qubit_address: the lowest unused ID exists, is unused, and every lower ID is in use *)
Theorem C09_new_id_lowest_unused : forall l, exists r,
  new_id l = Some r /\ ~ In r l /\ (forall j, j < r -> In j l) /\ r <= length l.
Proof. exact new_id_spec. Qed.

(* Agree: active_ids sdk = allocated ctrl, no ID twice, at most budget(cfg) IDs.
   Inv (between flushes): the commands built so far will run without fault and lead
   to a controller state that agrees with the SDK's bookkeeping. *)
Theorem C09_agree_init : forall k, Agree k init_sdk (init_ctrl k) /\ Inv k init_sdk (init_ctrl k).
Proof. exact agree_init. Qed.

Theorem C09_agree_step : forall k s c o, Inv k s c -> in_budget k s o = true ->
  match o with
  | Flush => exists c', exec_events c (all_pending s) = (c', all_pending s, None) /\
                        Agree k s c' /\ Inv k (after_flush s) c'
  | _ => (forall e, sdk_step k s o <> inr e) /\
         (forall s', sdk_step k s o = inl s' -> Inv k s' c /\ NoDup (ids s') /\ length (ids s') <= budget k)
  end.
Proof. exact agree_step. Qed.

(* every observation of any program of any length: at every flush no fault and
   Permutation ids allocated /\ NoDup ids /\ |ids| <= budget; after every other
   operation NoDup ids /\ |ids| <= budget; no operation is refused by the SDK *)
Theorem C09_agree_reachable : forall k ops, within_budget k ops ->
  Forall (good_obs k) (run0 k ops).
Proof. exact agree_reachable. Qed.

Theorem C09_no_alloc_fault : forall k ops, within_budget k ops ->
  has_fault (run0 k ops) = false.
Proof. exact no_alloc_fault_b. Qed.

Theorem C09_ids_reused : forall k s c h v o s', Good k s c -> id_of h (active s) = Some v ->
  o = Free h \/ o = MeasureDestructive h -> sdk_step k s o = inl s' ->
  ~ In v (ids s') /\ exists w, new_id (ids s') = Some w /\ w <= v /\ ((forall u, u < v -> In u (ids s')) -> w = v).
Proof. exact ids_reused. Qed.

Theorem C09_nv_relocation_frees_id0 : forall k s c, Good k s c -> nv k = true ->
  exists s' c', free_up0 s = inl s' /\ Ext s c s' c' /\ Good k s' c' /\ ~ In 0 (ids s') /\
    handles s' = handles s /\
    (forall h v, id_of h (active s) = Some v -> v <> 0 -> id_of h (active s') = Some v).
Proof. exact nv_relocation_frees_id0. Qed.

(* Both theorems above are the statements at full strength: the only hypothesis is
   `within_budget` (the host keeps at most budget(cfg) qubits alive, addresses live handles,
   lets a block keep its qubit only where that is possible, and does not ask for several
   sequential pairs without a post routine).  The input classes on which earlier versions of
   the code failed are repaired; their witnesses are instances of the theorem (and corpus
   entries of the check).  E.g. the carbon-carbon gate under the NV transpiler while no
   qubit has ID 0: the builder now reserves the electron around it. *)
Definition witness_carbon_gate : cfg * list op :=
  (mkCfg 4 true true, [NewQubit; NewQubit; NewQubit; MeasureDestructive 1; Gate2 2 0; Flush]).
Example C09_former_finding_carbon_gate :
  within_budget (fst witness_carbon_gate) (snd witness_carbon_gate) /\
  has_fault (run0 (fst witness_carbon_gate) (snd witness_carbon_gate)) = false.
Proof. vm_compute. split; reflexivity. Qed.
(* NV: a two-pair keep while another qubit is alive (formerly refused by an assertion) *)
Example C09_former_refusal_nv_keep :
  let k := mkCfg 4 true false in
  let ops := [NewQubit; EprKeep 2 true false [true; false]; Flush] in
  within_budget k ops /\ has_fault (run0 k ops) = false /\
  option_map ids (sdk_after k init_sdk ops) = Some [1; 2; 0].
Proof. vm_compute. repeat split; reflexivity. Qed.

(* non-vacuity: a program on four-qubit NV hardware with the transpiler that stays in
   budget, with a flushed qubit relocated by a
   measurement, a two-pair keep, a carbon-carbon gate while ID 0 is occupied, a
   keep whose post routine frees (not sequential), Bell states other than Phi+, a two-pair EPR context, a
   context that keeps its pair, three flushes; the hypotheses hold and so does the conclusion, by computation *)
Definition example_prog : list op :=
  [NewQubit; Flush; NewQubit; MeasureDestructive 1; EprKeep 2 true false [true; true]; Gate2 0 2; Flush; Free 3;
   EprKeepSeq 1 true false [true] (BConsume false); Free 2; EprContext 2 false (BConsume true);
   EprContext 1 true BKeep; Flush].
Example C09_nonvacuous :
  let k := mkCfg 4 true true in
  always in_budget k init_sdk example_prog = true /\
  has_fault (run0 k example_prog) = false /\
  List.length (run0 k example_prog) = 13 /\
  option_map ids (sdk_after k init_sdk example_prog) = Some [2; 0].
Proof. vm_compute. repeat split; reflexivity. Qed.

(* ids_reused on an instance: three qubits on generic hardware, the middle one freed:
   its ID 1 is the next one handed out *)
Example C09_ids_reused_instance :
  let k := mkCfg 3 false false in
  option_map (fun s => (ids s, new_id (ids s))) (sdk_after k init_sdk [NewQubit; NewQubit; NewQubit; Free 1])
  = Some ([0; 2], Some 1).
Proof. vm_compute. reflexivity. Qed.

(* relocation on an instance: NV, a flushed qubit at ID 0, a second qubit measured in
   place: the first handle now has ID 2 and ID 0 is unused *)
Example C09_nv_relocation_instance :
  let k := mkCfg 4 true false in
  option_map ids (sdk_after k init_sdk [NewQubit; Flush; NewQubit; MeasureInplace 1]) = Some [2; 1].
Proof. vm_compute. reflexivity. Qed.

Print Assumptions C09_new_id_lowest_unused.
Print Assumptions C09_agree_init.
Print Assumptions C09_agree_step.
Print Assumptions C09_agree_reachable.
Print Assumptions C09_no_alloc_fault.
Print Assumptions C09_ids_reused.
Print Assumptions C09_nv_relocation_frees_id0.
