(* C11 — EPR requests and results cross the SDK/controller boundary intact.
   Statements only; proofs are in Proofs/EprBoundaryProofs.v.  Gen_Epr is regenerated
   from /repo on every run (SER_* indices, tuple field orders and defaults, enum
   numberings, probed handle indices). *)
From Coq Require Import ZArith List Bool String.
From NQ Require Import Sdk.EprBoundary Proofs.EprBoundaryProofs.
From Gen Require Import Gen_Epr.
Import ListNotations.
Open Scope string_scope.
Open Scope Z_scope.

Definition gen_tables : tables :=
  mkT gen_ser_idx gen_create_fields gen_create_defaults gen_enum_EPRType gen_enum_RequestType
      gen_enum_RandomBasis gen_enum_TimeUnit gen_qlink_RandomBasis.

(* (1) finite: the symbolic run of serialize -> controller -> qlink conversion over all
   3 types x 2^3 tests x 5^2 random-basis choices = 600 shapes agrees with the
   specification [expected] on every field *)
Theorem C11_shapes_ok : all_shapes_ok gen_tables = true.
Proof. vm_compute. reflexivity. Qed.

(* (2) for ALL parameter values the API accepts: the request the stack receives agrees
   field by field with [expected] (type, number, time unit and limit, rotations,
   random-basis sets as enum members, node and socket ids; untouched fields at the
   link-layer defaults), and request_to_qlink_1_0 accepts it *)
Theorem C11_request_roundtrip : forall p, api_ok gen_tables p -> roundtrip_at gen_tables p.
Proof. exact (request_roundtrip_all gen_tables C11_shapes_ok). Qed.

Definition qlink_accepts_all : Prop :=
  forall p, api_ok gen_tables p ->
  exists arr r, serialize gen_tables (shape_of p) (vals_of p) = Some arr /\
                controller gen_tables (Lit (p_node p)) (Lit (p_sock p)) arr = Some r /\
                qlink_accepts gen_tables r = true.
Theorem C11_qlink_accepts : qlink_accepts_all.
Proof.
  intros p H. destruct (C11_request_roundtrip p H) as [arr [r [H1 [H2 [_ H4]]]]].
  exists arr, r. auto.
Qed.

(* (3) results.  Side conditions on the regenerated tables (finite) ... *)
Theorem C11_keep_tables_ok :
  handles_ok gen_EXEC_OK_FIELDS gen_okk_fields gen_keep_stride gen_keep_handle keep_spec = true.
Proof. vm_compute. reflexivity. Qed.
Theorem C11_measure_tables_ok :
  handles_ok gen_EXEC_OK_FIELDS gen_okm_fields gen_measure_stride gen_measure_handle measure_spec = true.
Proof. vm_compute. reflexivity. Qed.
Theorem C11_entinfo_tables_ok :
  handles_ok gen_EXEC_OK_FIELDS gen_okk_fields gen_entinfo_stride gen_entinfo_handle entinfo_spec = true.
Proof. vm_compute. reflexivity. Qed.
(* the constants the SDK allocates with are the strides it reads with *)
Theorem C11_lengths :
  gen_OK_FIELDS_K = gen_keep_stride /\ gen_OK_FIELDS_M = gen_measure_stride /\
  gen_keep_len = gen_keep_stride /\ gen_measure_len = gen_measure_stride /\
  (gen_CREATE_FIELDS + 2)%nat = List.length gen_create_fields /\ i_len gen_ser_idx = gen_CREATE_FIELDS.
Proof. vm_compute. repeat split; reflexivity. Qed.

(* ... and for ALL n, all responses, all i < n: every attribute of result handle i reads
   the specified field of response i (after the controller stored the n responses) *)
Theorem C11_result_handles_keep : forall n rs, List.length rs = n ->
  handles_at gen_EXEC_OK_FIELDS gen_okk_fields gen_keep_stride gen_keep_handle keep_spec n rs.
Proof. exact (handles_read_pair_i _ _ _ _ _ C11_keep_tables_ok). Qed.
Theorem C11_result_handles_measure : forall n rs, List.length rs = n ->
  handles_at gen_EXEC_OK_FIELDS gen_okm_fields gen_measure_stride gen_measure_handle measure_spec n rs.
Proof. exact (handles_read_pair_i _ _ _ _ _ C11_measure_tables_ok). Qed.
Theorem C11_result_handles_entinfo : forall n rs, List.length rs = n ->
  handles_at gen_EXEC_OK_FIELDS gen_okk_fields gen_entinfo_stride gen_entinfo_handle entinfo_spec n rs.
Proof. exact (handles_read_pair_i _ _ _ _ _ C11_entinfo_tables_ok). Qed.

(* (3b) min_fidelity_all_at_end retry loops: for ALL n, any exit test, any number of tries and any
   attempts the link layer answers: when the loop ends with an accepted attempt, the handles read pair
   i's response of THAT attempt, not of a discarded one *)
Theorem C11_retry_handles_keep : forall n acc undef tries attempts,
  (forall rs, In rs attempts -> List.length rs = n) ->
  retry_handles_at gen_EXEC_OK_FIELDS gen_okk_fields gen_keep_stride gen_keep_handle keep_spec n acc undef tries attempts.
Proof. exact (retry_handles_read_accepted_attempt _ _ _ _ _ C11_keep_tables_ok). Qed.
Theorem C11_retry_handles_measure : forall n acc undef tries attempts,
  (forall rs, In rs attempts -> List.length rs = n) ->
  retry_handles_at gen_EXEC_OK_FIELDS gen_okm_fields gen_measure_stride gen_measure_handle measure_spec n acc undef tries attempts.
Proof. exact (retry_handles_read_accepted_attempt _ _ _ _ _ C11_measure_tables_ok). Qed.
Theorem C11_retry_handles_entinfo : forall n acc undef tries attempts,
  (forall rs, In rs attempts -> List.length rs = n) ->
  retry_handles_at gen_EXEC_OK_FIELDS gen_okk_fields gen_entinfo_stride gen_entinfo_handle entinfo_spec n acc undef tries attempts.
Proof. exact (retry_handles_read_accepted_attempt _ _ _ _ _ C11_entinfo_tables_ok). Qed.

(* non-vacuity: two pairs, the first attempt is too slow and discarded, the second accepted *)
Example C11_retry_nonvacuous :
  let r (k : Z) : resp := fun f => if String.eqb f "goodness" then k else k * 100 + Z.of_nat (String.length f) in
  let acc := fun rs : list resp => match List.rev rs with x :: _ => x "goodness" <=? 28000 | [] => false end in
  match retry_run gen_EXEC_OK_FIELDS gen_okk_fields acc true 3 (repeat None (gen_keep_stride * 2))
                  [[r 50000; r 60000]; [r 7; r 9]; [r 1; r 2]] with
  | Some arr => map (fun a => handle_read gen_keep_stride (snd a) arr 1) gen_keep_handle
  | None => []
  end = [Some (Some 916); Some (Some 914); Some (Some 9); Some (Some 910)] /\
  option_map (@List.length resp) (accepted_attempt acc 3 [[r 50000; r 60000]; [r 7; r 9]; [r 1; r 2]]) = Some 2%nat.
Proof. vm_compute. split; reflexivity. Qed.

(* measure-directly handles: the outcome is post-processed exactly for a RECEIVER that expects Phi+ (a
   creator's handle returns the raw outcome of its pair's response), and every handle carries the requested
   rotations; tabulated from the real deserialize_epr_measure_results for both roles, expectation on/off,
   n = 1..4 *)
Theorem C11_measure_post_process_flags :
  forallb (fun x => match x with (role, expect, _, _, pp, rot) =>
             Bool.eqb pp (expect && String.eqb role "RECV") && rot end) gen_measure_flags = true /\
  Nat.eqb (List.length gen_measure_flags) 40 = true.
Proof. vm_compute. split; reflexivity. Qed.

(* (4) a Bell state reported through qlink-interface 1.0 is decoded by the SDK as the
   state of the same name (both numberings regenerated; finite) *)
Theorem C11_bell_state_by_name :
  (* rows: (response class / input kind, qlink state name, name the SDK decodes); the real
     conversion is tabulated for every qlink Bell state given as enum member and as plain int,
     for K and M responses: 2 x 2 rows per state *)
  forallb (fun x => String.eqb (snd (fst x)) (snd x)) gen_bell_conv = true /\
  Nat.eqb (List.length gen_bell_conv) (4 * List.length gen_qlink_BellState) = true /\
  map fst gen_qlink_BellState = map fst (filter (fun nv => existsb (fun q => String.eqb (fst q) (fst nv)) gen_enum_BellState) gen_qlink_BellState).
Proof. vm_compute. repeat split; reflexivity. Qed.

(* non-vacuity: a measure-directly request with every optional parameter given meets
   api_ok, and the model computes the request the property text describes *)
Example C11_nonvacuous :
  let p := mkP "M" 3 2 500 (1, 2, 3) (30, 0, 31) (Some "XZ") (Some "CHSH") 7 5 in
  api_ok gen_tables p /\
  (match serialize gen_tables (shape_of p) (vals_of p) with
   | Some arr => controller gen_tables (Lit 7) (Lit 5) arr
   | None => None end) =
  Some [("remote_node_id", VInt (Lit 7)); ("purpose_id", VInt (Lit 5)); ("type", VEnum "RequestType" 1);
        ("number", VInt (Lit 3)); ("random_basis_local", VEnum "RandomBasis" 1);
        ("random_basis_remote", VEnum "RandomBasis" 3); ("minimum_fidelity", VInt (Lit 0));
        ("time_unit", VInt (Lit 2)); ("max_time", VInt (Lit 500)); ("priority", VInt (Lit 0));
        ("atomic", VInt (Lit 0)); ("consecutive", VInt (Lit 0));
        ("probability_dist_local1", VInt (Lit 0)); ("probability_dist_local2", VInt (Lit 0));
        ("probability_dist_remote1", VInt (Lit 0)); ("probability_dist_remote2", VInt (Lit 0));
        ("rotation_X_local1", VInt (Lit 1)); ("rotation_Y_local", VInt (Lit 2)); ("rotation_X_local2", VInt (Lit 3));
        ("rotation_X_remote1", VInt (Lit 30)); ("rotation_Y_remote", VInt (Lit 0));
        ("rotation_X_remote2", VInt (Lit 31))].
Proof. vm_compute. split; [|reflexivity]. repeat split; auto 10. Qed.

(* non-vacuity for the results: three keep responses with distinct values; handle 2 reads
   response 2 *)
Example C11_handles_nonvacuous :
  let r (k : Z) : resp := fun f => k * 100 + Z.of_nat (String.length f) in
  match results_array gen_EXEC_OK_FIELDS gen_okk_fields gen_keep_stride 3 [r 1; r 2; r 3] with
  | Some arr => map (fun a => handle_read gen_keep_stride (snd a) arr 2) gen_keep_handle
  | None => []
  end = [Some (Some 316); Some (Some 314); Some (Some 308); Some (Some 310)].
Proof. vm_compute. reflexivity. Qed.

Print Assumptions C11_request_roundtrip.
Print Assumptions C11_qlink_accepts.
Print Assumptions C11_result_handles_keep.
Print Assumptions C11_result_handles_measure.
Print Assumptions C11_result_handles_entinfo.
Print Assumptions C11_retry_handles_keep.
Print Assumptions C11_retry_handles_measure.
Print Assumptions C11_retry_handles_entinfo.
Print Assumptions C11_bell_state_by_name.
