(* C08 — NV transpilation preserves program behaviour, not only gates.
   Statements only; proofs are in Proofs/TranspileProofs.v.  Gen_NvBlocks is
   regenerated from the live NVSubroutineTranspiler on every run; the theorems hold
   for every decomposition table, here they are instantiated at the regenerated one. *)
From Coq Require Import ZArith List Bool String.
From NQ Require Import Base.Cyclo Base.QMat Nv.NvSem Proofs.QMatProofs.
From Gen Require Import Gen_NvDecomp.
From NQ Require Import Nv.Transpile Nv.TranspileCheck Nv.QAct Proofs.TranspileProofs Proofs.QActProofs.
From Gen Require Import Gen_NvBlocks.
Import ListNotations.
Open Scope Z_scope.

Definition cfg (debug hw : bool) : config := mkConfig debug hw gen_tables.

(* finite facts about the regenerated table: every row that borrows the scratch
   register sets it to 0 (the electron) first, rows that do not borrow it never
   mention the scratch role, cnot/cphase have all three placements, mov only the two
   with the electron *)
Definition item_roles (it : bitem) : list role :=
  match it with BRot _ r _ _ => [r] | BCrot _ a b _ _ => [a; b] | BDbg _ => [] end.
Definition role_is_scratch (r : role) : bool := match r with RS => true | _ => false end.
Definition row_wf (o : option block) : bool :=
  match o with
  | None => true
  | Some b => match b_scratch b with
              | Some v => v =? 0
              | None => negb (existsb role_is_scratch (flat_map item_roles (b_items b)))
              end
  end.
Theorem C08_table_wf :
  forallb (fun g => forallb (fun p => row_wf (gen_g2 g p)) [EC; CE; CC]) [Cnot; Cphase; Mov] = true /\
  forallb (fun g => forallb (fun p => match gen_g2 g p with Some _ => true | None => false end) [EC; CE; CC])
          [Cnot; Cphase] = true /\
  (match gen_g2 Mov CC with None => true | Some _ => false end) = true.
Proof. vm_compute. repeat split; reflexivity. Qed.

(* ---- program-level lemmas (all programs, all tables) *)
Theorem C08_retarget_hits_block_start : forall debug hw p p' i ins t,
  transpile (cfg debug hw) p = Ok p' -> nth_error p i = Some ins -> target ins = Some t ->
  exists ni nt ins',
    new_index (cfg debug hw) p i = Some ni /\ new_index (cfg debug hw) p t = Some nt /\
    nth_error (erase p') ni = Some ins' /\ target ins' = Some nt /\ (t <= List.length p)%nat /\
    forall x b, nth_error p t = Some x -> expand (cfg debug hw) (tst_at p t) x = Ok b ->
      exists b', Forall2 (fun y y' => retarget (match expand_all (cfg debug hw) tst0 p with
                                                 | Ok bs => starts 0 bs | Err _ => [] end) y = Ok y')
                         (erase b) b' /\
                 forall k, (k < List.length b')%nat -> nth_error (erase p') (nt + k) = nth_error b' k.
Proof. intros debug hw. exact (retarget_hits_block_start (cfg debug hw)). Qed.

Theorem C08_end_target_gets_noop : forall debug hw p p',
  transpile (cfg debug hw) p = Ok p' ->
  exists n, new_index (cfg debug hw) p (List.length p) = Some n /\
    if targets_end p
    then nth_error (erase p') n = Some (noop (cfg debug hw)) /\ List.length (erase p') = S n
    else List.length (erase p') = n.
Proof. intros debug hw. exact (end_target_gets_noop (cfg debug hw)). Qed.

Theorem C08_non_gates_keep_order : forall debug hw p p' i j a b,
  transpile (cfg debug hw) p = Ok p' -> (i < j)%nat ->
  nth_error p i = Some a -> nth_error p j = Some b ->
  is_gate a = false -> is_gate b = false -> real a = true -> real b = true ->
  exists i' j' a' b',
    new_index (cfg debug hw) p i = Some i' /\ new_index (cfg debug hw) p j = Some j' /\ (i' < j')%nat /\
    nth_error (erase p') i' = Some a' /\ nth_error (erase p') j' = Some b' /\
    (target a = None -> a' = a) /\ (target b = None -> b' = b).
Proof. intros debug hw. exact (non_gates_keep_order (cfg debug hw)). Qed.

Theorem C08_scratch_electron_register_unused : forall debug hw p i j x r sc,
  scratch_at (cfg debug hw) p i = Some sc -> (j <= i)%nat -> nth_error p j = Some x ->
  In r (top_regs x) -> sc <> r.
Proof. intros debug hw. exact (scratch_electron_register_unused (cfg debug hw)). Qed.

(* ---- behaviour: classical half.  For every program, environment, initial state,
   measurement script and fuel: if the vanilla run halts and along it every
   two-qubit gate was decomposed for the placement its registers really hold
   (tracked_run), the serialised NV program halts with the same arrays, the same
   remaining script, the same registers except the transpiler's own temporaries
   (borrowed scratch Q registers, the no-op's register), and its quantum event
   trace is the block-wise expansion of the vanilla trace. *)
Theorem C08_transpile_simulates : forall env debug hw p p' s0 s0' fuel pcf sf,
  transpile (cfg debug hw) p = Ok p' -> scratch_fresh (cfg debug hw) p ->
  rel (cfg debug hw) (scratch_regs (cfg debug hw) p) s0 s0' ->
  tracked_run env (cfg debug hw) p fuel 0 s0 = true ->
  run env p fuel 0 s0 = (Halted, pcf, sf) ->
  exists fuel' pcf' sf',
    run env (erase p') fuel' 0 s0' = (Halted, pcf', sf') /\
    rel (cfg debug hw) (clobbered (cfg debug hw) p) sf sf'.
Proof. intros env debug hw. exact (transpile_simulates env (cfg debug hw)). Qed.

(* runs that fault later or never halt: every prefix is matched *)
Theorem C08_transpile_simulates_prefix : forall env debug hw p p' s0 s0' n fuel pc s,
  transpile (cfg debug hw) p = Ok p' -> scratch_fresh (cfg debug hw) p ->
  rel (cfg debug hw) (scratch_regs (cfg debug hw) p) s0 s0' ->
  (n <= fuel)%nat -> tracked_run env (cfg debug hw) p fuel 0 s0 = true ->
  steps env p n 0 s0 = Some (pc, s) ->
  exists m pc' s', steps env (erase p') m 0 s0' = Some (pc', s') /\
                   rel (cfg debug hw) (scratch_regs (cfg debug hw) p) s s' /\
                   nth_error (starts 0 (match expand_all (cfg debug hw) tst0 p with Ok bs => bs | Err _ => [] end)) pc
                   = Some pc'.
Proof. intros env debug hw. exact (transpile_simulates_prefix env (cfg debug hw)). Qed.

(* runs in which the vanilla program FAULTS (an operand register was never written, an
   array access is out of range, ...): the NV program faults too, inside the expansion of
   the faulting instruction, with the same arrays and script, the same registers except
   the scratch registers, and the expanded trace followed by the events of the part of
   the block that ran before the fault.  Needs that every block of the regenerated table
   reads both operand registers of its gate (decided by computation). *)
Theorem C08_table_reads_operands : table_reads_operands gen_tables = true.
Proof. vm_compute. reflexivity. Qed.

Theorem C08_transpile_simulates_fault : forall env debug hw p p' s0 s0' fuel pcf sf,
  transpile (cfg debug hw) p = Ok p' -> scratch_fresh (cfg debug hw) p ->
  (forall i, In i p -> real i = true) ->
  rel (cfg debug hw) (scratch_regs (cfg debug hw) p) s0 s0' ->
  tracked_run env (cfg debug hw) p fuel 0 s0 = true ->
  run env p fuel 0 s0 = (Faulted, pcf, sf) ->
  exists fuel' pcf' sf',
    run env (erase p') fuel' 0 s0' = (Faulted, pcf', sf') /\
    agree (scratch_regs (cfg debug hw) p) (regs sf) (regs sf') /\ arrs sf = arrs sf' /\ script sf = script sf' /\
    exists t extra, expand_trace (cfg debug hw) (trace sf) = Some t /\ trace sf' = (t ++ extra)%list.
Proof.
  intros env debug hw p p' s0 s0' fuel pcf sf Ht Hf Hr.
  exact (transpile_simulates_fault env (cfg debug hw) p p' s0 s0' fuel pcf sf Ht Hf Hr C08_table_reads_operands).
Qed.

(* a carbon-carbon cphase whose second operand register is unwritten at run time (its
   `set` is jumped over): the vanilla program faults at the gate, the NV program inside the
   block, after the scratch `set` and the swap items that do not read that register *)
Example C08_fault_nonvacuous :
  let c := cfg false false in
  let q := [ISet (mkReg BQ 0) 1; IJmp 3; ISet (mkReg BQ 1) 2; IGate2 Cphase (mkReg BQ 0) (mkReg BQ 1)] in
  match transpile c q, run no_env q 50 0 (st0 []) with
  | Ok q', (Faulted, 3%nat, _) =>
      scratch_fresh_b c q && tracked_run no_env c q 50 0 (st0 []) && forallb real q &&
      match run no_env (erase q') 50 0 (st0 []) with
      | (Faulted, pc', s') => Nat.ltb 3 pc' && Nat.ltb 0 (List.length (trace s'))
      | _ => false end
  | _, _ => false
  end = true.
Proof. vm_compute. reflexivity. Qed.

(* ---- behaviour: quantum half, with block soundness (property C07's rows) as the
   named hypothesis: any state space, any action of events on it, any equivalence
   (e.g. equality up to a global phase) compatible with the action *)
Theorem C08_transpile_simulates_quantum :
  forall (QS : Type) (qeq : QS -> QS -> Prop) (apply_ev : event -> QS -> QS),
  (forall a, qeq a a) -> (forall a b d, qeq a b -> qeq b d -> qeq a d) ->
  (forall e a b, qeq a b -> qeq (apply_ev e a) (apply_ev e b)) ->
  forall env debug hw p p' s0 fuel pcf sf psi,
  transpile (cfg debug hw) p = Ok p' -> scratch_fresh (cfg debug hw) p ->
  blocks_sound QS qeq apply_ev (cfg debug hw) ->
  trace s0 = [] ->
  tracked_run env (cfg debug hw) p fuel 0 s0 = true ->
  run env p fuel 0 s0 = (Halted, pcf, sf) ->
  exists fuel' pcf' sf',
    run env (erase p') fuel' 0 s0 = (Halted, pcf', sf') /\
    agree (clobbered (cfg debug hw) p) (regs sf) (regs sf') /\ arrs sf = arrs sf' /\ script sf = script sf' /\
    qeq (run_q QS apply_ev (trace sf') psi) (run_q QS apply_ev (trace sf) psi).
Proof.
  intros QS qeq apply_ev H1 H2 H3 env debug hw.
  exact (transpile_simulates_quantum QS qeq apply_ev H1 H2 H3 env (cfg debug hw)).
Qed.

(* ---- block soundness DISCHARGED from C07's regenerated rows.  Gen_NvDecomp is C07's
   table (gen/nv_decomp.py, regenerated in this check as well); its rows are re-decided
   here by C07's exact decision procedure (K32 arithmetic, vm_compute), the C08 block
   table is shown to consist of exactly those sequences (roles mapped to C07's wires),
   and block soundness follows for EVERY state space carrying a functorial action of
   exact matrices on lists of qubit ids (laws act_mul / act_id / act_phase / act_embed:
   composition, identity, global phase, locality), up to the equivalence qeq. *)
Theorem C08_c07_rows : forall r, In r gen_rows -> row_spec r.
Proof. exact (rows_ok_sound gen_rows ltac:(vm_compute; reflexivity)). Qed.

Theorem C08_tables_agree_with_C07 : tables_agree gen_tables gen_rows = true.
Proof. vm_compute. reflexivity. Qed.

Section OperatorSemantics.
  Variable QS : Type.
  Variable qeq : QS -> QS -> Prop.
  Variable act : list Z -> mat -> QS -> QS.
  Variable rot_op crot_op : QMat.axis -> Z -> Z -> mat.
  Variable other : event -> QS -> QS.
  Hypothesis qeq_refl : forall a, qeq a a.
  Hypothesis qeq_sym : forall a b, qeq a b -> qeq b a.
  Hypothesis qeq_trans : forall a b d, qeq a b -> qeq b d -> qeq a d.
  Hypothesis act_proper : forall W M a b, qeq a b -> qeq (act W M a) (act W M b).
  Hypothesis other_proper : forall e a b, qeq a b -> qeq (other e a) (other e b).
  Hypothesis act_mul : forall W A B psi, NoDup W ->
    dims_ok (2 ^ List.length W) (2 ^ List.length W) A = true ->
    dims_ok (2 ^ List.length W) (2 ^ List.length W) B = true ->
    qeq (act W (mmul B A) psi) (act W B (act W A psi)).
  Hypothesis act_id : forall W psi, NoDup W -> qeq (act W (mid (2 ^ List.length W)) psi) psi.
  Hypothesis act_phase : forall W p M psi, NoDup W ->
    dims_ok (2 ^ List.length W) (2 ^ List.length W) M = true ->
    qeq (act W (mscale (kw p) M) psi) (act W M psi).
  Hypothesis act_embed : forall W ws G psi, NoDup W -> embed_ok (List.length W) ws G = true ->
    qeq (act W (embed (List.length W) ws G) psi) (act (map (fun i => nth i W 0) ws) G psi).
  Hypothesis rot_exact : forall a n d k, half_units n d = Some k -> rot_op a n d = rot_k a k.
  Hypothesis crot_exact : forall a n d k, half_units n d = Some k -> crot_op a n d = crot_k a k.
  Hypothesis rot_angle_only : forall a n d, 0 <= d <= 4 -> rot_op a (n * 2 ^ (4 - d)) 4 = rot_op a n d.

  Theorem C08_blocks_sound : forall debug hw,
    blocks_sound QS qeq (apply_ev QS act rot_op crot_op other (cfg debug hw)) (cfg debug hw).
  Proof.
    intros debug hw.
    exact (blocks_sound_from_rows QS qeq act rot_op crot_op other (cfg debug hw) qeq_refl qeq_sym qeq_trans
             act_proper other_proper act_mul act_id act_phase act_embed rot_exact crot_exact rot_angle_only
             gen_rows C08_c07_rows C08_tables_agree_with_C07).
  Qed.

  (* the quantum half without the block-soundness hypothesis *)
  Theorem C08_transpile_simulates_quantum_c07 : forall env debug hw p p' s0 fuel pcf sf psi,
    transpile (cfg debug hw) p = Ok p' -> scratch_fresh (cfg debug hw) p -> trace s0 = [] ->
    tracked_run env (cfg debug hw) p fuel 0 s0 = true ->
    run env p fuel 0 s0 = (Halted, pcf, sf) ->
    exists fuel' pcf' sf',
      run env (erase p') fuel' 0 s0 = (Halted, pcf', sf') /\
      agree (clobbered (cfg debug hw) p) (regs sf) (regs sf') /\ arrs sf = arrs sf' /\ script sf = script sf' /\
      qeq (run_q QS (apply_ev QS act rot_op crot_op other (cfg debug hw)) (trace sf') psi)
          (run_q QS (apply_ev QS act rot_op crot_op other (cfg debug hw)) (trace sf) psi).
  Proof.
    intros env debug hw p p' s0 fuel pcf sf psi.
    exact (transpile_simulates_quantum_c07 QS qeq act rot_op crot_op other (cfg debug hw) qeq_refl qeq_sym qeq_trans
             act_proper other_proper act_mul act_id act_phase act_embed rot_exact crot_exact rot_angle_only
             gen_rows env p p' s0 fuel pcf sf psi C08_c07_rows C08_tables_agree_with_C07).
  Qed.
End OperatorSemantics.

(* the laws are consistent (a degenerate instance: one-point state space, with the
   exact rotation matrices as rot_op / crot_op); the intended instance — state vectors
   with the standard action of operators on tensor factors — is linear algebra that is
   not formalised here *)
Definition rot_op0 (a : QMat.axis) (n d : Z) : mat :=
  match half_units n d with Some k => rot_k a k | None => [] end.
Definition crot_op0 (a : QMat.axis) (n d : Z) : mat :=
  match half_units n d with Some k => crot_k a k | None => [] end.
Example C08_operator_laws_consistent :
  (forall a n d k, half_units n d = Some k -> rot_op0 a n d = rot_k a k) /\
  (forall a n d k, half_units n d = Some k -> crot_op0 a n d = crot_k a k) /\
  (forall a n d, 0 <= d <= 4 -> rot_op0 a (n * 2 ^ (4 - d)) 4 = rot_op0 a n d) /\
  (forall debug hw, blocks_sound unit eq (apply_ev unit (fun _ _ x => x) rot_op0 crot_op0 (fun _ x => x) (cfg debug hw))
                                 (cfg debug hw)).
Proof.
  assert (R1 : forall a n d k, half_units n d = Some k -> rot_op0 a n d = rot_k a k)
    by (intros a n d k H; unfold rot_op0; rewrite H; reflexivity).
  assert (R2 : forall a n d k, half_units n d = Some k -> crot_op0 a n d = crot_k a k)
    by (intros a n d k H; unfold crot_op0; rewrite H; reflexivity).
  assert (R3 : forall a n d, 0 <= d <= 4 -> rot_op0 a (n * 2 ^ (4 - d)) 4 = rot_op0 a n d).
  { intros a n d Hd. unfold rot_op0.
    assert (H : half_units (n * 2 ^ (4 - d)) 4 = half_units n d).
    { unfold half_units. replace (4 - 4) with 0 by reflexivity. rewrite Z.pow_0_r, Z.mul_1_r.
      assert (P : 0 < 2 ^ (4 - d)) by (apply Z.pow_pos_nonneg; [reflexivity | apply Zle_minus_le_0; apply Hd]).
      replace (0 <=? d) with true by (symmetry; apply Z.leb_le; apply Hd).
      replace (d <=? 4) with true by (symmetry; apply Z.leb_le; apply Hd).
      replace (0 <=? n * 2 ^ (4 - d)) with (0 <=? n); [reflexivity|].
      destruct (Z.leb_spec 0 n) as [Hn|Hn]; symmetry.
      - apply Z.leb_le. apply Z.mul_nonneg_nonneg; [exact Hn | apply Z.lt_le_incl; exact P].
      - apply Z.leb_gt. apply Z.mul_neg_pos; assumption. }
    rewrite H. reflexivity. }
  split; [exact R1|]. split; [exact R2|]. split; [exact R3|].
  intros debug hw. apply C08_blocks_sound; try exact R1; try exact R2; try exact R3;
    intros; try reflexivity; try congruence.
Qed.

(* ---- non-vacuity: a program with a loop around a carbon-carbon gate, a conditional
   whose label is just past the end, a measurement and an array store meets every
   hypothesis (checked by computation), so the theorem applies to it *)
Definition Q0 := mkReg BQ 0. Definition Q1 := mkReg BQ 1.
Definition R (i : nat) := mkReg BR i. Definition M0 := mkReg BM 0.
Definition ex_prog : prog :=
  [ISet Q0 0; IQ QAlloc Q0; IQ QInit Q0; ISet Q0 1; IQ QAlloc Q0; IQ QInit Q0; ISet Q0 2; IQ QAlloc Q0; IQ QInit Q0;
   ISet (R 0) 1; IArray (R 0) 0; ISet (R 6) 0; ISet (R 7) 2; ISet (R 1) 1;
   (* 14 *) IBr2 Bge (R 6) (R 7) 22;
   ISet Q0 1; ISet Q1 2; IGate2 Cnot Q0 Q1; ISet Q0 0; IGate1 GH Q0;
   IArith false (R 6) (R 6) (R 1); IJmp 14;
   (* 22 *) ISet Q0 2; IMeas Q0 M0; ISet (R 2) 0; IStore M0 0 (R 2);
   IBr1 Bez M0 29; ISet Q0 1; IGate2 Cphase Q0 Q1].
Example C08_nonvacuous :
  let c := cfg true false in
  let s0 := st0 [1] in
  match transpile c ex_prog with
  | Ok p' =>
      scratch_fresh_b c ex_prog && tracked_run no_env c ex_prog 200 0 s0 && targets_end ex_prog &&
      (match run no_env ex_prog 200 0 s0 with (Halted, _, _) => true | _ => false end) &&
      (match run no_env (erase p') 2000 0 s0 with (Halted, _, _) => true | _ => false end) &&
      (30 <? Z.of_nat (List.length (erase p')))
  | Err _ => false
  end = true.
Proof. vm_compute. reflexivity. Qed.

(* ---- the unrestricted statement (no tracked_run) is false of the faithful model:
   a Q register written by `load` is transpiled with the stale value of the last
   `set` (recorded finding C08:q-register-not-written-by-set; the same program is
   corpus/C08/finding_load_q_register.json) *)
Definition wit_prog : prog :=
  [ISet Q0 0; IQ QAlloc Q0; IQ QInit Q0; ISet Q0 1; IQ QAlloc Q0; IQ QInit Q0; ISet Q0 2; IQ QAlloc Q0; IQ QInit Q0;
   ISet (R 0) 1; IArray (R 0) 0; ISet (R 1) 0; ISet (R 2) 0; IStore (R 2) 0 (R 1);
   ISet Q0 1; ISet Q1 2; IGate1 GH Q0; ILoad Q0 0 (R 1); IGate2 Cnot Q0 Q1].

Definition C08_simulates_unrestricted_at (env : env_t) (c : config) (p p' : prog) (s0 : mstate) (fuel : nat) : Prop :=
  transpile c p = Ok p' -> scratch_fresh c p -> trace s0 = [] ->
  forall pcf sf, run env p fuel 0 s0 = (Halted, pcf, sf) ->
  exists fuel' pcf' sf', run env (erase p') fuel' 0 s0 = (Halted, pcf', sf') /\ rel c (clobbered c p) sf sf'.

Theorem C08_transpile_simulates_refuted :
  exists env c p p' s0 fuel, ~ C08_simulates_unrestricted_at env c p p' s0 fuel.
Proof.
  exists no_env, (cfg false false), wit_prog,
         (match transpile (cfg false false) wit_prog with Ok x => x | Err _ => [] end), (st0 []), 100%nat.
  intro H.
  assert (Ht : transpile (cfg false false) wit_prog =
               Ok (match transpile (cfg false false) wit_prog with Ok x => x | Err _ => [] end))
    by (vm_compute; reflexivity).
  assert (Hf : scratch_fresh (cfg false false) wit_prog)
    by (apply scratch_fresh_b_sound; vm_compute; reflexivity).
  set (r := run no_env wit_prog 100 0 (st0 [])).
  assert (Hr : run no_env wit_prog 100 0 (st0 []) = (Halted, snd (fst r), snd r)) by (vm_compute; reflexivity).
  destruct (H Ht Hf eq_refl _ _ Hr) as [fuel' [pcf' [sf' [Hrun Hrel]]]].
  set (w := run no_env (erase (match transpile (cfg false false) wit_prog with Ok x => x | Err _ => [] end))
                400 0 (st0 [])).
  assert (Hw : run no_env (erase (match transpile (cfg false false) wit_prog with Ok x => x | Err _ => [] end))
                   400 0 (st0 []) = (Halted, snd (fst w), snd w))
    by (vm_compute; reflexivity).
  pose proof (run_halted_unique' _ _ _ _ _ _ _ _ _ _ Hrun Hw) as Hs.
  assert (Hne : expand_trace (cfg false false) (trace (snd r)) <> Some (trace (snd w)))
    by (vm_compute; discriminate).
  apply Hne. rewrite <- Hs. exact (rel_trace _ _ _ _ Hrel).
Qed.

Print Assumptions C08_transpile_simulates.
Print Assumptions C08_transpile_simulates_prefix.
Print Assumptions C08_transpile_simulates_fault.
Print Assumptions C08_transpile_simulates_quantum.
Print Assumptions C08_transpile_simulates_quantum_c07.
Print Assumptions C08_blocks_sound.
Print Assumptions C08_retarget_hits_block_start.
Print Assumptions C08_end_target_gets_noop.
Print Assumptions C08_non_gates_keep_order.
Print Assumptions C08_scratch_electron_register_unused.
Print Assumptions C08_transpile_simulates_refuted.
