(* placeholder *)
From Coq Require Import ZArith List Bool String.
From NQ Require Import Nv.Transpile.
From Gen Require Import Gen_NvBlocks.
Import ListNotations.
