(* C05_end_to_end — ONE theorem chaining C05, C03 and C04:
     for every SDK program of the class wfs, the gate trace and the arrays that
     direct evaluation (eval_prog, C05's specification) prescribes are what the
     common semantics SemQ.qrun -- the semantics C04 ties to executor.py
     (C04_exec_refines_sem, C04B_semq_conservative, the C04 correspondence incl.
     its quantum stream) -- produces on the ASSEMBLED, FLATTENED LOWERING of the
     program, subroutine by subroutine (one per flush), on one application state.
   Statements only.  Proofs: Proofs/Bridge_E2E.v, Bridge_E2E_H1.v (composition),
   Bridge_SdkAsm.v / Bridge_SdkAsmLog.v (Target -> AsmSemQ source, with C03's log),
   Bridge_AsmQ.v / Bridge_AsmQLog.v (AsmSemQ assembled -> SemQ), and the owners'
   theorems: C05 block_step, flatten_correct, lower_prog_code_ok; C03
   assemble_halts_no_bad_q (instruction-level export), assemble_total_machine_form.

   C05_end_to_end is stated at the REGENERATED assembler parameters (Gen_Asm.gen_params,
   regenerated from /repo by gen/asm_tables.py on every run of the C04 check; their side
   conditions are checked here by vm_compute).  Its premises beyond C05's own:
     (P1) qpeak segs <= cap : the unit module handed to the application has room for the
          peak number of simultaneously live qubits (else the executor faults: FUnitRange);
     (P2) blocks_scratch_ok gen_params bs = true : DECIDABLE residual -- in every flushed
          block each command needs no more scratch R registers for its literal operands than
          the block leaves unnamed.  Otherwise the real assembler raises (C03:
          C03_assemble_rejects, ENoScratch), so some such premise is inherent; it is not
          derived from wfs (register pressure is C14's subject).
   The earlier hypotheses H1 (compiled) and H2 (qblocks_defined) are gone: H1 follows from
   lower_prog_code_ok + assemble_total_machine_form + (proved in Bridge_E2E_H1: the translated
   flat code exists, is modelled, uses the four banks, has distinct and defined labels); H2 from
   C03's instruction-level export: Target does not fault => no executed source instruction is
   `bad` => none of the assembled run is => SemQ is never open (Bridge_AsmQLog.asmq_halting).
   Reserved registers: the chain uses assemble_ir, i.e. assemble_ir_res with the empty
   reservation (AsmResProofs.assemble_ir_res_nil); at a flush of a wfs program the lowering
   state claims no register (BlockStart: no loop variables, no live register futures). *)
From Coq Require Import ZArith List Bool Arith.
From NQ Require Import Sdk.SdkAst Sdk.Target Sdk.Eval Sdk.MemMgr Sdk.Lower Sdk.Flatten Sdk.Wf.
From NQ Require Import Proofs.SdkTopProofs.
From NQ Require Lang.Asm Lang.AsmSemQ Proofs.AsmProofs Proofs.AsmQProofs Proofs.AsmQMachine.
From NQ Require Exec.State Exec.Sem Exec.SemQ.
From NQ Require Proofs.Bridge_AsmQ Proofs.Bridge_AsmQLog Proofs.Bridge_SdkAsm Proofs.Bridge_E2E Proofs.Bridge_E2E_H1.
From NQ Require Base.Bits Lang.Codec Lang.CodecCheck Proofs.WireBridge Proofs.Bridge_E2E_Wire Proofs.Bridge_E2E_WireTotal.
From Gen Require Gen_Asm Gen_Codec.
Import ListNotations.

Module E2E := NQ.Proofs.Bridge_E2E.
Module H1 := NQ.Proofs.Bridge_E2E_H1.
Module W := NQ.Proofs.Bridge_E2E_Wire.
Module WT := NQ.Proofs.Bridge_E2E_WireTotal.
Local Open Scope Z_scope.

(* the regenerated parameters satisfy C03's side conditions *)
Theorem C05_e2e_params_ok :
  AsmProofs.params_ok Gen_Asm.gen_params = true /\
  AsmQMachine.qexempt_exact (Asm.ap_exempt Gen_Asm.gen_params) = true /\
  AsmQMachine.bank_valid (Asm.ap_bankR Gen_Asm.gen_params) = true.
Proof. vm_compute. repeat split; reflexivity. Qed.

(* THE END-TO-END STATEMENT *)
Definition end_to_end_statement (pr : Asm.aparams) : Prop :=
  forall cap segs script e bs stL,
    Forall (fun seg => bwfs seg = true) segs ->
    eval_prog (prog_of segs) script = Some e ->
    lower_prog true (prog_of segs) = Ok (bs, stL) ->
    (qpeak segs <= cap)%nat ->                                   (* P1 *)
    H1.blocks_scratch_ok pr bs = true ->                         (* P2: decidable residual *)
    exists qps fuel s,
      E2E.compile_blocks pr cap bs = Some qps /\
      E2E.qrun_blocks fuel qps (SemQ.mkQ (State.init_state cap) script []) = (s, State.Halt) /\
      Bridge_SdkAsm.inst_trace (SemQ.q_trace s) = e_trace e /\
      (forall a, State.find Z.eqb (Z.of_nat a) (State.arrs (SemQ.q_st s)) = alookup a (e_arr e)).

Theorem C05_end_to_end : end_to_end_statement Gen_Asm.gen_params.
Proof.
  intros cap segs script e bs stL Hw Hev Hl Hcap Hs.
  destruct C05_e2e_params_ok as (Hp & Hq & Hb).
  exact (H1.sdk_end_to_end_full Gen_Asm.gen_params cap segs script e bs stL Hp Hq Hb Hw Hev Hl Hcap Hs).
Qed.

(* for any parameters meeting C03's side conditions *)
Theorem C05_end_to_end_params : forall pr,
  AsmProofs.params_ok pr = true -> AsmQMachine.qexempt_exact (Asm.ap_exempt pr) = true ->
  AsmQMachine.bank_valid (Asm.ap_bankR pr) = true -> end_to_end_statement pr.
Proof.
  intros pr Hp Hq Hb cap segs script e bs stL Hw Hev Hl Hcap Hs.
  exact (H1.sdk_end_to_end_full pr cap segs script e bs stL Hp Hq Hb Hw Hev Hl Hcap Hs).
Qed.

(* ------------------------------------------------------------------ THROUGH BYTES
   Each flushed block: flatten -> proto-program -> Asm.assemble with the regenerated vanilla
   flavour table (Gen_Codec.gen_vanilla) -> encode_checked with the regenerated header/layout ->
   BYTES -> decode_sub -> embed -> e_qprog, and the decoded subroutines run on the common
   semantics.  The premise replacing P2: the back end produced bytes for every flush
   (W.wire_blocks ... = Some bl: the assembler did not run out of scratch registers, every
   mnemonic is in the flavour table, and the encoder accepted every operand -- C16).  The hop
   through bytes is the identity by WireBridge.assemble_wire (C03 x C16 x C01). *)
Theorem C05_e2e_codec_ok :
  Codec.header_ok Gen_Codec.gen_header = true /\ Codec.wf_table Gen_Codec.gen_vanilla = true.
Proof. vm_compute. split; reflexivity. Qed.

Theorem C05_end_to_end_wire : forall cap v0 v1 app segs script e bs stL bl,
  Forall (fun seg => bwfs seg = true) segs ->
  eval_prog (prog_of segs) script = Some e ->
  lower_prog true (prog_of segs) = Ok (bs, stL) ->
  (qpeak segs <= cap)%nat ->
  W.wire_blocks Gen_Asm.gen_params Gen_Codec.gen_vanilla Gen_Codec.gen_header v0 v1 app bs = Some bl ->
  exists qps fuel s,
    W.unwire_blocks Gen_Codec.gen_vanilla Gen_Codec.gen_header bl = Some qps /\
    E2E.qrun_blocks fuel qps (SemQ.mkQ (State.init_state cap) script []) = (s, State.Halt) /\
    Bridge_SdkAsm.inst_trace (SemQ.q_trace s) = e_trace e /\
    (forall a, State.find Z.eqb (Z.of_nat a) (State.arrs (SemQ.q_st s)) = alookup a (e_arr e)).
Proof.
  intros cap v0 v1 app segs script e bs stL bl Hw Hev Hl Hcap Hwire.
  destruct C05_e2e_params_ok as (Hp & Hq & Hb). destruct C05_e2e_codec_ok as (Hh & Ht).
  exact (W.sdk_end_to_end_wire Gen_Asm.gen_params Gen_Codec.gen_vanilla Gen_Codec.gen_header cap v0 v1 app
           segs script e bs stL bl Hp Hq Hb Hh Ht Hw Hev Hl Hcap Hwire).
Qed.

(* the premise "bytes were produced" reduced, with builder-asm's AsmBuildTotal.assemble_total
   (build is total on machine form when the table covers the mnemonics) and
   WireRange.assemble_encodes (the encoder accepts when the source values fit): what remains is
   P1, P2 and the C16 premise "the values fit the binary format"
     (WT.blocks_fit: per block WireRange.src_fits -- every register index, immediate, address of
      the source fits its field -- and fewer than 2^31 assembled instructions; decidable),
   and the header values fit.  The regenerated vanilla table covers every mnemonic the lowering
   can emit and has the standard field kinds (WT.table_ok, by vm_compute). *)
Theorem C05_e2e_table_ok : WT.table_ok Gen_Codec.gen_vanilla = true /\ (Asm.ap_nreg Gen_Asm.gen_params <= 16)%nat.
Proof. split; [vm_compute; reflexivity|apply Nat.leb_le; vm_compute; reflexivity]. Qed.

Theorem C05_end_to_end_wire_total : forall cap v0 v1 app segs script e bs stL,
  Forall (fun seg => bwfs seg = true) segs ->
  eval_prog (prog_of segs) script = Some e ->
  lower_prog true (prog_of segs) = Ok (bs, stL) ->
  (qpeak segs <= cap)%nat ->                                               (* P1 *)
  H1.blocks_scratch_ok Gen_Asm.gen_params bs = true ->                     (* P2 *)
  WT.blocks_fit Gen_Asm.gen_params Gen_Codec.gen_vanilla bs = true ->      (* C16: the values fit *)
  Bits.fits_all (Codec.h_layout Gen_Codec.gen_header) [v0; v1; app] = true ->
  exists bl qps fuel s,
    W.wire_blocks Gen_Asm.gen_params Gen_Codec.gen_vanilla Gen_Codec.gen_header v0 v1 app bs = Some bl /\
    W.unwire_blocks Gen_Codec.gen_vanilla Gen_Codec.gen_header bl = Some qps /\
    E2E.qrun_blocks fuel qps (SemQ.mkQ (State.init_state cap) script []) = (s, State.Halt) /\
    Bridge_SdkAsm.inst_trace (SemQ.q_trace s) = e_trace e /\
    (forall a, State.find Z.eqb (Z.of_nat a) (State.arrs (SemQ.q_st s)) = alookup a (e_arr e)).
Proof.
  intros cap v0 v1 app segs script e bs stL Hw Hev Hl Hcap Hs Hf Hh.
  destruct C05_e2e_params_ok as (Hp & Hq & Hb). destruct C05_e2e_codec_ok as (Hho & Ht).
  destruct C05_e2e_table_ok as (Htab & Hn).
  exact (WT.sdk_end_to_end_wire_total Gen_Asm.gen_params Gen_Codec.gen_vanilla Gen_Codec.gen_header cap v0 v1 app
           segs script e bs stL Hp Hq Hn Hb Hho Ht Htab Hh Hw Hev Hl Hcap Hs Hf).
Qed.

(* the intermediate forms (kept): given the compiled blocks explicitly, no scratch premise *)
Theorem C05_end_to_end_compiled : forall pr cap segs script e bs stL qps,
  AsmProofs.params_ok pr = true -> AsmSemQ.qexempt_ok (Asm.ap_exempt pr) = true ->
  Forall (fun seg => bwfs seg = true) segs ->
  eval_prog (prog_of segs) script = Some e ->
  lower_prog true (prog_of segs) = Ok (bs, stL) ->
  E2E.compiled pr cap bs qps ->
  exists fuel s,
    E2E.qrun_blocks fuel qps (SemQ.mkQ (State.init_state cap) script []) = (s, State.Halt) /\
    Bridge_SdkAsm.inst_trace (SemQ.q_trace s) = e_trace e /\
    (forall a, State.find Z.eqb (Z.of_nat a) (State.arrs (SemQ.q_st s)) = alookup a (e_arr e)).
Proof. exact E2E.sdk_end_to_end2. Qed.

(* the first version, with both hypotheses H1 (compiled) and H2 (qblocks_defined) *)
Theorem C05_end_to_end_partial : forall pr cap segs script e bs stL qps,
  AsmProofs.params_ok pr = true -> AsmSemQ.qexempt_ok (Asm.ap_exempt pr) = true ->
  Forall (fun seg => bwfs seg = true) segs ->
  eval_prog (prog_of segs) script = Some e ->
  lower_prog true (prog_of segs) = Ok (bs, stL) ->
  E2E.compiled pr cap bs qps ->
  E2E.qblocks_defined qps (SemQ.mkQ (State.init_state cap) script []) ->
  exists fuel s,
    E2E.qrun_blocks fuel qps (SemQ.mkQ (State.init_state cap) script []) = (s, State.Halt) /\
    Bridge_SdkAsm.inst_trace (SemQ.q_trace s) = e_trace e /\
    (forall a, State.find Z.eqb (Z.of_nat a) (State.arrs (SemQ.q_st s)) = alookup a (e_arr e)).
Proof. exact E2E.sdk_end_to_end. Qed.

(* the bridge AsmSemQ -> SemQ without a domain hypothesis *)
Theorem C04B_asmq_halting : forall m T p a s k t,
  Bridge_AsmQ.e_qprog T = Some p -> Bridge_AsmQ.qrel a s ->
  AsmSemQ.arun_q T m (AsmSemQ.QRun k a) = AsmSemQ.QHalted t ->
  Bridge_AsmQLog.log_ok (AsmQLog.alog_q T m (AsmSemQ.QRun k a)) ->
  exists s' pc', SemQ.qrun_from p s (Z.of_nat k) m = (s', pc', State.Halt) /\ Bridge_AsmQ.qrel t s'.
Proof. exact Bridge_AsmQLog.asmq_halting. Qed.

(* (H1) and (H2) are decidable for a given program *)
Theorem C05_e2e_compiled_decidable : forall pr cap bs qps,
  E2E.compile_blocks pr cap bs = Some qps -> E2E.compiled pr cap bs qps.
Proof. exact E2E.compile_blocks_compiled. Qed.

Theorem C05_e2e_defined_decidable : forall N qps s,
  E2E.qblocks_check N qps s = true -> E2E.qblocks_defined qps s.
Proof. exact E2E.qblocks_defined_by_run. Qed.

(* the links of the chain, individually *)
Theorem C05_e2e_sdk_link : forall cap c P, Bridge_SdkAsm.t_prog c = Some P -> Bridge_SdkAsm.code_ok cap c = true ->
  forall fuel pc ms ms2 qa,
    frun fuel c (pc, ms) = Some ms2 -> Bridge_SdkAsm.lrel ms qa ->
    List.length (AsmSemQ.qa_um qa) = cap -> Bridge_SdkAsm.alloc_inv cap c pc ms ->
    exists n qa2, AsmSemQ.arun_q P n (AsmSemQ.QRun pc qa) = AsmSemQ.QHalted qa2 /\
                  Bridge_SdkAsm.lrel ms2 qa2 /\ List.length (AsmSemQ.qa_um qa2) = cap.
Proof. exact Bridge_SdkAsm.frun_sim. Qed.

Theorem C05_e2e_asmq_link : forall n T p a s k,
  Bridge_AsmQ.e_qprog T = Some p -> Bridge_AsmQ.qrel a s -> SemQ.qdefined_from p s (Z.of_nat k) ->
  Bridge_AsmQ.qcfg_bridge (List.length T) (AsmSemQ.arun_q T n (AsmSemQ.QRun k a)) (SemQ.qrun_from p s (Z.of_nat k) n).
Proof. exact Bridge_AsmQ.asmq_bridge_from. Qed.

(* ------------------------------------------------------------------ non-vacuity: C05's two-flush example
   (arrays, one initialised by the all-equal loop; foreach + if on a Future + add with
   modulus; loop_until with cleanup; loop_body with an if on its index; a measurement
   into a fresh array).  (see C05_end_to_end_nonvacuous below) *)
Definition ex_segs : list block :=
  [ blk [SNewArray 0 3 (Some [Some 1; Some 1; Some 1]); SNewArray 1 2 (Some [Some 0; Some 5]); SNewQubit 0;
         SForeach true 0 0 (blk [SIf CEq false (VFut 0 (IxV 0)) (VInt 1)
                                   (blk [SGate GH 0; SFutAdd 1 (IxC 0) (AFut 0 (IxV 0)) (Some 2)])])];
    blk [SLoopUntil 1 3 (blk [SNewQubit 1; SGate GX 1; SMeasFut 1 false 1 (IxC 1)]) (VFut 1 (IxC 1)) 0
                    (blk [SFutAdd 1 (IxC 0) (AInt 10) None]);
         SLoop true 2 None 0 4 2 (blk [SIf CLt true (VLoop 2) (VFut 1 (IxC 0)) (blk [SRot AZ 0 3 2])]);
         SMeasNew 0 false 2] ].

Definition ex_script : list Z := [1; 0; 1].
Definition ex_pr : Asm.aparams := Gen_Asm.gen_params.
Definition ex_cap : nat := 2%nat.

(* the premises of C05_end_to_end hold of C05's two-flush example at the regenerated
   parameters (P1: qpeak = 2 <= 2; P2 by computation), and its conclusion is observed *)
Example C05_end_to_end_nonvacuous :
  Forall (fun seg => bwfs seg = true) ex_segs /\
  (qpeak ex_segs <= ex_cap)%nat /\
  exists e bs stL,
    eval_prog (prog_of ex_segs) ex_script = Some e /\
    lower_prog true (prog_of ex_segs) = Ok (bs, stL) /\
    H1.blocks_scratch_ok ex_pr bs = true /\
    (12 <= List.length (e_trace e))%nat /\
    match E2E.compile_blocks ex_pr ex_cap bs with
    | Some qps =>
        List.length qps = 2%nat /\
        match E2E.qrun_blocks 3000%nat qps (SemQ.mkQ (State.init_state ex_cap) ex_script []) with
        | (s, State.Halt) => Bridge_SdkAsm.inst_trace (SemQ.q_trace s) = e_trace e
        | _ => False
        end
    | None => False
    end.
Proof.
  split; [repeat constructor|]. split; [apply Nat.leb_le; vm_compute; reflexivity|].
  destruct (eval_prog (prog_of ex_segs) ex_script) as [e|] eqn:Ee; [|vm_compute in Ee; discriminate].
  destruct (lower_prog true (prog_of ex_segs)) as [[bs stL]|] eqn:El; [|vm_compute in El; discriminate].
  exists e, bs, stL. split; [reflexivity|]. split; [reflexivity|].
  vm_compute in Ee. inversion Ee; subst e. vm_compute in El. inversion El; subst bs stL. clear Ee El.
  split; [vm_compute; reflexivity|]. split; [apply Nat.leb_le; vm_compute; reflexivity|].
  vm_compute. split; reflexivity.
Qed.

(* through bytes on the same example: two messages are produced, decoding them gives the two
   subroutines, and running those yields e_trace *)
Example C05_end_to_end_wire_nonvacuous :
  exists e bs stL,
    eval_prog (prog_of ex_segs) ex_script = Some e /\
    lower_prog true (prog_of ex_segs) = Ok (bs, stL) /\
    WT.blocks_fit ex_pr Gen_Codec.gen_vanilla bs = true /\
    Bits.fits_all (Codec.h_layout Gen_Codec.gen_header) [1; 0; 0] = true /\
    match W.wire_blocks ex_pr Gen_Codec.gen_vanilla Gen_Codec.gen_header 1 0 0 bs with
    | Some bl =>
        List.length bl = 2%nat /\ forallb (fun b => Nat.leb 100 (List.length b)) bl = true /\
        match W.unwire_blocks Gen_Codec.gen_vanilla Gen_Codec.gen_header bl with
        | Some qps =>
            match E2E.qrun_blocks 3000%nat qps (SemQ.mkQ (State.init_state ex_cap) ex_script []) with
            | (s, State.Halt) => Bridge_SdkAsm.inst_trace (SemQ.q_trace s) = e_trace e
            | _ => False
            end
        | None => False
        end
    | None => False
    end.
Proof.
  destruct (eval_prog (prog_of ex_segs) ex_script) as [e|] eqn:Ee; [|vm_compute in Ee; discriminate].
  destruct (lower_prog true (prog_of ex_segs)) as [[bs stL]|] eqn:El; [|vm_compute in El; discriminate].
  exists e, bs, stL. split; [reflexivity|]. split; [reflexivity|].
  vm_compute in Ee. inversion Ee; subst e. vm_compute in El. inversion El; subst bs stL. clear Ee El.
  vm_compute. repeat split; reflexivity.
Qed.

Print Assumptions C05_end_to_end.
Print Assumptions C05_end_to_end_wire.
Print Assumptions C05_end_to_end_wire_total.
Print Assumptions C05_end_to_end_params.
Print Assumptions C05_end_to_end_compiled.
Print Assumptions C04B_asmq_halting.
Print Assumptions C05_end_to_end_partial.
Print Assumptions C05_e2e_sdk_link.
Print Assumptions C05_e2e_asmq_link.
Print Assumptions C05_e2e_compiled_decidable.
Print Assumptions C05_e2e_defined_decidable.
