(* C05_end_to_end — ONE theorem chaining C05, C03 and C04:
     for every SDK program of the class wfs, the gate trace and the arrays that
     direct evaluation (eval_prog, C05's specification) prescribes are what the
     common semantics SemQ.qrun -- the semantics C04 ties to executor.py
     (C04_exec_refines_sem, C04B_semq_conservative, the C04 correspondence incl.
     its quantum stream) -- produces on the ASSEMBLED, FLATTENED LOWERING of the
     program, subroutine by subroutine (one per flush), on one application state.
   Statements only.  Proofs: Proofs/Bridge_E2E.v (composition),
   Proofs/Bridge_SdkAsm.v (Target -> AsmSemQ source), Proofs/Bridge_AsmQ.v (AsmSemQ
   assembled -> SemQ), and the owners' C05 (block_step, flatten_correct) and C03
   (assemble_trace_q) theorems.

   PARTIAL.  Two hypotheses remain beyond those of C05_sdk_compile_correct and of
   C03 (parameters ok):
   (H1) `compiled pr cap bs qps`, i.e. per flushed block: the flat code translates
        (no IOpaque/EPR command), passes the static check Bridge_SdkAsm.code_ok
        (register indices < 16; every qalloc directly preceded by the `set` of its
        operand to an id < cap -- the shape Lower.v emits), the assembler accepts it
        (assemble_ir = AOk) and its output is in the fragment of Bridge_AsmQ
        (e_qprog defined).  All decidable: Bridge_E2E.compile_blocks computes it.
        Missing to discharge it for ALL wfs programs: (C05 owner) a lemma that
        lower_prog's output satisfies code_ok for cap >= the number of live qubit
        ids, and (C03 owner) a lemma that assemble_ir's output of a wf_src_q program
        over the modelled mnemonics is in the fragment.
   (H2) `qblocks_defined qps s0`: the run of the common semantics never reaches
        behaviour C04 leaves open (negative index / length / qubit id, branch on an
        undefined register).  It cannot happen here (the Target run faults on all
        of these and C05 shows it does not fault), but deriving it needs C03's
        simulation at the level of single executed instructions (every executed
        assembled instruction is an inserted `set` or the image of the source
        instruction with equal operand values), which AsmQProofs does not export.
        For a terminating run it is decided by computation
        (Bridge_E2E.qblocks_defined_by_run). *)
From Coq Require Import ZArith List Bool Arith.
From NQ Require Import Sdk.SdkAst Sdk.Target Sdk.Eval Sdk.MemMgr Sdk.Lower Sdk.Flatten Sdk.Wf.
From NQ Require Import Proofs.SdkTopProofs.
From NQ Require Lang.Asm Lang.AsmSemQ Proofs.AsmProofs Proofs.AsmQProofs.
From NQ Require Exec.State Exec.Sem Exec.SemQ.
From NQ Require Proofs.Bridge_AsmQ Proofs.Bridge_SdkAsm Proofs.Bridge_E2E.
Import ListNotations.

Module E2E := NQ.Proofs.Bridge_E2E.
Local Open Scope Z_scope.

(* the full statement the coordinator asked for (no residual hypotheses): kept
   visible; NOT proved *)
Definition end_to_end_full : Prop :=
  forall pr segs script e bs stL,
    AsmProofs.params_ok pr = true -> AsmSemQ.qexempt_ok (Asm.ap_exempt pr) = true ->
    Forall (fun seg => bwfs seg = true) segs ->
    eval_prog (prog_of segs) script = Some e ->
    lower_prog true (prog_of segs) = Ok (bs, stL) ->
    exists cap qps fuel s,
      E2E.compile_blocks pr cap bs = Some qps /\
      E2E.qrun_blocks fuel qps (SemQ.mkQ (State.init_state cap) script []) = (s, State.Halt) /\
      Bridge_SdkAsm.inst_trace (SemQ.q_trace s) = e_trace e /\
      (forall a, State.find Z.eqb (Z.of_nat a) (State.arrs (SemQ.q_st s)) = alookup a (e_arr e)).

(* what is proved: the same conclusion under (H1) and (H2) *)
Theorem C05_end_to_end_partial : forall pr cap segs script e bs stL qps,
  AsmProofs.params_ok pr = true -> AsmSemQ.qexempt_ok (Asm.ap_exempt pr) = true ->
  Forall (fun seg => bwfs seg = true) segs ->
  eval_prog (prog_of segs) script = Some e ->
  lower_prog true (prog_of segs) = Ok (bs, stL) ->
  E2E.compiled pr cap bs qps ->                                                   (* H1 *)
  E2E.qblocks_defined qps (SemQ.mkQ (State.init_state cap) script []) ->          (* H2 *)
  exists fuel s,
    E2E.qrun_blocks fuel qps (SemQ.mkQ (State.init_state cap) script []) = (s, State.Halt) /\
    Bridge_SdkAsm.inst_trace (SemQ.q_trace s) = e_trace e /\
    (forall a, State.find Z.eqb (Z.of_nat a) (State.arrs (SemQ.q_st s)) = alookup a (e_arr e)).
Proof. exact E2E.sdk_end_to_end. Qed.

(* (H1) and (H2) are decidable for a given program *)
Theorem C05_e2e_compiled_decidable : forall pr cap bs qps,
  E2E.compile_blocks pr cap bs = Some qps -> E2E.compiled pr cap bs qps.
Proof. exact E2E.compile_blocks_compiled. Qed.

Theorem C05_e2e_defined_decidable : forall N qps s,
  E2E.qblocks_check N qps s = true -> E2E.qblocks_defined qps s.
Proof. exact E2E.qblocks_defined_by_run. Qed.

(* the links of the chain, individually *)
Theorem C05_e2e_sdk_link : forall cap c P, Bridge_SdkAsm.t_prog c = Some P -> Bridge_SdkAsm.code_ok cap c = true ->
  forall fuel pc ms ms2 qa,
    frun fuel c (pc, ms) = Some ms2 -> Bridge_SdkAsm.lrel ms qa ->
    List.length (AsmSemQ.qa_um qa) = cap -> Bridge_SdkAsm.alloc_inv cap c pc ms ->
    exists n qa2, AsmSemQ.arun_q P n (AsmSemQ.QRun pc qa) = AsmSemQ.QHalted qa2 /\
                  Bridge_SdkAsm.lrel ms2 qa2 /\ List.length (AsmSemQ.qa_um qa2) = cap.
Proof. exact Bridge_SdkAsm.frun_sim. Qed.

Theorem C05_e2e_asmq_link : forall n T p a s k,
  Bridge_AsmQ.e_qprog T = Some p -> Bridge_AsmQ.qrel a s -> SemQ.qdefined_from p s (Z.of_nat k) ->
  Bridge_AsmQ.qcfg_bridge (List.length T) (AsmSemQ.arun_q T n (AsmSemQ.QRun k a)) (SemQ.qrun_from p s (Z.of_nat k) n).
Proof. exact Bridge_AsmQ.asmq_bridge_from. Qed.

(* ------------------------------------------------------------------ non-vacuity: C05's two-flush example
   (arrays, one initialised by the all-equal loop; foreach + if on a Future + add with
   modulus; loop_until with cleanup; loop_body with an if on its index; a measurement
   into a fresh array).  All hypotheses hold, by computation, with C03's example
   parameters and a unit module of 2 qubits; and the conclusion is observed. *)
Definition ex_segs : list block :=
  [ blk [SNewArray 0 3 (Some [Some 1; Some 1; Some 1]); SNewArray 1 2 (Some [Some 0; Some 5]); SNewQubit 0;
         SForeach true 0 0 (blk [SIf CEq false (VFut 0 (IxV 0)) (VInt 1)
                                   (blk [SGate GH 0; SFutAdd 1 (IxC 0) (AFut 0 (IxV 0)) (Some 2)])])];
    blk [SLoopUntil 1 3 (blk [SNewQubit 1; SGate GX 1; SMeasFut 1 false 1 (IxC 1)]) (VFut 1 (IxC 1)) 0
                    (blk [SFutAdd 1 (IxC 0) (AInt 10) None]);
         SLoop true 2 None 0 4 2 (blk [SIf CLt true (VLoop 2) (VFut 1 (IxC 0)) (blk [SRot AZ 0 3 2])]);
         SMeasNew 0 false 2] ].

Definition ex_script : list Z := [1; 0; 1].
Definition ex_pr : Asm.aparams := AsmQProofs.exq_params.
Definition ex_cap : nat := 2%nat.

Example C05_end_to_end_nonvacuous :
  AsmProofs.params_ok ex_pr = true /\ AsmSemQ.qexempt_ok (Asm.ap_exempt ex_pr) = true /\
  Forall (fun seg => bwfs seg = true) ex_segs /\
  exists e bs stL qps,
    eval_prog (prog_of ex_segs) ex_script = Some e /\
    lower_prog true (prog_of ex_segs) = Ok (bs, stL) /\
    E2E.compiled ex_pr ex_cap bs qps /\
    E2E.qblocks_defined qps (SemQ.mkQ (State.init_state ex_cap) ex_script []) /\
    List.length qps = 2%nat /\ (12 <= List.length (e_trace e))%nat /\
    (* and the conclusion, observed by running the common semantics *)
    match E2E.qrun_blocks 3000%nat qps (SemQ.mkQ (State.init_state ex_cap) ex_script []) with
    | (s, State.Halt) => Bridge_SdkAsm.inst_trace (SemQ.q_trace s) = e_trace e
    | _ => False
    end.
Proof.
  split; [vm_compute; reflexivity|]. split; [vm_compute; reflexivity|].
  split; [repeat constructor|].
  destruct (eval_prog (prog_of ex_segs) ex_script) as [e|] eqn:Ee; [|vm_compute in Ee; discriminate].
  destruct (lower_prog true (prog_of ex_segs)) as [[bs stL]|] eqn:El; [|vm_compute in El; discriminate].
  destruct (E2E.compile_blocks ex_pr ex_cap bs) as [qps|] eqn:Ec;
    [|vm_compute in El; inversion El; subst; vm_compute in Ec; discriminate].
  exists e, bs, stL, qps. split; [reflexivity|]. split; [reflexivity|].
  split; [apply E2E.compile_blocks_compiled; exact Ec|].
  vm_compute in Ee. inversion Ee; subst e. vm_compute in El. inversion El; subst bs stL.
  vm_compute in Ec. inversion Ec; subst qps. clear Ee El Ec.
  split; [apply (E2E.qblocks_defined_by_run 3000%nat); vm_compute; reflexivity|].
  split; [reflexivity|]. split; [apply Nat.leb_le; vm_compute; reflexivity|].
  vm_compute. reflexivity.
Qed.

Print Assumptions C05_end_to_end_partial.
Print Assumptions C05_e2e_sdk_link.
Print Assumptions C05_e2e_asmq_link.
Print Assumptions C05_e2e_compiled_decidable.
Print Assumptions C05_e2e_defined_decidable.
