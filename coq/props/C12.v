From Coq Require Import ZArith List Bool.
From NQ Require Import Exec.Qmem Exec.Epr.
Import ListNotations.
Open Scope Z_scope.
Example C12_stub : True.
Proof. exact I. Qed.
