(* C12 — the controller matches entanglement responses to requests under any interleaving.
   Statements only; the model is Exec/Epr.v, proofs are in Proofs/EprProofs.v.
   An interleaving is any list of events (subroutines issuing create/receive requests and
   then blocking in waits, responses arriving, the back end retrying the pending list,
   polls of waiting subroutines, qfree/qalloc); `run` stops at the first fault, so
   `run ... = Some s` is a fault-free run (faults: malformed programs -- virtual ids out of
   range, result arrays too short, an application stopped with requests outstanding). *)
From Coq Require Import ZArith List Bool Permutation.
From NQ Require Import Exec.Qmem Exec.Epr Proofs.EprProofs.
Import ListNotations.
Open Scope Z_scope.

(* handle_pending_terminates: |pending| + 1 units of fuel are never exhausted *)
Theorem C12_handle_pending_terminates : forall s, handle_all s <> OutOfFuel.
Proof. exact handle_all_terminates. Qed.

(* exactly_once: after any event list, pending (+) consumed = arrived *)
Theorem C12_exactly_once :
  forall nd es s, run (init_state nd) es = Some s ->
  Permutation (map r_id (pend s) ++ map rid (log s)) (seq 0 (next_resp s)).
Proof. exact exactly_once_run. Qed.

(* the bookkeeping invariant after any event list: outstanding requests are in issue order
   with distinct serial numbers; every outstanding request has 1 <= left <= tot and
   (pairs consumed so far) + left = tot; pair indices of consumed responses count 0,1,2,...
   per request *)
Theorem C12_counts :
  forall nd es s, run (init_state nd) es = Some s -> counts_ok s.
Proof. exact counts_ok_run. Qed.

(* first handleable response wins: what one iteration of the handler picks *)
Theorem C12_first_handleable :
  forall s l r s' rest, scan s l = SHit r s' rest ->
  exists l1 l2, l = l1 ++ r :: l2 /\ rest = l1 ++ l2 /\ try_handle s r = Handled s' /\
                Forall (fun x => try_handle s x = NotNow) l1.
Proof. exact scan_hit. Qed.

(* refines_fifo (+ retirement at the moment it happens): a handled response is charged
   to the OLDEST outstanding request of its (remote, purpose, role), as pair number = pairs
   that request has consumed so far; the request leaves its queue exactly when that makes
   its number of pairs *)
Theorem C12_refines_fifo :
  forall s s2, counts_ok s -> hit s s2 ->
  exists r q,
    In r (pend s) /\ find (matches (node s) r) (reqs s) = Some q /\
    (forall q', In q' (reqs s) -> matches (node s) r q' = true -> (q_id q <= q_id q')%nat) /\
    log s2 = (r_id r, q_id q, count (q_id q) (log s)) :: log s /\
    (count (q_id q) (log s) < q_tot q)%nat /\
    ((count (q_id q) (log s2) = q_tot q)%nat <-> ~ exists q', In q' (reqs s2) /\ q_id q' = q_id q).
Proof. exact hit_charges_head. Qed.

(* retire_exact: after any event list, a request that was issued and is no longer
   outstanding has consumed exactly its number of pairs (and this persists); an outstanding
   one has consumed tot - left < tot *)
Theorem C12_retire_exact :
  forall nd es s id tot, run (init_state nd) es = Some s -> In (id, tot) (issued s) ->
  (forall q, In q (reqs s) -> q_id q <> id) -> count id (log s) = tot.
Proof. exact retire_exact. Qed.

Theorem C12_outstanding_not_complete :
  forall nd es s, run (init_state nd) es = Some s ->
  Forall (fun q => (1 <= q_left q <= q_tot q)%nat /\ (count (q_id q) (log s) + q_left q = q_tot q)%nat) (reqs s).
Proof. intros nd es s H. exact (proj1 (proj2 (proj2 (counts_ok_run nd es s H)))). Qed.

(* slice_k, qubit_k, no_overwrite *)
Theorem C12_slice_qubit_no_overwrite :
  forall s s2, hit s s2 ->
  exists r q,
    let k := (q_tot q - q_left q)%nat in
    let app := q_app q in
    find (matches (node s) r) (reqs s) = Some q /\
    log s2 = (r_id r, q_id q, k) :: log s /\
    (exists l2, aget pair_eqb (app, q_res q) (arrs s2) = Some l2 /\
                forall j, (j < OK_FIELDS)%nat ->
                          nth_error l2 (k * OK_FIELDS + j) = nth_error (map Some (info_of r)) j) /\
    (forall key, key <> (app, q_res q) -> aget pair_eqb key (arrs s2) = aget pair_eqb key (arrs s)) /\
    (r_k r = true ->
     exists qa lq v um um2 i,
       q_qarr q = Some qa /\ aget pair_eqb (app, qa) (arrs s) = Some lq /\ nth_error lq k = Some (Some v) /\
       aget Z.eqb app (ums s) = Some um /\ aget Z.eqb app (ums s2) = Some um2 /\
       slot (List.length um) v = Slot i /\ nth_error um i = Some None /\
       nth_error um2 i = Some (Some (r_q r)) /\
       (forall j, j <> i -> nth_error um2 j = nth_error um j) /\
       (forall app', app' <> app -> aget Z.eqb app' (ums s2) = aget Z.eqb app' (ums s))) /\
    (r_k r = false -> ums s2 = ums s).
Proof. exact hit_effect. Qed.

(* defer: a response whose request is there is left pending only if it is a keep response
   whose virtual qubit is still allocated *)
Theorem C12_deferred_only_when_busy :
  forall s r q, try_handle s r = NotNow -> find (matches (node s) r) (reqs s) = Some q ->
  r_k r = true /\ exists qa lq v um, q_qarr q = Some qa /\ aget pair_eqb (q_app q, qa) (arrs s) = Some lq /\
                                     nth_error lq (q_tot q - q_left q) = Some (Some v) /\
                                     aget Z.eqb (q_app q) (ums s) = Some um /\ has_virtual um v = true.
Proof. exact deferred_only_when_busy. Qed.

Theorem C12_drain_quiescent :
  forall s s', handle_all s = Quiet s' -> Forall (fun x => try_handle s' x = NotNow) (pend s').
Proof. exact drain_quiescent. Qed.

(* wait_sound *)
Theorem C12_wait_sound :
  forall ar ws ws', advance ar ws = Some ws' ->
  exists passed, ws = passed ++ ws' /\ Forall (wait_holds ar) passed /\
                 match ws' with [] => True | w :: _ => ~ wait_holds ar w end.
Proof. exact wait_sound. Qed.

(* a request the network stack refuses (put raises inside create_epr) leaves the queues,
   the pending list, the log, the waiting subroutines and the unit module as they were ... *)
Theorem C12_put_fault_leaves_queues_unchanged :
  forall s app k tpk vs n qarr args res s',
  step s (CreateRefused app k tpk vs n qarr args res) = (s', None) ->
  reqs s' = reqs s /\ pend s' = pend s /\ log s' = log s /\ subs s' = subs s /\ ums s' = ums s /\
  issued s' = issued s /\ next_req s' = next_req s /\
  forall k' c, queue s' k' c = queue s k' c.
Proof. exact put_fault_leaves_queues_unchanged. Qed.

(* ... so when the application re-issues the create on a socket with nothing else outstanding,
   the responses are charged to the retry (its result array), not to the refused request *)
Theorem C12_retry_after_refusal_is_head :
  forall nd app k tpk vs n qarr args res vs2 n2 qarr2 args2 res2 ws s1 s2 s3 r,
  step s1 (CreateRefused app k tpk vs n qarr args res) = (s2, None) ->
  step s2 (Create app k tpk vs2 n2 qarr2 args2 res2 ws) = (s3, None) ->
  node s1 = nd -> find (matches nd r) (reqs s1) = None ->
  matches nd r (mkReq (next_req s1) k true (next_sid s2) app res2 (if tpk then Some qarr2 else None) n2 n2) = true ->
  exists q, find (matches nd r) (reqs s3) = Some q /\ q_res q = res2 /\ q_app q = app /\ q_id q = next_req s1.
Proof. exact retry_after_refusal_is_head. Qed.

(* several applications: registering or stopping one does not touch the matching bookkeeping
   (outstanding requests of every application, pending responses -- also those that arrived
   early for a request another application has not issued yet --, log, waiting subroutines),
   nor the other applications' arrays and unit modules *)
Theorem C12_lifecycle_leaves_bookkeeping_unchanged :
  forall s e s',
  (exists app n, e = Init app n) \/ (exists app, e = Stop app) ->
  step s e = (s', None) ->
  reqs s' = reqs s /\ pend s' = pend s /\ log s' = log s /\ subs s' = subs s /\
  next_req s' = next_req s /\ next_resp s' = next_resp s /\ issued s' = issued s.
Proof. exact lifecycle_leaves_bookkeeping_unchanged. Qed.

Theorem C12_stop_leaves_other_apps :
  forall s app s' app', step s (Stop app) = (s', None) -> app' <> app ->
  aget Z.eqb app' (ums s') = aget Z.eqb app' (ums s) /\
  forall addr, aget pair_eqb (app', addr) (arrs s') = aget pair_eqb (app', addr) (arrs s).
Proof. exact stop_leaves_other_apps. Qed.

(* an early response for application 1 survives the stop of application 0 and becomes pair 0
   of application 1's request *)
Example C12_two_apps_nonvacuous :
  match run (init_state 2) [Init 0 1; Init 1 2; Resp (mkResp 0 true 0 1 1 101 1 1 50 7 1);
                            Alloc 0 0; Stop 0; Recv 1 (0, 1) (Some [1]) 1 0 1 [WAll 1 0 10]; Retry; Poll 1] with
  | Some s => log s = [(0, 0, 0)]%nat /\ pend s = [] /\ ums s = [(1, [None; Some 101])] /\ subs s = [] /\ used s = [(0, 101)]
  | None => False
  end.
Proof. vm_compute. repeat split; reflexivity. Qed.

Example C12_refusal_nonvacuous :
  match run (init_state 0) [Init 0 2; CreateRefused 0 (1, 0) true [0; 1] 2 0 1 2;
                            Create 0 (1, 0) true [0; 1] 2 3 4 5 [WAll 5 0 20];
                            Resp (demo_resp true 0 1 101); Resp (demo_resp true 0 2 102); Poll 1] with
  | Some s => log s = [(1, 0, 1); (0, 0, 0)]%nat /\ reqs s = [] /\ ums s = [(0, [Some 101; Some 102])] /\ subs s = [] /\
              option_map (fun l => nth_error l 12) (aget pair_eqb (0, 5) (arrs s)) = Some (Some (Some 102)) /\
              option_map (fun l => nth_error l 2) (aget pair_eqb (0, 2) (arrs s)) = Some (Some None)
  | None => False
  end.
Proof. vm_compute. repeat split; reflexivity. Qed.

(* the issuing subroutine need not be alive when its responses are handled (repaired: the
   request carries its application); the former hypothesis issuer_alive is gone *)
Theorem C12_issuer_may_have_ended :
  exists s s', run (init_state 0) [Init 0 2; Create 0 (1, 0) true [0] 1 0 1 2 []] = Some s /\
               List.length (reqs s) = 1%nat /\ subs s = [] /\
               step s (Resp (demo_resp true 0 1 101)) = (s', None) /\
               reqs s' = [] /\ pend s' = [] /\ log s' = [(0, 0, 0)%nat] /\ ums s' = [(0, [Some 101; None])] /\
               option_map (fun l => nth_error l 2) (aget pair_eqb (0, 2) (arrs s')) = Some (Some (Some 101)).
Proof. exact issuer_may_have_ended. Qed.

(* the remaining contract (iii) is needed (witness replayed on the implementation by the check) *)
Theorem C12_type_mismatch_refuted :
  exists s, run (init_state 0) [Init 0 2; Create 0 (1, 0) true [0] 1 0 1 2 [WAll 2 0 10]; Resp (demo_resp false 0 1 1)] = Some s /\
            log s = [(0, 0, 0)%nat] /\ reqs s = [] /\ ums s = [(0, [None; None])].
Proof. exact type_mismatch_refuted. Qed.

(* non-vacuity: responses before the matching instruction, two requests on one socket, mixed
   roles, a deferred keep response released by a free: the run is fault-free, five responses
   are consumed, the first create request gets pairs 0 and 1 and the second pair 0 (FIFO) *)
Definition demo : list event :=
  [Init 0 2; Resp (demo_resp true 0 1 101);
   Create 0 (1, 0) true [0; 1] 2 0 1 2 [WAny 2 0 20; WAll 2 0 20];
   Create 0 (1, 0) true [0] 1 3 4 5 [WAll 5 0 10];
   Recv 0 (1, 0) (Some [1]) 1 6 7 [WAll 7 0 10];
   Resp (demo_resp true 0 2 102);
   Resp (demo_resp true 0 3 103);
   Resp (demo_resp true 1 4 104);
   Free 0 0; Free 0 1; Retry; Poll 0; Poll 1; Poll 2].

Example C12_nonvacuous :
  match run (init_state 0) demo with
  | Some s => log s = [(3, 2, 0); (2, 1, 0); (1, 0, 1); (0, 0, 0)]%nat /\ reqs s = [] /\ pend s = [] /\
              ums s = [(0, [Some 103; Some 104])] /\ subs s = []
  | None => False
  end.
Proof. vm_compute. repeat split; reflexivity. Qed.

Print Assumptions C12_handle_pending_terminates.
Print Assumptions C12_exactly_once.
Print Assumptions C12_counts.
Print Assumptions C12_first_handleable.
Print Assumptions C12_refines_fifo.
Print Assumptions C12_retire_exact.
Print Assumptions C12_outstanding_not_complete.
Print Assumptions C12_slice_qubit_no_overwrite.
Print Assumptions C12_deferred_only_when_busy.
Print Assumptions C12_drain_quiescent.
Print Assumptions C12_wait_sound.
Print Assumptions C12_put_fault_leaves_queues_unchanged.
Print Assumptions C12_retry_after_refusal_is_head.
Print Assumptions C12_lifecycle_leaves_bookkeeping_unchanged.
Print Assumptions C12_stop_leaves_other_apps.
Print Assumptions C12_issuer_may_have_ended.
Print Assumptions C12_type_mismatch_refuted.
