(* C07 — NV gate decompositions equal the vanilla gates they replace.
   Statements only; deciders' soundness is in Proofs/QMatProofs.v, the ring
   homomorphism K32 -> R in Proofs/CycloProofs.v.  Gen_NvDecomp is regenerated
   from the live NVSubroutineTranspiler on every run. *)
From Coq Require Import ZArith List Bool String QArith Ring_theory.
From NQ Require Import Base.Cyclo Base.QMat Nv.NvSem Proofs.QMatProofs Proofs.CycloProofs
     Proofs.QMatLift Proofs.NvLift.
From Gen Require Import Gen_NvDecomp.
Import ListNotations.

(* Every regenerated row (vanilla gate x placement x hardware setting -> emitted
   NV sequence): X,Y,Z,H,K,S,T and sampled rotations as 2x2, CNOT/CPHASE
   electron-carbon both ways as 4x4, carbon-carbon as 8x8 with the borrowed
   electron as wire 0 — there U = w^p (I_e (x) G), which is also the statement
   that the electron is returned to its prior state — and MOV as state transfer
   onto a freshly initialised target with one phi0 and one phase for every psi.
   Finite regenerated table: decided by vm_compute (bound: List.length gen_rows). *)
Theorem C07_rows_checked : forallb row_ok gen_rows = true.
Proof. vm_compute. reflexivity. Qed.

Theorem C07_decomp_equiv_row : forall r, In r gen_rows -> row_spec r.
Proof. exact (rows_ok_sound gen_rows C07_rows_checked). Qed.

(* the rows whose specification is the frozen table are exactly the expected ones: 7 gates x 4
   qubits + 3 x 5 x 12 sampled rotations + (CNOT, CPHASE) x 12 placements + MOV x 6 placements + MOV
   with unknown registers, in both hardware settings.  Further rows (VCustom: a vanilla gate added to
   the code base after the table was frozen, specification = exact K32 form of the class's own
   to_matrix()) are checked by the same theorem C07_decomp_equiv_row. *)
Theorem C07_table_complete :
  List.length (filter is_frozen gen_rows) = (2 * (7 * 4 + 3 * 5 * 12 + 2 * 12 + 6 + 1))%nat.
Proof. vm_compute. reflexivity. Qed.

(* Rotations at every encodable angle.  (1) the model of the immediate rewriting
   preserves the angle n/2^d exactly, for all n, d; in hardware mode the exact
   operator is literally the same. *)
Theorem C07_rot_angle_preserved : forall hw n d n' d',
  (0 <= d)%Z -> nv_rot_imm hw n d = Some (n', d') -> Qeq (angle_q n' d') (angle_q n d).
Proof. exact rot_angle_preserved. Qed.

Theorem C07_rot_hw_same_operator : forall a q n d n' d',
  (0 <= n)%Z -> nv_rot_imm true n d = Some (n', d') ->
  op_gate (ORot a q n' d') = op_gate (ORot a q n d).
Proof. exact rot_hw_same_operator. Qed.

(* (2) the model IS the transpiler on all 3 x 256 x 256 immediates in both modes:
   simulation mode passes every rotation through unchanged (the sweep found no
   deviation), hardware mode emits exactly one rotation with the model's immediates
   for d <= 4 (no other shape of output anywhere) and rejects every d > 4
   (exhaustive regenerated data). *)
Theorem C07_rot_sim_passthrough :
  gen_sim_deviations = [] /\ (forall n d, nv_rot_imm false n d = Some (n, d)).
Proof. split; [reflexivity | exact nv_rot_imm_sim]. Qed.

Theorem C07_rot_hw_table :
  forallb (fun l => hw_line_ok (snd (fst l)) (snd l)) gen_hw_lines = true /\
  map (fun l => (fst l)) gen_hw_lines =
    flat_map (fun a => map (fun d => (a, d)) [0; 1; 2; 3; 4]%Z) [AX; AY; AZ] /\
  gen_hw_accepted_dgt4 = [] /\ gen_hw_deviations = [] /\
  (forall n d, nv_rot_imm true n d <> None <-> (0 <= d <= 4)%Z) /\
  gen_sweep_count = (2 * 3 * 256 * 256)%Z.
Proof.
  split; [vm_compute; reflexivity|]. split; [vm_compute; reflexivity|].
  split; [reflexivity|]. split; [reflexivity|]. split; [exact nv_rot_imm_hw_accepts | reflexivity].
Qed.

(* Bridge to any ring with a 64th root of unity: evaluation K32 -> R is a ring
   homomorphism for EVERY commutative ring R with omega^32 = -1 and 2 invertible,
   so each scalar identity computed above holds there.  (That the complex
   numbers with omega = e^{i pi/32} form such a ring is not formalised.) *)
Theorem C07_eval_hom : eval_hom_statement.
Proof. exact eval_hom. Qed.

(* ... and so does every table row as an operator identity: in EVERY such ring the
   circuit computed there from the ring images of the NV gate matrices equals
   omega^p times the image of the vanilla gate (non-MOV rows). *)
Theorem C07_circuit_lift : circuit_lift_statement.
Proof. exact circuit_lift_all. Qed.

Theorem C07_decomp_in_every_ring :
  forall r, In r gen_rows -> r_gate r <> VMov -> row_in_every_ring r.
Proof. intros r Hin Hm. exact (row_spec_lifts r Hm (C07_decomp_equiv_row r Hin)). Qed.

(* MOV rows in every ring with omega and a conjugation cj (ring endomorphism with
   cj omega = omega^63, cj (1/2) = 1/2): the circuit computed in R maps psi (x) |0> to
   phi0 (x) psi (4x2 matrix identity, one phi0 = (a, b) for every psi) and
   cj a * a + cj b * b = 1 *)
Theorem C07_mov_in_every_ring :
  forall r, In r gen_rows -> r_gate r = VMov ->
  forall (R : Type) (rO rI : R) (radd rmul rsub : R -> R -> R) (ropp : R -> R),
    ring_theory rO rI radd rmul rsub ropp (@eq R) ->
    forall (omega half : R),
      opow R rI rmul omega 32 = ropp rI -> rmul (radd rI rI) half = rI ->
      forall cj : R -> R,
        cj rO = rO -> cj rI = rI -> (forall x y, cj (radd x y) = radd (cj x) (cj y)) ->
        (forall x y, cj (rmul x y) = rmul (cj x) (cj y)) -> (forall x, cj (ropp x) = ropp (cj x)) ->
        cj omega = opow R rI rmul omega 63 -> cj half = half ->
        mov_transfers_in R rO rI radd rmul ropp omega half cj r.
Proof.
  intros r Hin Hm R rO rI radd rmul rsub ropp Rth omega half H32 H2 cj c0 c1 ca cm co cw ch.
  exact (mov_row_lifts R rO rI radd rmul rsub ropp Rth omega half H32 H2 cj c0 c1 ca cm co cw ch
           r Hm (C07_decomp_equiv_row r Hin)).
Qed.

(* non-vacuity: the table contains the 27-gate carbon-carbon CNOT, whose spec is
   I (x) CNOT on three wires, and an S row whose sequence is NOT S-dagger *)
Example C07_nonvacuous :
  existsb (fun r => match r_place r, r_gate r with
                    | PCC, VG2 GCNOT => Nat.leb 27 (List.length (r_seq r)) && row_ok r
                    | _, _ => false end) gen_rows = true /\
  opt_phase_eqb (circuit 1 [ORot AX 0 24 4; ORot AY 0 24 4; ORot AX 0 8 4]) gS = false /\
  opt_phase_eqb (circuit 1 [ORot AX 0 24 4; ORot AY 0 24 4; ORot AX 0 8 4]) (mdagger gS) = true.
Proof. vm_compute. repeat split; reflexivity. Qed.

Print Assumptions C07_decomp_equiv_row.
Print Assumptions C07_rot_angle_preserved.
Print Assumptions C07_rot_hw_same_operator.
Print Assumptions C07_rot_sim_passthrough.
Print Assumptions C07_rot_hw_table.
Print Assumptions C07_eval_hom.
Print Assumptions C07_decomp_in_every_ring.
Print Assumptions C07_mov_in_every_ring.
