(* C14 — compiling never runs out of registers because of finished operations.
   Statements only; proofs are in Proofs/SdkRegProofs.v and Proofs/SdkFrameProofs.v.
   The model (Sdk/MemMgr.v, Sdk/Lower.v) is tied to netqasm/sdk/{memmgr,builder,futures}.py
   by the structural correspondence of C05 and by the direct run of this check. *)
From Coq Require Import ZArith List Bool Arith.
From NQ Require Import Sdk.SdkAst Sdk.Target Sdk.MemMgr Sdk.Lower Sdk.Writes.
From NQ Require Import Proofs.SdkRegProofs Proofs.SdkFrameProofs.
Import ListNotations.

(* every completed operation leaves the set of active registers as it found it *)
(* `plain`: the registers are chosen by the SDK (no loop_register=..., no builder.new_register();
   those are covered by the correspondence and by the behavioural oracle of the check only) *)
Theorem C14_active_restored : forall fd s st c st', plain s = true ->
  lower_stmt fd s st = Ok (c, st') -> l_act st' = l_act st.
Proof. exact active_restored. Qed.

(* any sequence of operations, of any length, flushed anywhere: nothing is active at top level *)
Theorem C14_active_reachable : forall fd p bs st, bplain p = true ->
  lower_prog fd p = Ok (bs, st) -> l_act st = repeat false NREGS.
Proof. exact active_reachable. Qed.

(* registers needed while compiling an operation: bounded by its nesting depth *)
Theorem C14_peak_bound : forall fd s st c st', plain s = true ->
  lower_stmt fd s st = Ok (c, st') ->
  l_peak st' <= Nat.max (l_peak st) (count_true (l_act st) + need s) /\
  need s <= 3 * depth s + 4 /\ (noepr s = true -> need s <= depth s + 2).
Proof. exact peak_bound. Qed.

Theorem C14_program_peak : forall fd p bs st, bplain p = true ->
  lower_prog fd p = Ok (bs, st) -> l_peak st <= Nat.max (bneed p) 1 /\ bneed p <= 3 * bdepth p + 4.
Proof. exact lower_prog_peak. Qed.

(* the number of completed operations never matters: a program whose deepest statement
   fits compiles, whatever its length and wherever it flushes *)
Theorem C14_never_out_of_registers : forall fd p, bplain p = true ->
  3 * bdepth p + 4 <= NREGS -> lower_prog fd p <> Err EOutOfRegs.
Proof. exact lower_prog_no_oor. Qed.

Theorem C14_never_out_of_registers_noepr : forall fd p, bplain p = true ->
  bnoepr p = true -> bdepth p + 2 <= NREGS -> lower_prog fd p <> Err EOutOfRegs.
Proof. exact lower_prog_no_oor_noepr. Qed.

Theorem C14_statement_compiles : forall fd s st, plain s = true ->
  List.length (l_act st) = NREGS -> count_true (l_act st) + need s <= NREGS ->
  lower_stmt fd s st <> Err EOutOfRegs.
Proof. exact lower_no_oor. Qed.

(* temporaries are chosen outside the active set ... *)
Theorem C14_lower_frame : forall fd s st c st', plain s = true ->
  lower_stmt fd s st = Ok (c, st') -> forall k, In k (sws c) -> nth_error (l_act st) k = Some false.
Proof. exact lower_frame. Qed.

(* ... and everything live is in it: running the code of a nested statement changes no
   loop variable of an enclosing operation *)
Theorem C14_live_values_preserved : forall fd s st c st' m m', plain s = true ->
  lower_stmt fd s st = Ok (c, st') -> lv_active st -> sx c m m' ->
  forall v r, In (v, r) (l_lv st) -> m_reg m' (Rg BR r) = m_reg m (Rg BR r).
Proof. exact live_values_preserved. Qed.

(* M registers: an outcome awaiting ret_reg is live until the next flush, which frees them all *)
Theorem C14_meas_registers_reset : forall body st b st',
  lower_flush body st = Ok (b, st') -> l_mused st' = repeat false NREGS /\ l_ret st' = [].
Proof.
  intros body st b st' H. unfold lower_flush in H.
  destruct (init_code (l_decl st) [] st) as [[P st1]|e]; cbn [bind] in H; [|discriminate].
  inversion H; subst. split; reflexivity.
Qed.

(* non-vacuity: 60 rounds of every kind of completed operation (if on futures with every
   condition, loops, foreach, loop_until, add, measurements, EPR shapes) with a flush per
   round compile, nothing stays active, and the peak is that of one round *)
Definition ex_round : list stmt :=
  [ SIf CEz false (VFut 0 (IxC 0)) (VInt 0) (blk [SGate GH 0]);
    SIf CNz true (VFut 0 (IxC 1)) (VInt 0) (blk [SGate GX 0]);
    SIf CLt true (VFut 0 (IxC 0)) (VFut 0 (IxC 1)) (blk [SGate GZ 0]);
    SLoop false 0 None 0 3 1 (blk [SLoop true 1 None 0 2 1 (blk [SFutAdd 0 (IxV 0) (AFut 0 (IxV 1)) (Some 5%Z)])]);
    SForeach true 2 0 (blk [SIf CEq false (VFut 0 (IxV 2)) (VInt 1) (blk [SGate GH 0])]);
    SLoopUntil 3 4 (blk [SMeasFut 0 true 0 (IxC 2)]) (VFut 0 (IxC 2)) 0 (blk [SGate GX 0]);
    SEpr ERecvCorr BNil;
    SEpr (EPost true 2) (blk [SFutAdd 0 (IxC 0) (AInt 1) None]);
    SEpr (ECtx 3) (blk [SIf CGe false (VFut 0 (IxC 0)) (VFut 0 (IxC 1)) (blk [SGate GH 0])]);
    SFlush ].

Definition ex_prog : block :=
  blk ([SNewArray 0 3 (Some [Some 0%Z; Some 1%Z; Some 2%Z]); SNewQubit 0; SMeasReg 0 true 0]
       ++ List.concat (repeat ex_round 60)).

Example C14_nonvacuous :
  match lower_prog false ex_prog with
  | Ok (bs, st) => Nat.eqb (List.length bs) 60 && Nat.eqb (count_true (l_act st)) 0 && Nat.leb (l_peak st) 8
                   && Nat.leb (bdepth ex_prog) 2 && bplain ex_prog
  | Err _ => false
  end = true.
Proof. vm_compute. reflexivity. Qed.

(* a statement lowered under two open loops: its temporaries avoid both loop registers *)
Example C14_frame_nonvacuous :
  let st := bind_lvr 1 1 (bind_lvr 0 0 (with_act l0 (set_nth (set_nth (l_act l0) 0 true) 1 true) 2)) in
  match lower_stmt false (SFutAdd 0 (IxV 0) (AFut 0 (IxV 1)) None) st with
  | Ok (c, _) => forallb (fun k => negb (Nat.eqb k 0) && negb (Nat.eqb k 1)) (sws c) && Nat.eqb (List.length (sws c)) 3
  | Err _ => false
  end = true.
Proof. vm_compute. reflexivity. Qed.

Print Assumptions C14_active_restored.
Print Assumptions C14_active_reachable.
Print Assumptions C14_peak_bound.
Print Assumptions C14_program_peak.
Print Assumptions C14_never_out_of_registers.
Print Assumptions C14_never_out_of_registers_noepr.
Print Assumptions C14_statement_compiles.
Print Assumptions C14_lower_frame.
Print Assumptions C14_live_values_preserved.
Print Assumptions C14_meas_registers_reset.
