From Coq Require Import ZArith List Bool.
From NQ Require Import Exec.State Exec.Sem Exec.Exec.
Import ListNotations.
Open Scope Z_scope.
Example C04_stub : Exec.run [ISet (BR,0) 1] (init_state 1) 5 = Sem.run [ISet (BR,0) 1] (init_state 1) 5.
Proof. vm_compute. reflexivity. Qed.
