(* C04 — the executor implements the NetQASM classical semantics and faults
   precisely.  Statements only; models are Exec/State.v, Exec/Sem.v (reference
   semantics, spec style), Exec/Exec.v (model of netqasm/backend/executor.py,
   tied to the real Executor by the correspondence run of harness/checks/c04.py);
   proofs are in Proofs/ExecProofs.v. *)
From Coq Require Import ZArith List Bool.
From NQ Require Import Exec.State Exec.Sem Exec.Exec Proofs.ExecProofs.
From NQ Require Exec.HwSem Exec.HwExec Proofs.HwProofs.
Import ListNotations.
Open Scope Z_scope.

(* ---------------------------------------------------------------- main theorem
   For EVERY program (any length, unstructured jumps), every application state
   and every step bound: inside the defined domain (Sem.defined_domain: the
   reference run never reaches behaviour the property leaves open -- see the
   four documented exclusions in Sem.v) the model of executor.py and the
   reference semantics yield the same registers, arrays, shared memory, unit
   module, program counter and outcome (Halt | Fault kind line | Blocked line |
   OutOfFuel). *)
Theorem C04_exec_refines_sem : forall prog st fuel,
  defined_domain prog st -> Exec.run prog st fuel = Sem.run prog st fuel.
Proof. exact exec_refines_sem. Qed.

(* the same from any program counter (the induction that carries the proof) *)
Theorem C04_run_from_refines : forall fuel prog st pc,
  defined_from prog st pc -> Exec.run_from prog st pc fuel = Sem.run_from prog st pc fuel.
Proof. exact run_from_refines. Qed.

(* one instruction: wherever the reference semantics is not open, the handler
   dispatch of the executor produces exactly its result (new state and pc, or
   the fault/blocked outcome naming this line) *)
Theorem C04_step_refines : forall i st pc,
  step i st pc <> Stop (Unspec pc) -> to_sres (execute_command i st pc) pc = step i st pc.
Proof. exact step_refines. Qed.

(* several subroutines executed one after the other against one application *)
Theorem C04_run_many : forall subs st fuel,
  defined_many subs st fuel -> Exec.run_many subs st fuel = Sem.run_many subs st fuel.
Proof. exact run_many_refines. Qed.

(* ---------------------------------------------------------------- non-vacuity *)
Definition R (i : Z) : reg := (BR, i).
Definition C (i : Z) : reg := (BC, i).
Definition Q (i : Z) : reg := (BQ, i).
Definition M (i : Z) : reg := (BM, i).

(* a loop filling an array with (-7 + i) mod 3, ret_arr, a later undef seen by
   the host, qalloc, ret_reg, a register-bounded slice, subm on negatives, a jump
   to the end *)
Definition demo : list instr :=
  [ ISet (R 0) 4; IArray (R 0) 1; ISet (R 1) 0; ISet (C 0) 1; ISet (R 2) (-7); ISet (R 3) 3;
    IClassical (COpm OAdd (R 4) (R 2) (R 1) (R 3));
    IStore (R 4) 1 (OReg (R 1));
    IClassical (COp OAdd (R 1) (R 1) (C 0));
    IBranch (BBin Clt (R 1) (R 0) 6);
    IRetArr 1; IUndef 1 (OReg (C 0));
    ISet (Q 0) 0; IQalloc (Q 0); IRetReg (R 4);
    IWaitAll 1 (OReg (R 1)) (OReg (R 0));
    IClassical (COpm OSub (M 0) (R 2) (R 0) (R 3));
    IBranch (BJmp 19); ISet (R 0) 99 ].

(* second subroutine against the same application: faults at its line 1 *)
Definition demo2 : list instr := [ ISet (R 7) 5; ILoad (R 5) 1 (OReg (C 0)); ISet (R 7) 6 ].

Example C04_demo_in_domain : defined_domain demo (init_state 2).
Proof. apply (defined_from_by_run demo (init_state 2) 0 100). vm_compute. reflexivity. Qed.

Example C04_demo_runs :
  let '(st, pc, o) := Exec.run demo (init_state 2) 100 in
  o = Halt /\ pc = 19 /\ rd st (R 4) = Some 2 /\ rd st (M 0) = Some 1 /\ rd st (R 0) = Some 4 /\
  shm_arrays st = [(1, [Some 2; None; Some 1; Some 2])] /\
  find reg_eqb (R 4) (sregs st) = Some 2 /\ um st = [Some 0; None] /\ used st = [0] /\
  Exec.run demo (init_state 2) 100 = Sem.run demo (init_state 2) 100 /\
  Exec.run demo (init_state 2) 20 = (fst (fst (Exec.run demo (init_state 2) 20)), 8, OutOfFuel).
Proof. vm_compute. repeat split; reflexivity. Qed.

Example C04_demo_many_in_domain : defined_many [demo; demo2] (init_state 2) 100.
Proof.
  cbn [defined_many]. split; [exact C04_demo_in_domain|]. split; [|exact I].
  apply (defined_from_by_run demo2 _ 0 10). vm_compute. reflexivity.
Qed.

Example C04_demo_many_runs :
  map (fun r => (snd (fst r), snd r)) (Exec.run_many [demo; demo2] (init_state 2) 100)
  = [(19, Halt); (1, Fault FUndefEntry 1)].
Proof. vm_compute. reflexivity. Qed.

(* Sem and Exec are different functions: outside the domain the model follows
   Python (a negative index wraps and the run continues), the reference
   semantics says "open" *)
Example C04_models_differ_outside_domain :
  let p := [ISet (R 0) 1; IArray (R 0) 0; ISet (R 1) (-1); ISet (R 2) 5; IStore (R 2) 0 (OReg (R 1))] in
  snd (Exec.run p (init_state 0) 10) = Halt /\
  arrs (fst (fst (Exec.run p (init_state 0) 10))) = [(0, [Some 5])] /\
  snd (Sem.run p (init_state 0) 10) = Unspec 4.
Proof. vm_compute. repeat split; reflexivity. Qed.

(* ---------------------------------------------------------------- corollaries *)
(* the six conditional branches and jmp: taken exactly when the relation holds *)
Theorem C04_beq : binary_branch_sense Ceq (fun a b => a = b).  Proof. exact beq_sense. Qed.
Theorem C04_bne : binary_branch_sense Cne (fun a b => a <> b). Proof. exact bne_sense. Qed.
Theorem C04_blt : binary_branch_sense Clt (fun a b => a < b).  Proof. exact blt_sense. Qed.
Theorem C04_bge : binary_branch_sense Cge (fun a b => a >= b). Proof. exact bge_sense. Qed.
Theorem C04_bez : unary_branch_sense Cez (fun a => a = 0).     Proof. exact bez_sense. Qed.
Theorem C04_bnz : unary_branch_sense Cnz (fun a => a <> 0).    Proof. exact bnz_sense. Qed.
Theorem C04_jmp : forall st pc t, execute_command (IBranch (BJmp t)) st pc = Ok (st, t).
Proof. exact jmp_sense. Qed.

Example C04_branch_example :
  let st := wr (wr (init_state 0) (R 1) (-3)) (C 2) 2 in
  execute_command (IBranch (BBin Clt (R 1) (C 2) 7)) st 4 = Ok (st, 7) /\
  execute_command (IBranch (BBin Cge (R 1) (C 2) 7)) st 4 = Ok (st, 5) /\
  execute_command (IBranch (BBin Cge (C 2) (C 2) 7)) st 4 = Ok (st, 7) /\
  execute_command (IBranch (BUn Cnz (R 1) 0)) st 4 = Ok (st, 0).
Proof. vm_compute. repeat split; reflexivity. Qed.

(* addm/subm: the result is the representative in [0, m) also for negative operands *)
Theorem C04_addm_subm_range : forall o st pc d ra rb rm a b m,
  reg_ok d = true -> reg_ok ra = true -> reg_ok rb = true -> reg_ok rm = true ->
  rd st ra = Some a -> rd st rb = Some b -> rd st rm = Some m -> 1 <= m ->
  exists v,
    execute_command (IClassical (COpm o d ra rb rm)) st pc = Ok (wr st d v, pc + 1) /\
    rd (wr st d v) d = Some v /\ 0 <= v < m /\ exists k, binop_val o a b = k * m + v.
Proof. exact addm_subm_range. Qed.

Example C04_subm_negative :
  let st := wr (wr (wr (init_state 0) (R 1) (-7)) (R 2) 4) (R 3) 3 in
  execute_command (IClassical (COpm OSub (R 0) (R 1) (R 2) (R 3))) st 0 = Ok (wr st (R 0) 1, 1).
Proof. vm_compute. reflexivity. Qed.

Theorem C04_lea : forall st pc r a, reg_ok r = true ->
  execute_command (ILea r a) st pc = Ok (wr st r a, pc + 1) /\ rd (wr st r a) r = Some a.
Proof. exact lea_sets_address. Qed.

Theorem C04_undef : forall st pc a ix n l,
  opnd_ok ix = true -> oval st ix = Some n -> find Z.eqb a (arrs st) = Some l -> 0 <= n < Zlen l ->
  let l' := sset (Z.to_nat n) None l in
  execute_command (IUndef a ix) st pc = Ok (write_array a l' st, pc + 1) /\
  find Z.eqb a (arrs (write_array a l' st)) = Some l' /\
  nth_error l' (Z.to_nat n) = Some None /\
  List.length l' = List.length l /\
  forall k, k <> Z.to_nat n -> nth_error l' k = nth_error l k.
Proof. exact undef_clears_entry. Qed.

(* slices whose bounds come from registers *)
Theorem C04_register_slice : forall st pc a rs re s e l,
  reg_ok rs = true -> reg_ok re = true -> rd st rs = Some s -> rd st re = Some e ->
  find Z.eqb a (arrs st) = Some l -> 0 <= s -> s <= e -> e <= Zlen l ->
  ((forall k, s <= k < e -> exists v, nth_error l (Z.to_nat k) = Some (Some v)) ->
   execute_command (IWaitAll a (OReg rs) (OReg re)) st pc = Ok (st, pc + 1)) /\
  ((exists k, s <= k < e /\ nth_error l (Z.to_nat k) = Some None) ->
   execute_command (IWaitAll a (OReg rs) (OReg re)) st pc = Block).
Proof. exact wait_all_register_slice. Qed.

Example C04_register_slice_example :
  let st := write_array 3 [None; Some 1; Some 2; None] (wr (wr (init_state 0) (R 1) 1) (R 2) 3) in
  execute_command (IWaitAll 3 (OReg (R 1)) (OReg (R 2))) st 9 = Ok (st, 10) /\
  execute_command (IWaitAll 3 (OReg (R 1)) (OImm 4)) st 9 = Block.
Proof. vm_compute. split; reflexivity. Qed.

(* every fault the property lists (ExecProofs.listed_fault: store of an undefined
   register, load of an undefined entry, modulus < 1, double allocation, free of
   an unallocated qubit, index >= length for load/store/undef) is inside the
   domain of the reference semantics, is raised by the executor model, and ends
   the run at that instruction with an outcome that names its line *)
Theorem C04_listed_fault_in_domain : forall i st k pc,
  instr_regs_ok i = true -> listed_fault i st k -> step i st pc = Stop (Fault k pc).
Proof. exact listed_fault_in_domain. Qed.

Theorem C04_fault_names_line : forall prog st pc fuel i k,
  0 <= pc -> nth_error prog (Z.to_nat pc) = Some i ->
  instr_regs_ok i = true -> listed_fault i st k ->
  Exec.run_from prog st pc (S fuel) = (st, pc, Fault k pc).
Proof. exact fault_names_line. Qed.

Example C04_listed_faults_inhabited :
  let st := with_um (write_array 1 [Some 8; None] (wr (wr (init_state 0) (R 1) 1) (R 2) 0)) [Some 0; None] [0] in
  listed_fault (IStore (R 9) 1 (OImm 0)) st FUndefReg /\
  listed_fault (ILoad (R 0) 1 (OReg (R 1))) st FUndefEntry /\
  listed_fault (IClassical (COpm OAdd (R 0) (R 1) (R 1) (R 2))) st FModulus /\
  listed_fault (IQalloc (R 2)) st FAlloc /\
  listed_fault (IQfree (R 1)) st FFree /\
  listed_fault (IStore (R 1) 1 (OImm 2)) st FIndex /\
  Exec.run_from [ISet (R 5) 1; IQalloc (R 2); ISet (R 5) 2] st 1 3 = (st, 1, Fault FAlloc 1).
Proof.
  cbn zeta. repeat split.
  - apply LF_store_undefined. reflexivity.
  - apply (LF_load_undefined _ _ _ _ 1 [Some 8; None]); try reflexivity; try discriminate.
  - apply (LF_modulus _ _ _ _ _ _ 0); reflexivity.
  - apply (LF_double_alloc _ _ 0); try reflexivity; try discriminate. exists 0. reflexivity.
  - apply (LF_free_unallocated _ _ 1); try reflexivity; try discriminate.
  - apply (LF_store_past_end _ _ 1 _ _ 2 [Some 8; None]); try reflexivity; try discriminate.
Qed.

(* qalloc / qfree bookkeeping: the least unused physical qubit is mapped and marked in
   use; qfree unmaps and releases exactly it.  A faulting qalloc (listed_fault:
   double allocation; also id >= capacity) leaves unit module AND in-use set as they
   were: C04_fault_names_line / C04_fault_stops return the whole state. *)
Theorem C04_qalloc_bookkeeping : forall st pc r q p,
  reg_ok r = true -> rd st r = Some q -> 0 <= q ->
  nth_error (um st) (Z.to_nat q) = Some None -> least_unused (used st) = Some p ->
  set_mem p (used st) = false /\
  execute_command (IQalloc r) st pc =
  Ok (with_um st (sset (Z.to_nat q) (Some p) (um st)) (set_add p (used st)), pc + 1).
Proof. exact qalloc_bookkeeping. Qed.

Theorem C04_qfree_bookkeeping : forall st pc r q p,
  reg_ok r = true -> rd st r = Some q -> 0 <= q ->
  nth_error (um st) (Z.to_nat q) = Some (Some p) -> set_mem p (used st) = true ->
  execute_command (IQfree r) st pc =
  Ok (with_um st (sset (Z.to_nat q) None (um st)) (set_remove p (used st)), pc + 1).
Proof. exact qfree_bookkeeping. Qed.

(* out-of-order allocation, a faulting double allocation in between, free, re-allocation:
   physical ids 0,1 handed out, the fault leaks nothing, the freed id is reused *)
Example C04_bookkeeping_example :
  let p1 := [ISet (Q 0) 2; IQalloc (Q 0); ISet (Q 1) 0; IQalloc (Q 1); IQalloc (Q 0)] in
  let p2 := [IQfree (Q 0); ISet (Q 2) 1; IQalloc (Q 2)] in
  map (fun r => (um (fst (fst r)), used (fst (fst r)), snd r)) (Exec.run_many [p1; p2] (init_state 3) 20)
  = [([Some 1; None; Some 0], [0; 1], Fault FAlloc 4); ([Some 1; Some 0; None], [1; 0], Halt)] /\
  Exec.run_many [p1; p2] (init_state 3) 20 = Sem.run_many [p1; p2] (init_state 3) 20.
Proof. vm_compute. split; reflexivity. Qed.

(* a run that ends in a fault: the line named is the final pc; the final state is
   the state in which the faulting instruction started (reached through
   successfully executed instructions only -- the faulting one changed nothing,
   the pc was not advanced); the instruction at that pc is the one that raised *)
Theorem C04_fault_stops : forall fuel prog st pc st' pc' k line,
  Exec.run_from prog st pc fuel = (st', pc', Fault k line) ->
  line = pc' /\ reaches prog st pc st' pc' /\
  exists i, py_getitem prog pc' = Ok i /\ execute_command i st' pc' = Raise k.
Proof. exact fault_stops. Qed.

Theorem C04_blocked_stops : forall fuel prog st pc st' pc' line,
  Exec.run_from prog st pc fuel = (st', pc', Blocked line) ->
  line = pc' /\ reaches prog st pc st' pc' /\
  exists i, py_getitem prog pc' = Ok i /\ execute_command i st' pc' = Block.
Proof. exact blocked_stops. Qed.

Example C04_fault_stops_example :
  let p := [ISet (R 0) 2; IArray (R 0) 0; ISet (R 1) 2; ISet (R 2) 5; IStore (R 2) 0 (OReg (R 1)); ISet (R 3) 1] in
  let '(st, pc, o) := Exec.run p (init_state 1) 50 in
  o = Fault FIndex 4 /\ pc = 4 /\ rd st (R 3) = None /\ arrs st = [(0, [None; None])] /\
  Exec.run p (init_state 1) 50 = Sem.run p (init_state 1) 50.
Proof. vm_compute. repeat split; reflexivity. Qed.

(* ---------------------------------------------------------------- with the configuration
   State.config carries the flag of netqasm.runtime.settings.set_is_using_hardware.  With the
   flag off HwSem.hstep / HwExec.hexecute_command ARE Sem.step / Exec.execute_command; with the
   flag on every register write, array-entry write (value and index), array address and value
   returned to the host must fit 32 bits (two's complement), otherwise the instruction faults
   with FOverflow at its line and changes nothing (HwSem.hw_step prescribes where among the
   other faults of the instruction the check comes).  The refinement holds for EVERY
   configuration, in particular with the flag ON. *)
Theorem C04_hw_exec_refines_sem : forall cfg prog st fuel,
  HwSem.hdefined_domain cfg prog st -> HwExec.hrun cfg prog st fuel = HwSem.hrun cfg prog st fuel.
Proof. exact HwProofs.hexec_refines_hsem. Qed.

Theorem C04_hw_step_refines : forall i st pc,
  HwSem.hw_step i st pc <> Stop (Unspec pc) ->
  to_sres (HwExec.hw_execute_command i st pc) pc = HwSem.hw_step i st pc.
Proof. exact HwProofs.hw_step_refines. Qed.

Theorem C04_hw_run_many : forall cfg subs st fuel,
  HwSem.hdefined_many cfg subs st fuel -> HwExec.hrun_many cfg subs st fuel = HwSem.hrun_many cfg subs st fuel.
Proof. exact HwProofs.hrun_many_refines. Qed.

(* flag off = the semantics of C04_exec_refines_sem *)
Theorem C04_hw_off : forall fuel prog st pc,
  HwSem.hrun_from cfg_sim prog st pc fuel = Sem.run_from prog st pc fuel /\
  HwExec.hrun_from cfg_sim prog st pc fuel = Exec.run_from prog st pc fuel.
Proof. intros. split; [apply HwProofs.hrun_sim_is_sem|apply HwProofs.hrun_sim_is_exec]. Qed.

(* flag on only ADDS overflow faults: an instruction that does not overflow (and is not open)
   does exactly what it does in simulation *)
Theorem C04_hw_conservative : forall i st pc,
  HwSem.hw_step i st pc <> Stop (Fault FOverflow pc) -> HwSem.hw_step i st pc <> Stop (Unspec pc) ->
  HwSem.hw_step i st pc = step i st pc.
Proof. exact HwProofs.hw_conservative. Qed.

(* an overflow ends the run at that instruction, names its line, state and pc unchanged *)
Theorem C04_hw_overflow_stops : forall prog st pc fuel i,
  0 <= pc -> nth_error prog (Z.to_nat pc) = Some i ->
  HwSem.hw_step i st pc = Stop (Fault FOverflow pc) ->
  HwExec.hrun_from cfg_hardware prog st pc (S fuel) = (st, pc, Fault FOverflow pc).
Proof. exact HwProofs.hw_overflow_stops. Qed.

(* 2^31-1 + 1: overflow at line 2 in hardware, a plain value in simulation; store of the
   boundary values is fine; undef with a huge index is an index fault, not an overflow *)
Definition hw_demo : list instr :=
  [ ISet (R 0) 2147483647; ISet (R 1) 1; IClassical (COp OAdd (R 2) (R 0) (R 1)); ISet (R 3) 7 ].
Definition hw_demo2 : list instr :=
  [ ISet (R 0) 2; IArray (R 0) 2147483647; ISet (R 1) (-2147483648); IStore (R 1) 2147483647 (OImm 1);
    IRetArr 2147483647; IUndef 2147483647 (OImm 4294967296) ].

Example C04_hw_demo :
  HwSem.hdefined_domain cfg_hardware hw_demo (init_state 0) /\
  HwExec.hrun cfg_hardware hw_demo (init_state 0) 10 = HwSem.hrun cfg_hardware hw_demo (init_state 0) 10 /\
  (let '(st, pc, o) := HwExec.hrun cfg_hardware hw_demo (init_state 0) 10 in
   o = Fault FOverflow 2 /\ pc = 2 /\ rd st (R 2) = None /\ rd st (R 3) = None) /\
  (let '(st, pc, o) := HwExec.hrun cfg_sim hw_demo (init_state 0) 10 in
   o = Halt /\ rd st (R 2) = Some 2147483648 /\ rd st (R 3) = Some 7) /\
  (let '(st, pc, o) := HwExec.hrun cfg_hardware hw_demo2 (init_state 0) 10 in
   o = Fault FIndex 5 /\ shm_arrays st = [(2147483647, [None; Some (-2147483648)])]) /\
  HwExec.hrun cfg_hardware hw_demo2 (init_state 0) 10 = HwSem.hrun cfg_hardware hw_demo2 (init_state 0) 10.
Proof.
  split; [apply (HwProofs.hdefined_from_by_run cfg_hardware hw_demo (init_state 0) 0 10); vm_compute; reflexivity|].
  vm_compute. repeat split; reflexivity.
Qed.

Print Assumptions C04_exec_refines_sem.
Print Assumptions C04_run_many.
Print Assumptions C04_step_refines.
Print Assumptions C04_beq.
Print Assumptions C04_bne.
Print Assumptions C04_blt.
Print Assumptions C04_bge.
Print Assumptions C04_bez.
Print Assumptions C04_bnz.
Print Assumptions C04_addm_subm_range.
Print Assumptions C04_lea.
Print Assumptions C04_undef.
Print Assumptions C04_register_slice.
Print Assumptions C04_listed_fault_in_domain.
Print Assumptions C04_fault_names_line.
Print Assumptions C04_fault_stops.
Print Assumptions C04_qalloc_bookkeeping.
Print Assumptions C04_qfree_bookkeeping.
Print Assumptions C04_demo_in_domain.
Print Assumptions C04_hw_exec_refines_sem.
Print Assumptions C04_hw_conservative.
Print Assumptions C04_hw_overflow_stops.
