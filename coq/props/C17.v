(* C17 — printed assembly parses back to the same instruction. *)
From Coq Require Import ZArith List Bool String.
From NQ Require Import Base.Bits Lang.Codec Lang.Asm Lang.AsmSem Lang.Text Lang.AsmCheck.
From Gen Require Import Gen_Codec Gen_Asm.
Import ListNotations.
Open Scope Z_scope.

Theorem C17_tables_ok :
  banks_ok gen_banks = true /\
  forallb (fun t => imm_positions_exempt gen_exempt t && mnemonics_ok gen_ginstrs t) [gen_vanilla; gen_nv; gen_reids] = true.
Proof. vm_compute. split; reflexivity. Qed.
