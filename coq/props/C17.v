(* C17 — printed assembly parses back to the same instruction; text -> binary ->
   text is stable for whole subroutines.  Statements only; proofs are in
   Proofs/TextProofs.v (character level: decimal printer, operand printer,
   group_by_word tokeniser, operand parser, then the assembler passes).
   Gen_Codec / Gen_Asm are regenerated from /repo on every run. *)
From Coq Require Import ZArith List Bool String.
From NQ Require Import Base.Bits Lang.Codec Lang.Asm Lang.AsmSem Lang.Text Lang.AsmCheck.
From NQ Require Import Proofs.CodecProofs Proofs.TextProofs.
From Gen Require Import Gen_Codec Gen_Asm.
Import ListNotations.
Open Scope Z_scope.

(* the regenerated tables meet the side conditions of the theorems (finite,
   decided by computation): bank letters are distinct letters; every immediate
   position of every class is exempt from constant replacement; mnemonics are
   non-empty words over [a-z0-9_] known to the parser *)
Theorem C17_tables_ok :
  banks_ok gen_banks = true /\
  forallb (fun t => imm_positions_exempt gen_exempt t && mnemonics_ok gen_ginstrs t) [gen_vanilla; gen_nv; gen_reids] = true.
Proof. vm_compute. split; reflexivity. Qed.

Theorem C17_header_ok : header_ok gen_header = true.
Proof. vm_compute. reflexivity. Qed.
Theorem C17_wf_vanilla : wf_table gen_vanilla = true.
Proof. vm_compute. reflexivity. Qed.
Theorem C17_wf_nv : wf_table gen_nv = true.
Proof. vm_compute. reflexivity. Qed.
Theorem C17_wf_reids : wf_table gen_reids = true.
Proof. vm_compute. reflexivity. Qed.

Theorem C17_side_vanilla :
  mnemonics_ok gen_ginstrs gen_vanilla = true /\ imm_positions_exempt (ap_exempt gen_params) gen_vanilla = true.
Proof. vm_compute. split; reflexivity. Qed.
Theorem C17_side_nv :
  mnemonics_ok gen_ginstrs gen_nv = true /\ imm_positions_exempt (ap_exempt gen_params) gen_nv = true.
Proof. vm_compute. split; reflexivity. Qed.
Theorem C17_side_reids :
  mnemonics_ok gen_ginstrs gen_reids = true /\ imm_positions_exempt (ap_exempt gen_params) gen_reids = true.
Proof. vm_compute. split; reflexivity. Qed.

(* every instruction of the flavour, every operand valuation of the right
   shapes (any integers: negative, zero, arbitrarily large), prints to a line
   that the text parser and assembler turn back into exactly that instruction *)
Definition parse_print (t : list row) : Prop :=
  forall r ops, In r t -> well_typed r ops = true -> printable gen_banks ops = true ->
    parse_line gen_params gen_banks gen_ginstrs t (pp_instr gen_banks r ops) = Some (r, ops).

Theorem C17_parse_print_vanilla : parse_print gen_vanilla.
Proof.
  intros r ops Hin Hwt Hp.
  exact (parse_print_instr gen_params gen_banks gen_ginstrs gen_vanilla r ops C17_wf_vanilla Hin
           (proj1 C17_tables_ok) (proj1 C17_side_vanilla) (proj2 C17_side_vanilla) Hwt Hp).
Qed.
Theorem C17_parse_print_nv : parse_print gen_nv.
Proof.
  intros r ops Hin Hwt Hp.
  exact (parse_print_instr gen_params gen_banks gen_ginstrs gen_nv r ops C17_wf_nv Hin
           (proj1 C17_tables_ok) (proj1 C17_side_nv) (proj2 C17_side_nv) Hwt Hp).
Qed.
Theorem C17_parse_print_reids : parse_print gen_reids.
Proof.
  intros r ops Hin Hwt Hp.
  exact (parse_print_instr gen_params gen_banks gen_ginstrs gen_reids r ops C17_wf_reids Hin
           (proj1 C17_tables_ok) (proj1 C17_side_reids) (proj2 C17_side_reids) Hwt Hp).
Qed.

(* consequence: the printed form is unambiguous - two different instructions of a flavour
   (another class, or the same class with other operands) never print to the same line *)
Definition print_injective (t : list row) : Prop :=
  forall r ops r' ops', In r t -> In r' t ->
    well_typed r ops = true -> well_typed r' ops' = true ->
    printable gen_banks ops = true -> printable gen_banks ops' = true ->
    pp_instr gen_banks r ops = pp_instr gen_banks r' ops' -> r = r' /\ ops = ops'.

Lemma print_injective_of_parse_print t : parse_print t -> print_injective t.
Proof.
  intros P r ops r' ops' Hi Hi' Hw Hw' Hp Hp' E.
  pose proof (P r ops Hi Hw Hp) as D. pose proof (P r' ops' Hi' Hw' Hp') as D'.
  rewrite E in D. rewrite D in D'. inversion D'. split; reflexivity.
Qed.

Theorem C17_print_injective_vanilla : print_injective gen_vanilla.
Proof. exact (print_injective_of_parse_print _ C17_parse_print_vanilla). Qed.
Theorem C17_print_injective_nv : print_injective gen_nv.
Proof. exact (print_injective_of_parse_print _ C17_parse_print_nv). Qed.
Theorem C17_print_injective_reids : print_injective gen_reids.
Proof. exact (print_injective_of_parse_print _ C17_parse_print_reids). Qed.

(* whole subroutines of any length: print every instruction, parse each line,
   encode, decode, print again — the same lines *)
Definition stable (t : list row) : Prop :=
  forall s : sub,
    Forall (fun c => In (fst c) t) (s_body s) ->
    sub_in_range gen_header s = true ->
    Forall (fun c => printable gen_banks (snd c) = true) (s_body s) ->
    text_binary_text gen_params gen_banks gen_ginstrs gen_header t
      (s_v0 s) (s_v1 s) (s_app s) (pp_body gen_banks (s_body s))
    = Some (pp_body gen_banks (s_body s)).

Theorem C17_stable_vanilla : stable gen_vanilla.
Proof.
  intros s Hin Hr Hp.
  exact (text_binary_text_stable gen_params gen_banks gen_ginstrs gen_header gen_vanilla s C17_header_ok
           C17_wf_vanilla (proj1 C17_tables_ok) (proj1 C17_side_vanilla) (proj2 C17_side_vanilla) Hin Hr Hp).
Qed.
Theorem C17_stable_nv : stable gen_nv.
Proof.
  intros s Hin Hr Hp.
  exact (text_binary_text_stable gen_params gen_banks gen_ginstrs gen_header gen_nv s C17_header_ok
           C17_wf_nv (proj1 C17_tables_ok) (proj1 C17_side_nv) (proj2 C17_side_nv) Hin Hr Hp).
Qed.
Theorem C17_stable_reids : stable gen_reids.
Proof.
  intros s Hin Hr Hp.
  exact (text_binary_text_stable gen_params gen_banks gen_ginstrs gen_header gen_reids s C17_header_ok
           C17_wf_reids (proj1 C17_tables_ok) (proj1 C17_side_reids) (proj2 C17_side_reids) Hin Hr Hp).
Qed.

(* non-vacuity: concrete instructions with boundary operands (int32 minimum,
   register index 15, an entry and a slice with register bounds) meet the
   hypotheses, and by computation the printed lines parse back and the
   subroutine survives text -> binary -> text *)
Example C17_nonvacuous :
  let body := map (fun r => (r, match r_kinds r with
                                | [KReg; KImm] => [OReg 3 15; OImm (-2147483648)]
                                | [KReg; KEntry] => [OReg 2 0; OEntry 2147483647 1 15]
                                | [KSlice] => [OSlice 7 0 15 1 0]
                                | _ => [] end))
                  (filter (fun r => match r_kinds r with
                                    | [KReg; KImm] | [KReg; KEntry] | [KSlice] => true | _ => false end)
                          gen_vanilla) in
  let s := mkSub 0 0 65535 body in
  (3 <=? Z.of_nat (List.length body))
  && forallb (fun c => well_typed (fst c) (snd c) && printable gen_banks (snd c)) body
  && sub_in_range gen_header s
  && forallb (fun c => match parse_line gen_params gen_banks gen_ginstrs gen_vanilla (pp_instr gen_banks (fst c) (snd c)) with
                       | Some (r', ops') => String.eqb (r_name r') (r_name (fst c))
                                            && list_eqb Z.eqb (flat ops') (flat (snd c))
                       | None => false end) body
  && match text_binary_text gen_params gen_banks gen_ginstrs gen_header gen_vanilla 0 0 65535 (pp_body gen_banks body) with
     | Some ls => list_eqb String.eqb ls (pp_body gen_banks body) | None => false end
  && existsb (String.eqb "set M15 -2147483648") (pp_body gen_banks body)
  && existsb (String.eqb "wait_all @7[R15:C0]") (pp_body gen_banks body) = true.
Proof. vm_compute. reflexivity. Qed.

Print Assumptions C17_parse_print_vanilla.
Print Assumptions C17_parse_print_nv.
Print Assumptions C17_parse_print_reids.
Print Assumptions C17_stable_vanilla.
Print Assumptions C17_stable_nv.
Print Assumptions C17_stable_reids.
Print Assumptions C17_print_injective_vanilla.
Print Assumptions C17_print_injective_nv.
Print Assumptions C17_print_injective_reids.
