(* C20 — toolbox circuits implement their documented operators.
   Statements only.  Gen_Toolbox is regenerated on every run by calling the real
   toffoli_gate / t_inverse / parity_meas / set_qubit_state on recording qubits. *)
From Coq Require Import ZArith List Bool Ring_theory.
From NQ Require Import Base.Cyclo Base.QMat Toolbox.ToolboxSem
     Proofs.QMatProofs Proofs.ToolboxProofs Proofs.CycloProofs Proofs.QMatLift.
From Gen Require Import Gen_Toolbox.
Import ListNotations.

(* toffoli_gate(control1, control2, target) on wires 0,1,2 is the Toffoli unitary
   up to a global phase w^p *)
Theorem C20_toffoli_ok :
  exists U, circuit 3 gen_toffoli = Some U /\ phase_eq U gTOFFOLI.
Proof. apply opt_phase_eqb_sound. vm_compute. reflexivity. Qed.

(* t_inverse is exactly the adjoint of T (no phase): T^7 = T^dagger = diag(1, e^{-i pi/4}) *)
Theorem C20_t_inverse_ok :
  circuit 1 gen_t_inverse = Some (mdagger gT) /\ mdagger gT = gTdg /\
  mmul gTdg gT = mid 2.
Proof. vm_compute. repeat split; reflexivity. Qed.

(* parity_meas: for every Pauli string of length 1..3, with and without '-', and
   for each physical measurement outcome, the Kraus operator on the data qubits
   for the RETURNED value m is (I + (-1)^(m xor sign) P)/2 exactly; the two
   physical outcomes return different values.  Since the two operators are the
   spectral projectors of (+/-)P, this fixes outcome distribution and
   post-measurement state for every input state.  The ancilla, when used, starts
   in |0>, is the measured wire, and is not kept.  Finite: 2*(4+16+64) rows. *)
Theorem C20_parity_rows_checked : forallb pm_row_ok gen_parity = true.
Proof. vm_compute. reflexivity. Qed.

Theorem C20_parity_meas_ok : forall r, In r gen_parity -> pm_row_spec r.
Proof. exact (pm_rows_ok_sound gen_parity C20_parity_rows_checked). Qed.

(* the regenerated rows are exactly the 168 (string, sign) pairs, in order *)
Theorem C20_parity_complete : keys_match gen_parity = true /\ List.length gen_parity = 168%nat.
Proof. vm_compute. split; reflexivity. Qed.

(* set_qubit_state(q, phi, theta): over EVERY commutative ring with
   c = cos(theta/2), s = sin(theta/2), c^2+s^2 = 1, e = e^{i phi/2} a unit with
   inverse einv, the recorded rotation list maps |0> to
   e^{-i phi/2} (c |0> + e^{i phi} s |1>), and that vector is normalised. *)
Theorem C20_state_prep_ok :
  forall (R : Type) (rO rI : R) (radd rmul rsub : R -> R -> R) (ropp : R -> R),
    ring_theory rO rI radd rmul rsub ropp (@eq R) ->
    forall chalf shalf ehalf einv : spangle -> R,
      (forall w, rmul (ehalf w) (einv w) = rI) ->
      (forall w, radd (rmul (chalf w) (chalf w)) (rmul (shalf w) (shalf w)) = rI) ->
      sp_eval R radd rmul rsub chalf shalf ehalf einv gen_state_prep (rI, rO) =
        Some (rmul (einv SpPhi) (chalf SpTheta),
              rmul (einv SpPhi) (rmul (rmul (ehalf SpPhi) (ehalf SpPhi)) (shalf SpTheta))) /\
      radd (rmul (chalf SpTheta) (chalf SpTheta))
           (rmul (rmul (rmul (ehalf SpPhi) (ehalf SpPhi)) (shalf SpTheta))
                 (rmul (rmul (einv SpPhi) (einv SpPhi)) (shalf SpTheta))) = rI.
Proof.
  intros R rO rI radd rmul rsub ropp Rth chalf shalf ehalf einv Hu Hp. split.
  - exact (state_prep_identity R rO rI radd rmul rsub ropp Rth chalf shalf ehalf einv Hu gen_state_prep eq_refl).
  - exact (state_prep_normalised R rO rI radd rmul rsub ropp Rth chalf shalf ehalf einv Hu Hp).
Qed.

(* bridge to C (see C07): K32 identities hold in every ring with omega^32 = -1, 1/2 *)
Theorem C20_eval_hom : eval_hom_statement.
Proof. exact eval_hom. Qed.

(* the Toffoli identity as an operator identity in every such ring (circuit
   computed in R from the ring images of H, T, CNOT) *)
Theorem C20_toffoli_in_every_ring :
  forall (R : Type) (rO rI : R) (radd rmul rsub : R -> R -> R) (ropp : R -> R)
         (Rth : ring_theory rO rI radd rmul rsub ropp (@eq R)) (omega half : R),
    opow R rI rmul omega 32 = ropp rI -> rmul (radd rI rI) half = rI ->
    exists p, (p < 64)%nat /\
      rcircuit R rO rI radd rmul ropp omega half 3 gen_toffoli =
        Some (rmscale R rmul (opow R rI rmul omega p)
                      (map (map (keval R rO rI radd rmul ropp omega half)) gTOFFOLI)).
Proof.
  intros R rO rI radd rmul rsub ropp Rth omega half H32 H2.
  destruct C20_toffoli_ok as [U [Hc Hp]].
  exact (circuit_lift_all R rO rI radd rmul rsub ropp Rth omega half H32 H2 3%nat gen_toffoli U gTOFFOLI Hc Hp).
Qed.

(* non-vacuity: the hypotheses of state_prep hold in K32 itself at theta = pi/4,
   phi = pi/8 (cos/sin of pi/8 and e^{i pi/16} are ring elements), and a
   three-qubit string with an ancilla is among the parity rows *)
Example C20_nonvacuous :
  keqb (kmul (kw 2) (kw 62)) kone = true /\
  keqb (kadd (kmul (kcos 4) (kcos 4)) (kmul (ksin 4) (ksin 4))) kone = true /\
  existsb (fun r => pm_anc r && Nat.eqb (pm_ndata r) 3 && Nat.leb 9 (List.length (pm_ops r)) && pm_row_ok r)
          gen_parity = true /\
  Nat.leb 15 (List.length gen_toffoli) = true.
Proof. vm_compute. repeat split; reflexivity. Qed.

Print Assumptions C20_toffoli_ok.
Print Assumptions C20_t_inverse_ok.
Print Assumptions C20_parity_meas_ok.
Print Assumptions C20_parity_complete.
Print Assumptions C20_state_prep_ok.
Print Assumptions C20_eval_hom.
Print Assumptions C20_toffoli_in_every_ring.
