(* C13 — qubit memory is safe and applications are isolated on the controller.
   Statements only; the model is Exec/Qmem.v, proofs are in Proofs/QmemProofs.v.
   A history is any list of operations (registrations, stops, allocations, frees,
   classical writes, reservations and keep deliveries) of any applications on any
   nodes; `reachable` closes the initial state under `step`, each keep delivery
   obeying the environment contract `fresh_delivery` (the physical qubit it names
   was reserved from this executor's pool and not delivered yet, or is not marked in
   use at all at the moment of delivery). *)
From Coq Require Import ZArith List Bool.
From NQ Require Import Exec.Qmem Proofs.QmemProofs Exec.QmemSched Proofs.QmemSchedProofs Exec.QmemStop Proofs.QmemStopProofs.
Import ListNotations.
Open Scope Z_scope.

(* the invariant holds initially, is preserved by every step, hence holds after any
   history of any length *)
Theorem C13_inv_init : Inv init_state.
Proof. exact inv_init. Qed.

Theorem C13_inv_step : forall s o, Inv s -> fresh_delivery s o -> Inv (fst (step s o)).
Proof. exact inv_step. Qed.

Theorem C13_inv_reachable : forall s, reachable s -> Inv s.
Proof. exact inv_reachable. Qed.

(* spelled out: after any history no two allocated virtual qubits of one node, of the
   same or of different applications, share a physical qubit, and the in-use set is
   the mapped set plus what the network stack holds in flight *)
Theorem C13_no_shared_physical_qubit :
  forall s, reachable s ->
  forall nd app a i app' a' i' p,
    app_of s (nd, app) = Some a -> app_of s (nd, app') = Some a' ->
    nth_error (a_um a) i = Some (Some p) -> nth_error (a_um a') i' = Some (Some p) ->
    app = app' /\ i = i'.
Proof. intros s R. exact (proj1 (proj2 (inv_reachable s R))). Qed.

Theorem C13_used_is_mapped_or_in_flight :
  forall s, reachable s -> forall nd p, In (nd, p) (used s) <-> (mapped s nd p \/ In (nd, p) (resv s)).
Proof. intros s R. exact (proj1 (proj2 (proj2 (inv_reachable s R)))). Qed.

(* "the set of physical qubits marked in use is exactly the set currently mapped" *)
Theorem C13_used_is_image :
  forall s, reachable s -> resv s = [] -> forall nd p, In (nd, p) (used s) <-> mapped s nd p.
Proof. intros s R. exact (used_is_image s (inv_reachable s R)). Qed.

(* isolation: a step of one application (or of the environment) leaves every other
   application's unit module, registers, arrays and shared memory as they were; the
   other application's physical qubits stay in use and stay its own; other nodes'
   pools and other registry keys are untouched *)
Theorem C13_isolation :
  forall s o k', op_pid o <> Some k' -> app_of (fst (step s o)) k' = app_of s k'.
Proof. exact isolation. Qed.

Theorem C13_isolation_qubits :
  forall s o nd' app' a i p,
    Inv s -> fresh_delivery s o -> op_pid o <> Some (nd', app') ->
    app_of s (nd', app') = Some a -> nth_error (a_um a) i = Some (Some p) ->
    let s' := fst (step s o) in
    In (nd', p) (used s') /\
    (forall app2 a2 i2, app_of s' (nd', app2) = Some a2 -> nth_error (a_um a2) i2 = Some (Some p) ->
                        app2 = app' /\ i2 = i).
Proof. exact isolation_qubits. Qed.

Theorem C13_isolation_nodes : forall s o, same_elsewhere (op_node o) s (fst (step s o)).
Proof. exact isolation_nodes. Qed.

Theorem C13_isolation_registry :
  forall s o k', o <> ResetMem -> op_pid o <> Some k' -> (In k' (shreg (fst (step s o))) <-> In k' (shreg s)).
Proof. exact isolation_registry. Qed.

(* stopping releases every qubit and all memory of the application, and only that *)
Theorem C13_stop_releases :
  forall s nd app a, Inv s -> app_of s (nd, app) = Some a ->
  let r := step s (Stop nd app) in
  snd r = Done /\ app_of (fst r) (nd, app) = None /\ ~ In (nd, app) (shreg (fst r)) /\
  (forall x, In x (used (fst r)) <->
             In x (used s) /\ ~ (fst x = nd /\ exists i, nth_error (a_um a) i = Some (Some (snd x)))) /\
  resv (fst r) = resv s.
Proof. exact stop_releases. Qed.

(* ... so that the same application id can be registered again on that controller *)
Theorem C13_reregister_ok :
  forall s nd app a n, Inv s -> app_of s (nd, app) = Some a ->
  let s1 := fst (step s (Stop nd app)) in
  let r := step s1 (Init nd app n) in
  snd r = Done /\ app_of (fst r) (nd, app) = Some (fresh_app n).
Proof. exact reregister_ok. Qed.

Theorem C13_register_ok :
  forall s nd app n, Inv s -> app_of s (nd, app) = None ->
  let r := step s (Init nd app n) in
  snd r = Done /\ app_of (fst r) (nd, app) = Some (fresh_app n).
Proof. exact register_ok. Qed.

(* a registered id is never registered again, whatever the shared-memory registry says (an
   external SharedMemoryManager.reset_memories() is an operation of the histories: ResetMem) *)
Theorem C13_register_live_refused :
  forall s nd app n a, app_of s (nd, app) = Some a -> step s (Init nd app n) = (s, Fault EAlready).
Proof. exact register_live_refused. Qed.

(* the pool always has a free qubit, it is the least unused one, and set.remove never
   misses (the model's EFuel / EUsedMissing outcomes are unreachable) *)
Theorem C13_pool_total : forall nd u, first_unused nd u <> None.
Proof. exact first_unused_total. Qed.

Theorem C13_pool_least :
  forall nd u q, first_unused nd u = Some q ->
  0 <= q /\ ~ In (nd, q) u /\ forall j, 0 <= j < q -> In (nd, j) u.
Proof. exact first_unused_least. Qed.

Theorem C13_no_internal_fault :
  forall s o, Inv s -> fresh_delivery s o ->
  snd (step s o) <> Fault EUsedMissing /\ snd (step s o) <> Fault EFuel.
Proof. exact no_internal_fault. Qed.

(* subroutines of several applications as interleaved, suspendable programs
   (Exec/QmemSched.v): under ANY interleaving of starts, resumptions and atomic events the
   invariant holds, an event changes only the application owning the subroutine it starts or
   resumes, and a suspended subroutine keeps its owner -- with subroutine ids taken from the
   counter; with ids taken from the size of the table a suspended subroutine is taken over *)
Theorem C13_sched_reachable : forall ss, sreach ss -> Inv (ss_st ss) /\ table_ok ss.
Proof. exact sched_reachable. Qed.

Theorem C13_sched_isolation :
  forall ss e k', table_ok ss -> ev_wf e -> ev_owner ss e <> Some k' ->
  app_of (ss_st (sched_step by_counter ss e)) k' = app_of (ss_st ss) k'.
Proof. exact sched_isolation. Qed.

Theorem C13_sched_owner_stable :
  forall ss e sid sb, table_ok ss -> aget Z.eqb sid (ss_table ss) = Some sb ->
  match aget Z.eqb sid (ss_table (sched_step by_counter ss e)) with
  | Some sb' => sb_app sb' = sb_app sb
  | None => True
  end.
Proof. exact owner_stable. Qed.

Theorem C13_sched_id_reuse_refuted :
  let ss := sched_run by_table_size sched_init takeover in
  let e := Start (0, 2) [SetReg 0 2 r1 5; SetReg 0 2 r1 6] in
  ev_wf e /\
  option_map sb_app (aget Z.eqb 1 (ss_table ss)) = Some (0, 1) /\
  option_map sb_app (aget Z.eqb 1 (ss_table (sched_step by_table_size ss e))) = Some (0, 2) /\
  aget pair_eqb r1 (match app_of (ss_st (sched_step by_table_size (sched_step by_table_size ss e) (Resume 1))) (0, 2)
                    with Some a => a_regs a | None => [] end) = Some 6.
Proof. exact owner_stable_needs_counter. Qed.

(* non-vacuity of the interleaving theorems: three applications, three suspended
   subroutines, resumed out of order; reachable, and every application ends with its own value *)
Example C13_sched_nonvacuous :
  let es := [Atomic (Init 0 0 1); Atomic (Init 0 1 1); Atomic (Init 0 2 1);
             Start (0, 0) [SetReg 0 0 r1 1; QAlloc 0 0 0; SetReg 0 0 r1 2];
             Start (0, 1) [SetReg 0 1 r1 3; QAlloc 0 1 0; SetReg 0 1 r1 4];
             Resume 0; Start (0, 2) [QAlloc 0 2 0; SetReg 0 2 r1 6]; Resume 1; Resume 0; Resume 2; Resume 1] in
  let ss := sched_run by_counter sched_init es in
  map (fun '(k, a) => (k, a_um a, aget pair_eqb r1 (a_regs a))) (apps (ss_st ss)) =
    [((0, 1), [Some 2], Some 4); ((0, 2), [Some 1], Some 6); ((0, 0), [Some 0], Some 2)] /\
  ss_table ss = [] /\ ss_next ss = 3.
Proof. vm_compute. repeat split; reflexivity. Qed.

(* stop_application as the generator it is (Exec/QmemStop.v): the handler yields after every
   released qubit and other applications' events run in between.  For EVERY interleaving
   (xreach: any list of uninterrupted operations, stop starts and stop resumptions obeying
   xev_ok) the invariant holds in every state, also between two yields *)
Theorem C13_stop_xinv_reachable : forall xs, xreach xs -> XInv xs.
Proof. exact xinv_reachable. Qed.

Theorem C13_stop_intermediate :
  forall xs, XInv xs ->
  injective (x_st xs) /\
  (forall nd p, In (nd, p) (used (x_st xs)) <-> (mapped (x_st xs) nd p \/ In (nd, p) (resv (x_st xs)))) /\
  (forall nd p, In (nd, p) (resv (x_st xs)) -> ~ mapped (x_st xs) nd p) /\
  (forall x, is_pending xs x -> In x (used (x_st xs)) /\ In x (resv (x_st xs)) /\ ~ mapped (x_st xs) (fst x) (snd x)).
Proof. exact x_intermediate. Qed.

Theorem C13_stop_quiescent :
  forall xs, XInv xs -> x_pending xs = [] -> resv (x_st xs) = [] ->
  forall nd p, In (nd, p) (used (x_st xs)) <-> mapped (x_st xs) nd p.
Proof. exact x_quiescent. Qed.

(* isolation: an event -- also a step of a suspended stop -- changes only its own application;
   and nobody else's event touches a suspended stop *)
Theorem C13_stop_isolation :
  forall xs e k', xev_pid e <> Some k' -> app_of (x_st (fst (xstep xs e))) k' = app_of (x_st xs) k'.
Proof. exact x_isolation. Qed.

Theorem C13_stop_others_keep_pending :
  forall xs e k, xev_pid e <> Some k ->
  aget pair_eqb k (x_pending (fst (xstep xs e))) = aget pair_eqb k (x_pending xs).
Proof. exact x_others_keep_pending. Qed.

(* progress: starting and resuming never fault; each resumption releases exactly the next qubit
   (which nobody maps) or, past the last one, removes the application and its registry entry *)
Theorem C13_stop_begin :
  forall xs nd app a, XInv xs -> app_of (x_st xs) (nd, app) = Some a -> stopping xs (nd, app) = false ->
  let r := xstep xs (XStopBegin nd app) in
  snd r = Done /\
  match somes (a_um a) with
  | [] => app_of (x_st (fst r)) (nd, app) = None /\ ~ In (nd, app) (shreg (x_st (fst r))) /\
          stopping (fst r) (nd, app) = false /\ used (x_st (fst r)) = used (x_st xs)
  | p :: rest => aget pair_eqb (nd, app) (x_pending (fst r)) = Some rest /\
                 (forall y, In y (used (x_st (fst r))) <-> In y (used (x_st xs)) /\ y <> (nd, p)) /\
                 (exists a', app_of (x_st (fst r)) (nd, app) = Some a' /\ a_um a' = [])
  end.
Proof. exact x_stop_begin. Qed.

Theorem C13_stop_step :
  forall xs nd app ps, XInv xs -> aget pair_eqb (nd, app) (x_pending xs) = Some ps ->
  let r := xstep xs (XStopStep nd app) in
  snd r = Done /\
  match ps with
  | [] => app_of (x_st (fst r)) (nd, app) = None /\ ~ In (nd, app) (shreg (x_st (fst r))) /\
          stopping (fst r) (nd, app) = false /\ used (x_st (fst r)) = used (x_st xs)
  | p :: rest => aget pair_eqb (nd, app) (x_pending (fst r)) = Some rest /\
                 (forall y, In y (used (x_st (fst r))) <-> In y (used (x_st xs)) /\ y <> (nd, p)) /\
                 ~ mapped (x_st (fst r)) nd p /\ ~ In (nd, p) (used (x_st (fst r)))
  end.
Proof. exact x_stop_step. Qed.

(* stop releases everything and the id can be registered again: after |pending| + 1 of its own
   resumptions -- other events interleaved anywhere leave its pending list alone
   (C13_stop_others_keep_pending) and preserve XInv (C13_stop_xinv_reachable) *)
Theorem C13_stop_completes :
  forall nd app ps xs, XInv xs -> aget pair_eqb (nd, app) (x_pending xs) = Some ps ->
  let xs' := resume_n xs nd app (S (List.length ps)) in
  XInv xs' /\ app_of (x_st xs') (nd, app) = None /\ ~ In (nd, app) (shreg (x_st xs')) /\
  stopping xs' (nd, app) = false /\
  (forall y, In y (used (x_st xs')) <-> In y (used (x_st xs)) /\ ~ (fst y = nd /\ In (snd y) ps)).
Proof. exact x_stop_completes. Qed.

Theorem C13_stop_reregister :
  forall xs nd app ps n, XInv xs -> aget pair_eqb (nd, app) (x_pending xs) = Some ps ->
  let xs' := resume_n xs nd app (S (List.length ps)) in
  let r := xstep xs' (XOp (Init nd app n)) in
  snd r = Done /\ app_of (x_st (fst r)) (nd, app) = Some (fresh_app n).
Proof. exact x_reregister_after_stop. Qed.

(* non-vacuity, the interleaving of the third-batch seed: application 1 (qubits 0, 1) is being
   stopped; after qubit 0 is released application 0 allocates twice (gets 0, then 2 because 1
   is still marked); the stop ends; application 0 keeps its marks and the pool hands out 1 *)
Example C13_stop_nonvacuous :
  xreach (xrun xinit stop_demo) /\
  map (fun '(k, a) => (k, a_um a)) (apps (x_st (xrun xinit stop_demo))) = [((0, 0), [Some 0; Some 2; Some 1])] /\
  used (x_st (xrun xinit stop_demo)) = [(0, 1); (0, 2); (0, 0)] /\
  x_pending (xrun xinit stop_demo) = [] /\ resv (x_st (xrun xinit stop_demo)) = [] /\
  x_pending (xrun xinit (firstn 7 stop_demo)) = [((0, 1), [1])].
Proof. split; [exact stop_demo_reachable|]. vm_compute. repeat split; reflexivity. Qed.

(* the environment contract is needed: the unrestricted statement is false of the
   faithful model -- a keep response naming a mapped physical qubit is accepted and
   double-maps it (replayed on the implementation by the check, stated assumption) *)
Definition C13_inv_step_unrestricted : Prop := forall s o, Inv s -> Inv (fst (step s o)).

Theorem C13_inv_without_fresh_refuted :
  exists s o, reachable s /\ ~ fresh_delivery s o /\ snd (step s o) = Done /\ ~ Inv (fst (step s o)) /\
              snd (step (run (fst (step s o)) [QFree 0 0 0]) (QFree 0 1 0)) = Fault EUsedMissing.
Proof. exact inv_without_fresh_refuted. Qed.

Theorem C13_unrestricted_refuted : ~ C13_inv_step_unrestricted.
Proof.
  intros H. destruct inv_without_fresh_refuted as (s & o & R & _ & _ & N & _).
  exact (N (H s o (inv_reachable s R))).
Qed.

(* non-vacuity: a concrete history over two nodes and three applications (allocation
   through the negative-index quirk, reservation, delivery, stop, re-registration)
   is reachable, ends with qubits mapped on both nodes, and every step succeeded *)
Definition demo : list op :=
  [Init 0 0 3; Init 0 1 2; Init 1 0 1; QAlloc 0 0 1; QAlloc 0 1 (-1); Reserve 0;
   Keep 0 0 2 0 1 [0; 7; 2; 1; 0; 0; 1; 3; 4; 1]; QAlloc 1 0 0; NewArr 0 1 3 2; Store 0 1 3 1 9; RetArr 0 1 3;
   Stop 0 0; Init 0 0 2; QAlloc 0 0 0].

Fixpoint all_done_fresh (s : state) (h : list op) : bool :=
  match h with
  | [] => true
  | o :: h' =>
      match snd (step s o) with Done => true | _ => false end &&
      match o with
      | Keep nd _ _ _ _ info => match nth_error info 2 with
                                | Some p => mem2 (nd, p) (resv s) || negb (mem2 (nd, p) (used s))
                                | None => false end
      | _ => true
      end && all_done_fresh (fst (step s o)) h'
  end.

Example C13_nonvacuous :
  all_done_fresh init_state demo = true /\
  map (fun '(k, a) => (k, a_um a)) (apps (run init_state demo)) =
    [((0, 0), [Some 0; None]); ((0, 1), [None; Some 1]); ((1, 0), [Some 0])] /\
  used (run init_state demo) = [(0, 0); (1, 0); (0, 1)] /\
  resv (run init_state demo) = [].
Proof. vm_compute. repeat split; reflexivity. Qed.

Print Assumptions C13_inv_reachable.
Print Assumptions C13_no_shared_physical_qubit.
Print Assumptions C13_used_is_mapped_or_in_flight.
Print Assumptions C13_used_is_image.
Print Assumptions C13_isolation.
Print Assumptions C13_isolation_qubits.
Print Assumptions C13_isolation_nodes.
Print Assumptions C13_isolation_registry.
Print Assumptions C13_stop_releases.
Print Assumptions C13_reregister_ok.
Print Assumptions C13_register_ok.
Print Assumptions C13_register_live_refused.
Print Assumptions C13_pool_total.
Print Assumptions C13_pool_least.
Print Assumptions C13_no_internal_fault.
Print Assumptions C13_sched_reachable.
Print Assumptions C13_sched_isolation.
Print Assumptions C13_sched_owner_stable.
Print Assumptions C13_sched_id_reuse_refuted.
Print Assumptions C13_stop_xinv_reachable.
Print Assumptions C13_stop_intermediate.
Print Assumptions C13_stop_quiescent.
Print Assumptions C13_stop_isolation.
Print Assumptions C13_stop_others_keep_pending.
Print Assumptions C13_stop_begin.
Print Assumptions C13_stop_step.
Print Assumptions C13_stop_completes.
Print Assumptions C13_stop_reregister.
Print Assumptions C13_inv_without_fresh_refuted.
Print Assumptions C13_unrestricted_refuted.
