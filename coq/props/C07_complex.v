(* C07_complex — the NV decomposition identities hold for COMPLEX matrices.
   Instantiation of the ring-generic theorems of C07.v at Coquelicot's complex
   numbers with omega = cos(pi/32) + i sin(pi/32) (Proofs/ComplexInstance.v).
   These theorems (and only these) depend on the axioms of Coq's real numbers;
   they are printed below by Print Assumptions. *)
From Coq Require Import Reals ZArith List Bool.
From Coquelicot Require Import Complex.
From NQ Require Import Base.Cyclo Base.QMat Nv.NvSem Proofs.QMatProofs Proofs.NvLift Proofs.ComplexInstance.
From Gen Require Import Gen_NvDecomp C07.
Import ListNotations.

(* K32 -> C is a ring homomorphism with w^k |-> cos(k pi/32) + i sin(k pi/32), and it
   commutes with conjugation; i |-> Ci, 1/sqrt2 |-> 1/sqrt 2 *)
Theorem C07_complex_hom :
  cev kzero = C0 /\ cev kone = C1 /\ cev khalf = Chalf /\
  (forall k, cev (kw k) = (cos (INR k * (PI / 32)), sin (INR k * (PI / 32)))%R) /\
  (forall a b, cev (kadd a b) = Cplus (cev a) (cev b)) /\
  (forall a b, cev (kmul a b) = Cmult (cev a) (cev b)) /\
  (forall a, cev (kneg a) = Copp (cev a)) /\
  (forall a b, cev (ksub a b) = Cminus (cev a) (cev b)) /\
  (forall a, (List.length (kc a) <= 64)%nat -> cev (kconj a) = Cconj (cev a)).
Proof. exact cev_hom. Qed.

Theorem C07_complex_constants : cev ki = Ci /\ cev krsqrt2 = RtoC (1 / sqrt 2).
Proof. split; [exact cev_ki | exact cev_krsqrt2]. Qed.

(* the complex images of the gate matrices are the textbook matrices: rotations
   exp(-i theta/2 sigma) with theta/2 = k pi/32 for every k, and the fixed gates *)
Theorem C07_rot_image_in_C : forall a k, cmev (rot_k a k) = Crot a (INR k * (PI / 32))%R.
Proof. exact cmev_rot_k. Qed.

(* the NV conditional rotation at EVERY exactly representable angle (all k, i.e. every
   n * pi / 2^d with d <= 4, not only the angles 8/16 and 24/16 that occur in table rows): its
   complex image is |0><0| (x) exp(-i t sigma) + |1><1| (x) exp(+i t sigma), t = k pi/32 *)
Theorem C07_crot_image_in_C : forall a k, cmev (crot_k a k) = Ccrot a (INR k * (PI / 32))%R.
Proof. exact cmev_crot_k. Qed.

Theorem C07_gate_images_in_C :
  cmev gX = [[C0; C1]; [C1; C0]] /\
  cmev gY = [[C0; Copp Ci]; [Ci; C0]] /\
  cmev gZ = [[C1; C0]; [C0; Copp C1]] /\
  cmev gH = [[Ch; Ch]; [Ch; Copp Ch]] /\
  cmev gK = [[Ch; Cmult (Copp Ci) Ch]; [Cmult Ci Ch; Copp Ch]] /\
  cmev gS = [[C1; C0]; [C0; Ci]] /\
  cmev gT = [[C1; C0]; [C0; (cos (PI / 4), sin (PI / 4))]] /\
  cmev gCNOT = [[C1;C0;C0;C0]; [C0;C1;C0;C0]; [C0;C0;C0;C1]; [C0;C0;C1;C0]] /\
  cmev gCPHASE = [[C1;C0;C0;C0]; [C0;C1;C0;C0]; [C0;C0;C1;C0]; [C0;C0;C0;Copp C1]].
Proof. exact cmev_fixed. Qed.

(* every non-MOV row: the circuit computed over C from the complex images of the NV
   gate matrices equals e^{i p pi/32} times the complex image of the vanilla gate *)
Theorem C07_decomp_in_C : forall r, In r gen_rows -> r_gate r <> VMov -> row_in_C r.
Proof. intros r Hin Hm. exact (row_in_every_ring_C r (C07_decomp_in_every_ring r Hin Hm)). Qed.

(* every MOV row: state transfer over C, |a|^2 + |b|^2 = 1 with the complex conjugate *)
Theorem C07_mov_in_C : forall r, In r gen_rows -> r_gate r = VMov -> mov_row_in_C r.
Proof. intros r Hin Hm. exact (mov_row_lifts_C r Hm (C07_decomp_equiv_row r Hin)). Qed.

(* non-vacuity: the table has a MOV row, and it transfers over C *)
Example C07_complex_nonvacuous : exists r, In r gen_rows /\ r_gate r = VMov /\ mov_row_in_C r.
Proof.
  destruct (has_mov_row gen_rows) as [r [Hin Hm]]; [vm_compute; reflexivity|].
  exists r. split; [exact Hin|]. split; [exact Hm | exact (C07_mov_in_C r Hin Hm)].
Qed.

Print Assumptions C07_complex_hom.
Print Assumptions C07_complex_constants.
Print Assumptions C07_rot_image_in_C.
Print Assumptions C07_crot_image_in_C.
Print Assumptions C07_gate_images_in_C.
Print Assumptions C07_decomp_in_C.
Print Assumptions C07_mov_in_C.
