(* C20_complex — the Toffoli identity for COMPLEX matrices (instantiation of
   C20_toffoli_in_every_ring at Coquelicot's C; depends on the axioms of the reals,
   printed below). *)
From Coq Require Import Reals ZArith List Bool.
From Coquelicot Require Import Complex.
From NQ Require Import Base.Cyclo Base.QMat Toolbox.ToolboxSem Proofs.ComplexInstance.
From Gen Require Import Gen_Toolbox C20.
Import ListNotations.

Theorem C20_toffoli_in_C :
  exists p, (p < 64)%nat /\
    Ccircuit 3 gen_toffoli =
      Some (Cmscale (cos (INR p * (Rtrigo1.PI / 32)), sin (INR p * (Rtrigo1.PI / 32)))%R (cmev gTOFFOLI)).
Proof.
  destruct C20_toffoli_ok as [U [Hc Hp]]. exact (circuit_lift_C 3 gen_toffoli U gTOFFOLI Hc Hp).
Qed.

(* the complex image of the Toffoli reference matrix is the 0/1 permutation matrix *)
Theorem C20_toffoli_image :
  cmev gTOFFOLI = map (fun r => map (fun c => if Nat.eqb (match r with 6 => 7 | 7 => 6 | _ => r end)%nat c
                                              then C1 else C0) (seq 0 8)) (seq 0 8).
Proof.
  destruct cev_hom as [H0 [H1 _]]. unfold cmev, gTOFFOLI. cbn [seq map Nat.eqb].
  rewrite H0, H1. reflexivity.
Qed.

Print Assumptions C20_toffoli_in_C.
Print Assumptions C20_toffoli_image.
