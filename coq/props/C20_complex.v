(* C20_complex — the Toffoli identity for COMPLEX matrices (instantiation of
   C20_toffoli_in_every_ring at Coquelicot's C; depends on the axioms of the reals,
   printed below). *)
From Coq Require Import Reals ZArith List Bool.
From Coquelicot Require Import Complex.
From NQ Require Import Base.Cyclo Base.QMat Toolbox.ToolboxSem Proofs.ComplexInstance Proofs.StatePrepError.
From Gen Require Import Gen_Toolbox C20.
Import ListNotations.

Theorem C20_toffoli_in_C :
  exists p, (p < 64)%nat /\
    Ccircuit 3 gen_toffoli =
      Some (Cmscale (cos (INR p * (Rtrigo1.PI / 32)), sin (INR p * (Rtrigo1.PI / 32)))%R (cmev gTOFFOLI)).
Proof.
  destruct C20_toffoli_ok as [U [Hc Hp]]. exact (circuit_lift_C 3 gen_toffoli U gTOFFOLI Hc Hp).
Qed.

(* the complex image of the Toffoli reference matrix is the 0/1 permutation matrix *)
Theorem C20_toffoli_image :
  cmev gTOFFOLI = map (fun r => map (fun c => if Nat.eqb (match r with 6 => 7 | 7 => 6 | _ => r end)%nat c
                                              then C1 else C0) (seq 0 8)) (seq 0 8).
Proof.
  destruct cev_hom as [H0 [H1 _]]. unfold cmev, gTOFFOLI. cbn [seq map Nat.eqb].
  rewrite H0, H1. reflexivity.
Qed.

(* set_qubit_state over C: the symbolic theorem C20_state_prep_ok, instantiated with
   c = cos(theta/2), s = sin(theta/2), e = e^{i phi/2}, gives exactly the documented state
   (times the global phase e^{-i phi/2}) for the regenerated rotation list *)
Theorem C20_state_prep_ideal_in_C : forall theta phi : R,
  sp_eval C Cplus Cmult Cminus (chalfC theta phi) (shalfC theta phi) (ehalfC theta phi) (einvC theta phi)
          gen_state_prep (C1, C0) = Some (ideal theta phi).
Proof.
  intros theta phi.
  destruct (C20_state_prep_ok C C0 C1 Cplus Cmult Cminus Copp C_ring_theory
              (chalfC theta phi) (shalfC theta phi) (ehalfC theta phi) (einvC theta phi)
              (unit_eC theta phi) (pythagorasC theta phi)) as [H _].
  rewrite H. f_equal. apply sp_form.
Qed.

(* ... and with the angles that actually reach the gates: get_angle_spec_from_float turns theta and
   phi into lists ys, zs of rotation immediates (n, d); the executor applies exp(-i a/2 Y) for the
   angles a = n pi/2^d of ys and then exp(-i a/2 Z) for those of zs.  Rotations about one axis add
   up, so the prepared state is the documented state at the SUMMED angles, and whenever each sum is
   within tol of its requested angle - the guarantee property C19 establishes for the expansion
   (C19_within_tol_radians / C19_radians_with_front_end, default tol = 1e-4 rad) - the prepared
   state is within tol (Euclidean norm in C^2; (|dtheta| + |dphi|)/2 in general) of the documented
   state.  Angles are real numbers here: a requested angle and its representative in [0, 2 pi)
   differ by full turns, which only change the global phase (ideal_theta_period / ideal_phi_period). *)
Theorem C20_state_prep_with_C19_error : forall (theta phi tol : R) (ys zs : list (Z * Z)),
  (Rabs (sumR (map angle_nd ys) - theta) <= tol)%R ->
  (Rabs (sumR (map angle_nd zs) - phi) <= tol)%R ->
  prepared (map angle_nd ys) (map angle_nd zs) = ideal (sumR (map angle_nd ys)) (sumR (map angle_nd zs)) /\
  (dist (prepared (map angle_nd ys) (map angle_nd zs)) (ideal theta phi) <= tol)%R.
Proof.
  intros theta phi tol ys zs Hy Hz. split; [apply prepared_sum | exact (state_prep_error theta phi tol ys zs Hy Hz)].
Qed.

(* the general Lipschitz bound behind it *)
Theorem C20_state_prep_lipschitz : forall t' p' t p : R,
  (dist (ideal t' p') (ideal t p) <= (Rabs (t' - t) + Rabs (p' - p)) / 2)%R.
Proof. exact dist_ideal_le. Qed.

Print Assumptions C20_toffoli_in_C.
Print Assumptions C20_state_prep_ideal_in_C.
Print Assumptions C20_state_prep_with_C19_error.
Print Assumptions C20_toffoli_image.
