(* C03 — assembling text or IR into a subroutine preserves program meaning.
   Statements only; proofs are in Proofs/AsmProofs.v.  Gen_Asm (exemption table,
   register file size, R bank) and Gen_Codec (flavour tables) are regenerated
   from /repo on every run. *)
From Coq Require Import ZArith List Bool String.
From NQ Require Import Base.Bits Lang.Codec Lang.CodecCheck Lang.Asm Lang.AsmSem Lang.Text Lang.TextFront Lang.AsmCheck Proofs.AsmProofs.
From NQ Require Import Lang.AsmSemQ Lang.AsmQLog Lang.AsmQCheck Proofs.AsmQProofs Proofs.AsmQExport Proofs.AsmResProofs Proofs.AsmQMachine.
From NQ Require Import Proofs.Bridge_AsmQ.
From NQ Require Import Proofs.TextFrontProofs Proofs.TextFrontDecoProofs Proofs.TextFrontMacroProofs Proofs.TextFrontMeaning.
From Gen Require Import Gen_Codec Gen_Asm.
Import ListNotations.
Open Scope Z_scope.

(* the regenerated exemption table treats the modelled instructions as the proofs
   expect (only set's immediate and the branch targets stay literal), and every
   scratch candidate is a register the executor has *)
Theorem C03_exempt_ok : exempt_ok gen_exempt = true.
Proof. vm_compute. reflexivity. Qed.
Theorem C03_params_ok : params_ok gen_params = true /\ is_exempt (ap_exempt gen_params) SET 1 = true.
Proof. vm_compute. split; reflexivity. Qed.

(* every branch lands on the instruction that followed its label *)
Theorem C03_labels_resolve P T :
  assemble_ir gen_params P = AOk T ->
  forall k mn args ops j l p,
  nth_error P k = Some (AIns mn args ops) ->
  nth_error (all_ops args ops) j = Some (ALabel l) ->
  label_pos P l = Some p ->
  (exists ops'', nth_error T (last_line gen_params P k) = Some (AIns mn [] ops'')
                 /\ nth_error ops'' j = Some (AV (VLit (Z.of_nat (pcmap gen_params P p)))))
  /\ match fetch P p with
     | Some (k', _, _) => (p <= k')%nat /\ pcmap gen_params P p = pcmap gen_params P k'
                          /\ (pcmap gen_params P p < List.length T)%nat
     | None => pcmap gen_params P p = List.length T
     end.
Proof. exact (labels_resolve gen_params P T). Qed.

(* every inserted set writes an R register named nowhere in the source program,
   including inside array entries and slices (named collects those, named_deep) *)
Theorem C03_scratch_fresh P T :
  assemble_ir gen_params P = AOk T ->
  forall k c, nth_error P k = Some c -> is_ins c = true ->
  exists ps : list (reg * Z),
    List.length ps = nsets gen_params (named P) c /\
    NoDup (map fst ps) /\
    (forall i p, nth_error ps i = Some p ->
       nth_error T (pcmap gen_params P k + i) = Some (set_cmd (fst p) (snd p)) /\
       fst (fst p) = ap_bankR gen_params /\ ~ In (fst p) (named P)).
Proof. exact (scratch_fresh gen_params P T). Qed.

Theorem C03_named_deep P k mn args ops :
  nth_error P k = Some (AIns mn args ops) ->
  (forall a b i, In (AEntry a (VReg b i)) ops -> In (b, i) (named P)) /\
  (forall a b i v, In (ASlice a (VReg b i) v) ops \/ In (ASlice a v (VReg b i)) ops -> In (b, i) (named P)) /\
  (forall b i, In (AV (VReg b i)) ops -> In (b, i) (named P)).
Proof. exact (named_deep P k mn args ops). Qed.

(* no source instruction is dropped, duplicated or reordered *)
Theorem C03_no_drop_dup_reorder P T :
  assemble_ir gen_params P = AOk T ->
  exists tbl bs,
    (forall l, tbl_find tbl l = option_map (pcmap gen_params P) (label_pos P l)) /\
    T = flat_map (fun b => (map setc (fst b) ++ [snd b])%list) bs /\
    Forall2 (block_of gen_params (named P) tbl) (filter is_ins P) bs.
Proof. exact (no_drop_dup_reorder gen_params P T). Qed.

(* the main statement: the instruction objects built for any flavour table t
   simulate the source program from every pair of related start states, for
   every number of steps (see AsmProofs.assemble_simulates for the reading of
   cfg_rel) *)
Theorem C03_assemble_simulates (t : list row) P B :
  wf_src P = true -> assemble gen_params t P = AOk B ->
  forall n ss st, eqv gen_params (named P) ss st ->
  exists m, (n <= m)%nat /\
            cfg_rel gen_params P (arun P n (Run 0 ss)) (arun (map embed B) m (Run 0 st)).
Proof.
  intros Hwf Hasm.
  exact (assemble_simulates_flavour gen_params t P B (proj1 C03_params_ok) (proj2 C03_params_ok) Hwf Hasm).
Qed.

(* a finished source run (halted, fault, outside the model) is reproduced for every large enough fuel *)
Theorem C03_assemble_preserves_result P T :
  wf_src P = true -> assemble_ir gen_params P = AOk T ->
  forall n ss st, eqv gen_params (named P) ss st ->
  (forall pc s, arun P n (Run 0 ss) <> Run pc s) ->
  exists m0, forall m, (m0 <= m)%nat -> cfg_rel gen_params P (arun P n (Run 0 ss)) (arun T m (Run 0 st)).
Proof.
  intros Hwf Hasm.
  exact (assemble_preserves_result gen_params P T (proj1 C03_params_ok) (proj2 C03_params_ok) Hwf Hasm).
Qed.

(* no scratch register left: the assembler refuses *)
Theorem C03_assemble_rejects P c :
  In c P -> (List.length (free_regs gen_params (named P)) < need_cmd (ap_exempt gen_params) c)%nat ->
  assemble_ir gen_params P = AErr ENoScratch.
Proof. exact (assemble_rejects gen_params P c). Qed.

(* ---------- character level: the text front end ---------- *)

(* the regenerated bank letters are distinct letters and the generic instruction names are words *)
Theorem C03_front_tables_ok : banks_ok gen_banks = true /\ ginstrs_ok gen_ginstrs = true.
Proof. vm_compute. split; reflexivity. Qed.

(* printing a proto-subroutine (labels, bracket args, literals in every position incl.
   @a[i] and @a[i:j]) and parsing the characters gives it back, any length *)
Theorem C03_parse_print_proto P :
  wf_proto gen_banks gen_ginstrs P = true ->
  parse_text gen_banks gen_ginstrs (print_proto gen_banks P) = Some P.
Proof. exact (parse_print_proto gen_banks gen_ginstrs P (proj1 C03_front_tables_ok) (proj2 C03_front_tables_ok)). Qed.

(* comments, blank and comment-only lines, indentation, trailing blanks change nothing *)
Theorem C03_decorate_parse ds t :
  forallb deco_ok ds = true -> forallb clean_line t = true ->
  parse_text gen_banks gen_ginstrs (decorate ds t) = parse_text gen_banks gen_ginstrs t.
Proof. exact (decorate_parse gen_banks gen_ginstrs ds t). Qed.

Theorem C03_trailing_blanks l ws :
  clean_line l = true -> all_space ws = true -> ends_with COLON l = false ->
  parse_cmd gen_banks gen_ginstrs (l +++ ws) = parse_cmd gen_banks gen_ginstrs l.
Proof. exact (parse_cmd_trailing_blanks gen_banks gen_ginstrs l ws). Qed.

(* macros: the per-key str.replace, longest key first, is the simultaneous substitution of
   whole `$key` tokens, and a text with # DEFINE lines parses like the substituted text *)
Theorem C03_apply_macros_subst ds ps :
  defines_ok ds = true -> pieces_ok ds ps = true -> apply_macros ds (render ps) = subst ds ps.
Proof. exact (apply_macros_subst ds ps). Qed.

Theorem C03_with_defines_parse ds body :
  defines_ok ds = true -> forallb (body_line_ok ds) body = true ->
  parse_text gen_banks gen_ginstrs (with_defines ds body) = parse_text gen_banks gen_ginstrs (substituted ds body).
Proof. exact (with_defines_parse gen_banks gen_ginstrs ds body). Qed.

(* keys q, q2 (a prefix of each other) and a bracket-free value used as index *)
Example C03_macros_nonvacuous :
  let ds := [("q", "Q1"); ("q2", "R2"); ("idx", "@0[R2]")]%string in
  let body := [[PLit "set "; PUse "q2"; PLit " 5"]; [PLit "store "; PUse "q2"; PLit " "; PUse "idx"];
               [PLit "qalloc "; PUse "q"]]%string in
  defines_ok ds && forallb (body_line_ok ds) body
  && existsb (String.eqb "# DEFINE q2 R2") (with_defines ds body)
  && existsb (String.eqb "store R2 @0[R2]") (substituted ds body)
  && match parse_text gen_banks gen_ginstrs (with_defines ds body) with
     | Some [AIns _ _ [AV (VReg 0 2); _]; _; AIns _ _ [AV (VReg 2 1)]] => true
     | _ => false end = true.
Proof. vm_compute. reflexivity. Qed.

(* text in, simulating instruction objects out, for any flavour table *)
Theorem C03_text_program_meaning (t : list row) ds P :
  wf_proto gen_banks gen_ginstrs P = true -> wf_src P = true -> forallb deco_ok ds = true ->
  exists R, assemble_text gen_params gen_banks gen_ginstrs t (decorate ds (print_proto gen_banks P)) = Some R
            /\ R = assemble gen_params t P /\
  forall B, R = AOk B ->
  forall n ss st, eqv gen_params (named P) ss st ->
  exists m, (n <= m)%nat /\
            cfg_rel gen_params P (arun P n (Run 0 ss)) (arun (map embed B) m (Run 0 st)).
Proof.
  exact (text_program_meaning gen_params gen_banks gen_ginstrs t ds P (proj1 C03_front_tables_ok)
           (proj2 C03_front_tables_ok) (proj1 C03_params_ok) (proj2 C03_params_ok)).
Qed.

(* ---------- event semantics: programs with non-classical instructions ---------- *)

(* the regenerated exemption table keeps the immediates of the gate instructions (and set's) literal *)
Theorem C03_qexempt_ok : qexempt_ok gen_exempt = true.
Proof. vm_compute. reflexivity. Qed.

(* the simulation over AsmSemQ: classical instructions as before; gates / init / rotations / two-qubit
   gates / controlled rotations / EPR instructions emit an event with the operand VALUES, meas writes a
   scripted outcome, qalloc/qfree keep the unit module, ret_reg/ret_arr emit events.  Related
   configurations have EQUAL event trace, unit module and remaining script (eqv_q), so the inserted
   sets emit nothing and the trace of the assembled program is the source's trace. *)
Theorem C03_assemble_simulates_q (t : list row) P B :
  wf_src_q P = true -> assemble gen_params t P = AOk B ->
  forall n ss st, eqv_q gen_params (named P) ss st ->
  exists m, (n <= m)%nat /\
            cfg_rel_q gen_params P (arun_q P n (QRun 0 ss)) (arun_q (map embed B) m (QRun 0 st)).
Proof.
  intros Hwf Hasm.
  exact (assemble_simulates_flavour_q gen_params t P B (proj1 C03_params_ok) C03_qexempt_ok Hwf Hasm).
Qed.

Theorem C03_assemble_preserves_result_q P T :
  wf_src_q P = true -> assemble_ir gen_params P = AOk T ->
  forall n ss st, eqv_q gen_params (named P) ss st ->
  (forall pc s, arun_q P n (QRun 0 ss) <> QRun pc s) ->
  exists m0, forall m, (m0 <= m)%nat ->
    cfg_rel_q gen_params P (arun_q P n (QRun 0 ss)) (arun_q T m (QRun 0 st)).
Proof.
  intros Hwf Hasm.
  exact (assemble_preserves_result_q gen_params P T (proj1 C03_params_ok) C03_qexempt_ok Hwf Hasm).
Qed.

Theorem C03_assemble_trace_q P T :
  wf_src_q P = true -> assemble_ir gen_params P = AOk T ->
  forall n ss st, eqv_q gen_params (named P) ss st ->
  forall s, arun_q P n (QRun 0 ss) = QHalted s ->
  exists m t, arun_q T m (QRun 0 st) = QHalted t /\ qa_trace t = qa_trace s /\ qa_um t = qa_um s
              /\ qa_script t = qa_script s /\ eqv gen_params (named P) (qa_st s) (qa_st t).
Proof.
  intros Hwf Hasm.
  exact (assemble_trace_q gen_params P T (proj1 C03_params_ok) C03_qexempt_ok Hwf Hasm).
Qed.

Theorem C03_text_program_meaning_q (t : list row) ds P :
  wf_proto gen_banks gen_ginstrs P = true -> wf_src_q P = true -> forallb deco_ok ds = true ->
  exists R, assemble_text gen_params gen_banks gen_ginstrs t (decorate ds (print_proto gen_banks P)) = Some R
            /\ R = assemble gen_params t P /\
  forall B, R = AOk B ->
  forall n ss st, eqv_q gen_params (named P) ss st ->
  exists m, (n <= m)%nat /\
            cfg_rel_q gen_params P (arun_q P n (QRun 0 ss)) (arun_q (map embed B) m (QRun 0 st)).
Proof.
  exact (text_program_meaning_q gen_params gen_banks gen_ginstrs t ds P (proj1 C03_front_tables_ok)
           (proj2 C03_front_tables_ok) (proj1 C03_params_ok) C03_qexempt_ok).
Qed.

(* ---------- instruction-level export of the simulation (for the end-to-end chain) ---------- *)

(* the executed instructions of the assembled program, with the values their operands had, are
   those of the source program with the inserted sets in front of each (log_rel), besides
   everything assemble_simulates_q says *)
Theorem C03_assemble_log_q P T :
  wf_src_q P = true -> assemble_ir gen_params P = AOk T ->
  forall n ss st, eqv_q gen_params (named P) ss st ->
  exists m, (n <= m)%nat
    /\ cfg_rel_q gen_params P (arun_q P n (QRun 0 ss)) (arun_q T m (QRun 0 st))
    /\ log_rel gen_params P (alog_q P n (QRun 0 ss)) (alog_q T m (QRun 0 st)).
Proof.
  intros Hwf Hasm.
  exact (assemble_log_q gen_params P T (proj1 C03_params_ok) C03_qexempt_ok Hwf Hasm).
Qed.

(* "nothing bad was executed" transfers from a halting source run to the assembled run, for every
   predicate on (mnemonic, operand values) that is false of set and insensitive to label resolution *)
Theorem C03_assemble_halts_no_bad_q P T (bad : string -> list oval -> bool) :
  wf_src_q P = true -> assemble_ir gen_params P = AOk T ->
  (forall vs, bad SET vs = false) ->
  (forall mn vs vs', Forall2 (oval_rel gen_params P) vs vs' -> bad mn vs' = true -> bad mn vs = true) ->
  forall n ss st s, eqv_q gen_params (named P) ss st ->
  arun_q P n (QRun 0 ss) = QHalted s ->
  (forall e, In e (alog_q P n (QRun 0 ss)) -> bad (snd (fst e)) (snd e) = false) ->
  exists m t, arun_q T m (QRun 0 st) = QHalted t /\ eqv_q gen_params (named P) s t
    /\ (forall e, In e (alog_q T m (QRun 0 st)) -> bad (snd (fst e)) (snd e) = false).
Proof.
  intros Hwf Hasm.
  exact (assemble_halts_no_bad_q gen_params P T bad (proj1 C03_params_ok) C03_qexempt_ok Hwf Hasm).
Qed.

(* the assembler's output is in machine form: accepted by the embedding into the common semantics
   (Bridge_AsmQ.e_qprog), for programs over the modelled mnemonics; and the assembler accepts when the
   labels are distinct and every command finds enough unnamed R registers *)
Theorem C03_qexempt_exact : qexempt_exact gen_exempt = true /\ bank_valid (ap_bankR gen_params) = true.
Proof. vm_compute. split; reflexivity. Qed.

Theorem C03_assemble_machine_form P T :
  wf_src_q P = true -> modelled P = true -> banks_valid P = true -> labels_defined P = true ->
  assemble_ir gen_params P = AOk T ->
  exists p, e_qprog T = Some p.
Proof. exact (assemble_machine_form gen_params P T (proj1 C03_qexempt_exact) (proj2 C03_qexempt_exact)). Qed.

Theorem C03_assemble_ir_accepts P :
  NoDup (labels_of P) ->
  (forall c, In c P -> (need_cmd (ap_exempt gen_params) c <= List.length (free_regs gen_params (named P)))%nat) ->
  exists T, assemble_ir gen_params P = AOk T.
Proof. exact (assemble_ir_accepts gen_params P). Qed.

(* ---------- reserved registers (assemble_subroutine(..., reserved_registers=...)) ---------- *)

(* scratch registers avoid the named AND the reserved registers *)
Theorem C03_scratch_fresh_res rsv P T :
  assemble_ir_res gen_params rsv P = AOk T ->
  forall k c, nth_error P k = Some c -> is_ins c = true ->
  exists ps : list (reg * Z),
    List.length ps = nsets gen_params (named P ++ rsv) c /\ NoDup (map fst ps) /\
    (forall i p, nth_error ps i = Some p ->
       nth_error T (pcmap_nm gen_params (named P ++ rsv) P k + i) = Some (set_cmd (fst p) (snd p)) /\
       fst (fst p) = ap_bankR gen_params /\ ~ In (fst p) (named P) /\ ~ In (fst p) rsv).
Proof. exact (scratch_fresh_res gen_params rsv P T). Qed.

Theorem C03_assemble_simulates_res rsv P T :
  wf_src P = true -> assemble_ir_res gen_params rsv P = AOk T ->
  forall n ss st, eqv gen_params (named P ++ rsv) ss st ->
  exists m, (n <= m)%nat /\ cfg_rel_res gen_params rsv P (arun P n (Run 0 ss)) (arun T m (Run 0 st)).
Proof.
  intros Hwf Hasm.
  exact (assemble_simulates_res gen_params rsv P T (proj1 C03_params_ok) (proj2 C03_params_ok) Hwf Hasm).
Qed.

(* a reserved register keeps its value across the assembled subroutine even if the subroutine does not mention it *)
Theorem C03_reserved_preserved rsv P T :
  wf_src P = true -> assemble_ir_res gen_params rsv P = AOk T ->
  forall n ss st s, eqv gen_params (named P ++ rsv) ss st -> arun P n (Run 0 ss) = Halted s ->
  exists m t, arun T m (Run 0 st) = Halted t /\ forall r, In r rsv -> s_regs s r = s_regs t r.
Proof.
  intros Hwf Hasm.
  exact (reserved_preserved gen_params rsv P T (proj1 C03_params_ok) (proj2 C03_params_ok) Hwf Hasm).
Qed.

(* non-vacuity: a program with a counted loop, consecutive labels, a label after the
   last instruction, literals at top level and as array index, bracket args and a
   register that occurs only as an index meets the hypotheses, assembles, and both
   programs halt with the same arrays and shared memory *)
Local Open Scope string_scope.
Definition C03_example : list acmd :=
  [AIns "array" [4] [AAddr 0]; AIns "set" [] [AV (VReg 0 0); AV (VLit 0)];
   ALab "top"; ALab "again";
   AIns "store" [] [AV (VLit 7); AEntry 0 (VReg 0 0)];
   AIns "store" [5] [AEntry 0 (VLit 3)];
   AIns "add" [] [AV (VReg 0 0); AV (VReg 0 0); AV (VLit 1)];
   AIns "blt" [] [AV (VReg 0 0); AV (VLit 3); ALabel "top"];
   AIns "bez" [] [AV (VReg 1 2); ALabel "end"];
   AIns "ret_arr" [] [AAddr 0]; AIns "ret_reg" [] [AV (VReg 0 0)];
   ALab "end"].

Example C03_nonvacuous :
  wf_src C03_example &&
  match assemble gen_params gen_vanilla C03_example with
  | AOk B =>
      Nat.eqb (List.length B) 15 &&
      match arun C03_example 100 (Run 0 init_state), arun (map embed B) 100 (Run 0 init_state) with
      | Halted a, Halted b =>
          zmap_eqb arr_eqb (m_arr (s_mem a)) [(0, [Some 7; Some 7; Some 7; Some 5])]
          && zmap_eqb arr_eqb (m_arr (s_mem b)) [(0, [Some 7; Some 7; Some 7; Some 5])]
          && rmap_eqb (m_shreg (s_mem b)) [((0, 0), 3)]
          && zmap_eqb arr_eqb (sharr_view (s_mem b)) [(0, [Some 7; Some 7; Some 7; Some 5])]
      | _, _ => false
      end
  | AErr _ => false
  end = true.
Proof. vm_compute. reflexivity. Qed.

(* all sixteen R registers named and one literal to materialise: rejected *)
Example C03_rejects_nonvacuous :
  let P := (map (fun i => AIns "set" [] [AV (VReg 0 (Z.of_nat i)); AV (VLit 0)]) (seq 0 16)
            ++ [AIns "store" [] [AV (VLit 1); AEntry 0 (VReg 0 0)]])%list in
  match assemble_ir gen_params P with AErr ENoScratch => true | _ => false end = true.
Proof. vm_compute. reflexivity. Qed.

(* the example program has a text; decorated, it is read back and assembled *)
Example C03_front_nonvacuous :
  let ds := [mkDeco [("  ", None); ("", Some " a comment")] " " "" (Some " declare"); mkDeco [] "" "  " None;
             mkDeco [("", None)] "	" "" None] in
  let text := decorate ds (print_proto gen_banks C03_example) in
  wf_proto gen_banks gen_ginstrs C03_example && forallb deco_ok ds
  && existsb (String.eqb " # NETQASM 1.0// declare") text
  && existsb (String.eqb "store(5) @0[3]") text
  && match assemble_text gen_params gen_banks gen_ginstrs gen_vanilla text with
     | Some (AOk B) => Nat.eqb (List.length B) 15
     | _ => false
     end = true.
Proof. vm_compute. reflexivity. Qed.

(* a program with qalloc on a literal, init, a rotation with immediates, cnot on a literal qubit,
   a measurement with scripted outcome 1, a branch on it, returns and qfree: well-formed, assembled
   for the vanilla table, source and assembled program halt with the same eight events *)
Example C03_q_nonvacuous :
  let P := [AIns "set" [] [AV (VReg 2 1); AV (VLit 1)]; AIns "qalloc" [] [AV (VLit 0)];
            AIns "qalloc" [] [AV (VReg 2 1)]; AIns "init" [] [AV (VReg 2 1)];
            AIns "rot_x" [] [AV (VReg 2 1); AV (VLit 1); AV (VLit 2)];
            AIns "cnot" [] [AV (VLit 0); AV (VReg 2 1)];
            AIns "meas" [] [AV (VReg 2 1); AV (VReg 3 0)];
            AIns "bez" [] [AV (VReg 3 0); ALabel "skip"];
            AIns "x" [] [AV (VLit 0)]; ALab "skip";
            AIns "ret_reg" [] [AV (VReg 3 0)]; AIns "qfree" [] [AV (VReg 2 1)]] in
  wf_src_q P &&
  match assemble gen_params gen_vanilla P with
  | AOk B =>
      match arun_q P 100 (QRun 0 (init_qstate 5 [1])), arun_q (map embed B) 100 (QRun 0 (init_qstate 5 [1])) with
      | QHalted a, QHalted b =>
          list_eqb aevent_eqb (qa_trace a) (qa_trace b)
          && list_eqb aevent_eqb (rev (qa_trace a))
               [EvAlloc 0; EvAlloc 1; EvGate "init" [] [1]; EvGate "rot_x" [1; 2] [1]; EvGate "cnot" [] [0; 1];
                EvMeas 1 1; EvGate "x" [] [0]; EvRetReg (3, 0) 1; EvFree 1]
          && list_eqb Bool.eqb (qa_um b) [true; false; false; false; false]
      | _, _ => false
      end
  | AErr _ => false
  end = true.
Proof. vm_compute. reflexivity. Qed.

Print Assumptions C03_assemble_simulates.
Print Assumptions C03_assemble_preserves_result.
Print Assumptions C03_labels_resolve.
Print Assumptions C03_scratch_fresh.
Print Assumptions C03_no_drop_dup_reorder.
Print Assumptions C03_assemble_rejects.
Print Assumptions C03_parse_print_proto.
Print Assumptions C03_decorate_parse.
Print Assumptions C03_text_program_meaning.
Print Assumptions C03_with_defines_parse.
Print Assumptions C03_apply_macros_subst.
Print Assumptions C03_assemble_simulates_q.
Print Assumptions C03_assemble_trace_q.
Print Assumptions C03_text_program_meaning_q.
Print Assumptions C03_assemble_log_q.
Print Assumptions C03_assemble_halts_no_bad_q.
Print Assumptions C03_scratch_fresh_res.
Print Assumptions C03_assemble_simulates_res.
Print Assumptions C03_reserved_preserved.
Print Assumptions C03_assemble_machine_form.
Print Assumptions C03_assemble_ir_accepts.
