(* C03 — assembling text or IR into a subroutine preserves program meaning. *)
From Coq Require Import ZArith List Bool String.
From NQ Require Import Base.Bits Lang.Codec Lang.Asm Lang.AsmSem Lang.Text Lang.AsmCheck.
From Gen Require Import Gen_Codec Gen_Asm.
Import ListNotations.
Open Scope Z_scope.

Theorem C03_exempt_ok : exempt_ok gen_exempt = true.
Proof. vm_compute. reflexivity. Qed.
