(* C06 — pre-compiled templated subroutines equal direct compilation.
   Statements only; proofs in Proofs/ConnProofs.v.  Gen_Conn is regenerated from the
   live assembler on every run. *)
From Coq Require Import ZArith List Bool String.
From NQ Require Import Sdk.Conn Proofs.ConnProofs Nv.Transpile Proofs.TranspileProofs.
From Gen Require Import Gen_Conn Gen_NvBlocks.
Import ListNotations.
Open Scope string_scope.

(* the positions where the SDK puts Template operands (numerator / denominator of
   rot_x/y/z and crot_x/y) are immediates the assembler leaves alone *)
Theorem C06_template_positions_exempt :
  forallb (fun nj => is_exempt gen_exempt (fst nj) (snd nj))
          [("rot_x", 1); ("rot_x", 2); ("rot_y", 1); ("rot_y", 2); ("rot_z", 1); ("rot_z", 2);
           ("crot_x", 2); ("crot_x", 3); ("crot_y", 2); ("crot_y", 3)]%nat = true.
Proof. vm_compute. reflexivity. Qed.

(* filling templates after assembling = assembling the program written with the values
   (all programs, all valuations) *)
Theorem C06_instantiate_commutes : forall v p,
  templates_only_in_exempt_positions gen_exempt p ->
  instantiate v (assemble gen_exempt p) = assemble gen_exempt (subst v p).
Proof. exact (instantiate_commutes gen_exempt). Qed.

(* compile; instantiate; commit leaves the connection in the state a flush of the same
   operations (written with the values) leaves it in, and sends the same subroutine *)
Theorem C06_compile_then_commit_state : forall c v,
  templates_only_in_exempt_positions gen_exempt (pending c) ->
  let c1 := apply_op gen_exempt (apply_op gen_exempt (apply_op gen_exempt c SCompile) (SInstantiate v)) SCommit in
  let c2 := apply_op gen_exempt (subst_conn v c) SFlush in
  conn_state c1 = conn_state c2 /\ sent c1 = sent c2 /\ held c1 = None /\
  (pop_pending gen_exempt c <> None -> arrs_ret c1 = [] /\ regs_ret c1 = [] /\ pending c1 = []).
Proof. exact (compile_then_commit_state gen_exempt). Qed.

(* over any mix of operations, flushes, compile / instantiate / commit: no subroutine
   re-declares an array whose results an earlier subroutine returned *)
Theorem C06_no_redeclare : forall l, no_redeclare (sent (run_ops gen_exempt conn0 l)).
Proof. exact (no_redeclare_any_history gen_exempt). Qed.

(* operations queued between compile() and commit_subroutine() belong to the next
   subroutine: committing the pre-compiled one must not touch their pending arrays /
   registers (nor must instantiate) *)
Theorem C06_ops_between_compile_and_commit_go_to_next : forall c v mid1 mid2,
  Forall queue_op mid1 -> Forall queue_op mid2 ->
  let pre := apply_op gen_exempt (run_ops gen_exempt (apply_op gen_exempt (run_ops gen_exempt
               (apply_op gen_exempt c SCompile) mid1) (SInstantiate v)) mid2) SCommit in
  let dir := run_ops gen_exempt (run_ops gen_exempt (apply_op gen_exempt c SFlush) mid1) mid2 in
  conn_state pre = conn_state dir /\ pop_pending gen_exempt pre = pop_pending gen_exempt dir.
Proof. exact (ops_between_compile_and_commit_go_to_next gen_exempt). Qed.

Example C06_between_nonvacuous :
  let m := SMeasArr ("meas", [OReg 0; OReg 0]) in
  let c := run_ops gen_exempt conn0 [SGate ("rot_x", [OReg 0; OTmpl "a"; OInt 4]); m] in
  let pre := run_ops gen_exempt c [SCompile; m; SInstantiate (fun _ => 3%Z); SMeasReg 0 ("meas", [OReg 0; OReg 0]); SCommit; SFlush] in
  views_eqb (map sub_view (sent pre)) [([0], [0], []); ([1], [1], [0])]%nat = true.
Proof. vm_compute. reflexivity. Qed.

(* a failed instantiate() (a template without a value) leaves the compiled subroutine as
   it was: failing and retrying commits exactly what one successful instantiate() commits *)
Theorem C06_failed_instantiate_then_retry : forall c v mid,
  Forall queue_op mid ->
  apply_op gen_exempt (apply_op gen_exempt (run_ops gen_exempt (apply_op gen_exempt (apply_op gen_exempt c SCompile)
     SInstantiateFail) mid) (SInstantiate v)) SCommit =
  apply_op gen_exempt (apply_op gen_exempt (run_ops gen_exempt (apply_op gen_exempt c SCompile) mid) (SInstantiate v)) SCommit.
Proof. exact (failed_instantiate_then_retry gen_exempt). Qed.

(* with the NV transpile pass (simulation mode): filling the rotation immediates and
   transpiling commute, for ALL programs of the C08 transpiler model at the regenerated
   decomposition table.  A Template is represented by the (negative) integer standing for
   it; instantiation maps those codes to values and leaves every concrete immediate
   alone — in particular all immediates the decompositions introduce (they are >= 0).
   (Hardware angle mode is excluded: the real transpiler reads `.value` of the immediate
   there, which a Template does not have.) *)
Theorem C06_table_immediates_nonneg : nonneg_table gen_tables = true.
Proof. vm_compute. reflexivity. Qed.

Theorem C06_transpile_instantiate_commute : forall (vn vd : Z -> Z) debug p,
  let f := fun n => if (n <? 0)%Z then vn n else n in
  let g := fun d => if (d <? 0)%Z then vd d else d in
  let c := mkConfig debug false gen_tables in
  transpile c (map (map_rot f g) p) = map_res f g (transpile c p).
Proof.
  intros vn vd debug p f g c. apply transpile_instantiate_commute; [reflexivity|].
  apply nonneg_table_fixes; [exact C06_table_immediates_nonneg | |];
    intros x Hx; unfold f, g; destruct (Z.ltb_spec x 0); [exfalso; apply (Z.lt_irrefl x); eapply Z.lt_le_trans; eassumption | reflexivity |
                                                        exfalso; apply (Z.lt_irrefl x); eapply Z.lt_le_trans; eassumption | reflexivity].
Qed.

Example C06_commute_nonvacuous :
  let f := fun n => if (n <? 0)%Z then 5%Z else n in
  let c := mkConfig false false gen_tables in
  let p := [ISet (mkReg BQ 0) 1; ISet (mkReg BQ 1) 2; IGate2 Cnot (mkReg BQ 0) (mkReg BQ 1);
            IRot AX (mkReg BQ 0) (-1) 4; IBr1 Bez (mkReg BR 0) 5] in
  match transpile c (map (map_rot f (fun d => d)) p), transpile c p with
  | Ok a, Ok b => Nat.ltb 30 (List.length a) && Nat.eqb (List.length a) (List.length b)
  | _, _ => false end = true.
Proof. vm_compute. reflexivity. Qed.

(* non-vacuity: a templated rotation and a measurement into an array, precompiled,
   followed by a second measurement that is flushed *)
Definition ex_ops (v : string -> Z) : list sop :=
  [SGate ("rot_x", [OReg 0; OTmpl "a"; OInt 4]); SGate ("add", [OReg 1; OReg 2; OInt 7]);
   SMeasArr ("meas", [OReg 0; OReg 0]); SCompile; SInstantiate v; SCommit;
   SMeasArr ("meas", [OReg 0; OReg 0]); SFlush].
Example C06_nonvacuous :
  let v := fun _ => 3%Z in
  let c := run_ops gen_exempt conn0 (ex_ops v) in
  tmpl_exempt_b gen_exempt [("rot_x", [OReg 0; OTmpl "a"; OInt 4]); ("add", [OReg 1; OReg 2; OInt 7])] &&
  views_eqb (map sub_view (sent c)) [([0], [0], []); ([1], [1], [])]%nat &&
  match sent c with
  | s :: _ => match s_body s with
              | Some [("rot_x", [OReg 0; OInt 3; OInt 4]); ("set", [OReg 3; OInt 7]); ("add", [OReg 1; OReg 2; OReg 3]); _] => true
              | _ => false end
  | _ => false end = true.
Proof. vm_compute. reflexivity. Qed.

(* a Template in a NON-exempt position does not commute (the hypothesis is needed) *)
Example C06_commute_needs_exempt :
  let p := [("add", [OReg 1; OReg 2; OTmpl "a"])] in
  instantiate (fun _ => 7%Z) (assemble gen_exempt p) <> assemble gen_exempt (subst (fun _ => 7%Z) p).
Proof. vm_compute. discriminate. Qed.

(* regression: the behaviour before the repair (compile() without reset) re-declares *)
Example C06_old_compile_redeclares :
  let c1 := apply_op gen_exempt conn0 (SMeasArr ("meas", [OReg 0; OReg 0])) in
  let c2 := apply_op gen_exempt (compile_noreset gen_exempt c1) SCommit in
  let c3 := apply_op gen_exempt (apply_op gen_exempt c2 (SGate ("h", [OReg 0]))) SFlush in
  map sub_view (sent c3) = [([0], [0], []); ([0], [0], [])]%nat.
Proof. vm_compute. reflexivity. Qed.

Print Assumptions C06_instantiate_commutes.
Print Assumptions C06_compile_then_commit_state.
Print Assumptions C06_no_redeclare.
Print Assumptions C06_ops_between_compile_and_commit_go_to_next.
Print Assumptions C06_transpile_instantiate_commute.
