(* C06 — pre-compiled templated subroutines equal direct compilation.
   Statements only; proofs in Proofs/ConnProofs.v.  Gen_Conn is regenerated from the
   live assembler on every run. *)
From Coq Require Import ZArith List Bool String.
From NQ Require Import Sdk.Conn Proofs.ConnProofs.
From Gen Require Import Gen_Conn.
Import ListNotations.
Open Scope string_scope.

(* the positions where the SDK puts Template operands (numerator / denominator of
   rot_x/y/z and crot_x/y) are immediates the assembler leaves alone *)
Theorem C06_template_positions_exempt :
  forallb (fun nj => is_exempt gen_exempt (fst nj) (snd nj))
          [("rot_x", 1); ("rot_x", 2); ("rot_y", 1); ("rot_y", 2); ("rot_z", 1); ("rot_z", 2);
           ("crot_x", 2); ("crot_x", 3); ("crot_y", 2); ("crot_y", 3)]%nat = true.
Proof. vm_compute. reflexivity. Qed.

(* filling templates after assembling = assembling the program written with the values
   (all programs, all valuations) *)
Theorem C06_instantiate_commutes : forall v p,
  templates_only_in_exempt_positions gen_exempt p ->
  instantiate v (assemble gen_exempt p) = assemble gen_exempt (subst v p).
Proof. exact (instantiate_commutes gen_exempt). Qed.

(* compile; instantiate; commit leaves the connection in the state a flush of the same
   operations (written with the values) leaves it in, and sends the same subroutine *)
Theorem C06_compile_then_commit_state : forall c v,
  templates_only_in_exempt_positions gen_exempt (pending c) ->
  let c1 := apply_op gen_exempt (apply_op gen_exempt (apply_op gen_exempt c SCompile) (SInstantiate v)) SCommit in
  let c2 := apply_op gen_exempt (subst_conn v c) SFlush in
  conn_state c1 = conn_state c2 /\ sent c1 = sent c2 /\ held c1 = None /\
  (pop_pending gen_exempt c <> None -> arrs_ret c1 = [] /\ regs_ret c1 = [] /\ pending c1 = []).
Proof. exact (compile_then_commit_state gen_exempt). Qed.

(* over any mix of operations, flushes, compile / instantiate / commit: no subroutine
   re-declares an array whose results an earlier subroutine returned *)
Theorem C06_no_redeclare : forall l, no_redeclare (sent (run_ops gen_exempt conn0 l)).
Proof. exact (no_redeclare_any_history gen_exempt). Qed.

(* non-vacuity: a templated rotation and a measurement into an array, precompiled,
   followed by a second measurement that is flushed *)
Definition ex_ops (v : string -> Z) : list sop :=
  [SGate ("rot_x", [OReg 0; OTmpl "a"; OInt 4]); SGate ("add", [OReg 1; OReg 2; OInt 7]);
   SMeasArr ("meas", [OReg 0; OReg 0]); SCompile; SInstantiate v; SCommit;
   SMeasArr ("meas", [OReg 0; OReg 0]); SFlush].
Example C06_nonvacuous :
  let v := fun _ => 3%Z in
  let c := run_ops gen_exempt conn0 (ex_ops v) in
  tmpl_exempt_b gen_exempt [("rot_x", [OReg 0; OTmpl "a"; OInt 4]); ("add", [OReg 1; OReg 2; OInt 7])] &&
  views_eqb (map sub_view (sent c)) [([0], [0], []); ([1], [1], [])]%nat &&
  match sent c with
  | s :: _ => match s_body s with
              | Some [("rot_x", [OReg 0; OInt 3; OInt 4]); ("set", [OReg 3; OInt 7]); ("add", [OReg 1; OReg 2; OReg 3]); _] => true
              | _ => false end
  | _ => false end = true.
Proof. vm_compute. reflexivity. Qed.

(* a Template in a NON-exempt position does not commute (the hypothesis is needed) *)
Example C06_commute_needs_exempt :
  let p := [("add", [OReg 1; OReg 2; OTmpl "a"])] in
  instantiate (fun _ => 7%Z) (assemble gen_exempt p) <> assemble gen_exempt (subst (fun _ => 7%Z) p).
Proof. vm_compute. discriminate. Qed.

(* regression: the behaviour before the repair (compile() without reset) re-declares *)
Example C06_old_compile_redeclares :
  let c1 := apply_op gen_exempt conn0 (SMeasArr ("meas", [OReg 0; OReg 0])) in
  let c2 := apply_op gen_exempt (compile_noreset gen_exempt c1) SCommit in
  let c3 := apply_op gen_exempt (apply_op gen_exempt c2 (SGate ("h", [OReg 0]))) SFlush in
  map sub_view (sent c3) = [([0], [0], []); ([0], [0], [])]%nat.
Proof. vm_compute. reflexivity. Qed.

Print Assumptions C06_instantiate_commutes.
Print Assumptions C06_compile_then_commit_state.
Print Assumptions C06_no_redeclare.
