(* C08_statevector — the quantum half of C08 on a CONCRETE state space, without the
   action-law hypotheses of C08_transpile_simulates_quantum_c07.

   State space (Proofs/QMatAlgebra.v): amplitude functions on the basis assignments of
   all qubit ids, over ANY commutative ring R with omega^32 = -1 and 2 invertible
   (every finite-register state vector is one: a function that ignores the other
   qubits); an operator U on the wires W acts by
       (act W U psi)(sigma) = sum_l U_R[sigma|W][l] * psi(sigma[W := l]),
   U_R the image of the exact K32 matrix; states are compared up to a global phase
   omega^p.  The laws act_mul / act_id / act_phase / act_embed assumed in C08.v are
   THEOREMS for this action (for all duplicate-free wire lists of any length).
   What remains a parameter: `other`, the meaning of the non-unitary events
   (allocation, initialisation, measurement, EPR, returns), which only has to respect
   the equivalence.  No axioms. *)
From Coq Require Import ZArith List Bool String Ring_theory.
From NQ Require Import Base.Cyclo Base.QMat Nv.NvSem Proofs.QMatProofs Proofs.CycloProofs Proofs.QMatAlgebra.
From NQ Require Import Nv.Transpile Nv.TranspileCheck Nv.QAct Proofs.TranspileProofs Proofs.QActProofs.
From Gen Require Import Gen_NvDecomp Gen_NvBlocks C08.
Import ListNotations.
Open Scope Z_scope.

Section StateVector.
  Variable R : Type.
  Variables (rO rI : R) (radd rmul rsub : R -> R -> R) (ropp : R -> R).
  Hypothesis Rth : ring_theory rO rI radd rmul rsub ropp (@eq R).
  Variables (omega half : R).
  Hypothesis omega32 : opow R rI rmul omega 32 = ropp rI.
  Hypothesis half2 : rmul (radd rI rI) half = rI.

  Definition SV : Type := qstate R.
  Definition sv_eq : SV -> SV -> Prop := qeq R rI rmul omega.
  Definition sv_act : list Z -> mat -> SV -> SV := act R rO rI radd rmul ropp omega half.

  (* the four action laws, as theorems *)
  Theorem C08_sv_act_mul : forall W A B psi, NoDup W ->
    dims_ok (2 ^ List.length W) (2 ^ List.length W) A = true ->
    dims_ok (2 ^ List.length W) (2 ^ List.length W) B = true ->
    sv_eq (sv_act W (mmul B A) psi) (sv_act W B (sv_act W A psi)).
  Proof. exact (act_mul R rO rI radd rmul rsub ropp Rth omega half omega32 half2). Qed.

  Theorem C08_sv_act_id : forall W psi, NoDup W -> sv_eq (sv_act W (mid (2 ^ List.length W)) psi) psi.
  Proof. exact (act_id R rO rI radd rmul rsub ropp Rth omega half). Qed.

  Theorem C08_sv_act_phase : forall W p M psi, NoDup W ->
    dims_ok (2 ^ List.length W) (2 ^ List.length W) M = true ->
    sv_eq (sv_act W (mscale (kw p) M) psi) (sv_act W M psi).
  Proof. exact (act_phase R rO rI radd rmul rsub ropp Rth omega half omega32 half2). Qed.

  Theorem C08_sv_act_embed : forall W ws G psi, NoDup W -> embed_ok (List.length W) ws G = true ->
    sv_eq (sv_act W (embed (List.length W) ws G) psi) (sv_act (map (fun i => nth i W 0) ws) G psi).
  Proof. exact (act_embed R rO rI radd rmul rsub ropp Rth omega half). Qed.

  (* finite registers: a state vector v on n wires (2^n ring elements) is the cylinder
     state `cyl n v`; on it the action of U on the wires ws IS the matrix-vector product
     with the ring image of QMat.embed n ws U *)
  Theorem C08_sv_finite_register : forall n ws U v, embed_ok n ws U = true -> List.length v = (2 ^ n)%nat ->
    sv_eq (sv_act (map Z.of_nat ws) U (cyl R rO n v))
          (cyl R rO n (rmatvec R rO radd rmul
                         (map (map (QMatLift.ev R rO rI radd rmul ropp omega half)) (embed n ws U)) v)).
  Proof. exact (act_wires_cyl R rO rI radd rmul rsub ropp Rth omega half omega32). Qed.

  (* the quantum half of the simulation on state vectors *)
  Variable other : event -> SV -> SV.
  Hypothesis other_proper : forall e a b, sv_eq a b -> sv_eq (other e a) (other e b).

  Theorem C08_transpile_simulates_statevector : forall env debug hw p p' s0 fuel pcf sf psi,
    transpile (cfg debug hw) p = Ok p' -> scratch_fresh (cfg debug hw) p -> trace s0 = [] ->
    tracked_run env (cfg debug hw) p fuel 0 s0 = true ->
    run env p fuel 0 s0 = (Halted, pcf, sf) ->
    exists fuel' pcf' sf',
      run env (erase p') fuel' 0 s0 = (Halted, pcf', sf') /\
      agree (clobbered (cfg debug hw) p) (regs sf) (regs sf') /\ arrs sf = arrs sf' /\ script sf = script sf' /\
      sv_eq (run_q SV (apply_ev SV sv_act rot_opK crot_opK other (cfg debug hw)) (trace sf') psi)
            (run_q SV (apply_ev SV sv_act rot_opK crot_opK other (cfg debug hw)) (trace sf) psi).
  Proof.
    exact (C08_transpile_simulates_quantum_c07 SV sv_eq sv_act rot_opK crot_opK other
             (qeq_refl R rO rI radd rmul rsub ropp Rth omega)
             (qeq_sym R rO rI radd rmul rsub ropp Rth omega omega32)
             (qeq_trans R rO rI radd rmul rsub ropp Rth omega)
             (act_proper R rO rI radd rmul rsub ropp Rth omega half)
             other_proper C08_sv_act_mul C08_sv_act_id C08_sv_act_phase C08_sv_act_embed
             rot_exactK crot_exactK rot_angle_onlyK).
  Qed.
  (* ---- END-TO-END with a concrete meaning of EVERY event: unitary events act as above; a
     measurement event carries the outcome the classical half took from the script and acts as
     the projector onto that outcome (unnormalised post-measurement state: its squared norm is the
     probability of the script); allocation / initialisation of a fresh qubit / free / returned
     registers and arrays / EPR bookkeeping do not change the amplitudes.
     For the transpiler MODEL (tied to the real transpiler by the instruction-list
     correspondence of the C08 check), every program in its domain, EVERY initial classical state
     (registers, arrays, measurement-outcome script) and EVERY input state psi:
     the NV program halts with the same arrays, the same remaining script, registers agreeing off
     the clobbered scratch registers, and the SAME FINAL QUANTUM STATE up to a global phase omega^p.
     Remaining hypotheses, none of them about the state space:
       transpile = Ok p'   (the program is in the transpiler's domain),
       scratch_fresh_b     (decidable: the borrowed scratch Q registers are not mentioned by the program),
       trace s0 = []       (start of the run),
       tracked_run         (decidable per run: whenever a gate executes, its Q registers hold the value
                            of the last `set` in text order; WITHOUT it the statement is false -
                            C08_transpile_simulates_refuted, the recorded finding about `load`ed registers),
       the vanilla run halts within `fuel` steps. ---- *)
  Definition other_meas (e : event) (psi : SV) : SV :=
    match e with
    | EvMeas q o => proj_q R rO q (Z.eqb o 1) psi
    | _ => psi
    end.

  Lemma other_meas_proper : forall e a b, sv_eq a b -> sv_eq (other_meas e a) (other_meas e b).
  Proof.
    intros e a b H. destruct e; try exact H.
    exact (proj_q_proper R rO rI radd rmul rsub ropp Rth omega q (Z.eqb outcome 1) a b H).
  Qed.

  Definition sv_run (debug hw : bool) : list event -> SV -> SV :=
    run_q SV (apply_ev SV sv_act rot_opK crot_opK other_meas (cfg debug hw)).

  Theorem C08_end_to_end_statevector : forall env debug hw p p' s0 fuel pcf sf psi,
    transpile (cfg debug hw) p = Ok p' -> scratch_fresh_b (cfg debug hw) p = true -> trace s0 = [] ->
    tracked_run env (cfg debug hw) p fuel 0 s0 = true ->
    run env p fuel 0 s0 = (Halted, pcf, sf) ->
    exists fuel' pcf' sf',
      run env (erase p') fuel' 0 s0 = (Halted, pcf', sf') /\
      agree (clobbered (cfg debug hw) p) (regs sf) (regs sf') /\ arrs sf = arrs sf' /\ script sf = script sf' /\
      sv_eq (sv_run debug hw (trace sf') psi) (sv_run debug hw (trace sf) psi).
  Proof.
    intros env debug hw p p' s0 fuel pcf sf psi Ht Hfr.
    exact (C08_transpile_simulates_quantum_c07 SV sv_eq sv_act rot_opK crot_opK other_meas
             (qeq_refl R rO rI radd rmul rsub ropp Rth omega)
             (qeq_sym R rO rI radd rmul rsub ropp Rth omega omega32)
             (qeq_trans R rO rI radd rmul rsub ropp Rth omega)
             (act_proper R rO rI radd rmul rsub ropp Rth omega half)
             other_meas_proper C08_sv_act_mul C08_sv_act_id C08_sv_act_phase C08_sv_act_embed
             rot_exactK crot_exactK rot_angle_onlyK env debug hw p p' s0 fuel pcf sf psi
             Ht (scratch_fresh_b_sound _ _ Hfr)).
  Qed.
End StateVector.

(* non-vacuity: the state space is not a point and the action is not trivial: |0> on
   qubit 0 (a cylinder function) is mapped by X to |1>, in every such ring *)
Example C08_statevector_nonvacuous :
  forall (R : Type) (rO rI : R) (radd rmul rsub : R -> R -> R) (ropp : R -> R),
    ring_theory rO rI radd rmul rsub ropp (@eq R) -> forall (omega half : R) sg,
    amp R (act R rO rI radd rmul ropp omega half [0] gX (ket0_q0 R rO rI)) sg = if sg 0 then rI else rO.
Proof. intros R rO rI radd rmul rsub ropp Rth omega half sg. exact (act_X_on_ket0 R rO rI radd rmul rsub ropp Rth omega half sg). Qed.

Print Assumptions C08_sv_act_mul.
Print Assumptions C08_sv_act_embed.
Print Assumptions C08_sv_finite_register.
Print Assumptions C08_transpile_simulates_statevector.
Print Assumptions C08_end_to_end_statevector.
