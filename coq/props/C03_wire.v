(* C03_wire — text or IR in, assembled, encoded, decoded on the executor side:
   the decoder returns exactly the assembled instruction objects, and the decoded
   program simulates the source.  Composition of Proofs/WireBridge.v (assemble_wire,
   C01's decode_encode) with C03's simulation theorems, at the regenerated tables.
   Statements only. *)
From Coq Require Import ZArith List Bool String.
From NQ Require Import Base.Bits Lang.Codec Lang.CodecCheck Lang.Asm Lang.AsmSem Lang.AsmSemQ Lang.Text Lang.TextFront Lang.AsmCheck.
From NQ Require Import Proofs.CodecProofs Proofs.AsmProofs Proofs.AsmQProofs Proofs.WireBridge Proofs.WireRange Proofs.AsmQMachine Proofs.AsmBuildTotal.
From Gen Require Import Gen_Codec Gen_Asm.
Import ListNotations.
Open Scope Z_scope.

Theorem C03W_tables_ok :
  header_ok gen_header = true /\ wf_table gen_vanilla = true /\ wf_table gen_nv = true /\ wf_table gen_reids = true
  /\ params_ok gen_params = true /\ qexempt_ok gen_exempt = true.
Proof. vm_compute. repeat split; reflexivity. Qed.

(* IR in: whenever the assembler accepts P for table t and the encoder accepts the
   result, the decoder returns the subroutine with exactly the assembled instruction
   objects, and running them simulates P (classical interpreter) *)
Definition wire_simulates (t : list row) : Prop :=
  forall P B v0 v1 app bytes,
    wf_src P = true -> assemble gen_params t P = AOk B ->
    encode_checked gen_header (mkSub v0 v1 app B) = Some bytes ->
    decode_sub gen_header t bytes = Some (mkSub v0 v1 app B) /\
    forall n ss st, eqv gen_params (named P) ss st ->
    exists m, (n <= m)%nat /\ cfg_rel gen_params P (arun P n (Run 0 ss)) (arun (map embed B) m (Run 0 st)).

(* the same over the event semantics: equal event trace, unit module and script *)
Definition wire_simulates_q (t : list row) : Prop :=
  forall P B v0 v1 app bytes,
    wf_src_q P = true -> assemble gen_params t P = AOk B ->
    encode_checked gen_header (mkSub v0 v1 app B) = Some bytes ->
    decode_sub gen_header t bytes = Some (mkSub v0 v1 app B) /\
    forall n ss st, eqv_q gen_params (named P) ss st ->
    exists m, (n <= m)%nat /\ cfg_rel_q gen_params P (arun_q P n (QRun 0 ss)) (arun_q (map embed B) m (QRun 0 st)).

(* text in: any text the front end reads *)
Definition wire_text_simulates_q (t : list row) : Prop :=
  forall lines P B v0 v1 app bytes,
    parse_text gen_banks gen_ginstrs lines = Some P -> wf_src_q P = true ->
    assemble_text gen_params gen_banks gen_ginstrs t lines = Some (AOk B) ->
    encode_checked gen_header (mkSub v0 v1 app B) = Some bytes ->
    decode_sub gen_header t bytes = Some (mkSub v0 v1 app B) /\
    forall n ss st, eqv_q gen_params (named P) ss st ->
    exists m, (n <= m)%nat /\ cfg_rel_q gen_params P (arun_q P n (QRun 0 ss)) (arun_q (map embed B) m (QRun 0 st)).

Lemma wire_simulates_of t : wf_table t = true -> wire_simulates t.
Proof.
  intros Ht P B v0 v1 app bytes Hwf Hasm Henc. split.
  - exact (proj1 (assemble_wire gen_params t P B gen_header v0 v1 app bytes (proj1 C03W_tables_ok) Ht Hasm Henc)).
  - exact (assemble_simulates_flavour gen_params t P B (proj1 (proj2 (proj2 (proj2 (proj2 C03W_tables_ok)))))
             eq_refl Hwf Hasm).
Qed.

Lemma wire_simulates_q_of t : wf_table t = true -> wire_simulates_q t.
Proof.
  intros Ht P B v0 v1 app bytes Hwf Hasm Henc. split.
  - exact (proj1 (assemble_wire gen_params t P B gen_header v0 v1 app bytes (proj1 C03W_tables_ok) Ht Hasm Henc)).
  - exact (assemble_simulates_flavour_q gen_params t P B (proj1 (proj2 (proj2 (proj2 (proj2 C03W_tables_ok)))))
             (proj2 (proj2 (proj2 (proj2 (proj2 C03W_tables_ok))))) Hwf Hasm).
Qed.

Lemma wire_text_simulates_q_of t : wf_table t = true -> wire_text_simulates_q t.
Proof.
  intros Ht lines P B v0 v1 app bytes Hp Hwf Hasm Henc.
  unfold assemble_text in Hasm. rewrite Hp in Hasm. injection Hasm as Hasm.
  exact (wire_simulates_q_of t Ht P B v0 v1 app bytes Hwf Hasm Henc).
Qed.

Theorem C03W_wire_vanilla : wire_simulates gen_vanilla /\ wire_simulates_q gen_vanilla /\ wire_text_simulates_q gen_vanilla.
Proof.
  pose proof (proj1 (proj2 C03W_tables_ok)) as Ht.
  split; [exact (wire_simulates_of _ Ht)|split; [exact (wire_simulates_q_of _ Ht)|exact (wire_text_simulates_q_of _ Ht)]].
Qed.
Theorem C03W_wire_nv : wire_simulates gen_nv /\ wire_simulates_q gen_nv /\ wire_text_simulates_q gen_nv.
Proof.
  pose proof (proj1 (proj2 (proj2 C03W_tables_ok))) as Ht.
  split; [exact (wire_simulates_of _ Ht)|split; [exact (wire_simulates_q_of _ Ht)|exact (wire_text_simulates_q_of _ Ht)]].
Qed.
Theorem C03W_wire_reids : wire_simulates gen_reids /\ wire_simulates_q gen_reids /\ wire_text_simulates_q gen_reids.
Proof.
  pose proof (proj1 (proj2 (proj2 (proj2 C03W_tables_ok)))) as Ht.
  split; [exact (wire_simulates_of _ Ht)|split; [exact (wire_simulates_q_of _ Ht)|exact (wire_text_simulates_q_of _ Ht)]].
Qed.

(* ---------- the wire hop without the encoder's acceptance as a hypothesis ---------- *)

(* the regenerated layouts are the standard ones (register = 2+4 bits, addresses int32, set's immediate int32) *)
Theorem C03W_table_std :
  table_std gen_vanilla = true /\ table_std gen_nv = true /\ table_std gen_reids = true
  /\ (ap_nreg gen_params <= 16)%nat /\ (0 <=? ap_bankR gen_params) && (ap_bankR gen_params <? 4) = true.
Proof. vm_compute. repeat split; try reflexivity; apply le_n. Qed.

(* a source whose registers and literals fit (src_fits: decidable, source level), fewer than 2^31 instructions,
   header values that fit: the encoder ACCEPTS the assembled program, the decoder returns exactly the assembled
   instruction objects, and they simulate the source *)
Definition wire_unconditional_q (t : list row) : Prop :=
  forall P B v0 v1 app,
    wf_src_q P = true -> src_fits gen_exempt t P = true ->
    assemble gen_params t P = AOk B -> Z.of_nat (List.length B) < 2 ^ 31 ->
    fits_all (h_layout gen_header) [v0; v1; app] = true ->
    exists bytes, encode_checked gen_header (mkSub v0 v1 app B) = Some bytes
      /\ decode_sub gen_header t bytes = Some (mkSub v0 v1 app B)
      /\ forall n ss st, eqv_q gen_params (named P) ss st ->
         exists m, (n <= m)%nat /\ cfg_rel_q gen_params P (arun_q P n (QRun 0 ss)) (arun_q (map embed B) m (QRun 0 st)).

Lemma wire_unconditional_q_of t : wf_table t = true -> table_std t = true -> wire_unconditional_q t.
Proof.
  intros Ht Hstd P B v0 v1 app Hwf Hfit Hasm Hlen Hh.
  destruct (assemble_encodes gen_params t P B gen_header v0 v1 app Hstd
              (proj1 (proj2 (proj2 (proj2 C03W_table_std)))) (proj2 (proj2 (proj2 (proj2 C03W_table_std))))
              Hfit Hasm Hlen Hh) as [bytes Henc].
  exists bytes. split; [exact Henc|].
  exact (wire_simulates_q_of t Ht P B v0 v1 app bytes Hwf Hasm Henc).
Qed.

Theorem C03W_wire_unconditional :
  wire_unconditional_q gen_vanilla /\ wire_unconditional_q gen_nv /\ wire_unconditional_q gen_reids.
Proof.
  split; [|split].
  - exact (wire_unconditional_q_of _ (proj1 (proj2 C03W_tables_ok)) (proj1 C03W_table_std)).
  - exact (wire_unconditional_q_of _ (proj1 (proj2 (proj2 C03W_tables_ok))) (proj1 (proj2 C03W_table_std))).
  - exact (wire_unconditional_q_of _ (proj1 (proj2 (proj2 (proj2 C03W_tables_ok)))) (proj1 (proj2 (proj2 C03W_table_std)))).
Qed.

(* ---------- the assembler and the encoder accept: no premise about build / encoder left ---------- *)

(* the mnemonics the semantics models, and those of them for which a flavour table has a row with the kinds of
   the assembled form (rows a flavour lacks are simply not covered) *)
Definition modelled_mnemonics : list string :=
  (map fst opc_table ++ map fst gate_table ++ [MEAS; QALLOC; QFREE])%list.
Definition covered (t : list row) : list string := filter (row_covers t) modelled_mnemonics.

Theorem C03W_covered :
  qexempt_exact gen_exempt = true
  /\ row_covers gen_vanilla SET = true /\ row_covers gen_nv SET = true /\ row_covers gen_reids SET = true
  /\ (List.length (covered gen_vanilla) = 39 /\ List.length (covered gen_nv) = 31 /\ List.length (covered gen_reids) = 26)%nat.
Proof. vm_compute. repeat split; reflexivity. Qed.

Lemma forallb_filter {A} (f : A -> bool) l : forallb f (filter f l) = true.
Proof. induction l as [|x l IH]; [reflexivity|]. cbn [filter]. destruct (f x) eqn:E; [cbn [forallb]; rewrite E; exact IH|exact IH]. Qed.

(* build_total_machine_form at the regenerated tables: for a program over covered mnemonics with defined labels the
   flavour lookup and from_operands cannot fail on the assembler's output *)
Definition build_total (t : list row) : Prop :=
  forall P T, wf_src_q P = true -> labels_defined P = true ->
    (forall mn args ops, In (AIns mn args ops) P -> In mn (covered t)) ->
    assemble_ir gen_params P = AOk T -> exists B, build t T = Some B.

Lemma build_total_of t : row_covers t SET = true -> build_total t.
Proof.
  intros Hset P T Hwf Hlab Hcov Hasm.
  exact (build_total_machine_form gen_params t P T (proj1 C03W_covered) Hwf Hlab
           (table_covers_of t (covered t) P (forallb_filter _ _) Hset Hcov) Hasm).
Qed.

Theorem C03W_build_total : build_total gen_vanilla /\ build_total gen_nv /\ build_total gen_reids.
Proof.
  split; [|split].
  - exact (build_total_of _ (proj1 (proj2 C03W_covered))).
  - exact (build_total_of _ (proj1 (proj2 (proj2 C03W_covered)))).
  - exact (build_total_of _ (proj1 (proj2 (proj2 (proj2 C03W_covered))))).
Qed.

(* everything together: scratch registers suffice (need_cmd <= free_regs), labels distinct and defined, covered mnemonics,
   src_fits: the assembler accepts, and if the result is shorter than 2^31 the encoder accepts, the decoder returns the
   assembled instruction objects and they simulate the source *)
Definition wire_total_q (t : list row) : Prop :=
  forall P v0 v1 app,
    wf_src_q P = true -> labels_defined P = true -> NoDup (labels_of P) ->
    (forall mn args ops, In (AIns mn args ops) P -> In mn (covered t)) ->
    (forall c, In c P -> (need_cmd gen_exempt c <= List.length (free_regs gen_params (named P)))%nat) ->
    src_fits gen_exempt t P = true ->
    fits_all (h_layout gen_header) [v0; v1; app] = true ->
    exists B, assemble gen_params t P = AOk B /\
      (Z.of_nat (List.length B) < 2 ^ 31 ->
       exists bytes, encode_checked gen_header (mkSub v0 v1 app B) = Some bytes
         /\ decode_sub gen_header t bytes = Some (mkSub v0 v1 app B)
         /\ forall n ss st, eqv_q gen_params (named P) ss st ->
            exists m, (n <= m)%nat /\ cfg_rel_q gen_params P (arun_q P n (QRun 0 ss)) (arun_q (map embed B) m (QRun 0 st))).

Lemma wire_total_q_of t : wf_table t = true -> table_std t = true -> row_covers t SET = true -> wire_total_q t.
Proof.
  intros Ht Hstd Hset P v0 v1 app Hwf Hlab Hnd Hcov Hneed Hfit Hh.
  destruct (assemble_total gen_params t P (proj1 C03W_covered) Hwf Hlab
              (table_covers_of t (covered t) P (forallb_filter _ _) Hset Hcov) Hnd Hneed) as [B HB].
  exists B. split; [exact HB|]. intros Hlen.
  exact (wire_unconditional_q_of t Ht Hstd P B v0 v1 app Hwf Hfit HB Hlen Hh).
Qed.

Theorem C03W_wire_total : wire_total_q gen_vanilla /\ wire_total_q gen_nv /\ wire_total_q gen_reids.
Proof.
  split; [|split].
  - exact (wire_total_q_of _ (proj1 (proj2 C03W_tables_ok)) (proj1 C03W_table_std) (proj1 (proj2 C03W_covered))).
  - exact (wire_total_q_of _ (proj1 (proj2 (proj2 C03W_tables_ok))) (proj1 (proj2 C03W_table_std)) (proj1 (proj2 (proj2 C03W_covered)))).
  - exact (wire_total_q_of _ (proj1 (proj2 (proj2 (proj2 C03W_tables_ok)))) (proj1 (proj2 (proj2 C03W_table_std)))
             (proj1 (proj2 (proj2 (proj2 C03W_covered))))).
Qed.

(* non-vacuity: a text with a loop, labels, literals, bracket args, a gate, a scripted measurement is
   read, assembled for the vanilla table, ACCEPTED by the encoder, and the decoder returns the assembled
   instructions *)
Local Open Scope string_scope.
Example C03W_nonvacuous :
  let lines := ["# NETQASM 1.0"; "# APPID 0"; "array(4) @0"; "set R0 0"; "set Q1 1"; "qalloc Q1"; "init Q1";
                "top:"; "store 7 @0[R0] // literal value"; "add R0 R0 1"; "blt R0 3 top";
                "rot_x Q1 1 2"; "meas Q1 M0"; "bez M0 end"; "x Q1"; "end:"; "ret_arr @0"; "ret_reg M0"; "qfree Q1"] in
  match parse_text gen_banks gen_ginstrs lines with
  | Some P =>
      wf_src_q P &&
      match assemble_text gen_params gen_banks gen_ginstrs gen_vanilla lines with
      | Some (AOk B) =>
          match encode_checked gen_header (mkSub 1 0 0 B) with
          | Some bytes =>
              Nat.eqb (List.length bytes) (4 + 7 * List.length B)
              && match decode_sub gen_header gen_vanilla bytes with
                 | Some s => Nat.eqb (List.length (s_body s)) (List.length B) && ((s_app s =? 0)%Z)
                 | None => false
                 end
          | None => false
          end
      | _ => false
      end
  | None => false
  end = true.
Proof. vm_compute. reflexivity. Qed.

Print Assumptions C03W_wire_vanilla.
Print Assumptions C03W_wire_nv.
Print Assumptions C03W_wire_reids.
Print Assumptions C03W_wire_unconditional.
Print Assumptions C03W_build_total.
Print Assumptions C03W_wire_total.
