(* C02 — wire format follows the fixed 7-byte NetQASM command layout.
   RefSpec.v is the frozen reference; Gen_Codec is regenerated from /repo. *)
From Coq Require Import ZArith List Bool String.
From NQ Require Import Base.Bits Lang.Codec Lang.RefSpec Proofs.CodecProofs Proofs.RefProofs Proofs.RefBytes.
From Gen Require Import Gen_Codec.
Import ListNotations.
Open Scope Z_scope.

(* the regenerated header and every regenerated class (encoder AND decoder layout)
   are the reference layout; every reference row is effective in the flavour with
   its published opcode, mnemonic and operand order (finite: by computation) *)
Theorem C02_header : header_eqb gen_header ref_header = true /\ gen_command_bytes = 7%nat.
Proof. vm_compute. split; reflexivity. Qed.
Theorem C02_conforms_vanilla : conforms gen_vanilla ref_vanilla = true.
Proof. vm_compute. reflexivity. Qed.
Theorem C02_conforms_nv : conforms gen_nv ref_nv = true.
Proof. vm_compute. reflexivity. Qed.
Theorem C02_conforms_reids : conforms gen_reids ref_reids = true.
Proof. vm_compute. reflexivity. Qed.

(* hence, for all operand values, the bytes are those of the reference encoder *)
Theorem C02_bytes_eq_ref :
  forall t ref, conforms t ref = true ->
  forall r, In r t -> forall ops,
    exists ks, row_rkinds r = Some ks /\ encode_row r ops = ref_encode (r_op r) ks ops
               /\ List.length (encode_row r ops) = 7%nat.
Proof.
  intros t ref Hc r Hin ops. unfold conforms in Hc. apply andb_true_iff in Hc as [Hf _].
  rewrite forallb_forall in Hf. specialize (Hf r Hin).
  destruct (row_rkinds r) as [ks|] eqn:E.
  - exists ks. split; [reflexivity|]. split; [now apply encode_eq_ref|apply encode_length].
  - unfold row_follows_format in Hf. now rewrite E in Hf.
Qed.

(* ... and those bytes are, literally: the opcode, then each operand in order
   (register: bank + 4*index; immediate: the value; integer/address: the four
   base-256 digits of v mod 2^32, least significant first; entry/slice: address
   then register bytes), then zeros up to 7 — for ALL in-range operand values *)
Theorem C02_opcodes_are_bytes :
  forallb (fun r => (0 <=? r_op r) && (r_op r <? 256)) (gen_vanilla ++ gen_nv ++ gen_reids) = true.
Proof. vm_compute. reflexivity. Qed.

Theorem C02_literal_bytes :
  forall t ref, conforms t ref = true ->
  forall r, In r t -> 0 <= r_op r < 256 ->
  forall ks ops bs, row_rkinds r = Some ks -> ops_ok ks ops = true ->
    ref_bytes (r_op r) ks ops = Some bs -> encode_row r ops = bs.
Proof.
  intros t ref Hc r Hin Hop ks ops bs Hk Hok Hb.
  unfold conforms in Hc. apply andb_true_iff in Hc as [Hf _].
  rewrite forallb_forall in Hf. specialize (Hf r Hin).
  rewrite (encode_eq_ref r ks ops Hf Hk). now apply ref_encode_bytes.
Qed.

Example C02_literal_ex :
  ref_bytes 5 [RReg; REntry] [OReg 3 15; OEntry (-2) 2 1] = Some [5; 63; 254; 255; 255; 255; 6]
  /\ ops_ok [RReg; REntry] [OReg 3 15; OEntry (-2) 2 1] = true.
Proof. vm_compute. split; reflexivity. Qed.

(* what the reference says about bytes (general facts, all values) *)
Theorem C02_little_endian : forall k n N, (k < n)%nat ->
  nth k (to_bytes n N) 0 = (N / 2 ^ (8 * Z.of_nat k)) mod 256.
Proof. exact to_bytes_nth. Qed.
Theorem C02_register_byte :
  forallb (fun b => forallb (fun i => reg_byte_ok b i) (map Z.of_nat (seq 0 16))) (map Z.of_nat (seq 0 4)) = true.
Proof. exact reg_byte_all. Qed.
Theorem C02_int32_bytes : forall v k, (k < 4)%nat ->
  nth k (to_bytes 4 (pack [mkF 0 32 true] [v])) 0 = ((v mod 2 ^ 32) / 2 ^ (8 * Z.of_nat k)) mod 256.
Proof. exact int32_bytes. Qed.

(* readable instances of the reference encoder *)
Example C02_ex_set : ref_encode 4 [RReg; RInt32] [OReg 0 1; OImm (-2)] = [4; 4; 254; 255; 255; 255; 0].
Proof. vm_compute. reflexivity. Qed.
Example C02_ex_store : ref_encode 5 [RReg; REntry] [OReg 3 15; OEntry 258 2 1] = [5; 63; 2; 1; 0; 0; 6].
Proof. vm_compute. reflexivity. Qed.
Example C02_ex_meas_basis :
  ref_encode 41 [RReg; RReg; RImm8; RImm8; RImm8; RImm8] [OReg 2 0; OReg 3 0; OImm 1; OImm 2; OImm 3; OImm 255]
  = [41; 2; 3; 1; 2; 3; 255].
Proof. vm_compute. reflexivity. Qed.
Example C02_ex_header :
  to_bytes 4 (pack (h_layout ref_header) [1; 0; 258]) = [1; 0; 2; 1].
Proof. vm_compute. reflexivity. Qed.

Print Assumptions C02_bytes_eq_ref.
Print Assumptions C02_literal_bytes.
Print Assumptions C02_conforms_vanilla.
Print Assumptions C02_little_endian.
Print Assumptions C02_int32_bytes.
