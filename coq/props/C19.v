(* C19 — float angles are approximated within tolerance by encodable rotations.
   Statements only; proofs are in Proofs/AngleProofs.v and Proofs/AngleWitness.v,
   the model in Num/Angle.v.  Gen_Angle is regenerated from /repo on every run.

   Vocabulary: `steps thr rest raw rf` = a run of the loop of
   get_angle_spec_from_float from remainder `rest` (half turns) with threshold
   `thr` (= tol / pi as computed by the code), in which every iteration used
   SOME d with 127 <= rest * 2^d < 256 (this contains the exact
   floor(log2(255/rest)) and whatever float log2 returns); `post D raw` =
   simplification followed by the filter d < D; `sumq` = sum of n / 2^d. *)
From Coq Require Import ZArith QArith Qabs List Bool.
From NQ Require Import Num.Angle Proofs.AngleProofs Proofs.AngleWitness Proofs.AngleFloatProofs.
From Gen Require Import Gen_Angle.
Import ListNotations.
Open Scope Q_scope.

(* G-tie: the constants of the model are the live ones: IMMEDIATE_BITS = 8, the
   (n, d) operands of every rot_x/rot_y/rot_z class are unsigned 8-bit fields *)
Theorem C19_fields :
  (2 ^ gen_immediate_bits = D_FIELD /\ N_MAX = 2 ^ gen_immediate_bits - 1)%Z /\
  forallb (Z.eqb gen_immediate_bits) gen_rot_imm_widths = true /\
  existsb (fun b => b) gen_rot_imm_signed = false.
Proof. vm_compute. repeat split; reflexivity. Qed.

(* n_bounds, d_nonneg / d_bounds (before and after simplification),
   sum_exact, simplify_preserves, within_tol (unfiltered), the bound with a
   filter d < D, and that the filter is the identity once 2^(8-D) <= thr:
   for ALL rationals 0 <= rest < 2, all thr, all runs *)
Theorem C19_run_correct : forall D thr rest raw rf,
  0 <= rest -> rest < 2 -> steps thr rest raw rf ->
  exists s out,
    simplify_all raw = Some s /\ post D raw = Some out /\ out = dfilter D s /\
    Forall raw_ok raw /\                       (* 127 <= n <= 255, 6 <= d *)
    Forall simp_ok s /\                        (* 1 <= n <= 255, n odd, 0 <= d *)
    Forall (enc_ok D) out /\                   (* 1 <= n <= 255, 0 <= d < D *)
    sumq raw + rf == rest /\ sumq s == sumq raw /\
    0 <= rf /\ rf <= thr /\
    Qabs (rest - sumq s) <= thr /\
    0 <= rest - sumq out /\
    Qabs (rest - sumq out) < thr + pow2 (8 - D) /\
    (pow2 (8 - D) <= thr -> out = s /\ Qabs (rest - sumq out) <= thr).
Proof. exact run_correct. Qed.

(* the property for the code as it is (D = 2^IMMEDIATE_BITS = 256): every
   emitted step fits the 8-bit fields; the sum is within thr of rest whenever
   thr >= 2^-248 *)
Corollary C19_encodable_within_thr : forall thr rest raw rf,
  0 <= rest -> rest < 2 -> steps thr rest raw rf -> pow2 (-248) <= thr ->
  exists out, post D_FIELD raw = Some out /\
    Forall (fun nd => (1 <= fst nd <= 255)%Z /\ (0 <= snd nd <= 255)%Z) out /\
    Qabs (rest - sumq out) <= thr.
Proof.
  intros thr rest raw rf H0 H2 Hs Hthr.
  destruct (run_correct D_FIELD thr rest raw rf H0 H2 Hs) as
    [s [out [_ [Hp [_ [_ [_ [He [_ [_ [_ [_ [_ [_ [_ Hle]]]]]]]]]]]]]]].
  exists out. split; [exact Hp|]. split; [|apply Hle; exact Hthr].
  eapply Forall_impl; [|exact He]. intros nd [Ha [Hb Hc]]. unfold D_FIELD in Hc. split; [exact Ha|]. split; [exact Hb|].
  apply Z.lt_succ_r. exact Hc.
Qed.

(* terminates: a run has at most 1 + log_127(rest / thr) steps ... *)
Theorem C19_length : forall thr rest raw rf,
  steps thr rest raw rf -> 0 <= rest -> rest < 2 ->
  match raw with [] => True | _ :: l => thr * npow 127 (List.length l) < rest end.
Proof. exact steps_length. Qed.

(* ... the d of exact arithmetic lies in the window, and the fuel-bounded
   executable loop with that d returns (neither OutOfFuel nor BadSel) as soon
   as 2 <= thr * 127^fuel; what it returns is a run *)
Theorem C19_sel_exact_window : forall rest, 0 < rest -> window rest (sel_exact rest).
Proof. exact sel_exact_window. Qed.

Theorem C19_terminates : forall fuel thr rest,
  0 <= rest -> rest < 2 -> rest <= thr * npow 127 fuel ->
  exists raw rf, expand sel_exact fuel thr rest = Ok raw rf /\ steps thr rest raw rf.
Proof.
  intros fuel thr rest H0 H2 Hb. destruct (expand_terminates fuel thr rest H0 H2 Hb) as [raw [rf R]].
  exists raw, rf. split; [exact R | exact (expand_sound _ _ _ _ _ _ R)].
Qed.

(* the function the correspondence evaluates: every output it allows for the
   doubles (angle, tol) has the property relative to the front end's (rest, thr) *)
Theorem C19_spec_all_correct : forall angle tol rest thr outs o,
  front angle tol = Some (rest, thr) -> 0 <= rest -> rest < 2 ->
  spec_all angle tol = Some outs -> In o outs ->
  exists out, o = Some out /\
    Forall (enc_ok D_FIELD) out /\
    0 <= rest - sumq out /\
    Qabs (rest - sumq out) < thr + pow2 (8 - D_FIELD) /\
    (pow2 (8 - D_FIELD) <= thr -> Qabs (rest - sumq out) <= thr).
Proof. exact spec_all_correct. Qed.

Theorem C19_spec_exact_defined : forall angle tol rest thr,
  front angle tol = Some (rest, thr) -> 0 <= rest -> rest < 2 -> 2 <= thr * npow 127 FUEL ->
  exists out, spec_exact angle tol = Some out.
Proof. exact spec_exact_defined. Qed.

(* in radians.  pi is irrational; PI_HI is a rational above it (standard
   mathematics, not formalised), so `forall p <= PI_HI` covers p = pi:
   if the threshold satisfies thr * PI_HI <= tol, the emitted rotation is
   within tol radians of rest half turns. *)
Theorem C19_within_tol_radians : forall D thr rest raw rf out tol p,
  0 <= rest -> rest < 2 -> steps thr rest raw rf -> post D raw = Some out ->
  pow2 (8 - D) <= thr -> 0 <= p -> p <= PI_HI -> thr * PI_HI <= tol ->
  Qabs (rest * p - sumq out * p) <= tol.
Proof. exact within_tol_radians. Qed.

(* FULL statement, as the docstring promises, about the doubles (angle, tol)
   themselves: whatever the model allows is within tol radians of the requested
   angle modulo 2 pi, for every value p of pi between the rational bounds. *)
Definition C19_radians_full : Prop :=
  forall angle tol outs out p,
    0 < tol -> spec_all angle tol = Some outs -> In (Some out) outs ->
    PI_LO <= p -> p <= PI_HI ->
    Qabs (radians_error angle out p) <= tol.
(* It is false for large |angle| (C19_range_reduction_refuted below, recorded
   finding C19:range-reduction-by-double-2pi) and not provable for small ones
   either: the float front end (angle % 2pi, / pi, tol / pi) contributes up to
   about 1.1e-15 rad that no choice of steps removes.  What is proved is
   C19_spec_all_correct + C19_within_tol_radians: the statement relative to the
   front end's outputs (rest, thr), and C19_radians_partial below: the full
   statement with the allowance 2^-49 under a per-input hypothesis on the front
   end that is decided by computation for every generated case.  Missing for
   the full statement: a proof that the float front end stays within 2^-49 rad
   for ALL doubles within two turns (and the 2^-49 itself: a float front end
   cannot meet tol exactly). *)

(* The front-end error as a theorem parameter: if rest half turns are within fe
   radians of `target` and thr * p exceeds tol by at most te, the emitted
   rotation is within tol + te + fe of `target`. *)
Theorem C19_radians_with_front_end : forall D thr rest raw rf out tol p target fe te,
  0 <= rest -> rest < 2 -> steps thr rest raw rf -> post D raw = Some out ->
  pow2 (8 - D) <= thr -> 0 <= p ->
  Qabs (rest * p - target) <= fe -> thr * p <= tol + te ->
  Qabs (sumq out * p - target) <= tol + te + fe.
Proof. exact radians_with_front_end. Qed.

(* C19_radians_full with the allowance FE_ALLOW = 2^-49 and under the per-input
   hypothesis `fe_ok angle tol rest thr k` (front-end error plus threshold excess
   at most 2^-49 at both rational bounds of pi, k whole turns removed): for
   EVERY p between PI_LO and PI_HI, every output the model allows is within
   tol + 2^-49 radians of angle - 2 k p.
   _partial: fe_ok is not proved for all doubles; it is DECIDED by vm_compute for
   every case of the correspondence stream on every run (AngleCheck.check_fcase,
   bit 4; together with: the rational front end equals the PrimFloat front end
   equals the values observed inside the implementation, bits 1 and 2; rest in
   [0,2), thr >= 2^-248, bit 8).  Beyond two turns it fails: recorded finding. *)
Theorem C19_radians_partial : forall angle tol rest thr outs out k p,
  front angle tol = Some (rest, thr) -> 0 <= rest -> rest < 2 -> pow2 (8 - D_FIELD) <= thr ->
  spec_all angle tol = Some outs -> In (Some out) outs ->
  fe_ok angle tol rest thr k = true ->
  PI_LO <= p -> p <= PI_HI ->
  Qabs ((sumq out + 2 * inject_Z k) * p - angle) <= tol + FE_ALLOW.
Proof. exact radians_checked. Qed.

(* The rational model of binary64 round-to-nearest-even used by the front end
   has relative error at most 2^-53 (normal range) ... *)
Theorem C19_rne53_half_ulp : forall q r, rne53 q = Some r -> Qabs (r - q) <= Qabs q * pow2 (-53).
Proof. exact rne53_spec. Qed.

(* ... hence, for EVERY angle in [0, 2*np.pi) and every 2^-240 <= tol <= 1 (all
   rationals, in particular all such doubles) the front end meets the hypotheses
   of the theorems above (rest in [0,2), thr >= 2^-248) and its error, threshold
   excess included, is at most 2^-49 rad: 2*2^-53*pi for the division, 2*(pi - np.pi),
   (1+2^-53)*pi/np.pi - 1 for tol/np.pi.  k = 1 exactly when `if rest >= 2` fired. *)
Theorem C19_front_first_turn : forall angle tol rest thr,
  0 <= angle -> angle < 2 * PI_D -> pow2 (-240) <= tol -> tol <= 1 ->
  front angle tol = Some (rest, thr) ->
  0 <= rest /\ rest < 2 /\ pow2 (8 - D_FIELD) <= thr /\
  exists k, (k = 0 \/ k = 1)%Z /\
    forall p, PI_LO <= p -> p <= PI_HI -> fe_at angle tol rest thr k p <= FE_ALLOW.
Proof. exact front_first_turn. Qed.

(* C19_radians_full with the allowance 2^-49, WITHOUT per-input hypothesis, for
   the input class 0 <= angle < 2*np.pi, 2^-240 <= tol <= 1.
   _partial only in: (i) the class (negative angles and further turns are covered by
   C19_radians_partial with the checked hypothesis; large angles are the finding),
   (ii) the allowance 2^-49 rad, (iii) the front end is the rational model
   Angle.front, whose equality with the PrimFloat operations and with the values
   observed inside the implementation is checked on every case of every run,
   not proved (PrimFloat's specification axioms are deliberately not imported). *)
Theorem C19_radians_first_turn_partial : forall angle tol rest thr outs out,
  0 <= angle -> angle < 2 * PI_D -> pow2 (-240) <= tol -> tol <= 1 ->
  front angle tol = Some (rest, thr) -> spec_all angle tol = Some outs -> In (Some out) outs ->
  exists k, (k = 0 \/ k = 1)%Z /\
    forall p, PI_LO <= p -> p <= PI_HI ->
      Qabs ((sumq out + 2 * inject_Z k) * p - angle) <= tol + FE_ALLOW.
Proof. exact radians_first_turn. Qed.

(* GENERAL CASE.  allow(angle) = 2^-49 + 2^-50 + |floor(angle / (2*np.pi))| * 2^-51  (Num/Angle.v).
   For EVERY rational angle on which the front end is defined (every finite double of
   either sign and any magnitude whose intermediates stay in the normal range) and
   2^-240 <= tol <= 1: rest in [0,2), thr >= 2^-248, and the front-end error, threshold
   excess included, is at most allow(angle) at every p in [PI_LO, PI_HI].  Ingredients:
   CPython's float % (exact fmod; for negative angles one rounding of r + 2*np.pi:
   py_mod_general), two half-ulp roundings (C19_rne53_half_ulp) on a reduced angle < 2*np.pi,
   pi - np.pi on the reduced angle, and 2*(pi - np.pi) <= 2^-51 per whole turn removed. *)
Theorem C19_front_general : forall angle tol rest thr,
  pow2 (-240) <= tol -> tol <= 1 ->
  front angle tol = Some (rest, thr) ->
  0 <= rest /\ rest < 2 /\ pow2 (8 - D_FIELD) <= thr /\
  exists k, (k = turns angle \/ k = turns angle + 1)%Z /\
    forall p, PI_LO <= p -> p <= PI_HI -> fe_at angle tol rest thr k p <= allow angle.
Proof. exact front_general. Qed.

(* C19_radians_full with the explicit allowance allow(angle), for every angle, without
   any per-input hypothesis: every output the model allows is within tol + allow(angle)
   radians of angle - 2 k p for every p in [PI_LO, PI_HI].  No bound on |angle| is needed:
   the statement degrades linearly with the number of turns, which is exactly the
   recorded finding (allow(1e13) > 1e-4: C19_allow_examples).
   _partial only in: (i) the allowance itself (a float front end cannot meet tol exactly);
   (ii) `front` is the rational model of the four float statements; that it equals the
   PrimFloat operations (Num/AngleFloat.front_f) and the values inside the implementation is
   decided per case on every run (check_fcase bits 1, 2), not proved for all doubles: that
   needs FloatAxioms.{div,add}_spec (or Flocq's Prim2B bridge, which adds the classical-reals
   axioms) plus a proof that Angle.rne53 is SpecFloat's round-to-nearest-even - not done. *)
Theorem C19_radians_general_partial : forall angle tol rest thr outs out,
  pow2 (-240) <= tol -> tol <= 1 ->
  front angle tol = Some (rest, thr) -> spec_all angle tol = Some outs -> In (Some out) outs ->
  exists k, (k = turns angle \/ k = turns angle + 1)%Z /\
    forall p, PI_LO <= p -> p <= PI_HI ->
      Qabs ((sumq out + 2 * inject_Z k) * p - angle) <= tol + allow angle.
Proof. exact radians_general. Qed.

(* what allow amounts to: below 3e-15 in the first turn, below 4e-15 one turn either way, below 1e-14 at 100 rad,
   below 1e-9 at 1e7 rad, and above the default tolerance at 1e13 rad (the finding);
   the hypotheses of the two theorems hold for the negative double -100.5 *)
Example C19_allow_examples :
  allow (-1 # 1) <= 4 # 1000000000000000 /\ allow (6 # 1) <= 3 # 1000000000000000 /\
  allow (100 # 1) <= 1 # 100000000000000 /\ allow (10000000 # 1) <= 1 # 1000000000 /\
  1 # 10000 < allow (10000000000000 # 1) /\
  exists rest thr outs, front (-201 # 2) (7378697629483821 # 73786976294838206464) = Some (rest, thr) /\
    spec_all (-201 # 2) (7378697629483821 # 73786976294838206464) = Some outs /\ outs <> nil /\
    turns (-201 # 2) = (-16)%Z.
Proof.
  do 5 (split; [vm_compute; first [discriminate | reflexivity]|]).
  destruct (front (-201 # 2) (7378697629483821 # 73786976294838206464)) as [[rest thr]|] eqn:F;
    [| vm_compute in F; discriminate F].
  destruct (spec_all (-201 # 2) (7378697629483821 # 73786976294838206464)) as [outs|] eqn:S;
    [| vm_compute in S; discriminate S].
  exists rest, thr, outs. split; [reflexivity|]. split; [reflexivity|].
  split; [vm_compute in S; injection S as S; subst outs; discriminate | vm_compute; reflexivity].
Qed.

(* its hypotheses hold for the doubles angle = 0.3, tol = 1e-4 (k = 0), and for
   angle = -1.0 with k = -1 *)
Example C19_radians_partial_nonvacuous :
  (exists rest thr outs out,
     front (5404319552844595 # 18014398509481984) (7378697629483821 # 73786976294838206464) = Some (rest, thr) /\
     Qle_bool 0 rest && negb (Qle_bool 2 rest) && Qle_bool (pow2 (8 - D_FIELD)) thr = true /\
     spec_all (5404319552844595 # 18014398509481984) (7378697629483821 # 73786976294838206464) = Some outs /\
     In (Some out) outs /\ List.length out = 2%nat /\
     fe_ok (5404319552844595 # 18014398509481984) (7378697629483821 # 73786976294838206464) rest thr 0 = true) /\
  (exists rest thr,
     front (-1 # 1) (7378697629483821 # 73786976294838206464) = Some (rest, thr) /\
     fe_turns (-1 # 1) (7378697629483821 # 73786976294838206464) rest thr = Some (-1)%Z).
Proof.
  split.
  - destruct (front (5404319552844595 # 18014398509481984) (7378697629483821 # 73786976294838206464)) as [[rest thr]|] eqn:F;
      [| vm_compute in F; discriminate F].
    destruct (spec_all (5404319552844595 # 18014398509481984) (7378697629483821 # 73786976294838206464)) as [outs|] eqn:S;
      [| vm_compute in S; discriminate S].
    exists rest, thr, outs. vm_compute in F. injection F as F1 F2. subst rest thr.
    vm_compute in S. injection S as S. subst outs. eexists.
    split; [reflexivity|]. split; [vm_compute; reflexivity|]. split; [reflexivity|].
    split; [left; reflexivity|]. split; vm_compute; reflexivity.
  - destruct (front (-1 # 1) (7378697629483821 # 73786976294838206464)) as [[rest thr]|] eqn:F;
      [| vm_compute in F; discriminate F].
    exists rest, thr. vm_compute in F. injection F as F1 F2. subst rest thr.
    split; [reflexivity|]. vm_compute. reflexivity.
Qed.

(* ---- where the code (as found) failed the property: witnesses by computation *)

(* defect 1 (repaired, 74c0e87): threshold = tol compared with half turns *)
Theorem C19_old_threshold_refuted :
  exists rest tol raw rf,
    0 <= rest /\ rest < 2 /\ 0 < tol /\ steps tol rest raw rf /\
    tol < Qabs (rest - sumq raw) * PI_LO.
Proof. exact old_threshold_refuted. Qed.

(* defect 2 (repaired, c940bb0): filter d < 32 *)
Theorem C19_old_filter_refuted :
  exists rest thr raw rf out,
    0 <= rest /\ rest < 2 /\ 0 < thr /\ steps thr rest raw rf /\
    post D_OLD raw = Some out /\ thr < Qabs (rest - sumq out).
Proof. exact old_filter_refuted. Qed.

(* defect 4 (repaired, 2658c5b): without `if rest >= 2` the front end yields
   rest == 2 for angle = -1e-20, outside the hypothesis rest < 2, and the run
   from 2 ends in the unencodable step (1, -1) *)
Theorem C19_rest_two_refuted :
  (exists rest thr, front_gen true false (-1 # 100000000000000000000) (1 # 10000) = Some (rest, thr) /\ rest == 2) /\
  exists raw rf out,
    steps (1 # 10000) 2 raw rf /\ post D_FIELD raw = Some out /\ out = [(1, -1)%Z].
Proof. exact rest_two_refuted. Qed.

(* defect 3 (recorded finding): range reduction modulo the double 2*pi *)
Theorem C19_range_reduction_refuted :
  exists angle tol out,
    spec_exact angle tol = Some out /\
    tol < radians_error angle out PI_LO /\ tol < radians_error angle out PI_HI /\
    radians_error angle out PI_HI < 3.
Proof. exact range_reduction_refuted. Qed.

(* non-vacuity: a concrete run with four steps (rest = (0.3 % 2pi)/pi as a
   double, thr = 1e-9) satisfies the hypotheses of C19_run_correct, and the
   front end of the repaired code maps the double 0.3 into [0, 2) *)
Example C19_nonvacuous :
  exists raw rf, steps (1 # 1000000000) REST_03 raw rf /\ List.length raw = 4%nat /\
    0 <= REST_03 /\ REST_03 < 2 /\
    exists rest thr, front (5404319552844595 # 18014398509481984) (1 # 10000) = Some (rest, thr) /\
      rest == REST_03 /\ pow2 (-248) <= thr.
Proof.
  destruct (expand sel_exact FUEL (1 # 1000000000) REST_03) as [raw rf| |] eqn:R;
    [| vm_compute in R; discriminate R | vm_compute in R; discriminate R].
  exists raw, rf. split; [exact (expand_sound _ _ _ _ _ _ R)|].
  vm_compute in R. injection R as R1 R2. subst raw rf.
  split; [reflexivity|]. split; [discriminate|]. split; [reflexivity|].
  eexists. eexists. split; [vm_compute; reflexivity|]. split; vm_compute; [reflexivity | discriminate].
Qed.

(* the hypotheses of C19_within_tol_radians are satisfiable together (thr = 1e-9
   half turns, tol = 4e-9 rad, D = 256, the 4-step run above) *)
Example C19_radians_nonvacuous :
  pow2 (8 - D_FIELD) <= (1 # 1000000000) /\ (1 # 1000000000) * PI_HI <= (4 # 1000000000) /\
  0 <= PI_LO /\ PI_LO <= PI_HI /\
  exists raw rf out, steps (1 # 1000000000) REST_03 raw rf /\ post D_FIELD raw = Some out /\ List.length out = 4%nat.
Proof.
  split; [vm_compute; discriminate|]. split; [vm_compute; discriminate|].
  split; [vm_compute; discriminate|]. split; [vm_compute; discriminate|].
  destruct (expand sel_exact FUEL (1 # 1000000000) REST_03) as [raw rf| |] eqn:R;
    [| vm_compute in R; discriminate R | vm_compute in R; discriminate R].
  exists raw, rf. pose proof (expand_sound _ _ _ _ _ _ R) as Hs.
  vm_compute in R. injection R as R1 R2. subst raw rf.
  eexists. split; [exact Hs|]. split; vm_compute; reflexivity.
Qed.

Print Assumptions C19_run_correct.
Print Assumptions C19_encodable_within_thr.
Print Assumptions C19_length.
Print Assumptions C19_sel_exact_window.
Print Assumptions C19_terminates.
Print Assumptions C19_spec_all_correct.
Print Assumptions C19_spec_exact_defined.
Print Assumptions C19_within_tol_radians.
Print Assumptions C19_radians_with_front_end.
Print Assumptions C19_radians_partial.
Print Assumptions C19_rne53_half_ulp.
Print Assumptions C19_front_first_turn.
Print Assumptions C19_radians_first_turn_partial.
Print Assumptions C19_front_general.
Print Assumptions C19_radians_general_partial.
Print Assumptions C19_old_threshold_refuted.
Print Assumptions C19_old_filter_refuted.
Print Assumptions C19_rest_two_refuted.
Print Assumptions C19_range_reduction_refuted.
