From Coq Require Import ZArith QArith List Bool.
From NQ Require Import Num.Angle.
From Gen Require Import Gen_Angle.
Import ListNotations.
Theorem C19_fields :
  (2 ^ gen_immediate_bits = D_FIELD /\ N_MAX = 2 ^ gen_immediate_bits - 1)%Z /\
  forallb (Z.eqb gen_immediate_bits) gen_rot_imm_widths = true /\
  existsb (fun b => b) gen_rot_imm_signed = false.
Proof. vm_compute. repeat split; reflexivity. Qed.
