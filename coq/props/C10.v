(* C10 — entanglement looks like Phi+ whatever Bell state the link delivered.
   Statements only; proofs are in Proofs/EprBuildProofs.v.  Gen_Epr is regenerated from
   /repo on every run (Bell state -> gates table recorded by running the real correction
   code, SER_RESPONSE_KEEP_* constants, OK_FIELDS, post-processing truth table).

   Parts of the property and where they are decided:
     (a) Pauli algebra  P_b (x) I |B_b> = phase |Phi+>  for the regenerated table
     (d) measure-directly statistics
         -> exact-ring theorems: coq/props/C10_ring.v (Base/Cyclo.v, Base/QMat.v; built by
            another agent, merged by the coordinator).  Until then harness/checks/c10.py
            validates (a) and (d) numerically (numpy, 1e-9) on the same regenerated tables,
            and the classical consistency of the two tables is proved below
            (C10_postproc_matches_paulis).
     (b) the emitted correction code hits pair i's own qubit, for all n   -> here
     (c) expectation switched off: no correction gates                   -> here *)
From Coq Require Import ZArith List Bool String.
From NQ Require Import Sdk.EprBoundary Sdk.EprBuild Proofs.EprBuildProofs.
From Gen Require Import Gen_Epr.
(* >>> C10_ring: when coq/props/C10_ring.v is merged, the check compiles it next to this
   file (same Gen_Epr / Gen_Bell tables); its theorems bell_fix / bell_only /
   postprocess_stats complete parts (a) and (d).  Nothing below depends on it. <<< *)
Import ListNotations.
Open Scope string_scope.
Open Scope Z_scope.

Fixpoint index_of (x : string) (l : list string) : nat :=
  match l with [] => 0%nat | y :: t => if String.eqb y x then 0%nat else S (index_of x t) end.

(* the constants the builder uses, as regenerated *)
Definition bell_idx : nat := match lookup "BELL_STATE" gen_ser_keep_names with Some k => k | None => 0%nat end.
Definition bell_pos : nat := index_of "bell_state" gen_okk_fields.     (* where the controller stores it *)
Definition gen_bp : bparams :=
  mkBP 1 0 (Z.of_nat bell_idx) (Z.of_nat gen_keep_len) (Z.of_nat gen_OK_FIELDS_K) gen_bell_paulis.
Definition run (c : list code) (fuel : nat) (ids bells : list Z) : option (list ev) :=
  gates_applied (exec_list fuel c (init_st gen_bp gen_EXEC_OK_FIELDS bell_pos ids bells)).
Definition npairs (bells : list Z) : Z := Z.of_nat (List.length bells).

(* finite: index constants agree with the tuple layout and the controller's stride, the
   table has one entry per value *)
Theorem C10_consts_ok : consts_ok gen_bp gen_EXEC_OK_FIELDS bell_pos = true.
Proof. vm_compute. reflexivity. Qed.
Theorem C10_table_covers_bell_states :
  map fst gen_bell_paulis = map snd gen_enum_BellState /\
  tlookup (enum_val "PHI_PLUS" gen_enum_BellState) gen_bell_paulis = [].
Proof. vm_compute. split; reflexivity. Qed.

(* (b) post-routine and sequential variants (after the fix): for all n, ids, Bell tuples *)
Theorem C10_corrections_hit_own_qubit_post : forall ids bells fuel,
  List.length ids = List.length bells -> (List.length bells < fuel)%nat -> (gen_EXEC_OK_FIELDS < fuel)%nat ->
  run (code_P gen_bp true (npairs bells)) fuel ids bells = Some (spec_P gen_bell_paulis ids bells).
Proof. intros ids bells fuel H1 H2 H3. exact (code_P_spec gen_bp _ _ ids bells fuel true C10_consts_ok H1 H2 H3). Qed.

(* (b) move-to-memory variant (single communication qubit): pair i is corrected on the
   communication qubit while it is there, then moved to n-1-i *)
Theorem C10_corrections_hit_own_qubit_mem : forall ids bells fuel,
  List.length ids = List.length bells -> (List.length bells < fuel)%nat -> (gen_EXEC_OK_FIELDS < fuel)%nat ->
  run (code_M gen_bp true (npairs bells)) fuel ids bells = Some (spec_M gen_bell_paulis bells).
Proof. intros ids bells fuel H1 H2 H3. exact (code_M_spec gen_bp _ _ ids bells fuel true C10_consts_ok H1 H2 H3). Qed.

(* (b) wait-all variant (recv_keep without post routine on several communication qubits,
   recv_rsp).  Full statement: *)
Definition corrections_hit_own_qubit_waitall : Prop := forall ids bells fuel,
  NoDup ids -> List.length ids = List.length bells -> (List.length bells < fuel)%nat ->
  run (code_W gen_bp true (npairs bells)) fuel ids bells = Some (spec_W gen_bell_paulis ids bells).
(* The code resets qubit_reg to 0 after loading pair i's ID (two unit tests pin this
   instruction, so it is recorded as a finding, not repaired): what it does, for all n *)
Theorem C10_waitall_actual : forall ids bells fuel,
  List.length ids = List.length bells -> (List.length bells < fuel)%nat ->
  run (code_W gen_bp true (npairs bells)) fuel ids bells = Some (actual_W gen_bell_paulis bells).
Proof. intros ids bells fuel H1 H2. exact (code_W_actual gen_bp _ _ ids bells fuel C10_consts_ok H1 H2). Qed.
(* ... which is the required behaviour exactly when every pair that needs a correction is
   on virtual qubit 0 (missing for the full statement: the hypothesis corr_on_zero) *)
Theorem C10_corrections_hit_own_qubit_waitall_partial : forall ids bells fuel,
  List.length ids = List.length bells -> (List.length bells < fuel)%nat ->
  corr_on_zero gen_bell_paulis ids bells ->
  run (code_W gen_bp true (npairs bells)) fuel ids bells = Some (spec_W gen_bell_paulis ids bells).
Proof. intros ids bells fuel H1 H2 H3. exact (code_W_correct_when gen_bp _ _ ids bells fuel C10_consts_ok H1 H2 H3). Qed.
(* ... and the full statement is false: recv_keep(2), Bell states (PSI_PLUS, PHI_MINUS) *)
Theorem C10_corrections_hit_own_qubit_waitall_refuted :
  exists ids bells fuel, NoDup ids /\ List.length ids = List.length bells /\ (List.length bells < fuel)%nat /\
    run (code_W gen_bp true (npairs bells)) fuel ids bells <> Some (spec_W gen_bell_paulis ids bells).
Proof.
  exists [0; 1], [1; 3], 3%nat. split; [|split; [reflexivity|split; [repeat constructor|]]].
  - repeat constructor; cbn; intuition discriminate.
  - vm_compute. intros H. discriminate H.
Qed.

(* (c) expectation switched off: only the post routine's / the move's events, no Pauli *)
Definition no_pauli (r : option (list ev)) : Prop :=
  exists tr, r = Some tr /\ forallb (fun e => negb (is_pauli_ev e)) tr = true.
Theorem C10_expect_off_no_gates : forall ids bells fuel,
  List.length ids = List.length bells -> (List.length bells < fuel)%nat -> (gen_EXEC_OK_FIELDS < fuel)%nat ->
  no_pauli (run (code_P gen_bp false (npairs bells)) fuel ids bells) /\
  no_pauli (run (code_M gen_bp false (npairs bells)) fuel ids bells) /\
  run (code_W gen_bp false (npairs bells)) fuel ids bells = Some [].
Proof.
  intros ids bells fuel H1 H2 H3. split; [|split; [|reflexivity]].
  - eexists. split; [exact (code_P_spec gen_bp _ _ ids bells fuel false C10_consts_ok H1 H2 H3)|apply spec_P_off_no_pauli].
  - eexists. split; [exact (code_M_spec gen_bp _ _ ids bells fuel false C10_consts_ok H1 H2 H3)|apply spec_M_off_no_pauli].
Qed.

(* (a)/(d), classical part: the post-processing truth table flips the raw outcome exactly
   when the correction Pauli of the Bell state anticommutes with the measured Pauli
   (X/MX: flipped by a Z correction; Z/MZ: by an X correction; Y/MY: by exactly one), and
   without post-processing the raw outcome is returned.  96 rows, finite. *)
Definition has_gate (nm : string) (b : Z) : bool :=
  existsb (fun g => String.eqb (fst (fst g)) nm && (snd (fst g) =? 16) && (snd g =? 4)) (tlookup b gen_bell_paulis).
Definition basis_name (k : Z) : string := match name_of k gen_enum_EprMeasBasis with Some n => n | None => "" end.
Definition flip (basis b : Z) : bool :=
  let n := basis_name basis in
  let isx := String.eqb n "X" || String.eqb n "MX" in
  let isy := String.eqb n "Y" || String.eqb n "MY" in
  let isz := String.eqb n "Z" || String.eqb n "MZ" in
  xorb (has_gate "rot_z" b && (isx || isy)) (has_gate "rot_x" b && (isz || isy)).
Definition postproc_row_ok (r : Z * Z * Z * Z * Z) : bool :=
  let '(basis, b, m, out, raw) := r in
  (out =? (if flip basis b then 1 - m else m)) && (raw =? m).
Theorem C10_postproc_matches_paulis :
  forallb postproc_row_ok gen_postproc = true /\
  List.length gen_postproc = (List.length gen_enum_EprMeasBasis * List.length gen_enum_BellState * 2)%nat /\
  forallb (fun g => match tlookup (fst g) gen_bell_paulis with
                    | gs => forallb (fun x => (String.eqb (fst (fst x)) "rot_x" || String.eqb (fst (fst x)) "rot_z")
                                              && (snd (fst x) =? 16) && (snd x =? 4)) gs end) gen_bell_paulis = true.
Proof. vm_compute. repeat split; reflexivity. Qed.

(* a Bell state reported through qlink-interface 1.0 (enum member or plain integer in qlink's
   numbering, K and M responses) reaches the correction code / the post-processing as the state of
   the same name: the real conversion function tabulated on all 4 x 2 x 2 inputs agrees with the
   by-name map *)
Theorem C10_bell_state_by_name :
  forallb (fun x => String.eqb (snd (fst x)) (snd x)) gen_bell_conv = true /\
  Nat.eqb (List.length gen_bell_conv) (4 * List.length gen_qlink_BellState) = true.
Proof. vm_compute. split; reflexivity. Qed.

(* measure-directly handles: the outcome is post-processed exactly for a RECEIVER that expects Phi+ (a
   creator's handle returns the raw outcome of its pair's response), and every handle carries the requested
   rotations; tabulated from the real deserialize_epr_measure_results for both roles, expectation on/off,
   n = 1..4 *)
Theorem C10_measure_post_process_flags :
  forallb (fun x => match x with (role, expect, _, _, pp, rot) =>
             Bool.eqb pp (expect && String.eqb role "RECV") && rot end) gen_measure_flags = true /\
  Nat.eqb (List.length gen_measure_flags) 40 = true.
Proof. vm_compute. split; reflexivity. Qed.

(* the named bases: rotation_to_basis inverts basis_to_rotation (post-processing recognises
   the basis the request was made with); 6 rows *)
Theorem C10_named_bases_roundtrip :
  forallb (fun x => fst x =? snd x) gen_basis_back = true /\
  map fst gen_basis_back = map snd gen_enum_EprMeasBasis /\ map fst gen_basis_rot = map snd gen_enum_EprMeasBasis.
Proof. vm_compute. repeat split; reflexivity. Qed.

(* non-vacuity: three pairs on shifted IDs with three different Bell states; the
   hypotheses of the theorems hold and the traces are non-trivial *)
Example C10_nonvacuous :
  run (code_P gen_bp true 3) 11 [1; 2; 4] [1; 3; 2] =
    Some [Ev "rot_x" 1 16 4; Ev "meas" 1 0 0; Ev "rot_z" 2 16 4; Ev "meas" 2 0 0;
          Ev "rot_x" 4 16 4; Ev "rot_z" 4 16 4; Ev "meas" 4 0 0] /\
  run (code_M gen_bp true 3) 11 [0; 0; 0] [1; 3; 2] =
    Some [Ev "rot_x" 0 16 4; Ev "mov" 0 2 0; Ev "qfree" 0 0 0; Ev "rot_z" 0 16 4; Ev "mov" 0 1 0;
          Ev "qfree" 0 0 0; Ev "rot_x" 0 16 4; Ev "rot_z" 0 16 4] /\
  run (code_W gen_bp true 2) 3 [0; 1] [1; 0] = Some (spec_W gen_bell_paulis [0; 1] [1; 0]) /\
  corr_on_zero gen_bell_paulis [0; 1] [1; 0].
Proof.
  vm_compute. repeat split.
  intros i id b H1 H2 H3. destruct i as [|[|i]]; cbn in H1, H2.
  - now inversion H1.
  - inversion H2; subst. now elim H3.
  - destruct i; discriminate.
Qed.

Print Assumptions C10_corrections_hit_own_qubit_post.
Print Assumptions C10_corrections_hit_own_qubit_mem.
Print Assumptions C10_waitall_actual.
Print Assumptions C10_corrections_hit_own_qubit_waitall_partial.
Print Assumptions C10_corrections_hit_own_qubit_waitall_refuted.
Print Assumptions C10_expect_off_no_gates.
Print Assumptions C10_postproc_matches_paulis.
