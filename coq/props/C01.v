(* C01 — binary subroutine codec is lossless and uniquely decodable per flavour.
   Statements only; proofs are in Proofs/CodecProofs.v.  Gen_Codec is
   regenerated from /repo on every run. *)
From Coq Require Import ZArith List Bool String.
From NQ Require Import Base.Bits Lang.Codec Proofs.CodecProofs.
From Gen Require Import Gen_Codec.
Import ListNotations.
Open Scope Z_scope.

(* (e) the regenerated tables are injective dictionaries whose classes encode and
   decode through one well-formed layout (finite, decided by computation) *)
Theorem C01_header_ok : header_ok gen_header = true /\ gen_command_bytes = CMD_BYTES.
Proof. vm_compute. split; reflexivity. Qed.
Theorem C01_wf_vanilla : wf_table gen_vanilla = true.
Proof. vm_compute. reflexivity. Qed.
Theorem C01_wf_nv : wf_table gen_nv = true.
Proof. vm_compute. reflexivity. Qed.
Theorem C01_wf_reids : wf_table gen_reids = true.
Proof. vm_compute. reflexivity. Qed.

(* the model's last-wins lookup is the flavour's live id_map / name_map *)
Theorem C01_maps_agree :
  idmap_agrees gen_vanilla gen_vanilla_id_map = true /\
  namemap_agrees gen_vanilla gen_vanilla_name_map = true /\
  idmap_agrees gen_nv gen_nv_id_map = true /\
  namemap_agrees gen_nv gen_nv_name_map = true /\
  idmap_agrees gen_reids gen_reids_id_map = true /\
  namemap_agrees gen_reids gen_reids_name_map = true.
Proof. vm_compute. repeat split; reflexivity. Qed.

(* (b,c) every in-range subroutine of any length decodes to itself *)
Definition roundtrip (t : list row) : Prop :=
  forall s : sub,
    Forall (fun c => In (fst c) t) (s_body s) ->
    sub_in_range gen_header s = true ->
    decode_sub gen_header t (encode_sub gen_header s) = Some s.

Theorem C01_roundtrip_vanilla : roundtrip gen_vanilla.
Proof. intros s H1 H2. exact (decode_encode_sub _ _ s (proj1 C01_header_ok) C01_wf_vanilla H1 H2). Qed.
Theorem C01_roundtrip_nv : roundtrip gen_nv.
Proof. intros s H1 H2. exact (decode_encode_sub _ _ s (proj1 C01_header_ok) C01_wf_nv H1 H2). Qed.
Theorem C01_roundtrip_reids : roundtrip gen_reids.
Proof. intros s H1 H2. exact (decode_encode_sub _ _ s (proj1 C01_header_ok) C01_wf_reids H1 H2). Qed.

(* (d) an encoded instruction never decodes as a different instruction *)
Definition unique_decoding (t : list row) : Prop :=
  forall r ops r' ops', In r t -> In r' t ->
    in_range r ops = true -> in_range r' ops' = true ->
    encode_row r ops = encode_row r' ops' -> r = r' /\ ops = ops'.

Theorem C01_unique_vanilla : unique_decoding gen_vanilla.
Proof. intros r ops r' ops'. exact (encode_injective _ r ops r' ops' C01_wf_vanilla). Qed.
Theorem C01_unique_nv : unique_decoding gen_nv.
Proof. intros r ops r' ops'. exact (encode_injective _ r ops r' ops' C01_wf_nv). Qed.
Theorem C01_unique_reids : unique_decoding gen_reids.
Proof. intros r ops r' ops'. exact (encode_injective _ r ops r' ops' C01_wf_reids). Qed.

(* (f) consequences at subroutine level, for subroutines of any length:
   two different in-range subroutines never share a byte string (the encoder is
   injective, so the decoder's answer is the only possible one), and a byte string
   produced from classes that two flavours share decodes to the same subroutine
   under either flavour (the core instructions mean the same on every flavour). *)
Definition sub_injective (t : list row) : Prop :=
  forall s s' : sub,
    Forall (fun c => In (fst c) t) (s_body s) -> Forall (fun c => In (fst c) t) (s_body s') ->
    sub_in_range gen_header s = true -> sub_in_range gen_header s' = true ->
    encode_sub gen_header s = encode_sub gen_header s' -> s = s'.

Lemma sub_injective_of_roundtrip t : roundtrip t -> sub_injective t.
Proof.
  intros R s s' H1 H1' H2 H2' E.
  pose proof (R s H1 H2) as D. pose proof (R s' H1' H2') as D'.
  rewrite E in D. rewrite D in D'. now inversion D'.
Qed.

Theorem C01_sub_injective_vanilla : sub_injective gen_vanilla.
Proof. exact (sub_injective_of_roundtrip _ C01_roundtrip_vanilla). Qed.
Theorem C01_sub_injective_nv : sub_injective gen_nv.
Proof. exact (sub_injective_of_roundtrip _ C01_roundtrip_nv). Qed.
Theorem C01_sub_injective_reids : sub_injective gen_reids.
Proof. exact (sub_injective_of_roundtrip _ C01_roundtrip_reids). Qed.

Definition shared_classes_agree (t t' : list row) : Prop :=
  forall s : sub,
    Forall (fun c => In (fst c) t /\ In (fst c) t') (s_body s) ->
    sub_in_range gen_header s = true ->
    decode_sub gen_header t (encode_sub gen_header s) = Some s /\
    decode_sub gen_header t' (encode_sub gen_header s) = Some s.

Lemma shared_of_roundtrip t t' : roundtrip t -> roundtrip t' -> shared_classes_agree t t'.
Proof.
  intros R R' s H1 H2. split; [apply R | apply R']; auto;
    (eapply Forall_impl; [|exact H1]); cbv beta; intros a [Ha Ha']; assumption.
Qed.

Theorem C01_shared_vanilla_nv : shared_classes_agree gen_vanilla gen_nv.
Proof. exact (shared_of_roundtrip _ _ C01_roundtrip_vanilla C01_roundtrip_nv). Qed.
Theorem C01_shared_vanilla_reids : shared_classes_agree gen_vanilla gen_reids.
Proof. exact (shared_of_roundtrip _ _ C01_roundtrip_vanilla C01_roundtrip_reids). Qed.
Theorem C01_shared_nv_reids : shared_classes_agree gen_nv gen_reids.
Proof. exact (shared_of_roundtrip _ _ C01_roundtrip_nv C01_roundtrip_reids). Qed.

(* non-vacuity: a concrete subroutine with boundary operands meets the
   hypotheses and round-trips by computation *)
Example C01_nonvacuous :
  let body := map (fun r => (r, match r_kinds r with
                                | [KReg; KImm] => [OReg 3 15; OImm (-2147483648)]
                                | [KReg; KEntry] => [OReg 2 0; OEntry 2147483647 1 15]
                                | _ => [] end))
                  (filter (fun r => match r_kinds r with
                                    | [KReg; KImm] | [KReg; KEntry] => true | _ => false end)
                          gen_vanilla) in
  let s := mkSub 255 0 65535 body in
  (2 <=? Z.of_nat (List.length body)) && sub_in_range gen_header s &&
  match decode_sub gen_header gen_vanilla (encode_sub gen_header s) with
  | Some s' => Nat.eqb (List.length (s_body s')) (List.length body) | None => false end = true.
Proof. vm_compute. reflexivity. Qed.

(* non-vacuity of (f): the flavours do share classes (same python class name and
   opcode in both regenerated tables) -- at least the 25 core instructions *)
Example C01_shared_nonvacuous :
  let shared t t' := filter (fun r => existsb (fun r' => String.eqb (r_name r) (r_name r') && (r_op r =? r_op r')) t') t in
  (25 <=? Z.of_nat (List.length (shared gen_vanilla gen_nv))) &&
  (25 <=? Z.of_nat (List.length (shared gen_vanilla gen_reids))) &&
  (25 <=? Z.of_nat (List.length (shared gen_nv gen_reids))) = true.
Proof. vm_compute. reflexivity. Qed.

Print Assumptions C01_roundtrip_vanilla.
Print Assumptions C01_roundtrip_nv.
Print Assumptions C01_roundtrip_reids.
Print Assumptions C01_unique_vanilla.
Print Assumptions C01_unique_nv.
Print Assumptions C01_unique_reids.
Print Assumptions C01_maps_agree.
Print Assumptions C01_sub_injective_vanilla.
Print Assumptions C01_sub_injective_nv.
Print Assumptions C01_sub_injective_reids.
Print Assumptions C01_shared_vanilla_nv.
Print Assumptions C01_shared_vanilla_reids.
Print Assumptions C01_shared_nv_reids.
