(* C04_bridges — the private interpreters of C03 / C05 / C08 / C10 bridged to the
   common semantics Exec/Sem.v (classical instructions; tied to executor.py by
   C04_exec_refines_sem + the C04 correspondence) and its extension with abstract
   quantum events Exec/SemQ.v.  Statements only; proofs are in
   Proofs/Bridge_Asm.v, Bridge_AsmChain.v, Bridge_Nv.v, Bridge_Sdk.v, Bridge_Epr.v.
   design/C04.md lists coverage and the disagreements found. *)
From Coq Require Import ZArith List Bool String.
From NQ Require Import Exec.State Exec.Sem Exec.SemQ Proofs.ExecProofs Proofs.SemQProofs.
From NQ Require Lang.Asm Lang.AsmSem Lang.AsmSemQ Proofs.AsmProofs Proofs.AsmQProofs Nv.Transpile Sdk.Target Sdk.EprBuild.
From NQ Require Proofs.Bridge_Asm Proofs.Bridge_AsmChain Proofs.Bridge_Nv Proofs.Bridge_Sdk Proofs.Bridge_Epr Proofs.Bridge_AsmQ.
Import ListNotations.
Open Scope Z_scope.

(* ------------------------------------------------------------------ SemQ is Sem on classical programs *)
Theorem C04B_semq_conservative : forall fuel p s pc,
  let '(st', pc', o) := Sem.run_from p (q_st s) pc fuel in
  exists tr, qrun_from (map QC p) s pc fuel = (mkQ st' (q_script s) tr, pc', o).
Proof. exact qrun_from_classical. Qed.

(* ------------------------------------------------------------------ C03: Lang/AsmSem.v
   FULL on the fragment: all 19 instructions AsmSem models, in assembled form
   (Bridge_Asm.e_prog defined: no labels, no bracket arguments, registers in
   value positions, literal branch targets), every program, state, pc, number of
   steps; inside Sem.defined_from. *)
Theorem C04B_asm_instr : forall o ops i a s pc,
  Bridge_Asm.e_ins o ops = Some i -> Bridge_Asm.srel a s -> step i s pc <> Stop (Unspec pc) ->
  Bridge_Asm.step_bridge s pc (AsmSem.exec o ops a) (step i s pc).
Proof. exact Bridge_Asm.ins_bridge. Qed.

Theorem C04B_asm_bridge : forall n T p a s k,
  Bridge_Asm.e_prog T = Some p -> Bridge_Asm.srel a s -> defined_from p s (Z.of_nat k) ->
  Bridge_Asm.cfg_bridge (List.length T) (AsmSem.arun T n (AsmSem.Run k a)) (Sem.run_from p s (Z.of_nat k) n).
Proof. exact Bridge_Asm.asm_bridge_from. Qed.

(* C03's own theorem chained with the bridge: source program --assembler-->
   assembled program (AsmSem) --bridge--> common semantics *)
Theorem C04B_source_to_sem : forall pr P T p n ss st s,
  AsmProofs.params_ok pr = true -> Asm.is_exempt (Asm.ap_exempt pr) Asm.SET 1 = true ->
  AsmProofs.wf_src P = true ->
  Asm.assemble_ir pr P = Asm.AOk T -> Bridge_Asm.e_prog T = Some p ->
  AsmProofs.eqv pr (Asm.named P) ss st -> Bridge_Asm.srel st s -> defined_domain p s ->
  (forall pc x, AsmSem.arun P n (AsmSem.Run 0 ss) <> AsmSem.Run pc x) ->
  exists m0, forall m, (m0 <= m)%nat ->
    AsmProofs.cfg_rel pr P (AsmSem.arun P n (AsmSem.Run 0 ss)) (AsmSem.arun T m (AsmSem.Run 0 st)) /\
    Bridge_Asm.cfg_bridge (List.length T) (AsmSem.arun T m (AsmSem.Run 0 st)) (Sem.run p s m).
Proof. exact Bridge_AsmChain.source_to_sem_chain. Qed.

Local Open Scope string_scope.
Definition asm_demo : list Asm.acmd :=
  [Asm.AIns "set" [] [Asm.AV (Asm.VReg 0 0); Asm.AV (Asm.VLit 3)];
   Asm.AIns "array" [] [Asm.AV (Asm.VReg 0 0); Asm.AAddr 1];
   Asm.AIns "set" [] [Asm.AV (Asm.VReg 0 1); Asm.AV (Asm.VLit 0)];
   Asm.AIns "set" [] [Asm.AV (Asm.VReg 1 0); Asm.AV (Asm.VLit 1)];
   Asm.AIns "store" [] [Asm.AV (Asm.VReg 0 1); Asm.AEntry 1 (Asm.VReg 0 1)];
   Asm.AIns "add" [] [Asm.AV (Asm.VReg 0 1); Asm.AV (Asm.VReg 0 1); Asm.AV (Asm.VReg 1 0)];
   Asm.AIns "blt" [] [Asm.AV (Asm.VReg 0 1); Asm.AV (Asm.VReg 0 0); Asm.AV (Asm.VLit 4)];
   Asm.AIns "ret_arr" [] [Asm.AAddr 1];
   Asm.AIns "load" [] [Asm.AV (Asm.VReg 3 2); Asm.AEntry 1 (Asm.VLit 5)]].
Local Close Scope string_scope.

(* the hypotheses are satisfiable on a looping program that ends in a fault at
   line 8; both sides computed *)
Example C04B_asm_nonvacuous :
  exists p, Bridge_Asm.e_prog asm_demo = Some p /\ defined_domain p (init_state 0) /\
            Bridge_Asm.srel AsmSem.init_state (init_state 0) /\
            (match AsmSem.arun asm_demo 50 (AsmSem.Run 0 AsmSem.init_state) with
             | AsmSem.Fault 8 a => AsmSem.m_arr (AsmSem.s_mem a) = [(1, [Some 0; Some 1; Some 2])]
             | _ => False end) /\
            (let '(st, pc, o) := Sem.run p (init_state 0) 50 in
             o = Fault FIndex 8 /\ pc = 8 /\ arrs st = [(1, [Some 0; Some 1; Some 2])] /\
             shm_arrays st = [(1, [Some 0; Some 1; Some 2])]).
Proof.
  eexists. split; [vm_compute; reflexivity|]. split.
  - apply (defined_from_by_run _ _ 0 50). vm_compute. reflexivity.
  - split; [apply Bridge_Asm.srel_init|]. vm_compute. repeat split; reflexivity.
Qed.

(* ------------------------------------------------------------------ C03 with events: Lang/AsmSemQ.v
   FULL on the fragment: the 19 classical instructions, qalloc / qfree (unit module with
   capacity, the executor's faults), meas (scripted outcome) and the gate-like
   instructions of AsmSemQ.gate_table (init, x y z h s k t, rot_*, cnot cphase mov,
   crot_*, create_epr, recv_epr as opaque events), in assembled form; every program,
   related states (Bridge_AsmQ.qrel: classical state, unit module, script, trace event
   for event, consistent physical-qubit bookkeeping), pc, number of steps; inside the
   defined domain of SemQ.  No extra hypotheses: AsmSemQ keeps the capacity and the
   allocation faults (the disagreements D-NV-1 / D-SDK-1 do not arise), and like the
   base executor it does not check that a gate's qubit is allocated. *)
Theorem C04B_asmq_bridge : forall n T p a s k,
  Bridge_AsmQ.e_qprog T = Some p -> Bridge_AsmQ.qrel a s -> qdefined_from p s (Z.of_nat k) ->
  Bridge_AsmQ.qcfg_bridge (List.length T) (AsmSemQ.arun_q T n (AsmSemQ.QRun k a)) (qrun_from p s (Z.of_nat k) n).
Proof. exact Bridge_AsmQ.asmq_bridge_from. Qed.

Theorem C04B_asmq_instr : forall mn ops qi qa s pc,
  Bridge_AsmQ.e_qins mn ops = Some qi -> Bridge_AsmQ.qrel qa s -> qstep qi s pc <> QStop (Unspec pc) ->
  Bridge_AsmQ.qstep_bridge pc (AsmSemQ.exec_q mn ops qa) (qstep qi s pc).
Proof. exact Bridge_AsmQ.qins_bridge. Qed.

(* C03's example (qalloc, init, a measure-until-1 loop with a rotation, qfree, ret_reg),
   assembled: in the fragment, inside the domain, both runs halt, traces correspond *)
Example C04B_asmq_nonvacuous :
  match Asm.assemble_ir AsmQProofs.exq_params AsmQProofs.exq_prog with
  | Asm.AOk T =>
      exists p, Bridge_AsmQ.e_qprog T = Some p /\
        qdefined_domain p (mkQ (init_state 2) [0; 1] []) /\
        Bridge_AsmQ.qrel (AsmSemQ.init_qstate 2 [0; 1]) (mkQ (init_state 2) [0; 1] []) /\
        match AsmSemQ.arun_q T 30 (AsmSemQ.QRun 0 (AsmSemQ.init_qstate 2 [0; 1])), qrun p (mkQ (init_state 2) [0; 1] []) 30 with
        | AsmSemQ.QHalted a, (s, _, Halt) =>
            q_trace s = map Bridge_AsmQ.e_aev (AsmSemQ.qa_trace a) /\ List.length (q_trace s) = 8%nat /\
            um (q_st s) = [None; None] /\ used (q_st s) = []
        | _, _ => False
        end
  | Asm.AErr _ => False
  end.
Proof.
  destruct (Asm.assemble_ir AsmQProofs.exq_params AsmQProofs.exq_prog) as [T|] eqn:E;
    [|vm_compute in E; discriminate].
  vm_compute in E. inversion E; subst T. clear E.
  eexists. split; [vm_compute; reflexivity|]. split.
  - apply SemQProofs.qdefined_is_qsafe.
    apply (qsafe_by_run is_unspec _ _ 0 30); [reflexivity|vm_compute; discriminate|vm_compute; reflexivity].
  - split; [apply Bridge_AsmQ.qrel_init|]. vm_compute. repeat split; reflexivity.
Qed.

(* ------------------------------------------------------------------ C08: Nv/Transpile.v
   FULL on the fragment: every instruction except IDebug (never executed) and
   IOther (effect = environment parameter); every program, environment, state,
   pc, step bound; inside the domain of SemQ and as long as SemQ does not fault
   AT a qalloc/qfree (Transpile keeps no unit module: disagreement D-NV-1). *)
Theorem C04B_nv_instr : forall env i qi ms s pc,
  Bridge_Nv.e_instr i = Some qi -> Bridge_Nv.nrel ms s ->
  qstep qi s (Z.of_nat pc) <> QStop (Unspec (Z.of_nat pc)) ->
  (Bridge_Nv.is_alloc qi = true -> forall k, qstep qi s (Z.of_nat pc) <> QStop (Fault k (Z.of_nat pc))) ->
  Bridge_Nv.nstep_bridge pc (Transpile.step env i pc ms) (qstep qi s (Z.of_nat pc)).
Proof. exact Bridge_Nv.nv_instr_bridge. Qed.

Theorem C04B_nv_bridge : forall fuel env p qp ms s pc,
  Bridge_Nv.e_prog p = Some qp -> Bridge_Nv.nrel ms s ->
  qsafe (Bridge_Nv.bad qp) qp s (Z.of_nat pc) ->
  match Transpile.run env p fuel pc ms, qrun_from qp s (Z.of_nat pc) fuel with
  | (stt, pc', ms'), (s', zpc, o) =>
      Bridge_Nv.nrel ms' s' /\ zpc = Z.of_nat pc' /\ Bridge_Nv.status_rel stt o zpc
  end.
Proof. exact Bridge_Nv.nv_bridge_from. Qed.

Definition nv_demo : Transpile.prog :=
  let Q0 := Transpile.mkReg Transpile.BQ 0 in
  let Q1 := Transpile.mkReg Transpile.BQ 1 in
  let M0 := Transpile.mkReg Transpile.BM 0 in
  let R0 := Transpile.mkReg Transpile.BR 0 in
  [Transpile.ISet Q0 0; Transpile.ISet Q1 1; Transpile.IQ Transpile.QAlloc Q0; Transpile.IQ Transpile.QInit Q0;
   Transpile.IQ Transpile.QAlloc Q1; Transpile.IQ Transpile.QInit Q1;
   Transpile.IGate1 Transpile.GH Q0; Transpile.IGate2 Transpile.Cnot Q0 Q1;
   Transpile.IRot Transpile.AZ Q1 3 4; Transpile.IMeas Q0 M0; Transpile.IBr1 Transpile.Bez M0 12;
   Transpile.ICrot Transpile.AX Q0 Q1 1 1; Transpile.IQ Transpile.QFree Q0;
   Transpile.ISet R0 1; Transpile.IArray R0 7; Transpile.IStore M0 7 R0].

Example C04B_nv_nonvacuous :
  exists qp, Bridge_Nv.e_prog nv_demo = Some qp /\
             qsafe (Bridge_Nv.bad qp) qp (mkQ (init_state 2) [1] []) 0 /\
             (let '(stt, pc, ms) := Transpile.run (fun _ _ _ _ _ => None) nv_demo 50 0
                                      (Transpile.mkSt (fun _ => None) (fun _ => None) [1] []) in
              stt = Transpile.Faulted /\ pc = 15%nat /\ List.length (Transpile.trace ms) = 10%nat) /\
             (let '(s, pc, o) := qrun qp (mkQ (init_state 2) [1] []) 50 in
              o = Fault FIndex 15 /\ List.length (q_trace s) = 10%nat /\ um (q_st s) = [None; Some 1] /\ used (q_st s) = [1]).
Proof.
  eexists. split; [vm_compute; reflexivity|]. split.
  - apply (qsafe_by_run _ _ _ _ 50); [reflexivity|vm_compute; discriminate|vm_compute; reflexivity].
  - vm_compute. repeat split; reflexivity.
Qed.

(* D-NV-1 (witness): double allocation -- Transpile runs on and halts, the common
   semantics (and the executor) fault at line 2 *)
Example C04B_nv_alloc_disagreement :
  let Q0 := Transpile.mkReg Transpile.BQ 0 in
  let p := [Transpile.ISet Q0 0; Transpile.IQ Transpile.QAlloc Q0; Transpile.IQ Transpile.QAlloc Q0] in
  (fst (fst (Transpile.run (fun _ _ _ _ _ => None) p 10 0 (Transpile.mkSt (fun _ => None) (fun _ => None) [] [])))
     = Transpile.Halted) /\
  (snd (qrun [QC (ISet (BQ, 0) 0); QC (IQalloc (BQ, 0)); QC (IQalloc (BQ, 0))] (mkQ (init_state 2) [] []) 10)
     = Fault FAlloc 2).
Proof. vm_compute. split; reflexivity. Qed.

(* ------------------------------------------------------------------ C05/C14: Sdk/Target.v
   PARTIAL: per instruction, for the instructions whose value operands are
   registers (ISet, IQ *, IRot, ITwo, IMeas, IStore (PReg _), ILoad, IAdd _ _
   (PReg _), IRetArr, IRetReg) and the branch predicates on register operands.
   Missing for a full bridge: IAdd with an immediate, IAddm (literal modulus),
   IArray (literal length), IStore of an immediate -- proto-level forms the
   assembler materialises (C03) --, IOpaque, and the program level (labels occupy
   code positions in Target's flat code; big-step semantics of the structured IR). *)
Theorem C04B_sdk_instr_partial : forall i qi ms s pc,
  Bridge_Sdk.e_instr i = Some qi -> Bridge_Sdk.grel ms s ->
  qstep qi s pc <> QStop (Unspec pc) ->
  qstep qi s pc <> QStop (Fault FUnitRange pc) ->
  qstep qi s pc <> QStop (Fault FBook pc) ->
  Bridge_Sdk.gate_bridge ms s pc (Bridge_Sdk.qregs i) (Target.exec_instr i ms) (qstep qi s pc).
Proof. exact Bridge_Sdk.sdk_instr_bridge_partial. Qed.

Theorem C04B_sdk_cond : forall ms s, Bridge_Sdk.grel ms s ->
  (forall c bc x y a b, Bridge_Sdk.e_cond2 c = Some bc ->
     rd (q_st s) (Bridge_Sdk.e_reg x) = Some a -> rd (q_st s) (Bridge_Sdk.e_reg y) = Some b ->
     Target.holds_at c (Target.PReg x) (Target.PReg y) ms = Some (bcond_holds bc a b)) /\
  (forall c uc x y a, Bridge_Sdk.e_cond1 c = Some uc ->
     rd (q_st s) (Bridge_Sdk.e_reg x) = Some a ->
     Target.holds_at c (Target.PReg x) y ms = Some (ucond_holds uc a)).
Proof. exact Bridge_Sdk.sdk_cond_bridge. Qed.

Example C04B_sdk_nonvacuous :
  let Q0 := Target.Rg Target.BQ 0 in
  let ms1 := Target.set_reg (Target.m0 [1]) Q0 0 in
  let s1 := mkQ (wr (init_state 2) (BQ, 0) 0) [1] [] in
  Bridge_Sdk.grel (Target.m0 [1]) (mkQ (init_state 2) [1] []) /\
  (* qalloc then a gate: Target and SemQ both proceed *)
  (match Target.exec_instr (Target.IQ Target.QAlloc Q0) ms1, qstep (QC (IQalloc (BQ, 0))) s1 4 with
   | Some _, QNext s' 5 => um (q_st s') = [Some 0; None]
   | _, _ => False end) /\
  (* a gate on a register holding an unallocated id: Target faults, SemQ emits the event (D-SDK-2) *)
  (match Target.exec_instr (Target.IQ (Target.QG SdkAst.GH) Q0) ms1, qstep (QGate 13 [] [(BQ, 0)]) s1 4 with
   | None, QNext s' 5 => q_trace s' = [QEvGate 13 [] [0]]
   | _, _ => False end).
Proof. split; [apply Bridge_Sdk.grel_init|]. vm_compute. split; reflexivity. Qed.

(* D-SDK-1 (witness): virtual id 5 in a unit module of 2 qubits -- Target allocates,
   the common semantics (and the executor: ValueError) faults *)
Example C04B_sdk_capacity_disagreement :
  let Q0 := Target.Rg Target.BQ 0 in
  (match Target.exec_instr (Target.IQ Target.QAlloc Q0) (Target.set_reg (Target.m0 []) Q0 5) with
   | Some ms' => Target.m_alloc ms' 5%nat = true | None => False end) /\
  (qstep (QC (IQalloc (BQ, 0))) (mkQ (wr (init_state 2) (BQ, 0) 5) [] []) 1 = QStop (Fault FUnitRange 1)).
Proof. vm_compute. split; reflexivity. Qed.

(* ------------------------------------------------------------------ C10: Sdk/EprBuild.v
   PARTIAL: leaf instructions with register operands (CSet, CAdd/CSub on two
   registers, CLoad, CGate, CMov).  Missing: the structured control flow CIfEq /
   CIfNe / CLoop (needs a compiler to jumps and its correctness), immediates as
   add/sub operands, CWait, CQFree, CMeas (see design/C04.md, D-EPR-n). *)
Theorem C04B_epr_leaf_partial : forall fuel c qi es s pc,
  Bridge_Epr.e_code c = Some qi -> Bridge_Epr.erel es s ->
  (forall nm q a b, c = EprBuild.CGate nm q a b -> String.eqb nm "mov" = false) ->
  qstep qi s pc <> QStop (Unspec pc) ->
  Bridge_Epr.leaf_bridge pc (EprBuild.exec fuel c es) (qstep qi s pc).
Proof. exact Bridge_Epr.epr_leaf_bridge_partial. Qed.

Example C04B_epr_nonvacuous :
  let es := EprBuild.mkSt (fun r => if Nat.eqb r 3 then Some 1 else None)
                          (fun a => if Nat.eqb a 2 then [Some 7; None] else []) [] in
  let s := mkQ (write_array 2 [Some 7; None] (wr (init_state 0) (BR, 3) 1)) [] [] in
  Bridge_Epr.erel es s /\
  (match EprBuild.exec 5 (EprBuild.CLoad 4%nat 2%nat 3%nat) es, qstep (QC (ILoad (BR, 4) 2 (OReg (BR, 3)))) s 9 with
   | EprBuild.Fault, QStop (Fault FUndefEntry 9) => True
   | _, _ => False end).
Proof.
  split; [|vm_compute; exact I].
  split; [|split; [|reflexivity]].
  - intros r. cbn. unfold rd, wr, Bridge_Epr.e_reg. cbn.
    destruct (Nat.eqb r 3) eqn:E.
    + apply Nat.eqb_eq in E. subst. reflexivity.
    + apply Nat.eqb_neq in E. unfold reg_eqb, bank_eqb. cbn.
      replace (Z.of_nat r =? 3) with false by (symmetry; apply Z.eqb_neq; intro H; apply E; apply Nat2Z.inj; exact H).
      reflexivity.
  - intros a. cbn. destruct (Nat.eqb a 2) eqn:E.
    + apply Nat.eqb_eq in E. subst. reflexivity.
    + apply Nat.eqb_neq in E.
      replace (Z.of_nat a =? 2) with false by (symmetry; apply Z.eqb_neq; intro H; apply E; apply Nat2Z.inj; exact H).
      reflexivity.
Qed.

Print Assumptions C04B_semq_conservative.
Print Assumptions C04B_asm_bridge.
Print Assumptions C04B_source_to_sem.
Print Assumptions C04B_asmq_bridge.
Print Assumptions C04B_nv_bridge.
Print Assumptions C04B_sdk_instr_partial.
Print Assumptions C04B_sdk_cond.
Print Assumptions C04B_epr_leaf_partial.
