(* C10_ring_complex — C10 part (a) for COMPLEX vectors: instantiation of
   C10_bell_fix at Coquelicot's C (depends on the axioms of the reals, printed below).
   To be compiled after C10_ring.v:  qcommon.complex_props(ctx, "C10_ring_complex"). *)
From Coq Require Import Reals ZArith List Bool.
From Coquelicot Require Import Complex.
From NQ Require Import Base.Cyclo Base.QMat Epr.BellRing Proofs.BellProofs Proofs.ComplexInstance.
From Gen Require Import Gen_Bell C10_ring.
Import ListNotations.

(* for every delivered Bell state the correction circuit computed over C maps the
   complex vector |B_b> to e^{i p pi/32} |Phi+> *)
Theorem C10_bell_fix_in_C : bell_fix_in_C gen_bell_numbering gen_corrections.
Proof. exact (bell_fix_lifts_C _ _ C10_bell_fix). Qed.

Theorem C10_bell_vectors_in_C : forall b, cmev (bell_vec b) =
  match b with
  | BPhiPlus => [[Ch]; [C0]; [C0]; [Ch]]
  | BPsiPlus => [[C0]; [Ch]; [Ch]; [C0]]
  | BPsiMinus => [[C0]; [Ch]; [Copp Ch]; [C0]]
  | BPhiMinus => [[Ch]; [C0]; [C0]; [Copp Ch]]
  end.
Proof. exact cmev_bell. Qed.

Print Assumptions C10_bell_fix_in_C.
Print Assumptions C10_bell_vectors_in_C.
