(* C05 — SDK control flow and classical data flow compile to equivalent subroutines.
   Statements only; proofs are in Proofs/SdkFlattenProofs.v, SdkLowerProofs.v,
   SdkFrameProofs.v, SdkRegProofs.v.  Spec: Sdk/Eval.v.  Builder model: Sdk/Lower.v,
   Sdk/Flatten.v (tied to netqasm/sdk/builder.py, futures.py, connection.py by the
   command-for-command correspondence of this check). *)
From Coq Require Import ZArith List Bool Arith.
From NQ Require Import Sdk.SdkAst Sdk.Target Sdk.Eval Sdk.MemMgr Sdk.Lower Sdk.Flatten Sdk.Writes
  Sdk.SdkCheck Sdk.Wf.
From NQ Require Import Proofs.SdkRegProofs Proofs.SdkFrameProofs Proofs.SdkFlattenProofs Proofs.SdkLowerProofs
  Proofs.SdkInvProofs Proofs.SdkSimProofs Proofs.SdkTopProofs Proofs.SdkCodeOk.
From NQ Require Proofs.Bridge_SdkAsm.
Import ListNotations.
Local Open Scope Z_scope.

(* ---- the property at full strength *)
(* A program is a list of flush-free segments, each followed by a flush (every program that ends
   with a flush has this form: prog_of).  Lowered by the builder model (fd = true: Qubit.free()
   retires the handle, as the repaired tree does), flattened to labels and jumps, run block by
   block on the controller from the initial state with the scripted outcomes: the run finishes
   and ends with the gate trace and the arrays of direct evaluation. *)
Definition sdk_compile_correct : Prop :=
  forall segs script e bs st,
  Forall (fun seg => bwfs seg = true) segs ->
  eval_prog (prog_of segs) script = Some e ->
  lower_prog true (prog_of segs) = Ok (bs, st) ->
  exists fuel s, run_blocks fuel bs (m0 script) = RDone s /\ agrees s e.

(* PROVED IN FULL: C05_sdk_compile_correct below, by
     1  C05_flatten_correct        structured IR = labels/jumps, arbitrary nesting
     2  C05_lower_if / _loop / _foreach / _loop_until / _add / _measure, C05_lower_array_init
     3  C05_lower_frame, C05_live_values_preserved
     4  C05_stmt_compile_correct / C05_block_compile_correct: induction over the AST.  For every
        statement satisfying `wfs` — gates, qubit allocation and release, measurement into array
        futures, fresh arrays and register futures, add on futures and register futures (with /
        without modulus; int / Future / loop-register operand), if with the six conditions (context
        or callback; int / Future / RegFuture / loop operands), loop and loop_body (positive and
        negative steps), foreach / enumerate, loop_until with at-most bound and cleanup, NESTED
        ARBITRARILY — if direct evaluation takes e to e' and the builder model emits code c, then
        running c from any controller state related to e reaches a state related to e'.  `Rel`
        ties every host handle to the controller (arrays, lengths known at compile time, qubit
        handles <-> virtual ids and instances, register futures <-> M registers, loop variables
        <-> R registers, script, trace) and is re-established at every round of every loop.
     5  C05_block_step: one flush block — the declarations/initialisations prepended at the flush
        (all-equal loop included) create exactly the arrays Eval hoists; the body; ret_arr /
        ret_reg do not fault; reset.  At every flush the controller arrays are the snapshot's.
     6  induction over the blocks (prog_sim).
   ALL constructs of the property are composed; nothing is left per construct only.
   Restrictions carried by `wfs` (Sdk/Wf.v; decidable on the program): registers chosen by the SDK
   (no loop_register=, no new_register; those are covered by the oracle only); no EPR; a body consumes
   the qubits it creates and no others (C09); register futures are measured only where the
   measurement runs whenever the enclosing code runs (not under `if`, not in a loop with zero rounds,
   not in foreach, not in a cleanup: the complement contains the recorded finding
   C05:ret_reg-of-unreached-register-measurement — see C05_unrestricted_refuted); a loop_until body
   certainly emits commands (otherwise the builder drops the loop AND its cleanup).  Model side:
   names of register futures and loop variables are bound once; a measurement register future is an
   operand only in its flush block.  Not in the statement: assembler (C03), executor (C04) — the
   target semantics is Sdk/Target.v; per-flush host reads are the controller arrays/registers of
   C05_block_step (shared-memory transport is C15's). *)

(* without `regs_reached` the statement is false of the faithful model (and of the code) *)
Definition sdk_compile_correct_unrestricted : Prop :=
  forall fd p script e, eval_prog p script = Some e ->
  forall bs st, lower_prog fd p = Ok (bs, st) ->
  exists fuel s, run_blocks fuel bs (m0 script) = RDone s.

Definition witness_unreached : block :=
  blk [SNewArray 0 1 (Some [Some 1]); SNewQubit 0;
       SIf CEz false (VFut 0 (IxC 0)) (VInt 0) (blk [SMeasReg 0 true 0]); SFlush].

(* the controller faults at ret_reg M0 (pc 11 of the only subroutine) although direct
   execution is fine; 1000 steps of fuel for 12 commands without a backward jump *)
Theorem C05_unrestricted_refuted :
  exists p script e bs st pc,
    eval_prog p script = Some e /\ lower_prog false p = Ok (bs, st) /\ wf_top p = false /\
    run_blocks 1000 bs (m0 script) = RFault pc /\ regs_reached p e = false.
Proof.
  exists witness_unreached, [0].
  destruct (eval_prog witness_unreached [0]) as [e|] eqn:E; [|vm_compute in E; discriminate].
  destruct (lower_prog false witness_unreached) as [[bs st]|] eqn:L; [|vm_compute in L; discriminate].
  exists e, bs, st, 11%nat. vm_compute in E. vm_compute in L.
  inversion E; subst. inversion L; subst. vm_compute. repeat split; reflexivity.
Qed.

(* ---- 1. flatten *)
Theorem C05_flatten_correct : forall body s s',
  sx body s s' ->
  fstar (flatten body) (0%nat, s) (List.length (flatten body), s') /\
  exists fuel, frun fuel (flatten body) (0%nat, s) = Some s'.
Proof. exact flatten_correct. Qed.

Theorem C05_flatten_labels_unique : forall l, NoDup (labs (flatten l)).
Proof. exact flatten_labels_unique. Qed.

(* the negated branch: flip is the negation of each of the six conditions *)
Theorem C05_negated_branch : forall c a b, holds (flip c) a b = negb (holds c a b).
Proof. exact holds_flip. Qed.

Theorem C05_conditions_agree : forall c a b, cond_true c a b = holds c a b.
Proof. exact cond_true_holds. Qed.

(* ---- 2. per construct *)
Theorem C05_lower_if : forall (R : est -> mst -> Prop) pre c x y body (fbody : est -> option est) e e' s a b,
  R e s ->
  (exists s1, exec_instrs pre s = Some s1 /\ R e s1 /\
              rop_val s1 x = Some a /\ (match c with CEz | CNz => True | _ => rop_val s1 y = Some b end) /\
   (forall e2, fbody e = Some e2 -> exists s2, sx body s1 s2 /\ R e2 s2)) ->
  (if cond_true c a (match c with CEz | CNz => 0 | _ => b end) then fbody e else Some e) = Some e' ->
  exists s', sx1 (XIf pre c x y body) s s' /\ R e' s'.
Proof. exact lower_if. Qed.

Theorem C05_lower_loop : forall (R : est -> mst -> Prop) r,
  (forall e s v, R e s -> R e (set_reg s r v)) ->
  forall body f,
  (forall i e s e1, R e s -> m_reg s r = Some i -> f i e = Some e1 ->
     exists s1, sx body s s1 /\ R e1 s1 /\ m_reg s1 r = Some i) ->
  forall a b st n e s e',
  loop_count a b st = Some n -> R e s -> iter_loop f n a st e = Some e' ->
  exists s', sx1 (XLoop r a b st body) s s' /\ R e' s'.
Proof. exact lower_loop. Qed.

Theorem C05_lower_foreach : forall (R : est -> mst -> Prop) r,
  (forall e s v, R e s -> R e (set_reg s r v)) ->
  forall body f,
  (forall i e s e1, R e s -> m_reg s r = Some i -> f i e = Some e1 ->
     exists s1, sx body s s1 /\ R e1 s1 /\ m_reg s1 r = Some i) ->
  forall len e s e',
  R e s -> iter_loop f len 0 1 e = Some e' ->
  exists s', sx1 (XLoop r 0 (Z.of_nat len) 1 body) s s' /\ R e' s'.
Proof. exact lower_foreach. Qed.

Theorem C05_lower_loop_until : forall (R : est -> mst -> Prop) r,
  (forall e s v, R e s -> R e (set_reg s r v)) ->
  forall body cl pre x fbody watch fclean,
  (forall i e s e1, R e s -> m_reg s r = Some i -> fbody i e = Some e1 ->
     exists s1, sx body s s1 /\ R e1 s1 /\ m_reg s1 r = Some i) ->
  (forall i e s w, R e s -> m_reg s r = Some i -> watch e = Some w ->
     exists s1, exec_instrs pre s = Some s1 /\ R e s1 /\ m_reg s1 r = Some i /\ rop_val s1 x = Some w) ->
  (forall i e s e1, R e s -> m_reg s r = Some i -> fclean e = Some e1 ->
     exists s1, sx cl s s1 /\ R e1 s1 /\ m_reg s1 r = Some i) ->
  forall maxit bound e s e',
  0 <= maxit -> R e s ->
  iter_until fbody watch bound fclean (Z.to_nat maxit) 0 e = Some e' ->
  exists s', sx1 (XUntil r maxit body pre x (bound + 1) cl) s s' /\ R e' s'.
Proof. exact lower_loop_until. Qed.

Theorem C05_lower_add : forall s t a ix y m l k v w z,
  m_arr s a = Some l -> zidx (rop_val s ix) = Some k -> nth_error l k = Some (Some v) ->
  rop_val s y = Some w -> not_reg ix t -> not_reg y t -> ev_sum v w m = Some z ->
  exists l' s',
    exec_instrs [ILoad t a ix; add_instr t t y m; IStore (PReg t) a ix] s = Some s' /\
    list_set l k (Some z) = Some l' /\ m_arr s' a = Some l' /\
    (forall b, b <> a -> m_arr s' b = m_arr s b) /\ m_trace s' = m_trace s.
Proof. exact lower_add. Qed.

Theorem C05_lower_measure : forall s id mreg a ix l k o,
  m_alloc s id = true -> m_arr s a = Some l -> (k < List.length l)%nat ->
  zidx (rop_val s ix) = Some k -> not_reg ix (Rg BQ 0) -> not_reg ix (Rg BM mreg) ->
  o = match m_script s with [] => 0 | x :: _ => x end ->
  exists l' s',
    exec_instrs [ISet (Rg BQ 0) (Z.of_nat id); IMeas (Rg BQ 0) (Rg BM mreg);
                 IStore (PReg (Rg BM mreg)) a ix] s = Some s' /\
    list_set l k (Some o) = Some l' /\ m_arr s' a = Some l' /\
    m_reg s' (Rg BM mreg) = Some o /\
    m_trace s' = TMeas (m_inst s id) o :: m_trace s /\ m_script s' = tl (m_script s).
Proof. exact lower_measure. Qed.

(* ---- 3. frame *)
Theorem C05_lower_frame : forall fd s st c st', plain s = true ->
  lower_stmt fd s st = Ok (c, st') -> forall k, In k (sws c) -> nth_error (l_act st) k = Some false.
Proof. exact lower_frame. Qed.

Theorem C05_live_values_preserved : forall fd s st c st' m m', plain s = true ->
  lower_stmt fd s st = Ok (c, st') -> lv_active st -> sx c m m' ->
  forall v r, In (v, r) (l_lv st) -> m_reg m' (Rg BR r) = m_reg m (Rg BR r).
Proof. exact live_values_preserved. Qed.

(* ---- 4. the composition over the AST *)
Theorem C05_stmt_compile_correct : forall s L st c st' e e' sg,
  wfs s = true -> lower_stmt true s st = Ok (c, st') -> Inv st -> sub (l_len st') L ->
  eval_stmt s e = Some e' -> Rel L st e sg ->
  exists sg', sx c sg sg' /\ Rel L st' e' sg'.
Proof. exact stmt_compile_correct. Qed.

Theorem C05_block_compile_correct : forall b L st c st' e e' sg,
  bwfs b = true -> lower_block true b st = Ok (c, st') -> Inv st -> sub (l_len st') L ->
  eval_block b e = Some e' -> Rel L st e sg ->
  exists sg', sx c sg sg' /\ Rel L st' e' sg'.
Proof. exact block_compile_correct. Qed.

(* the relation and the invariant hold initially *)
Theorem C05_initial_related : forall script, Inv l0 /\ Rel [] l0 (e0 script) (m0 script).
Proof. intro script. split; [exact Inv_l0|exact (Rel_init script)]. Qed.

(* ---- 5/6. flush blocks and whole programs *)
Theorem C05_lower_array_init : forall a v t len s,
  m_arr s a = Some (repeat None len) ->
  exists s', sx1 (XLoop (Rg BR t) 0 (Z.of_nat len) 1 [XI (IStore (PImm v) a (PReg (Rg BR t)))]) s s' /\
             m_arr s' a = Some (repeat (Some v) len) /\
             (forall a', a' <> a -> m_arr s' a' = m_arr s a') /\ same_ctl s s'.
Proof. exact lower_array_init. Qed.

Theorem C05_block_step : forall seg st0 c st1 blk st2 e0 e1 s0,
  bwfs seg = true -> Inv st0 -> BlockStart st0 -> TRel st0 e0 s0 ->
  lower_block true seg st0 = Ok (c, st1) -> lower_flush c st1 = Ok (blk, st2) ->
  eval_block seg (with_arr e0 (hoist_block seg (e_arr e0))) = Some e1 ->
  exists s2, (match blk with Some code => sx code s0 s2 | None => s2 = s0 end) /\
             Inv st2 /\ BlockStart st2 /\ TRel st2 (snap e1) s2.
Proof. exact block_step. Qed.

Theorem C05_sdk_compile_correct : sdk_compile_correct.
Proof. exact sdk_compile_correct_wfs. Qed.

(* ---- the static side condition of the end-to-end chain (H1 of props/C05_end_to_end.v, first half):
   every block emitted for a program of well-formed segments whose peak number of simultaneously
   live qubit handles (Wf.qpeak) is at most `cap` satisfies Bridge_SdkAsm.code_ok cap: register
   indices below 16, no opaque command, every qalloc directly preceded by the set of its operand
   to an id below cap *)
Theorem C05_lower_prog_code_ok : forall segs cap bs st,
  Forall (fun seg => bwfs seg = true) segs -> (qpeak segs <= cap)%nat ->
  lower_prog true (prog_of segs) = Ok (bs, st) ->
  forall b, In (Some b) bs -> Bridge_SdkAsm.code_ok cap (flatten b) = true.
Proof. exact lower_prog_code_ok. Qed.

(* ---- down to the commands that are sent, one block body *)
Theorem C05_sdk_compile_correct_partial : forall b L st c st' e e' sg,
  bwfs b = true -> lower_block true b st = Ok (c, st') -> Inv st -> sub (l_len st') L ->
  eval_block b e = Some e' -> Rel L st e sg ->
  exists sg' fuel, frun fuel (flatten c) (0%nat, sg) = Some sg' /\ Rel L st' e' sg' /\
                   NoDup (labs (flatten c)).
Proof.
  intros b L st c st' e e' sg Hw Hl I HL Hev HR.
  destruct (block_compile_correct b L st c st' e e' sg Hw Hl I HL Hev HR) as (sg' & X & R').
  destruct (proj2 (flatten_correct c sg sg' X)) as (fuel & F).
  exists sg', fuel. split; [exact F|]. split; [exact R'|apply flatten_labels_unique].
Qed.

(* non-vacuity of the whole-program theorem: the hypotheses hold of ex_p below (checked by
   computation in C05_compile_correct_instance) *)
(* non-vacuity of the composition: a nested block (foreach / if on a Future / add with modulus /
   loop_until with cleanup / count-down loop_body with an if on its index) satisfies wfs, lowers,
   evaluates, and the emitted code, flattened, reaches the related final state by computation *)
Definition ex_body : block :=
  blk [SNewQubit 0;
       SForeach true 0 0 (blk [SIf CEq false (VFut 0 (IxV 0)) (VInt 1)
                                 (blk [SGate GH 0; SFutAdd 1 (IxC 0) (AFut 0 (IxV 0)) (Some 2)])]);
       SLoopUntil 1 3 (blk [SNewQubit 1; SGate GX 1; SMeasFut 1 false 1 (IxC 1)]) (VFut 1 (IxC 1)) 0
                  (blk [SFutAdd 1 (IxC 0) (AInt 10) None]);
       SLoop true 2 None 4 0 (-2) (blk [SIf CLt true (VLoop 2) (VFut 1 (IxC 0)) (blk [SRot AZ 0 3 2])]);
       SMeasReg 0 false 0].

Example C05_composition_nonvacuous : bwfs ex_body = true.
Proof. vm_compute. reflexivity. Qed.

(* the hypotheses of C05_sdk_compile_correct hold of a two-block program with arrays (one initialised
   by the all-equal loop), foreach + if + add, loop_until with cleanup, loop_body with an if on its
   index, a measurement into a fresh array; and its conclusion is observed by computation *)
Definition ex_segs : list block :=
  [ blk [SNewArray 0 3 (Some [Some 1; Some 1; Some 1]); SNewArray 1 2 (Some [Some 0; Some 5]); SNewQubit 0;
         SForeach true 0 0 (blk [SIf CEq false (VFut 0 (IxV 0)) (VInt 1)
                                   (blk [SGate GH 0; SFutAdd 1 (IxC 0) (AFut 0 (IxV 0)) (Some 2)])])];
    blk [SLoopUntil 1 3 (blk [SNewQubit 1; SGate GX 1; SMeasFut 1 false 1 (IxC 1)]) (VFut 1 (IxC 1)) 0
                    (blk [SFutAdd 1 (IxC 0) (AInt 10) None]);
         SLoop true 2 None 0 4 2 (blk [SIf CLt true (VLoop 2) (VFut 1 (IxC 0)) (blk [SRot AZ 0 3 2])]);
         SMeasNew 0 false 2] ].

Example C05_whole_program_nonvacuous :
  let script := [1; 0; 1] in
  forallb bwfs ex_segs &&
  match eval_prog (prog_of ex_segs) script, lower_prog true (prog_of ex_segs) with
  | Some e, Ok (bs, _) =>
      match run_blocks 2000 bs (m0 script) with
      | RDone s => list_eqb tev_dec (rev (m_trace s)) (rev (e_trace e)) && Nat.leb 12 (List.length (e_trace e))
      | _ => false
      end
  | _, _ => false
  end = true.
Proof. vm_compute. reflexivity. Qed.

(* ---- the full statement on a concrete non-trivial program (model side): nested foreach / if
   with a Future operand / add with modulus / loop_until with cleanup / two flushes *)
Definition ex_p : block :=
  blk [SNewArray 0 3 (Some [Some 1; Some 1; Some 1]); SNewArray 1 2 (Some [Some 0; Some 5]); SNewQubit 0;
       SForeach true 0 0 (blk [SIf CEq false (VFut 0 (IxV 0)) (VInt 1)
                                 (blk [SGate GH 0; SFutAdd 1 (IxC 0) (AFut 0 (IxV 0)) (Some 2)])]);
       SFlush;
       SLoopUntil 1 3 (blk [SNewQubit 1; SGate GX 1; SMeasFut 1 false 1 (IxC 1)]) (VFut 1 (IxC 1)) 0
                  (blk [SFutAdd 1 (IxC 0) (AInt 10) None]);
       SLoop true 2 None 0 4 2 (blk [SIf CLt true (VLoop 2) (VFut 1 (IxC 0)) (blk [SRot AZ 0 3 2])]);
       SMeasNew 0 false 2; SFlush].

Example C05_compile_correct_instance :
  let script := [1; 0; 1] in
  match eval_prog ex_p script, lower_prog false ex_p with
  | Some e, Ok (bs, _) =>
      match run_blocks 2000 bs (m0 script) with
      | RDone s =>
          list_eqb tev_dec (rev (m_trace s)) (rev (e_trace e)) &&
          forallb (fun a => match m_arr s a, alookup a (e_arr e) with
                            | Some l, Some l' => if list_eq_dec optz_dec l l' then true else false
                            | None, None => true | _, _ => false end) [0; 1; 2; 3]%nat &&
          Nat.leb 12 (List.length (e_trace e)) && scoped_top ex_p && regs_reached ex_p e
      | _ => false
      end
  | _, _ => false
  end = true.
Proof. vm_compute. reflexivity. Qed.

(* the hypotheses of the loop lemma are satisfiable: a loop adding the index to an entry *)
Example C05_loop_nonvacuous :
  exists s', sx1 (XLoop (Rg BR 0) 0 3 1 [XI (IAdd (Rg BR 1) (Rg BR 1) (PReg (Rg BR 0)))])
                 (set_reg (m0 []) (Rg BR 1) 0) s' /\ m_reg s' (Rg BR 1) = Some 3.
Proof.
  eexists. split.
  - apply sx_Loop.
    eapply sxl_step with (v := 0) (v1 := 0).
    + reflexivity.
    + discriminate.
    + eapply sx_cons; [apply sx_I; reflexivity|apply sx_nil].
    + reflexivity.
    + eapply sxl_step with (v := 1) (v1 := 1).
      * reflexivity.
      * discriminate.
      * eapply sx_cons; [apply sx_I; reflexivity|apply sx_nil].
      * reflexivity.
      * eapply sxl_step with (v := 2) (v1 := 2).
        -- reflexivity.
        -- discriminate.
        -- eapply sx_cons; [apply sx_I; reflexivity|apply sx_nil].
        -- reflexivity.
        -- apply sxl_done. reflexivity.
  - reflexivity.
Qed.

Example C05_code_ok_nonvacuous : Nat.leb (qpeak ex_segs) 2 = true.
Proof. vm_compute. reflexivity. Qed.

(* constructs moved inside the class of the composed theorem in the third round: an array entry
   addressed through another entry (Future-indexed Future: add of a constant, add of another entry,
   measurement into it), a loop on a register named by the program (loop_register=R5), a register
   outcome as add operand.  The segment is in `bwfs`; direct evaluation and the run of the lowered,
   flattened code agree on the data array: 30 + 5 + 10 -> outcome 1 -> + 0 + 1 (loop) + 1 (register) *)
Definition ex_nested : block :=
  blk [SNewArray 0 3 (Some [Some 10%Z; Some 20%Z; Some 30%Z]); SNewArray 1 1 (Some [Some 2%Z]);
       SFutAddX 0 1 0 (AInt 5) None; SFutAddX 0 1 0 (AFut 0 (IxC 0)) None;
       SNewQubit 0; SGate GX 0; SMeasFutX 0 true 0 1 0;
       SLoop false 0 (Some 5%nat) 0 2 1 (blk [SFutAdd 0 (IxC 2) (ALoop 0) None]);
       SMeasReg 0 false 0; SFutAdd 0 (IxC 2) (AReg 0) None].

Example C05_widened_class_nonvacuous :
  bwfs ex_nested = true /\
  (match eval_prog (prog_of [ex_nested]) [1%Z; 1%Z] with Some e => alookup 0%nat (e_arr e) | None => None end)
    = Some [Some 10%Z; Some 20%Z; Some 3%Z] /\
  (match lower_prog true (prog_of [ex_nested]) with
   | Ok (bs, _) => match run_blocks 400 bs (m0 [1%Z; 1%Z]) with RDone s => m_arr s 0%nat | _ => None end
   | Err _ => None
   end) = Some [Some 10%Z; Some 20%Z; Some 3%Z].
Proof. vm_compute. repeat split; reflexivity. Qed.

Print Assumptions C05_flatten_correct.
Print Assumptions C05_negated_branch.
Print Assumptions C05_lower_if.
Print Assumptions C05_lower_loop.
Print Assumptions C05_lower_foreach.
Print Assumptions C05_lower_loop_until.
Print Assumptions C05_lower_add.
Print Assumptions C05_lower_measure.
Print Assumptions C05_lower_frame.
Print Assumptions C05_live_values_preserved.
Print Assumptions C05_stmt_compile_correct.
Print Assumptions C05_block_compile_correct.
Print Assumptions C05_lower_array_init.
Print Assumptions C05_block_step.
Print Assumptions C05_sdk_compile_correct.
Print Assumptions C05_lower_prog_code_ok.
Print Assumptions C05_sdk_compile_correct_partial.
Print Assumptions C05_unrestricted_refuted.
