(* placeholder while the proofs are being written *)
From Coq Require Import ZArith List Bool Arith.
From NQ Require Import Sdk.SdkAst Sdk.Target Sdk.MemMgr Sdk.Lower Sdk.Writes.
From NQ Require Import Proofs.SdkRegProofs Proofs.SdkFrameProofs.
Theorem C05_lower_frame : forall fd s st c st',
  lower_stmt fd s st = Ok (c, st') -> forall k, In k (sws c) -> nth_error (l_act st) k = Some false.
Proof. exact lower_frame. Qed.
Print Assumptions C05_lower_frame.
