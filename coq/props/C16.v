(* C16 — operands the format cannot represent are rejected, never silently altered.
   encode_checked (Lang/CodecCheck.v) is the model of bytes(Subroutine) including
   the encoder's range checks; it is tied to the code by the correspondence run. *)
From Coq Require Import ZArith List Bool String.
From NQ Require Import Base.Bits Lang.Codec Lang.CodecCheck Lang.RefSpec Proofs.CodecProofs.
From Gen Require Import Gen_Codec.
Import ListNotations.
Open Scope Z_scope.

(* anything not representable is rejected *)
Theorem C16_rejects : forall s, sub_in_range gen_header s = false -> encode_checked gen_header s = None.
Proof. intros s H. unfold encode_checked. now rewrite H. Qed.

(* whatever is accepted decodes to exactly the same program *)
Definition never_alters (t : list row) : Prop :=
  forall s bs, Forall (fun c => In (fst c) t) (s_body s) ->
    encode_checked gen_header s = Some bs -> decode_sub gen_header t bs = Some s.

Lemma never_alters_of_wf t : header_ok gen_header = true -> wf_table t = true -> never_alters t.
Proof.
  intros Hh Hwf s bs Hin. unfold encode_checked.
  destruct (sub_in_range gen_header s) eqn:E; [|discriminate].
  intros [= <-]. now apply decode_encode_sub.
Qed.

Theorem C16_never_alters_vanilla : never_alters gen_vanilla.
Proof. apply never_alters_of_wf; vm_compute; reflexivity. Qed.
Theorem C16_never_alters_nv : never_alters gen_nv.
Proof. apply never_alters_of_wf; vm_compute; reflexivity. Qed.
Theorem C16_never_alters_reids : never_alters gen_reids.
Proof. apply never_alters_of_wf; vm_compute; reflexivity. Qed.

(* consequence: whatever byte string the checked encoder hands out stands for exactly one
   program of the flavour - two programs that are both accepted never share their bytes, so
   no accepted program can be "altered into" another accepted one either *)
Definition accepted_injective (t : list row) : Prop :=
  forall s s' bs, Forall (fun c => In (fst c) t) (s_body s) -> Forall (fun c => In (fst c) t) (s_body s') ->
    encode_checked gen_header s = Some bs -> encode_checked gen_header s' = Some bs -> s = s'.

Lemma accepted_injective_of_never_alters t : never_alters t -> accepted_injective t.
Proof.
  intros N s s' bs H H' E E'.
  pose proof (N s bs H E) as D. pose proof (N s' bs H' E') as D'.
  rewrite D in D'. now inversion D'.
Qed.

Theorem C16_accepted_injective_vanilla : accepted_injective gen_vanilla.
Proof. exact (accepted_injective_of_never_alters _ C16_never_alters_vanilla). Qed.
Theorem C16_accepted_injective_nv : accepted_injective gen_nv.
Proof. exact (accepted_injective_of_never_alters _ C16_never_alters_nv). Qed.
Theorem C16_accepted_injective_reids : accepted_injective gen_reids.
Proof. exact (accepted_injective_of_never_alters _ C16_never_alters_reids). Qed.

(* the accepted ranges are the ones the property names: derived from the
   regenerated layouts being the reference layout (register index 0..15,
   immediate 0..255, integer/address -2^31..2^31-1, app id 0..65535) *)
Theorem C16_ranges_are_the_published_ones :
  conforms gen_vanilla ref_vanilla && conforms gen_nv ref_nv && conforms gen_reids ref_reids
  && header_eqb gen_header ref_header = true.
Proof. vm_compute. reflexivity. Qed.

Example C16_range_examples :
  (* R16, imm 256, imm -1, 2^31, -2^31-1, app 65536 are rejected; neighbours accepted *)
  let chk f v := fits f v in
  (negb (chk (mkF 10 4 false) 16) && chk (mkF 10 4 false) 15
   && negb (chk (mkF 16 8 false) 256) && negb (chk (mkF 16 8 false) (-1)) && chk (mkF 16 8 false) 255
   && negb (chk (mkF 16 32 true) 2147483648) && chk (mkF 16 32 true) 2147483647
   && negb (chk (mkF 16 32 true) (-2147483649)) && chk (mkF 16 32 true) (-2147483648)
   && negb (chk (mkF 16 16 false) 65536) && chk (mkF 16 16 false) 65535) = true.
Proof. vm_compute. reflexivity. Qed.

Print Assumptions C16_rejects.
Print Assumptions C16_never_alters_vanilla.
Print Assumptions C16_never_alters_nv.
Print Assumptions C16_never_alters_reids.
Print Assumptions C16_accepted_injective_vanilla.
Print Assumptions C16_accepted_injective_nv.
Print Assumptions C16_accepted_injective_reids.
