(* C15 — host/controller messages survive serialisation.  Gen_Msg is regenerated
   from netqasm.backend.messages on every run. *)
From Coq Require Import ZArith List Bool String.
From NQ Require Import Base.Bits Lang.Codec Lang.MsgCodec Proofs.MsgProofs.
From Gen Require Import Gen_Msg.
Import ListNotations.
Open Scope Z_scope.

(* regenerated tables: distinct type bytes per direction, layouts well formed
   (fields disjoint, inside the struct), OptionalInt tags distinct *)
Theorem C15_tables_wf :
  arrfmt_ok gen_af = true /\ wf_mtable gen_host = true /\ wf_mtable gen_ret = true.
Proof. vm_compute. repeat split; reflexivity. Qed.

(* every message class the module defines is the one its type byte dispatches to *)
Theorem C15_all_classes_registered : gen_unregistered = [].
Proof. reflexivity. Qed.

(* the fields still have their declared widths (frozen reference in Lang/MsgCodec.v): a field
   that was narrowed would make the constructor truncate a value the declaration admits *)
Theorem C15_declared_widths : widths_conform gen_msg_widths = true.
Proof. vm_compute. reflexivity. Qed.

(* every message (any field values that the struct can hold; arrays of any
   length with any pattern of undefined entries) comes back as itself *)
Definition roundtrip (t : list mclass) : Prop :=
  forall m, In (msg_class m) t -> msg_in_range gen_af m = true ->
    decode_msg gen_af t (encode_msg gen_af m) = Some m.

Theorem C15_host_roundtrip : roundtrip gen_host.
Proof.
  intros m H1 H2. apply decode_encode_msg; auto; apply C15_tables_wf.
Qed.
Theorem C15_return_roundtrip : roundtrip gen_ret.
Proof.
  intros m H1 H2. apply decode_encode_msg; auto; apply C15_tables_wf.
Qed.

(* in particular: undefined stays undefined *)
Corollary C15_undefined_stays_undefined :
  forall n ty addr vals, In (MArr n ty) gen_ret ->
    msg_in_range gen_af (ArrMsg n ty addr vals) = true ->
    match decode_msg gen_af gen_ret (encode_msg gen_af (ArrMsg n ty addr vals)) with
    | Some (ArrMsg _ _ addr' vals') => addr' = addr /\ vals' = vals
    | _ => False
    end.
Proof.
  intros n ty addr vals Hin Hr.
  rewrite (C15_return_roundtrip (ArrMsg n ty addr vals) Hin Hr). auto.
Qed.

(* consequence: within one direction two different in-range messages never have the same
   bytes - in particular an array with an undefined entry and the same array with any
   defined value there (0 included) are different byte strings *)
Definition msg_injective (t : list mclass) : Prop :=
  forall m m', In (msg_class m) t -> In (msg_class m') t ->
    msg_in_range gen_af m = true -> msg_in_range gen_af m' = true ->
    encode_msg gen_af m = encode_msg gen_af m' -> m = m'.

Lemma msg_injective_of_roundtrip t : roundtrip t -> msg_injective t.
Proof.
  intros R m m' H1 H1' H2 H2' E.
  pose proof (R m H1 H2) as D. pose proof (R m' H1' H2') as D'.
  rewrite E in D. rewrite D in D'. now inversion D'.
Qed.

Theorem C15_host_injective : msg_injective gen_host.
Proof. exact (msg_injective_of_roundtrip _ C15_host_roundtrip). Qed.
Theorem C15_return_injective : msg_injective gen_ret.
Proof. exact (msg_injective_of_roundtrip _ C15_return_roundtrip). Qed.

Corollary C15_undefined_is_not_a_value :
  forall n ty addr pre post v, In (MArr n ty) gen_ret ->
    msg_in_range gen_af (ArrMsg n ty addr (pre ++ None :: post)) = true ->
    msg_in_range gen_af (ArrMsg n ty addr (pre ++ Some v :: post)) = true ->
    encode_msg gen_af (ArrMsg n ty addr (pre ++ None :: post)) <>
    encode_msg gen_af (ArrMsg n ty addr (pre ++ Some v :: post)).
Proof.
  intros n ty addr pre post v Hin H1 H2 E.
  pose proof (C15_return_injective (ArrMsg n ty addr (pre ++ None :: post)) (ArrMsg n ty addr (pre ++ Some v :: post))
                Hin Hin H1 H2 E) as X.
  inversion X as [Y]. apply app_inv_head in Y. discriminate Y.
Qed.

Example C15_nonvacuous :
  match find (fun c => match c with MArr _ _ => true | _ => false end) gen_ret with
  | Some (MArr n ty) =>
      let m := ArrMsg n ty 3 [Some 1; None; Some (-5); None; Some 2147483647] in
      msg_in_range gen_af m &&
      match decode_msg gen_af gen_ret (encode_msg gen_af m) with
      | Some (ArrMsg _ _ 3 [Some 1; None; Some (-5); None; Some 2147483647]) => true
      | _ => false end
  | _ => false
  end = true.
Proof. vm_compute. reflexivity. Qed.

Example C15_undefined_nonvacuous :
  match find (fun c => match c with MArr _ _ => true | _ => false end) gen_ret with
  | Some (MArr n ty) =>
      let a := ArrMsg n ty 3 [Some 1; None; Some 7] in
      let b := ArrMsg n ty 3 [Some 1; Some 0; Some 7] in
      msg_in_range gen_af a && msg_in_range gen_af b &&
      (if list_eq_dec Z.eq_dec (encode_msg gen_af a) (encode_msg gen_af b) then false else true)
  | _ => false
  end = true.
Proof. vm_compute. reflexivity. Qed.

Print Assumptions C15_host_roundtrip.
Print Assumptions C15_return_roundtrip.
Print Assumptions C15_undefined_stays_undefined.
Print Assumptions C15_host_injective.
Print Assumptions C15_return_injective.
Print Assumptions C15_undefined_is_not_a_value.
