(* C18 — thread sockets deliver every message once and in order under any schedule.
   Statements only; the proofs are in Proofs/HubProofs.v, the model in Net/Hub.v.
   `run Fixed (init cfg) sch` is the state after running schedule `sch` (a list of
   thread ids, any length) on configuration `cfg` (any number of threads; a thread
   is an endpoint key, a callback flag and an op script) of the repaired hub;
   `Orig` is the statement order of the unrepaired connect.
   sent_log k / recv_log k: the messages sent to / received by receiver key k =
   (src, dst, socket id) seen from the receiver, in history order. *)
From Coq Require Import List Arith Bool PeanoNat.
From NQ Require Import Net.Hub Net.Bcast Proofs.HubProofs Proofs.BcastProofs.
Import ListNotations.

(* ---------------------------------------------------------------- fifo_prefix *)
(* per (src, dst, socket id): what was received is a prefix of what was sent, and the
   remainder is exactly the pending queue: exactly once, in order (plain endpoints:
   no thread with that key uses callbacks; key re-use and several threads per key allowed) *)
Theorem C18_fifo_exact : fifo_exact_stmt.
Proof. exact fifo_exact. Qed.
Theorem C18_fifo_prefix : fifo_prefix_stmt.
Proof. exact fifo_prefix. Qed.
(* callback endpoints: the key k belongs to ONE endpoint thread r (no later endpoint re-uses
   it) that never connects again after a disconnect, and messages to k come from ONE thread
   (which may disconnect and reconnect): then also with callback delivery received is a
   prefix of sent and the remainder is the pending queue *)
Theorem C18_fifo_exact_cb : fifo_exact_cb_stmt.
Proof. exact fifo_exact_cb. Qed.
(* ... and nothing is stranded: the queue of such a callback endpoint is non-empty only after
   it has removed its callback in a disconnect and has no connect left *)
Theorem C18_cb_not_stranded : cb_not_stranded_stmt.
Proof. exact cb_not_stranded. Qed.

(* the unrestricted statement (every key, callback endpoints and key re-use included) *)
Definition fifo_all_stmt (v : variant) : Prop :=
  forall cfg sch k, let s := run v (init cfg) sch in
    exists rest, sent_log k (s_tr s) = recv_log k (s_tr s) ++ rest.

Definition cfg_reuse : list (key * bool * list op) :=
  [((1, 0, 0), true, [Connect; Disconnect]); ((0, 1, 0), false, [Connect; Send 1; Send 2]); ((1, 0, 0), true, [Connect])].
Definition sch_reuse : list nat :=
  [1;1;1;1;1;1;1; 0;0;0;0;0;0;0; 1;1;1; 0;0;0;0;0;0;0;0;0; 1;1;1;1;1; 2;2;2;2;2;2;2; 1;1;1;1].

(* refuted even for the repaired code when a callback endpoint's key is re-used by a
   later endpoint while a send to the disconnecting first endpoint is in flight: 1 is
   queued, the later endpoint's callback receives 2 *)
Theorem C18_fifo_all_refuted : ~ fifo_all_stmt Fixed.
Proof.
  intros H. destruct (H cfg_reuse sch_reuse (1, 0, 0)) as [rest E].
  vm_compute in E. discriminate E.
Qed.

(* the unrepaired connect (callbacks registered after publication) violates it with ONE
   callback endpoint and no key re-use: defect 1 *)
Definition cfg_d1 : list (key * bool * list op) :=
  [((1, 0, 0), true, [Connect]); ((0, 1, 0), false, [Connect; Send 1; Send 2])].
Definition sch_d1 : list nat := [0; 1;1;1;1;1;1;1;1;1;1; 0;0;0;0; 1;1;1;1;1].
Theorem C18_orig_fifo_refuted :
  sole cfg_d1 (1, 0, 0) 0 /\
  let s := run Orig (init cfg_d1) sch_d1 in
  sent_log (1, 0, 0) (s_tr s) = [1; 2] /\ recv_log (1, 0, 0) (s_tr s) = [2] /\ qget (1, 0, 0) (s_q s) = [1].
Proof.
  split.
  - intros [|[|[|n]]] c H E; simpl in H; inversion H; subst; simpl in E; try reflexivity; discriminate.
  - vm_compute. auto.
Qed.

Example C18_fifo_example :
  let cfg := [((0, 1, 0), false, [Connect; Send 1; Send 2; Recv false; Disconnect]);
              ((1, 0, 0), false, [Connect; Recv false; Recv true; Send 3; Disconnect])] in
  let sch := [0;0;0;0;1;1;0;0;0;0;1;1;0;0;0;0;0;0;0;1;1;1;1;1;1;1;1;1;1;0;0;0;0;1;1;1;1;1;1;1;
              0;0;0;0;0;0;0;0;0;0;0;0;0;0;1;1;1;1;1;1;1;1;1] in
  let s := run Fixed (init cfg) sch in
  plain cfg (1, 0, 0) /\ sole cfg (1, 0, 0) 1 /\
  sent_log (1, 0, 0) (s_tr s) = [1; 2] /\ recv_log (1, 0, 0) (s_tr s) = [1] /\ qget (1, 0, 0) (s_q s) = [2] /\
  sent_log (0, 1, 0) (s_tr s) = [3] /\ recv_log (0, 1, 0) (s_tr s) = [3] /\
  map (fun th => rev (t_out th)) (s_th s) =
    [[ROk; ROk; ROk; RMsg 3; ROk]; [ROk; RMsg 1; REmpty; ROk; ROk]].
Proof.
  split; [|split].
  - intros c [<-|[<-|[]]] E; simpl in E; try reflexivity; discriminate.
  - intros [|[|n]] c H E; simpl in H; inversion H; subst; simpl in E; try reflexivity; try discriminate.
    destruct n; discriminate.
  - vm_compute. repeat split; reflexivity.
Qed.

Example C18_fifo_cb_example :
  let s := run Fixed (init cfg_d1) sch_d1 in
  sole cfg_d1 (1, 0, 0) 0 /\ script_ok [Connect] = true /\
  (* the schedule that strands message 1 on the unrepaired code delivers both in order *)
  map (fun th => rev (t_store th)) (s_th (run Fixed (init cfg_d1) (sch_d1 ++ repeat 0 6 ++ repeat 1 30))) = [[1; 2]; []].
Proof.
  split; [|split].
  - intros [|[|[|n]]] c H E; simpl in H; inversion H; subst; simpl in E; try reflexivity; discriminate.
  - reflexivity.
  - vm_compute. reflexivity.
Qed.

(* ---------------------------------------------------------------- quiescent_complete *)
Theorem C18_quiescent_complete : quiescent_complete_stmt.
Proof. exact quiescent_complete. Qed.
Theorem C18_received_prefix : received_prefix_stmt.
Proof. exact received_prefix. Qed.

Example C18_quiescent_example :
  let cfg := [((0, 1, 0), false, [Connect; Send 1; Send 2; Send 3; Disconnect]);
              ((1, 0, 0), false, [Connect; Recv false; Recv false; Recv false; Disconnect])] in
  let sch := [0;0;0;0;1;1;0;0;0;0;1;1;0;0;0;0;0;0;0;0;0;0;0;0;0;0;0;0;0;0;0;0;0;1;0;0;0;0;0;0] ++ repeat 1 40 in
  let s := run Fixed (init cfg) sch in
  forallb finished (s_th s) = true /\
  match nth_error (s_th s) 1 with
  | Some th => received_by th = [1; 2; 3] /\ sent_log (1, 0, 0) (s_tr s) = [1; 2; 3]
  | None => False
  end.
Proof. vm_compute. repeat split; reflexivity. Qed.

(* ---------------------------------------------------------------- recv_nb_sound *)
Theorem C18_recv_nb_sound : recv_nb_sound_stmt.
Proof. exact recv_nb_sound. Qed.
Theorem C18_recv_nb_step : recv_nb_step_stmt.
Proof. exact recv_nb_step. Qed.

(* a receive never fails with IndexError, whatever the number of threads receiving on one key *)
Theorem C18_recv_never_index_error : recv_never_index_error_stmt.
Proof. exact recv_never_index_error. Qed.
(* the unrepaired recv (length check and pop in two locked regions) does: defect 3 *)
Theorem C18_orig_recv_index_error_refuted :
  let cfg := [((0, 1, 0), false, [Connect; Send 1]); ((1, 0, 0), false, [Connect; Recv false]);
              ((1, 0, 0), false, [Connect; Recv false])] in
  let s := run Orig (init cfg) [0;0;1;0;0;0;0;0;0;0;0;1;1;1;1;1;1;2;2;2;2;2;2;1;2;1;1;2;2;2] in
  map (fun th => rev (t_out th)) (s_th s) = [[ROk; ROk]; [ROk; RMsg 1]; [ROk; RIndexErr]].
Proof. vm_compute. reflexivity. Qed.

Example C18_recv_nb_example :
  (* a non-blocking receive before anything was sent reports emptiness; the next one,
     after the send, returns the message *)
  let cfg := [((0, 1, 0), false, [Connect; Send 7]); ((1, 0, 0), false, [Connect; Recv true; Recv true])] in
  let sch := [0;0;0;0;1;1;0;0;0;0;1;1;1;1;1;1;1;0;0;0;0;1;1;1;1;1] in
  let s := run Fixed (init cfg) sch in
  map (fun th => rev (t_out th)) (s_th s) = [[ROk; ROk]; [ROk; REmpty; RMsg 7]] /\
  In (ELen (1, 0, 0) 0) (s_tr s) /\ In (ELen (1, 0, 0) 1) (s_tr s).
Proof. vm_compute. repeat split; auto 20. Qed.

(* ---------------------------------------------------------------- rendezvous *)
(* connect of endpoint k returns only when its peer has opened, and that opening is not
   used up: since then the peer has not closed, or no endpoint with key k has disconnected *)
Theorem C18_rendezvous : rendezvous_stmt.
Proof. exact rendezvous. Qed.

Definition rendezvous_for (v : variant) : Prop :=
  forall cfg sch k tr1 tr2,
    s_tr (run v (init cfg) sch) = tr2 ++ EConnRet k :: tr1 -> fresh k tr1.

Definition cfg_d2 : list (key * bool * list op) :=
  [((0, 1, 0), false, [Connect; Disconnect]); ((1, 0, 0), false, [Connect; Disconnect]); ((0, 1, 0), false, [Connect])].
Definition sch_d2 : list nat := [1; 0;0;0;0;0;0;0;0;0;0;0;0; 1;1;1;1;1;1;1;1;1;1;1;1; 2;2;2;2].

(* defect 2: on the unrepaired code the third endpoint's connect returns although, since
   the peer's only opening, the peer has closed AND the first endpoint has disconnected *)
Theorem C18_orig_rendezvous_refuted : ~ rendezvous_for Orig.
Proof.
  intros H.
  pose (tr := s_tr (run Orig (init cfg_d2) sch_d2)).
  assert (E : exists tr1, tr = [] ++ EConnRet (0, 1, 0) :: tr1 /\
              tr1 = [ERemAdd (0,1,0); EOpenAdd (0,1,0); EDisc (1,0,0); ERemDel (0,1,0); EOpenDel (1,0,0);
                     EConnRet (1,0,0); ERemAdd (1,0,0); EDisc (0,1,0); EOpenDel (0,1,0); EConnRet (0,1,0);
                     ERemAdd (0,1,0); EOpenAdd (0,1,0); EOpenAdd (1,0,0)]).
  { eexists. split; vm_compute; reflexivity. }
  destruct E as (tr1 & E & Etr1).
  specialize (H cfg_d2 sch_d2 (0, 1, 0) tr1 [] E). subst tr1.
  assert (G : forall x b a,
     [ERemAdd (0,1,0); EOpenAdd (0,1,0); EDisc (1,0,0); ERemDel (0,1,0); EOpenDel (1,0,0);
      EConnRet (1,0,0); ERemAdd (1,0,0); EDisc (0,1,0); EOpenDel (0,1,0); EConnRet (0,1,0);
      ERemAdd (0,1,0); EOpenAdd (0,1,0); EOpenAdd (1,0,0)] = b ++ EOpenAdd (1, 0, 0) :: a ->
     x = EDisc (0, 1, 0) \/ x = EOpenDel (1, 0, 0) -> In x b).
  { intros x b a Eq Hx.
    do 12 (destruct b as [|? b]; [simpl in Eq; discriminate Eq | simpl in Eq; injection Eq as <- Eq]).
    destruct b as [|? b]; [|destruct b; simpl in Eq; discriminate Eq].
    destruct Hx as [->| ->]; simpl; tauto. }
  destruct H as [(a & b & Eq & N)|(a & b & Eq & N)]; apply N; eapply G; eauto.
Qed.

Example C18_rendezvous_example :
  (* repaired code, same configuration: both endpoints connect and disconnect, the third
     endpoint (re-using the first key) then keeps polling: nobody is there *)
  let s := run Fixed (init cfg_d2) (repeat 0 6 ++ repeat 1 5 ++ repeat 0 11 ++ repeat 1 9 ++ repeat 2 13) in
  map (fun th => (rev (t_out th), List.length (t_ops th))) (s_th s) = [([ROk; ROk], 0); ([ROk; ROk], 0); ([], 1)] /\
  s_open s = [(0, 1, 0)] /\ s_rem s = [(0, 1, 0)] /\
  List.length (filter (fun e => match e with EConnRet _ => true | _ => false end) (s_tr s)) = 2.
Proof. vm_compute. repeat split; reflexivity. Qed.

(* ---------------------------------------------------------------- no_lock_deadlock *)
(* whoever owns the lock can always take its next step, that step is neither a lock
   acquisition nor a sleep, and it releases the lock or strictly decreases the number
   of its own steps until the release (at most 9) *)
Theorem C18_no_lock_deadlock : no_lock_deadlock_stmt.
Proof. exact no_lock_deadlock. Qed.

Example C18_lock_example :
  let cfg := [((0, 1, 0), true, [Connect]); ((1, 0, 0), false, [Connect])] in
  let s := run Fixed (init cfg) [0; 0; 1; 1] in
  s_lock s = Some 0 /\ step Fixed s 1 = None /\
  match nth_error (s_th s) 0 with Some th => rel_dist (t_pc th) = 4 | None => False end.
Proof. vm_compute. repeat split; reflexivity. Qed.

(* ---------------------------------------------------------------- runs after reset_socket_hub() *)
(* several runs in one process, a reset before each: the last run is a run from the initial
   state, whatever the earlier runs (or an arbitrary state s0) left behind, so every theorem
   above applies to it; instance: exactly-once / FIFO relative to what was sent in THAT run *)
Theorem C18_after_reset : after_reset_stmt.
Proof. exact after_reset. Qed.
Theorem C18_fifo_after_reset : fifo_after_reset_stmt.
Proof. exact fifo_after_reset. Qed.

Example C18_after_reset_example :
  (* the first run leaves message 21 queued and both endpoints connected; after the reset a
     non-blocking receive of the new receiver finds the channel empty, then gets 1 *)
  let first := ([((0, 1, 0), false, [Connect; Send 21]); ((1, 0, 0), false, [Connect])], repeat 0 6 ++ repeat 1 5 ++ repeat 0 12) in
  let second := ([((0, 1, 0), false, [Connect; Send 1]); ((1, 0, 0), false, [Connect; Recv true; Recv false])],
                 repeat 1 6 ++ repeat 0 5 ++ repeat 1 6 ++ repeat 0 12 ++ repeat 1 12) in
  let s1 := run_history Fixed (init []) [first] in
  let s2 := run_history Fixed (init []) [first; second] in
  qget (1, 0, 0) (s_q s1) = [21] /\ s_open s1 = [(0, 1, 0); (1, 0, 0)] /\
  map (fun th => rev (t_out th)) (s_th s2) = [[ROk; ROk]; [ROk; REmpty; RMsg 1]] /\ qget (1, 0, 0) (s_q s2) = [].
Proof. vm_compute. repeat split; reflexivity. Qed.

(* ---------------------------------------------------------------- broadcast channel *)
(* One endpoint owning several sockets (Net/Bcast.v: BroadcastChannelBySockets over thread
   sockets; any number of broadcast endpoints and plain thread-socket parties, any remote
   lists, every schedule).  Keys (receiver, sender, 0) of the per-pair sockets:
   (a) per pair exactly once and in order: sent = received ++ pending queue;
   (b) recv returns (sender, msg) of the right sender: what an endpoint returned with tag b
       is what was popped from its socket for b, in order (up to the one message just popped);
   (c) what was appended for peer i is what the endpoint sent on socket i, in order (up to the
       send in progress);
   (d) a broadcast that returned ok was handed to the hub for EVERY other party.
   (a)+(b)+(c)+(d): every message broadcast is delivered at most once to every other party,
   per-sender order preserved, with the right sender tag, and it is pending or received at
   every party (delivered exactly once to every party that keeps receiving). *)
Theorem C18_bc_fifo_exact : bc_fifo_exact_stmt.
Proof. exact bc_fifo_exact. Qed.
Theorem C18_bc_recv_tag : bc_recv_tag_stmt.
Proof. exact bc_recv_tag. Qed.
Theorem C18_bc_sent_log : bc_sent_log_stmt.
Proof. exact bc_sent_log. Qed.
Theorem C18_bc_send_all : bc_send_all_stmt.
Proof. exact bc_send_all. Qed.

Definition bcfg_ex : list pcfg :=
  [CB 0 [1; 2] [BConnect; BSend 5; BRecv]; CB 1 [0; 2] [BConnect; BRecv; BSend 7]; CB 2 [0; 1] [BConnect; BRecv; BRecv]].

Example C18_bc_example :
  (* three broadcasting nodes under a round-robin schedule: 0 broadcasts 5, 1 receives it and
     broadcasts 7, 2 receives both, 0 receives 7 — each with the right sender tag *)
  let s := brun (binit bcfg_ex) (flat_map (fun _ => [0; 1; 2]) (seq 0 150)) in
  keys_distinct bcfg_ex /\
  map (fun x => match x with PB e => (rev (e_out e), rev (e_log e)) | PRaw _ => ([], []) end) (b_par s) =
    [([BOk; BOk; BMsg 1 7], [(0, 5); (1, 5)]); ([BOk; BMsg 0 5; BOk], [(0, 7); (1, 7)]);
     ([BOk; BMsg 0 5; BMsg 1 7], [])] /\
  sent_log (2, 0, 0) (s_tr (b_hub s)) = [5] /\ recv_log (2, 0, 0) (s_tr (b_hub s)) = [5] /\
  sent_log (0, 1, 0) (s_tr (b_hub s)) = [7] /\ s_q (b_hub s) = [((1, 0, 0), []); ((2, 0, 0), []); ((0, 1, 0), []); ((2, 1, 0), [])].
Proof.
  split.
  - unfold keys_distinct. vm_compute. repeat constructor; simpl; intuition discriminate.
  - vm_compute. repeat split; reflexivity.
Qed.

Print Assumptions C18_fifo_exact.
Print Assumptions C18_fifo_prefix.
Print Assumptions C18_fifo_exact_cb.
Print Assumptions C18_cb_not_stranded.
Print Assumptions C18_recv_never_index_error.
Print Assumptions C18_orig_recv_index_error_refuted.
Print Assumptions C18_fifo_all_refuted.
Print Assumptions C18_orig_fifo_refuted.
Print Assumptions C18_quiescent_complete.
Print Assumptions C18_received_prefix.
Print Assumptions C18_recv_nb_sound.
Print Assumptions C18_recv_nb_step.
Print Assumptions C18_rendezvous.
Print Assumptions C18_orig_rendezvous_refuted.
Print Assumptions C18_no_lock_deadlock.
Print Assumptions C18_bc_fifo_exact.
Print Assumptions C18_bc_recv_tag.
Print Assumptions C18_bc_sent_log.
Print Assumptions C18_bc_send_all.
Print Assumptions C18_after_reset.
Print Assumptions C18_fifo_after_reset.
