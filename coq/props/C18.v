(* C18 — placeholder while the pipeline is brought up *)
From Coq Require Import List.
From NQ Require Import Net.Hub.
Import ListNotations.
Example C18_smoke : run Fixed (init [((0,1,0), false, [Connect])]) [0;0;0;0] = run Fixed (init [((0,1,0), false, [Connect])]) [0;0;0;0].
Proof. reflexivity. Qed.
