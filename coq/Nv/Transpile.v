(* Nv/Transpile.v — model of netqasm/sdk/transpile.py (NVSubroutineTranspiler.transpile)
   and a small self-contained interpreter for the classical + control-flow +
   abstract-quantum-event semantics of vanilla and NV subroutines (C08).

   No proofs here (they live in Proofs/TranspileProofs.v).

   What is mirrored from the code (quirks included):
   * one linear scan; per instruction FIRST the bookkeeping is updated with the
     instruction itself (tracked Q-register values: only `set` updates them;
     used registers: the TOP-LEVEL register operands only, registers inside array
     entries / slices are not recorded), THEN the instruction is expanded;
   * single-qubit gates and rotations expand by a table (regenerated from the
     code, Gen_NvBlocks.v); two-qubit gates choose the block by the TRACKED
     values of their Q registers (unknown value: `mov` is taken to be
     electron->carbon, anything else is an assertion failure; equal values:
     assertion failure; `mov` between two carbons: RuntimeError);
   * carbon-carbon blocks borrow a scratch Q register: the first Qi (i<16) that did
     not occur as a top-level operand so far, set to 0 at the start of the block;
   * the old->new index map counts emitted instructions (debug pseudo-instructions
     excluded: they serialise to nothing — this is the repaired behaviour);
     branch / jump immediates are retargeted through it, a target equal to the old
     length goes to the new length and a no-op (`set C15 1337`) is appended;
     a target beyond the old length is a KeyError;
   * hardware mode rewrites rotation angles n/2^d to (n*2^(4-d))/2^4, d<=4.

   Interpreter: registers hold `option Z` (None = never written, as the executor's
   RegisterGroup), arrays are lists of `option Z` with python index wrap-around,
   measurement outcomes come from a script, quantum instructions emit abstract
   events on the qubit ids their registers hold.  Qubit allocation state is not
   modelled (qalloc/init/qfree are events). *)
From Coq Require Import ZArith List Bool String.
Import ListNotations.
Open Scope Z_scope.

(* ------------------------------------------------------------------ syntax *)
Inductive bank := BR | BC | BQ | BM.
Inductive reg := mkReg (b : bank) (i : nat).

Definition bank_eqb (a b : bank) : bool :=
  match a, b with BR, BR | BC, BC | BQ, BQ | BM, BM => true | _, _ => false end.
Definition reg_eqb (a b : reg) : bool :=
  match a, b with mkReg b1 i1, mkReg b2 i2 => bank_eqb b1 b2 && Nat.eqb i1 i2 end.

Inductive gate1 := GX | GY | GZ | GH | GK | GS | GT.
Inductive axis := AX | AY | AZ.
Inductive gate2 := Cnot | Cphase | Mov.
Inductive br1 := Bez | Bnz.
Inductive br2 := Beq | Bne | Blt | Bge.
Inductive qkind := QAlloc | QInit | QFree.

Inductive instr :=
| ISet (r : reg) (v : Z)
| IArith (sub : bool) (d a b : reg)              (* add / sub *)
| IArithM (sub : bool) (d a b m : reg)           (* addm / subm *)
| ILoad (r : reg) (addr : Z) (ix : reg)
| IStore (r : reg) (addr : Z) (ix : reg)
| ILea (r : reg) (addr : Z)
| IUndef (addr : Z) (ix : reg)
| IArray (size : reg) (addr : Z)
| IRetReg (r : reg)
| IRetArr (addr : Z)
| IJmp (t : nat)
| IBr1 (c : br1) (r : reg) (t : nat)
| IBr2 (c : br2) (a b : reg) (t : nat)
| IQ (k : qkind) (r : reg)
| IMeas (q m : reg)
| IGate1 (g : gate1) (r : reg)
| IRot (ax : axis) (r : reg) (n d : Z)           (* rot_x/y/z, both flavours *)
| IGate2 (g : gate2) (r0 r1 : reg)
| ICrot (ax : axis) (r0 r1 : reg) (n d : Z)      (* NV crot_x / crot_y *)
| IDebug (txt : string)                          (* transpiler pseudo-instruction *)
| IOther (name : string) (tops inner wr : list reg) (imms : list Z).
   (* any other instruction (create_epr, recv_epr, wait_*, breakpoint, meas_basis):
      tops = top-level register operands, inner = registers inside entry/slice
      operands, wr = registers written; its effect is given by the environment *)

Definition prog := list instr.

(* top-level register operands, in operand order (what `_used_registers` sees) *)
Definition top_regs (i : instr) : list reg :=
  match i with
  | ISet r _ => [r]
  | IArith _ d a b => [d; a; b]
  | IArithM _ d a b m => [d; a; b; m]
  | ILoad r _ _ => [r]
  | IStore r _ _ => [r]
  | ILea r _ => [r]
  | IUndef _ _ => []
  | IArray s _ => [s]
  | IRetReg r => [r]
  | IRetArr _ => []
  | IJmp _ => []
  | IBr1 _ r _ => [r]
  | IBr2 _ a b _ => [a; b]
  | IQ _ r => [r]
  | IMeas q m => [q; m]
  | IGate1 _ r => [r]
  | IRot _ r _ _ => [r]
  | IGate2 _ r0 r1 => [r0; r1]
  | ICrot _ r0 r1 _ _ => [r0; r1]
  | IDebug _ => []
  | IOther _ tops _ _ _ => tops
  end.

(* every register the instruction mentions (read or written) *)
Definition mentions (i : instr) : list reg :=
  match i with
  | ILoad r _ ix => [r; ix]
  | IStore r _ ix => [r; ix]
  | IUndef _ ix => [ix]
  | IOther _ tops inner wr _ => tops ++ inner ++ wr
  | _ => top_regs i
  end.

Definition target (i : instr) : option nat :=
  match i with IJmp t | IBr1 _ _ t | IBr2 _ _ _ t => Some t | _ => None end.

Definition is_gate (i : instr) : bool :=
  match i with IGate1 _ _ | IRot _ _ _ _ | IGate2 _ _ _ => true | _ => false end.

Definition real (i : instr) : bool := match i with IDebug _ => false | _ => true end.
Definition erase (l : prog) : prog := filter real l.       (* what bytes(Subroutine) keeps *)
Definition rlen (l : prog) : nat := List.length (erase l).

(* ------------------------------------------------------- decomposition tables *)
Inductive placement := EC | CE | CC.     (* electron-carbon, carbon-electron, carbon-carbon *)
Inductive role := RS | RA | RB.          (* scratch electron register, first, second operand *)
Inductive bitem :=
| BRot (ax : axis) (r : role) (n d : Z)
| BCrot (ax : axis) (r0 r1 : role) (n d : Z)
| BDbg (txt : string).
Record block := mkBlock { b_scratch : option Z;   (* Some v: `set <scratch> v` is emitted first *)
                          b_items : list bitem }.

Record tables := mkTables {
  t_g1 : gate1 -> list (axis * Z * Z);            (* rotations on the gate's own register *)
  t_g2 : gate2 -> placement -> option block;      (* None: the transpiler refuses (RuntimeError) *)
  t_noop : reg * Z                                (* the appended `set reg v` *)
}.

Record config := mkConfig { c_debug : bool; c_hw : bool; c_tab : tables }.

(* ---------------------------------------------------------------- transpiler *)
Inductive terr := EAssert | ERuntime | EValue | EKey | ENoReg.
Inductive result (A : Type) := Ok (a : A) | Err (e : terr).
Arguments Ok {A}. Arguments Err {A}.

Record tst := mkTst { tracked : list (nat * Z); used : list reg }.
Definition tst0 : tst := mkTst [] [].

Definition track (i : instr) (s : tst) : tst :=
  mkTst (match i with ISet (mkReg BQ k) v => (k, v) :: tracked s | _ => tracked s end)
        (top_regs i ++ used s).

Fixpoint lookup (k : nat) (l : list (nat * Z)) : option Z :=
  match l with [] => None | (k', v) :: l' => if Nat.eqb k k' then Some v else lookup k l' end.

(* python: self._register_values[reg] — only Q registers are ever stored *)
Definition tracked_value (s : tst) (r : reg) : option Z :=
  match r with mkReg BQ k => lookup k (tracked s) | _ => None end.

Definition mem_reg (r : reg) (l : list reg) : bool := existsb (reg_eqb r) l.

Fixpoint first_unused (n : nat) (k : nat) (u : list reg) : option reg :=
  match n with
  | O => None
  | S n' => if mem_reg (mkReg BQ k) u then first_unused n' (S k) u else Some (mkReg BQ k)
  end.
Definition unused_register (s : tst) : option reg := first_unused 16 0 (used s).

Definition placement_of (q0 q1 : Z) : option placement :=
  if q0 =? q1 then None else if q0 =? 0 then Some EC else if q1 =? 0 then Some CE else Some CC.

(* the decision structure of _handle_two_qubit_gate *)
Definition choose_placement (g : gate2) (s : tst) (r0 r1 : reg) : result placement :=
  match tracked_value s r0, tracked_value s r1 with
  | Some q0, Some q1 =>
      match placement_of q0 q1 with None => Err EAssert | Some p => Ok p end
  | _, _ => match g with Mov => Ok EC | _ => Err EAssert end
  end.

Definition role_reg (sc r0 r1 : reg) (r : role) : reg :=
  match r with RS => sc | RA => r0 | RB => r1 end.

Definition inst_item (sc r0 r1 : reg) (it : bitem) : instr :=
  match it with
  | BRot ax r n d => IRot ax (role_reg sc r0 r1 r) n d
  | BCrot ax a b n d => ICrot ax (role_reg sc r0 r1 a) (role_reg sc r0 r1 b) n d
  | BDbg t => IDebug t
  end.

Definition keep_item (debug : bool) (it : bitem) : bool :=
  match it with BDbg _ => debug | _ => true end.

Definition inst_block (debug : bool) (b : block) (sc r0 r1 : reg) : prog :=
  (match b_scratch b with Some v => [ISet sc v] | None => [] end)
  ++ map (inst_item sc r0 r1) (filter (keep_item debug) (b_items b)).

(* get_hardware_num_denom *)
Definition rot_angle (hw : bool) (n d : Z) : result (Z * Z) :=
  if hw then (if (0 <=? d) && (d <=? 4) then Ok (n * 2 ^ (4 - d), 4) else Err EValue)
  else Ok (n, d).

Definition uses_scratch (b : block) : bool :=
  match b_scratch b with Some _ => true | None => false end.

Definition expand (c : config) (s : tst) (i : instr) : result prog :=
  match i with
  | IGate1 g r => Ok (map (fun '(ax, n, d) => IRot ax r n d) (t_g1 (c_tab c) g))
  | IRot ax r n d =>
      match rot_angle (c_hw c) n d with Ok (n', d') => Ok [IRot ax r n' d'] | Err e => Err e end
  | IGate2 g r0 r1 =>
      match choose_placement g s r0 r1 with
      | Err e => Err e
      | Ok p =>
          match t_g2 (c_tab c) g p with
          | None => Err ERuntime
          | Some b =>
              if uses_scratch b then
                match unused_register s with
                | None => Err ENoReg
                | Some sc => Ok (inst_block (c_debug c) b sc r0 r1)
                end
              else Ok (inst_block (c_debug c) b r0 r0 r1)   (* scratch role absent *)
          end
      end
  | _ => Ok [i]
  end.

Fixpoint expand_all (c : config) (s : tst) (p : prog) : result (list prog) :=
  match p with
  | [] => Ok []
  | i :: p' =>
      let s' := track i s in
      match expand c s' i with
      | Err e => Err e
      | Ok b => match expand_all c s' p' with Err e => Err e | Ok bs => Ok (b :: bs) end
      end
  end.

(* new index of every old index 0..len (the last entry is the new length) *)
Fixpoint starts (n : nat) (bs : list prog) : list nat :=
  match bs with [] => [n] | b :: bs' => n :: starts (n + rlen b) bs' end.

Definition retarget (m : list nat) (i : instr) : result instr :=
  match i with
  | IJmp t => match nth_error m t with Some t' => Ok (IJmp t') | None => Err EKey end
  | IBr1 c r t => match nth_error m t with Some t' => Ok (IBr1 c r t') | None => Err EKey end
  | IBr2 c a b t => match nth_error m t with Some t' => Ok (IBr2 c a b t') | None => Err EKey end
  | _ => Ok i
  end.

Fixpoint retarget_all (m : list nat) (l : prog) : result prog :=
  match l with
  | [] => Ok []
  | i :: l' =>
      match retarget m i with
      | Err e => Err e
      | Ok i' => match retarget_all m l' with Err e => Err e | Ok r => Ok (i' :: r) end
      end
  end.

Definition targets_end (p : prog) : bool :=
  existsb (fun i => match target i with Some t => Nat.eqb t (List.length p) | None => false end) p.

Definition noop (c : config) : instr := ISet (fst (t_noop (c_tab c))) (snd (t_noop (c_tab c))).

Definition transpile (c : config) (p : prog) : result prog :=
  match expand_all c tst0 p with
  | Err e => Err e
  | Ok bs =>
      match retarget_all (starts 0 bs) (List.concat bs) with
      | Err e => Err e
      | Ok l => Ok (l ++ if targets_end p then [noop c] else [])
      end
  end.

(* static views used by the theorems *)
Definition tst_at (p : prog) (i : nat) : tst := fold_left (fun s x => track x s) (firstn (S i) p) tst0.

(* the scratch register chosen for instruction i (if its block borrows one) *)
Definition scratch_at (c : config) (p : prog) (i : nat) : option reg :=
  match nth_error p i with
  | Some (IGate2 g r0 r1) =>
      match choose_placement g (tst_at p i) r0 r1 with
      | Ok pl => match t_g2 (c_tab c) g pl with
                 | Some b => if uses_scratch b then unused_register (tst_at p i) else None
                 | None => None end
      | Err _ => None
      end
  | _ => None
  end.

Fixpoint scratch_regs_upto (c : config) (p : prog) (n : nat) : list reg :=
  match n with
  | O => []
  | S n' => match scratch_at c p n' with Some r => [r] | None => [] end ++ scratch_regs_upto c p n'
  end.
Definition scratch_regs (c : config) (p : prog) : list reg := scratch_regs_upto c p (List.length p).

(* ---------------------------------------------------------------- interpreter *)
Inductive event :=
| EvQ (k : qkind) (q : Z)
| EvMeas (q : Z) (outcome : Z)
| EvG1 (g : gate1) (q : Z)
| EvRot (ax : axis) (q : Z) (n d : Z)
| EvG2 (g : gate2) (q0 q1 : Z)
| EvCrot (ax : axis) (q0 q1 : Z) (n d : Z)
| EvRetReg (r : reg) (v : Z)
| EvRetArr (addr : Z) (vals : list (option Z))
| EvOther (name : string) (imms : list Z) (vals : list (option Z)).

Definition regfile := reg -> option Z.
Definition arrays := Z -> option (list (option Z)).

Record mstate := mkSt { regs : regfile; arrs : arrays; script : list Z; trace : list event }.

Definition upd (f : regfile) (r : reg) (v : option Z) : regfile :=
  fun r' => if reg_eqb r' r then v else f r'.
Definition upd_arr (f : arrays) (a : Z) (v : option (list (option Z))) : arrays :=
  fun a' => if a' =? a then v else f a'.

Fixpoint upd_list (f : regfile) (rs : list reg) (vs : list (option Z)) : regfile :=
  match rs, vs with
  | r :: rs', v :: vs' => upd_list (upd f r v) rs' vs'
  | _, _ => f
  end.

(* python list indexing: 0<=i<len, or -len<=i<0 counted from the end *)
Definition norm_index (i : Z) (len : nat) : option nat :=
  if (0 <=? i) && (i <? Z.of_nat len) then Some (Z.to_nat i)
  else if (i <? 0) && (- Z.of_nat len <=? i) then Some (Z.to_nat (i + Z.of_nat len))
  else None.

Fixpoint set_nth {A} (l : list A) (n : nat) (v : A) : list A :=
  match l, n with
  | [], _ => []
  | _ :: l', O => v :: l'
  | x :: l', S n' => x :: set_nth l' n' v
  end.

(* the environment: effect of an `IOther` instruction, given its name, immediates,
   the values of the registers it mentions (tops ++ inner), the arrays and the
   script.  None = the instruction faults / cannot proceed. *)
Definition env_t := string -> list Z -> list (option Z) -> arrays -> list Z ->
                    option (list (option Z) * arrays * list Z).

Inductive outcome :=
| Next (pc : nat) (s : mstate)
| Fault.

Definition emit (s : mstate) (e : event) : mstate :=
  mkSt (regs s) (arrs s) (script s) (trace s ++ [e]).
Definition setreg (s : mstate) (r : reg) (v : Z) : mstate :=
  mkSt (upd (regs s) r (Some v)) (arrs s) (script s) (trace s).
Definition setarr (s : mstate) (a : Z) (l : list (option Z)) : mstate :=
  mkSt (regs s) (upd_arr (arrs s) a (Some l)) (script s) (trace s).

Definition write_entry (s : mstate) (addr ix : Z) (v : option Z) : option mstate :=
  match arrs s addr with
  | None => None
  | Some l => match norm_index ix (List.length l) with
              | None => None
              | Some k => Some (setarr s addr (set_nth l k v))
              end
  end.

Definition br1_taken (c : br1) (a : option Z) : bool :=
  match c, a with
  | Bez, Some v => v =? 0 | Bez, None => false          (* None == 0 is False *)
  | Bnz, Some v => negb (v =? 0) | Bnz, None => true
  end.

(* None: the comparison raises (TypeError on None < int) *)
Definition br2_taken (c : br2) (a b : option Z) : option bool :=
  match c with
  | Beq => Some (match a, b with Some x, Some y => x =? y | None, None => true | _, _ => false end)
  | Bne => Some (negb (match a, b with Some x, Some y => x =? y | None, None => true | _, _ => false end))
  | Blt => match a, b with Some x, Some y => Some (x <? y) | _, _ => None end
  | Bge => match a, b with Some x, Some y => Some (y <=? x) | _, _ => None end
  end.

Definition step (env : env_t) (i : instr) (pc : nat) (s : mstate) : outcome :=
  let R := regs s in
  match i with
  | ISet r v => Next (S pc) (setreg s r v)
  | IArith sub d a b =>
      match R a, R b with
      | Some x, Some y => Next (S pc) (setreg s d (if sub then x - y else x + y))
      | _, _ => Fault
      end
  | IArithM sub d a b m =>
      match R m, R a, R b with
      | Some mv, Some x, Some y =>
          if mv <? 1 then Fault
          else Next (S pc) (setreg s d ((if sub then x - y else x + y) mod mv))
      | _, _, _ => Fault
      end
  | ILoad r addr ix =>
      match R ix, arrs s addr with
      | Some k, Some l =>
          match norm_index k (List.length l) with
          | Some j => match nth_error l j with
                      | Some (Some v) => Next (S pc) (setreg s r v)
                      | _ => Fault
                      end
          | None => Fault
          end
      | _, _ => Fault
      end
  | IStore r addr ix =>
      match R r, R ix with
      | Some v, Some k => match write_entry s addr k (Some v) with
                          | Some s' => Next (S pc) s' | None => Fault end
      | _, _ => Fault
      end
  | ILea r addr => Next (S pc) (setreg s r addr)
  | IUndef addr ix =>
      match R ix with
      | Some k => match write_entry s addr k None with
                  | Some s' => Next (S pc) s' | None => Fault end
      | None => Fault
      end
  | IArray size addr =>
      match R size with
      | Some n => Next (S pc) (setarr s addr (repeat None (Z.to_nat n)))
      | None => Fault
      end
  | IRetReg r =>
      match R r with Some v => Next (S pc) (emit s (EvRetReg r v)) | None => Fault end
  | IRetArr addr =>
      match arrs s addr with Some l => Next (S pc) (emit s (EvRetArr addr l)) | None => Fault end
  | IJmp t => Next t s
  | IBr1 c r t => Next (if br1_taken c (R r) then t else S pc) s
  | IBr2 c a b t =>
      match br2_taken c (R a) (R b) with
      | Some true => Next t s | Some false => Next (S pc) s | None => Fault
      end
  | IQ k r => match R r with Some q => Next (S pc) (emit s (EvQ k q)) | None => Fault end
  | IMeas q m =>
      match R q with
      | Some qa =>
          let o := match script s with [] => 0 | o :: _ => o end in
          let s1 := mkSt (upd R m (Some o)) (arrs s) (tl (script s)) (trace s) in
          Next (S pc) (emit s1 (EvMeas qa o))
      | None => Fault
      end
  | IGate1 g r => match R r with Some q => Next (S pc) (emit s (EvG1 g q)) | None => Fault end
  | IRot ax r n d => match R r with Some q => Next (S pc) (emit s (EvRot ax q n d)) | None => Fault end
  | IGate2 g r0 r1 =>
      match R r0, R r1 with
      | Some q0, Some q1 => Next (S pc) (emit s (EvG2 g q0 q1))
      | _, _ => Fault
      end
  | ICrot ax r0 r1 n d =>
      match R r0, R r1 with
      | Some q0, Some q1 => Next (S pc) (emit s (EvCrot ax q0 q1 n d))
      | _, _ => Fault
      end
  | IDebug _ => Fault
  | IOther name tops inner wr imms =>
      let vals := map R (tops ++ inner) in
      match env name imms vals (arrs s) (script s) with
      | Some (wvals, arrs', script') =>
          Next (S pc) (mkSt (upd_list R wr wvals) arrs' script' (trace s ++ [EvOther name imms vals]))
      | None => Fault
      end
  end.

Inductive status := Running | Halted | Faulted.

(* Running = out of fuel.  A fault leaves pc and state as they were (the executor
   does not advance the program counter on an exception). *)
Fixpoint run (env : env_t) (p : prog) (fuel : nat) (pc : nat) (s : mstate) : status * nat * mstate :=
  match nth_error p pc with
  | None => (Halted, pc, s)
  | Some i =>
      match fuel with
      | O => (Running, pc, s)
      | S f => match step env i pc s with
               | Next pc' s' => run env p f pc' s'
               | Fault => (Faulted, pc, s)
               end
      end
  end.

(* -------------------------------------------- relating vanilla and NV behaviour *)
Definition role_val (sv q0 q1 : Z) (r : role) : Z := match r with RS => sv | RA => q0 | RB => q1 end.

Definition item_events (sv q0 q1 : Z) (it : bitem) : list event :=
  match it with
  | BRot ax r n d => [EvRot ax (role_val sv q0 q1 r) n d]
  | BCrot ax a b n d => [EvCrot ax (role_val sv q0 q1 a) (role_val sv q0 q1 b) n d]
  | BDbg _ => []
  end.

Definition block_events (b : block) (q0 q1 : Z) : list event :=
  let sv := match b_scratch b with Some v => v | None => q0 end in
  flat_map (item_events sv q0 q1) (b_items b).

(* the NV events one vanilla event stands for (None: the gate has no NV expansion
   for the qubits it was applied to) *)
Definition expand_event (c : config) (e : event) : option (list event) :=
  match e with
  | EvG1 g q => Some (map (fun '(ax, n, d) => EvRot ax q n d) (t_g1 (c_tab c) g))
  | EvRot ax q n d =>
      match rot_angle (c_hw c) n d with Ok (n', d') => Some [EvRot ax q n' d'] | Err _ => None end
  | EvG2 g q0 q1 =>
      match placement_of q0 q1 with
      | None => None
      | Some p => match t_g2 (c_tab c) g p with
                  | Some b => Some (block_events b q0 q1) | None => None end
      end
  | _ => Some [e]
  end.

Fixpoint expand_trace (c : config) (t : list event) : option (list event) :=
  match t with
  | [] => Some []
  | e :: t' => match expand_event c e, expand_trace c t' with
               | Some a, Some b => Some (a ++ b) | _, _ => None end
  end.

(* "the decomposition chosen for a gate reflects the qubit its register actually
   holds when the gate executes": checked along the vanilla run itself *)
Definition gate_choice_ok (c : config) (p : prog) (pc : nat) (s : mstate) : bool :=
  match nth_error p pc with
  | Some (IGate2 g r0 r1) =>
      match regs s r0, regs s r1 with
      | Some q0, Some q1 =>
          match choose_placement g (tst_at p pc) r0 r1, placement_of q0 q1 with
          | Ok pl, Some pl' =>
              match pl, pl' with EC, EC | CE, CE | CC, CC => true | _, _ => false end
          | _, _ => false
          end
      | _, _ => true   (* the gate faults in both programs *)
      end
  | _ => true
  end.

Fixpoint tracked_run (env : env_t) (c : config) (p : prog) (fuel : nat) (pc : nat) (s : mstate) : bool :=
  match nth_error p pc with
  | None => true
  | Some i =>
      match fuel with
      | O => true
      | S f => gate_choice_ok c p pc s &&
               match step env i pc s with
               | Next pc' s' => tracked_run env c p f pc' s'
               | Fault => true
               end
      end
  end.
