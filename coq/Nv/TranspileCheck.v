(* Nv/TranspileCheck.v — executable comparison of the model with recorded results of
   the implementation (used by generated case files of check C08).  Programs,
   transpiler outputs and final machine states are compared through a canonical
   encoding into lists of integers (harness/nv_impl.py produces the same encoding
   from the real objects). *)
From Coq Require Import ZArith List Bool String Ascii.
From NQ Require Import Nv.Transpile.
Import ListNotations.
Open Scope Z_scope.

Definition enc_bank (b : bank) : Z := match b with BR => 0 | BC => 1 | BQ => 2 | BM => 3 end.
Definition enc_reg (r : reg) : list Z := match r with mkReg b i => [enc_bank b; Z.of_nat i] end.
Definition enc_regs (l : list reg) : list Z := Z.of_nat (List.length l) :: flat_map enc_reg l.
Definition enc_zs (l : list Z) : list Z := Z.of_nat (List.length l) :: l.
Fixpoint enc_string (s : string) : list Z :=
  match s with EmptyString => [] | String a s' => Z.of_nat (nat_of_ascii a) :: enc_string s' end.
Definition enc_str (s : string) : list Z := Z.of_nat (String.length s) :: enc_string s.
Definition enc_g1 (g : gate1) : Z :=
  match g with GX => 0 | GY => 1 | GZ => 2 | GH => 3 | GK => 4 | GS => 5 | GT => 6 end.
Definition enc_ax (a : axis) : Z := match a with AX => 0 | AY => 1 | AZ => 2 end.
Definition enc_g2 (g : gate2) : Z := match g with Cnot => 0 | Cphase => 1 | Mov => 2 end.
Definition enc_b1 (c : br1) : Z := match c with Bez => 0 | Bnz => 1 end.
Definition enc_b2 (c : br2) : Z := match c with Beq => 0 | Bne => 1 | Blt => 2 | Bge => 3 end.
Definition enc_qk (k : qkind) : Z := match k with QAlloc => 0 | QInit => 1 | QFree => 2 end.
Definition enc_bool (b : bool) : Z := if b then 1 else 0.
Definition enc_oz (o : option Z) : list Z := match o with None => [0] | Some v => [1; v] end.
Definition enc_ozs (l : list (option Z)) : list Z := Z.of_nat (List.length l) :: flat_map enc_oz l.

Definition enc_instr (i : instr) : list Z :=
  match i with
  | ISet r v => 1 :: enc_reg r ++ [v]
  | IArith s d a b => 2 :: enc_bool s :: enc_reg d ++ enc_reg a ++ enc_reg b
  | IArithM s d a b m => 3 :: enc_bool s :: enc_reg d ++ enc_reg a ++ enc_reg b ++ enc_reg m
  | ILoad r addr ix => 4 :: enc_reg r ++ [addr] ++ enc_reg ix
  | IStore r addr ix => 5 :: enc_reg r ++ [addr] ++ enc_reg ix
  | ILea r addr => 6 :: enc_reg r ++ [addr]
  | IUndef addr ix => 7 :: addr :: enc_reg ix
  | IArray s addr => 8 :: enc_reg s ++ [addr]
  | IRetReg r => 9 :: enc_reg r
  | IRetArr addr => [10; addr]
  | IJmp t => [11; Z.of_nat t]
  | IBr1 c r t => 12 :: enc_b1 c :: enc_reg r ++ [Z.of_nat t]
  | IBr2 c a b t => 13 :: enc_b2 c :: enc_reg a ++ enc_reg b ++ [Z.of_nat t]
  | IQ k r => 14 :: enc_qk k :: enc_reg r
  | IMeas q m => 15 :: enc_reg q ++ enc_reg m
  | IGate1 g r => 16 :: enc_g1 g :: enc_reg r
  | IRot ax r n d => 17 :: enc_ax ax :: enc_reg r ++ [n; d]
  | IGate2 g r0 r1 => 18 :: enc_g2 g :: enc_reg r0 ++ enc_reg r1
  | ICrot ax r0 r1 n d => 19 :: enc_ax ax :: enc_reg r0 ++ enc_reg r1 ++ [n; d]
  | IDebug t => 20 :: enc_str t
  | IOther name tops inner wr imms => 21 :: enc_str name ++ enc_regs tops ++ enc_regs inner ++ enc_regs wr ++ enc_zs imms
  end.

Definition enc_prog (p : prog) : list Z := Z.of_nat (List.length p) :: flat_map enc_instr p.

Definition enc_event (e : event) : list Z :=
  match e with
  | EvQ k q => [1; enc_qk k; q]
  | EvMeas q o => [2; q; o]
  | EvG1 g q => [3; enc_g1 g; q]
  | EvRot ax q n d => [4; enc_ax ax; q; n; d]
  | EvG2 g q0 q1 => [5; enc_g2 g; q0; q1]
  | EvCrot ax q0 q1 n d => [6; enc_ax ax; q0; q1; n; d]
  | EvRetReg r v => 7 :: enc_reg r ++ [v]
  | EvRetArr a l => 8 :: a :: enc_ozs l
  | EvOther name imms vals => 9 :: enc_str name ++ enc_zs imms ++ enc_ozs vals
  end.

Definition enc_terr (e : terr) : Z :=
  match e with EAssert => 1 | ERuntime => 2 | EValue => 3 | EKey => 4 | ENoReg => 2 end.
   (* python raises RuntimeError for both 'cannot move' and 'no free register' *)

Definition enc_result (r : result prog) : list Z :=
  match r with Ok p => 0 :: enc_prog p | Err e => [enc_terr e] end.

Fixpoint zs_eqb (a b : list Z) : bool :=
  match a, b with
  | [], [] => true
  | x :: a', y :: b' => (x =? y) && zs_eqb a' b'
  | _, _ => false
  end.

(* ---- transpile cases *)
Record tcase := mkT { tc_debug : bool; tc_hw : bool; tc_prog : prog; tc_expect : list Z }.

Definition check_tcase (t : tables) (c : tcase) : bool :=
  zs_eqb (enc_result (transpile (mkConfig (tc_debug c) (tc_hw c) t) (tc_prog c))) (tc_expect c).

(* ---- run cases: final state of the real executor on a program *)
Definition all_regs : list reg :=
  flat_map (fun b => map (mkReg b) (seq 0 16)) [BR; BC; BQ; BM].

Definition enc_status (s : status) : Z := match s with Running => 0 | Halted => 1 | Faulted => 2 end.

Definition enc_arrays (a : arrays) (addrs : list Z) : list Z :=
  flat_map (fun x => match a x with None => [0] | Some l => 1 :: enc_ozs l end) addrs.

Definition no_env : env_t := fun _ _ _ _ _ => None.

Definition st0 (script : list Z) : mstate := mkSt (fun _ => None) (fun _ => None) script [].

Definition enc_final (r : status * nat * mstate) (addrs : list Z) : list Z :=
  match r with
  | (st, _, s) =>
      enc_status st :: flat_map (fun r => enc_oz (regs s r)) all_regs
        ++ enc_arrays (arrs s) addrs
        ++ Z.of_nat (List.length (trace s)) :: flat_map enc_event (trace s)
  end.

Record rcase := mkR { rc_prog : prog; rc_script : list Z; rc_fuel : nat; rc_addrs : list Z; rc_expect : list Z }.

Definition check_rcase (c : rcase) : bool :=
  zs_eqb (enc_final (run no_env (rc_prog c) (rc_fuel c) 0 (st0 (rc_script c))) (rc_addrs c)) (rc_expect c).

Fixpoint failing {A} (chk : A -> bool) (l : list A) (i : Z) : list Z :=
  match l with
  | [] => []
  | x :: l' => if chk x then failing chk l' (i + 1) else i :: failing chk l' (i + 1)
  end.
