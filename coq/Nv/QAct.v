(* Nv/QAct.v — bridge between C08's abstract quantum events and C07's exact operator
   rows (model only; proofs in Proofs/QActProofs.v).

   * conversion of a block of the C08 table (roles RS/RA/RB) into a C07 gate list on
     wires (C07's convention: wire 0 = electron; electron-carbon: wire 1 = carbon;
     carbon-carbon: wire 0 = borrowed electron, 1 = first, 2 = second operand);
   * `tables_agree`: every block of the C08 table is, converted, the sequence of a row
     of C07's regenerated table for the same gate and placement;
   * an operator semantics of events on ANY state space `QS` that carries an action
     `act : list Z -> mat -> QS -> QS` of exact matrices placed on lists of qubit ids. *)
From Coq Require Import ZArith List Bool String.
From NQ Require Import Base.Cyclo Base.QMat Nv.NvSem Nv.Transpile.
Import ListNotations.

Definition cax (a : Transpile.axis) : QMat.axis :=
  match a with Transpile.AX => QMat.AX | Transpile.AY => QMat.AY | Transpile.AZ => QMat.AZ end.
Definition cg1 (g : Transpile.gate1) : QMat.g1 :=
  match g with
  | Transpile.GX => QMat.GX | Transpile.GY => QMat.GY | Transpile.GZ => QMat.GZ | Transpile.GH => QMat.GH
  | Transpile.GK => QMat.GK | Transpile.GS => QMat.GS | Transpile.GT => QMat.GT end.
Definition cg2 (g : gate2) : option g2 :=
  match g with Cnot => Some GCNOT | Cphase => Some GCPHASE | Mov => None end.
Definition cplace (p : Transpile.placement) : NvSem.placement :=
  match p with EC => PEC | CE => PCE | CC => PCC end.

Definition role_wire (p : Transpile.placement) (r : role) : nat :=
  match p, r with
  | EC, RA => 0 | EC, RB => 1 | EC, RS => 0
  | CE, RA => 1 | CE, RB => 0 | CE, RS => 1
  | CC, RS => 0 | CC, RA => 1 | CC, RB => 2
  end%nat.

Definition conv_item (p : Transpile.placement) (it : bitem) : list qop :=
  match it with
  | BRot ax r n d => [ORot (cax ax) (role_wire p r) n d]
  | BCrot ax a b n d => [OCRot (cax ax) (role_wire p a) (role_wire p b) n d]
  | BDbg _ => []
  end.
Definition conv_block (p : Transpile.placement) (b : block) : list qop := flat_map (conv_item p) (b_items b).
Definition conv_g1 (l : list (Transpile.axis * Z * Z)) : list qop :=
  map (fun '(ax, n, d) => ORot (cax ax) 0 n d) l.

(* ---- decidable equality of gate lists *)
Definition axis_eqb (a b : QMat.axis) : bool :=
  match a, b with QMat.AX, QMat.AX | QMat.AY, QMat.AY | QMat.AZ, QMat.AZ => true | _, _ => false end.
Definition g1_eqb (a b : QMat.g1) : bool :=
  match a, b with
  | QMat.GX, QMat.GX | QMat.GY, QMat.GY | QMat.GZ, QMat.GZ | QMat.GH, QMat.GH
  | QMat.GK, QMat.GK | QMat.GS, QMat.GS | QMat.GT, QMat.GT => true | _, _ => false end.
Definition g2_eqb (a b : g2) : bool :=
  match a, b with GCNOT, GCNOT | GCPHASE, GCPHASE => true | _, _ => false end.
Definition qop_eqb (a b : qop) : bool :=
  match a, b with
  | ORot a1 q1 n1 d1, ORot a2 q2 n2 d2 => axis_eqb a1 a2 && Nat.eqb q1 q2 && Z.eqb n1 n2 && Z.eqb d1 d2
  | OCRot a1 c1 t1 n1 d1, OCRot a2 c2 t2 n2 d2 =>
      axis_eqb a1 a2 && Nat.eqb c1 c2 && Nat.eqb t1 t2 && Z.eqb n1 n2 && Z.eqb d1 d2
  | OG1 g1' q1, OG1 g2' q2 => g1_eqb g1' g2' && Nat.eqb q1 q2
  | OG2 g1' c1 t1, OG2 g2' c2 t2 => g2_eqb g1' g2' && Nat.eqb c1 c2 && Nat.eqb t1 t2
  | _, _ => false
  end.
Fixpoint qops_eqb (a b : list qop) : bool :=
  match a, b with
  | [], [] => true
  | x :: a', y :: b' => qop_eqb x y && qops_eqb a' b'
  | _, _ => false
  end.
Definition place_eqb (a b : NvSem.placement) : bool :=
  match a, b with PSingle, PSingle | PEC, PEC | PCE, PCE | PCC, PCC => true | _, _ => false end.

Definition row_is_g1 (g : QMat.g1) (seq : list qop) (r : nvrow) : bool :=
  match r_gate r with VG1 g' => g1_eqb g g' | _ => false end && place_eqb (r_place r) PSingle
  && qops_eqb (r_seq r) seq.
Definition row_is_g2 (g : g2) (p : NvSem.placement) (seq : list qop) (r : nvrow) : bool :=
  match r_gate r with VG2 g' => g2_eqb g g' | _ => false end && place_eqb (r_place r) p
  && qops_eqb (r_seq r) seq.

(* the C08 block table against C07's rows: same sequences for the same gate and
   placement; carbon-carbon blocks set the scratch register to the electron (0),
   blocks without scratch do not use the scratch role *)
Definition scratch_ok (p : Transpile.placement) (b : block) : bool :=
  match p, b_scratch b with
  | CC, Some v => Z.eqb v 0
  | CC, None => false
  | _, Some _ => false
  | _, None => true
  end.
Definition tables_agree (t : tables) (rows : list nvrow) : bool :=
  forallb (fun g => existsb (row_is_g1 (cg1 g) (conv_g1 (t_g1 t g))) rows)
          [Transpile.GX; Transpile.GY; Transpile.GZ; Transpile.GH; Transpile.GK; Transpile.GS; Transpile.GT]
  && forallb (fun g => forallb (fun p =>
        match cg2 g, t_g2 t g p with
        | Some g', Some b => scratch_ok p b && existsb (row_is_g2 g' (cplace p) (conv_block p b)) rows
        | Some _, None => false           (* cnot / cphase must have a block at every placement *)
        | None, _ => true                 (* mov: see apply_ev *)
        end) [EC; CE; CC]) [Cnot; Cphase; Mov].

(* ---- operator semantics of events *)
Section Act.
  Variable QS : Type.
  Variable act : list Z -> mat -> QS -> QS.
  Variable rot_op : QMat.axis -> Z -> Z -> mat.     (* exp(-i n pi/2^d sigma/2) *)
  Variable crot_op : QMat.axis -> Z -> Z -> mat.    (* the NV conditional rotation *)
  Variable other : event -> QS -> QS.               (* alloc/init/free/meas/returns/EPR *)
  Variable c : config.

  Definition apply_prim (e : event) (psi : QS) : QS :=
    match e with
    | EvG1 g q => act [q] (g1_mat (cg1 g)) psi
    | EvRot ax q n d => act [q] (rot_op (cax ax) n d) psi
    | EvCrot ax q0 q1 n d => act [q0; q1] (crot_op (cax ax) n d) psi
    | EvG2 g q0 q1 => match cg2 g with Some g' => act [q0; q1] (g2_mat g') psi | None => other e psi end
    | _ => other e psi
    end.

  (* vanilla `mov` has no operator of its own in netqasm: its meaning is DEFINED as the
     transfer circuit the table gives for the placement of its operands (that the
     circuit transfers the state onto a fresh target is C07's MOV row) *)
  Definition apply_ev (e : event) (psi : QS) : QS :=
    match e with
    | EvG2 Mov _ _ =>
        match expand_event c e with
        | Some es => fold_left (fun a x => apply_prim x a) es psi
        | None => other e psi
        end
    | _ => apply_prim e psi
    end.
End Act.
