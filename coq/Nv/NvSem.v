(* NvSem.v — what a row of the regenerated NV decomposition table claims
   (model only).  A row = one vanilla gate at one placement of its operands on
   the NV node (electron = virtual qubit 0, carbons = 1..), one hardware
   setting, and the NV instruction sequence the real transpiler emitted for it.

   Wires: wire 0 is always the electron (for a single-qubit gate: the qubit the
   gate acts on, electron or carbon — the transpiler does not distinguish).
   Two-qubit gate, electron/carbon: wire 1 = the carbon.  Carbon/carbon: wire 0 =
   the borrowed electron, wire 1 = first operand, wire 2 = second operand. *)
From Coq Require Import ZArith List Bool String.
From NQ Require Import Base.Cyclo Base.QMat.
Import ListNotations.

Inductive vgate :=
| VG1 (g : g1)
| VRot (a : axis) (n d : Z)
| VG2 (g : g2)
| VMov
| VCustom (name : string) (G : mat).
   (* a vanilla gate that is NOT in the frozen specification table (newly added to the code base):
      its operator is the exact K32 form of the class's own published to_matrix(), found and
      numerically verified by the translator - "specification derived from the implementation's
      own matrix" (weaker than the frozen table: it shows decomposition = published matrix) *)

Inductive placement :=
| PSingle      (* one operand *)
| PEC          (* first operand (control / source) = electron, second = carbon *)
| PCE          (* first operand = carbon, second (target) = electron *)
| PCC.         (* both carbons; the electron is borrowed *)

Record nvrow := mkRow {
  r_name : string;          (* human-readable key, e.g. "cnot q1 q0 hw=0" *)
  r_gate : vgate;
  r_place : placement;
  r_hw : bool;
  r_seq : list qop }.

Definition n_wires (p : placement) : nat :=
  match p with PSingle => 1 | PEC | PCE => 2 | PCC => 3 end.

(* the operator the vanilla gate denotes on the row's wires *)
Definition gate_spec (g : vgate) (p : placement) : option mat :=
  match g, p with
  | VG1 g, PSingle => Some (g1_mat g)
  | VRot a n d, PSingle => match half_units n d with Some k => Some (rot_k a k) | None => None end
  | VG2 g, PEC => Some (g2_mat g)
  | VG2 g, PCE => Some (embed 2 [1%nat; 0%nat] (g2_mat g))
  | VG2 g, PCC => Some (kron (mid 2) (g2_mat g))
  | VCustom _ G, PSingle => if dims_ok 2 2 G then Some G else None
  | VCustom _ G, PEC => if dims_ok 4 4 G then Some G else None
  | VCustom _ G, PCE => if dims_ok 4 4 G then Some (embed 2 [1%nat; 0%nat] G) else None
  | VCustom _ G, PCC => if dims_ok 4 4 G then Some (kron (mid 2) G) else None
  | _, _ => None
  end.

Definition unit_vec (phi : mat) : bool := meqb (mmul (mdagger phi) phi) [[kone]].

(* MOV: source state psi, target freshly initialised |0>.  in_map : psi |-> the
   two-wire input, out_map phi0 : psi |-> the two-wire output *)
Definition mov_in (p : placement) : option mat :=
  match p with
  | PEC => Some (kron (mid 2) ket0)       (* psi on the electron, |0> on the carbon *)
  | PCE => Some (kron ket0 (mid 2))       (* |0> on the electron, psi on the carbon *)
  | _ => None
  end.
Definition mov_out (p : placement) (phi0 : mat) : mat :=
  match p with
  | PEC => kron phi0 (mid 2)              (* phi0 left on the electron, psi on the carbon *)
  | _ => kron (mid 2) phi0                (* psi on the electron, phi0 left on the carbon *)
  end.
(* the left-over state of the source wire read off the image of psi = |0> *)
Definition mov_phi0 (p : placement) (M : mat) : mat :=
  match p with
  | PEC => [[mget M 0%nat 0%nat]; [mget M 2%nat 0%nat]]
  | _ => [[mget M 0%nat 0%nat]; [mget M 1%nat 0%nat]]
  end.

Definition row_ok (r : nvrow) : bool :=
  match r_gate r with
  | VMov =>
      match circuit (n_wires (r_place r)) (r_seq r), mov_in (r_place r) with
      | Some U, Some Inp =>
          let M := mmul U Inp in
          let phi0 := mov_phi0 (r_place r) M in
          meqb M (mov_out (r_place r) phi0) && unit_vec phi0 && mshort phi0
      | _, _ => false
      end
  | g =>
      match circuit (n_wires (r_place r)) (r_seq r), gate_spec g (r_place r) with
      | Some U, Some G => phase_eqb U G
      | _, _ => false
      end
  end.

(* the statement a row makes *)
Definition row_spec (r : nvrow) : Prop :=
  match r_gate r with
  | VMov =>
      exists U Inp phi0,
        circuit (n_wires (r_place r)) (r_seq r) = Some U /\
        mov_in (r_place r) = Some Inp /\
        dims_ok 2 1 phi0 = true /\                     (* phi0 is a 2 x 1 column *)
        mshort phi0 = true /\
        mmul U Inp = mov_out (r_place r) phi0 /\       (* same phi0 and same phase for every psi *)
        mmul (mdagger phi0) phi0 = [[kone]]
  | g =>
      exists U G,
        circuit (n_wires (r_place r)) (r_seq r) = Some U /\
        gate_spec g (r_place r) = Some G /\
        phase_eq U G
  end.

Definition bad_rows (rows : list nvrow) : list string :=
  map r_name (filter (fun r => negb (row_ok r)) rows).

(* ---- rotation immediates: model of the transpiler's pass-through ---- *)
(* simulation mode passes (n, d) through; hardware mode rewrites to denominator
   2^4 and rejects d outside 0..4 (get_hardware_num_denom) *)
Definition nv_rot_imm (hw : bool) (n d : Z) : option (Z * Z) :=
  if hw then
    if ((0 <=? d) && (d <=? 4))%Z then Some (n * 2 ^ (4 - d), 4)%Z else None
  else Some (n, d).

(* one line of the regenerated hardware-mode table: axis tag, d, and the emitted
   (n', d') for n = 0..255 (None = the transpiler raised) *)
Definition hw_line_ok (d : Z) (outs : list (option (Z * Z))) : bool :=
  Nat.eqb (List.length outs) 256 &&
  forallb (fun p : nat * option (Z * Z) =>
             match nv_rot_imm true (Z.of_nat (fst p)) d, snd p with
             | Some (a, b), Some (a', b') => (a =? a')%Z && (b =? b')%Z
             | None, None => true
             | _, _ => false
             end) (combine (seq 0 256) outs).

(* indices of the rows that do not check (for the harness: the row is the input) *)
Definition bad_row_idx (rows : list nvrow) : list nat :=
  map fst (filter (fun p : nat * nvrow => negb (row_ok (snd p))) (combine (seq 0 (List.length rows)) rows)).

(* rows whose specification is the frozen table (known mnemonics) vs derived from to_matrix() *)
Definition is_frozen (r : nvrow) : bool := match r_gate r with VCustom _ _ => false | _ => true end.
