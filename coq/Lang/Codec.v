(* Codec.v — executable model of the NetQASM binary codec
   (netqasm/lang/encoding.py, operand.py, instr/base.py serialize/deserialize_from,
    instr/flavour.py id_map/name_map, parsing/binary.py, subroutine.py __bytes__).
   Parametric in the command layouts and the flavour table, both of which are
   regenerated from /repo on every run (gen/codec_tables.py).  No proofs here. *)
From Coq Require Import ZArith List Bool String.
From NQ Require Import Base.Bits.
Import ListNotations.
Open Scope Z_scope.

(* structural operand kinds (number of leaf fields: 2,1,1,3,5) *)
Inductive kind := KReg | KImm | KAddr | KEntry | KSlice.

Definition kind_eqb (a b : kind) : bool :=
  match a, b with
  | KReg, KReg | KImm, KImm | KAddr, KAddr | KEntry, KEntry | KSlice, KSlice => true
  | _, _ => false
  end.

(* operands: register = (bank, index) *)
Inductive operand :=
| OReg (b i : Z)
| OImm (v : Z)
| OAddr (a : Z)
| OEntry (a b i : Z)
| OSlice (a b1 i1 b2 i2 : Z).

Definition kind_of (o : operand) : kind :=
  match o with
  | OReg _ _ => KReg | OImm _ => KImm | OAddr _ => KAddr
  | OEntry _ _ _ => KEntry | OSlice _ _ _ _ _ => KSlice
  end.

Definition leaves (o : operand) : list Z :=
  match o with
  | OReg b i => [b; i]
  | OImm v => [v]
  | OAddr a => [a]
  | OEntry a b i => [a; b; i]
  | OSlice a b1 i1 b2 i2 => [a; b1; i1; b2; i2]
  end.

Fixpoint group (ks : list kind) (vs : list Z) : option (list operand) :=
  match ks with
  | [] => match vs with [] => Some [] | _ => None end
  | KReg :: ks' =>
      match vs with
      | b :: i :: r => option_map (cons (OReg b i)) (group ks' r)
      | _ => None end
  | KImm :: ks' =>
      match vs with
      | v :: r => option_map (cons (OImm v)) (group ks' r)
      | _ => None end
  | KAddr :: ks' =>
      match vs with
      | a :: r => option_map (cons (OAddr a)) (group ks' r)
      | _ => None end
  | KEntry :: ks' =>
      match vs with
      | a :: b :: i :: r => option_map (cons (OEntry a b i)) (group ks' r)
      | _ => None end
  | KSlice :: ks' =>
      match vs with
      | a :: b1 :: i1 :: b2 :: i2 :: r => option_map (cons (OSlice a b1 i1 b2 i2)) (group ks' r)
      | _ => None end
  end.

(* One instruction class of a flavour.  r_enc / r_dec are the leaf layouts of
   the ctypes struct used by serialize() resp. deserialize_from(): the opcode
   field first, then the operand leaves in operand order. *)
Record row := mkRow {
  r_name : string;      (* python class, module-qualified *)
  r_op : Z;             (* opcode *)
  r_mn : string;        (* mnemonic *)
  r_kinds : list kind;
  r_enc : list field;
  r_dec : list field
}.

Definition CMD_BYTES : nat := 7.
Definition CMD_BITS : Z := 56.

Definition flat (ops : list operand) : list Z := List.concat (map leaves ops).

(* serialize(): ctypes truncates each value into its field *)
Definition encode_row (r : row) (ops : list operand) : list Z :=
  to_bytes CMD_BYTES (pack (r_enc r) (r_op r :: flat ops)).

(* dict semantics of Flavour.__init__: later entries override *)
Fixpoint lookup_id (t : list row) (id : Z) : option row :=
  match t with
  | [] => None
  | r :: t' =>
      match lookup_id t' id with
      | Some r' => Some r'
      | None => if r_op r =? id then Some r else None
      end
  end.

Fixpoint lookup_mn (t : list row) (m : string) : option row :=
  match t with
  | [] => None
  | r :: t' =>
      match lookup_mn t' m with
      | Some r' => Some r'
      | None => if String.eqb (r_mn r) m then Some r else None
      end
  end.

(* Deserializer.deserialize_command: peek the first byte, dispatch on the
   flavour's id_map, from_buffer_copy into the class's struct, assert the id. *)
Definition decode_cmd (t : list row) (bs : list Z) : option (row * list operand) :=
  match bs with
  | [] => None
  | id :: _ =>
      if negb (Nat.eqb (List.length bs) CMD_BYTES) then None else
      match lookup_id t id with
      | None => None
      | Some r =>
          match unpack (r_dec r) (of_bytes bs) with
          | [] => None
          | id' :: vs =>
              if id' =? r_op r then
                match group (r_kinds r) vs with
                | Some ops => Some (r, ops)
                | None => None
                end
              else None
          end
      end
  end.

Fixpoint list_eqb {A} (eqb : A -> A -> bool) (a b : list A) : bool :=
  match a, b with
  | [], [] => true
  | x :: a', y :: b' => eqb x y && list_eqb eqb a' b'
  | _, _ => false
  end.

(* operands have the kinds the class declares (from_operands asserts this) and
   every leaf value is representable in the row's encode layout *)
Definition well_typed (r : row) (ops : list operand) : bool :=
  list_eqb kind_eqb (map kind_of ops) (r_kinds r).

Definition in_range (r : row) (ops : list operand) : bool :=
  well_typed r ops && fits_all (r_enc r) (r_op r :: flat ops).

Definition id_field : field := mkF 0 8 false.

Definition nleaves (k : kind) : nat :=
  match k with KReg => 2 | KImm => 1 | KAddr => 1 | KEntry => 3 | KSlice => 5 end%nat.

Definition row_ok (r : row) : bool :=
  list_eqb field_eqb (r_enc r) (r_dec r)
  && wf_layout CMD_BITS (r_enc r)
  && match r_enc r with f :: _ => field_eqb f id_field | [] => false end
  && Nat.eqb (List.length (r_enc r)) (S (fold_right (fun k n => (nleaves k + n)%nat) O (r_kinds r))).

Fixpoint nodup_z (l : list Z) : bool :=
  match l with
  | [] => true
  | x :: r => negb (existsb (Z.eqb x) r) && nodup_z r
  end.

Fixpoint nodup_s (l : list string) : bool :=
  match l with
  | [] => true
  | x :: r => negb (existsb (String.eqb x) r) && nodup_s r
  end.

(* the flavour table is an injective dictionary in both directions, and every
   class's encoder and decoder use the same well-formed layout *)
Definition wf_table (t : list row) : bool :=
  nodup_z (map r_op t) && nodup_s (map r_mn t) && forallb row_ok t.

(* witnesses for the search when wf_table fails *)
Fixpoint find_dup_op (t : list row) : option (row * row) :=
  match t with
  | [] => None
  | r :: t' =>
      match find (fun r' => r_op r' =? r_op r) t' with
      | Some r' => Some (r, r')
      | None => find_dup_op t'
      end
  end.

Fixpoint find_dup_mn (t : list row) : option (row * row) :=
  match t with
  | [] => None
  | r :: t' =>
      match find (fun r' => String.eqb (r_mn r') (r_mn r)) t' with
      | Some r' => Some (r, r')
      | None => find_dup_mn t'
      end
  end.

Definition bad_rows (t : list row) : list string :=
  map r_name (filter (fun r => negb (row_ok r)) t).

(* ---------- subroutines ---------- *)

(* Metadata struct: leaf layout [version0; version1; app_id] and its size *)
Record header := mkHdr { h_layout : list field; h_bytes : nat }.

Record sub := mkSub { s_v0 : Z; s_v1 : Z; s_app : Z; s_body : list (row * list operand) }.

Definition encode_sub (h : header) (s : sub) : list Z :=
  to_bytes (h_bytes h) (pack (h_layout h) [s_v0 s; s_v1 s; s_app s])
  ++ List.concat (map (fun c => encode_row (fst c) (snd c)) (s_body s)).

Fixpoint decode_cmds (t : list row) (fuel : nat) (bs : list Z)
  : option (list (row * list operand)) :=
  match bs with
  | [] => Some []
  | _ =>
      match fuel with
      | O => None
      | S fuel' =>
          if Nat.ltb (List.length bs) CMD_BYTES then None else
          match decode_cmd t (firstn CMD_BYTES bs) with
          | None => None
          | Some c => option_map (cons c) (decode_cmds t fuel' (skipn CMD_BYTES bs))
          end
      end
  end.

Definition decode_sub (h : header) (t : list row) (bs : list Z) : option sub :=
  if Nat.ltb (List.length bs) (h_bytes h) then None else
  match unpack (h_layout h) (of_bytes (firstn (h_bytes h) bs)) with
  | [v0; v1; app] =>
      match decode_cmds t (List.length bs) (skipn (h_bytes h) bs) with
      | Some body => Some (mkSub v0 v1 app body)
      | None => None
      end
  | _ => None
  end.

Definition header_ok (h : header) : bool :=
  wf_layout (8 * Z.of_nat (h_bytes h)) (h_layout h) && Nat.eqb (List.length (h_layout h)) 3.

Definition sub_in_range (h : header) (s : sub) : bool :=
  fits_all (h_layout h) [s_v0 s; s_v1 s; s_app s]
  && forallb (fun c => in_range (fst c) (snd c)) (s_body s).

(* the model's dictionaries agree with the live id_map / name_map of the flavour *)
Definition idmap_agrees (t : list row) (m : list (Z * string)) : bool :=
  forallb (fun p => match lookup_id t (fst p) with
                    | Some r => String.eqb (r_name r) (snd p) | None => false end) m
  && forallb (fun r => existsb (fun p => fst p =? r_op r) m) t.

Definition namemap_agrees (t : list row) (m : list (string * string)) : bool :=
  forallb (fun p => match lookup_mn t (fst p) with
                    | Some r => String.eqb (r_name r) (snd p) | None => false end) m
  && forallb (fun r => existsb (fun p => String.eqb (fst p) (r_mn r)) m) t.

(* membership as a boolean, by class name (class names are unique per module) *)
Definition row_in (t : list row) (r : row) : bool :=
  existsb (fun r' => String.eqb (r_name r') (r_name r)) t.
