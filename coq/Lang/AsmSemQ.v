(* AsmSemQ.v — the interpreter of AsmSem extended with an ABSTRACT EVENT meaning
   for the non-classical instructions (same style as Exec/SemQ.v):
     - gates / init / rotations / two-qubit gates / controlled rotations, and the
       EPR instructions as opaque actions: every operand value must be defined
       (the executor's `assert q_address is not None`), then an event carrying
       the mnemonic, the immediates and the operand VALUES is emitted; what the
       action does to the quantum state is left to the executor's extension points;
     - meas q c: the outcome comes from a script (a parameter of the state; the
       base executor's _do_meas returns 0 = the empty script), is written to c,
       and an event is emitted;
     - qalloc / qfree keep the set of allocated virtual qubits of a unit module
       of fixed capacity, with the executor's faults, and emit events;
     - ret_reg / ret_arr emit events besides updating the shared memory.
   Source (proto) programs and assembled programs are run by the same function,
   exactly as in AsmSem: a literal in a value position denotes its value.
   AsmSem.v is untouched (Proofs/Bridge_Asm*.v depend on it); on classical
   instructions this interpreter does what AsmSem.exec does.  No proofs here. *)
From Coq Require Import ZArith List Bool String.
From NQ Require Import Lang.Asm Lang.AsmSem.
Import ListNotations.
Open Scope Z_scope.

Inductive aevent :=
| EvGate (mn : string) (imms : list Z) (qs : list Z)
| EvMeas (q o : Z)
| EvAlloc (q : Z)
| EvFree (q : Z)
| EvRetReg (r : reg) (v : Z)
| EvRetArr (a : Z) (l : list (option Z)).

Record qastate := mkQA {
  qa_st : astate;
  qa_um : list bool;          (* unit module: which virtual qubit ids are allocated *)
  qa_script : list Z;         (* measurement outcomes still to be delivered *)
  qa_trace : list aevent      (* newest first *)
}.

(* mnemonic -> (number of value operands, number of immediates) *)
Local Open Scope string_scope.
Definition gate_table : list (string * (nat * nat)) :=
  [("init", (1, 0)); ("x", (1, 0)); ("y", (1, 0)); ("z", (1, 0)); ("h", (1, 0)); ("s", (1, 0));
   ("k", (1, 0)); ("t", (1, 0));
   ("rot_x", (1, 2)); ("rot_y", (1, 2)); ("rot_z", (1, 2));
   ("cnot", (2, 0)); ("cphase", (2, 0)); ("mov", (2, 0));
   ("crot_x", (2, 2)); ("crot_y", (2, 2)); ("crot_z", (2, 2));
   ("create_epr", (5, 0)); ("recv_epr", (4, 0))]%nat.
Definition MEAS : string := "meas".
Definition QALLOC : string := "qalloc".
Definition QFREE : string := "qfree".
Local Close Scope string_scope.

Fixpoint gate_find (t : list (string * (nat * nat))) (mn : string) : option (nat * nat) :=
  match t with
  | [] => None
  | (k, x) :: r => if String.eqb k mn then Some x else gate_find r mn
  end.

Inductive qkind := QKclassical | QKgate (nq ni : nat) | QKmeas | QKalloc | QKfree | QKother.

Definition qkind_of (mn : string) : qkind :=
  match opc_of mn with
  | Xother =>
      if String.eqb mn MEAS then QKmeas
      else if String.eqb mn QALLOC then QKalloc
      else if String.eqb mn QFREE then QKfree
      else match gate_find gate_table mn with
           | Some (nq, ni) => QKgate nq ni
           | None => QKother
           end
  | _ => QKclassical
  end.

Inductive qeres :=
| QENext (s : qastate)
| QEJump (t : aopnd) (s : qastate)
| QEFault
| QEStuck.

(* operands that are all value operands / all literal immediates *)
Fixpoint get_vals (ops : list aopnd) : option (list aval) :=
  match ops with
  | [] => Some []
  | AV v :: r => option_map (cons v) (get_vals r)
  | _ :: _ => None
  end.

Fixpoint get_imms (ops : list aopnd) : option (list Z) :=
  match ops with
  | [] => Some []
  | AV (VLit z) :: r => option_map (cons z) (get_imms r)
  | _ :: _ => None
  end.

(* the values of a list of value operands: None if one of them is undefined (or not a register the executor has) *)
Fixpoint rdv_all (st : astate) (vs : list aval) : option (list Z) :=
  match vs with
  | [] => Some []
  | v :: r => match rdv st v, rdv_all st r with
              | Some z, Some zs => Some (z :: zs)
              | _, _ => None
              end
  end.

(* what a classical instruction makes visible, computed in the state before it *)
Definition events_of (o : aopc) (ops : list aopnd) (st : astate) : list aevent :=
  match o, ops with
  | Xretreg, [AV (VReg b i)] =>
      match rdv st (VReg b i) with Some z => [EvRetReg (b, i) z] | None => [] end
  | Xretarr, [AAddr a] =>
      match zlookup (m_arr (s_mem st)) a with Some l => [EvRetArr a l] | None => [] end
  | _, _ => []
  end.

Definition hd_outcome (script : list Z) : Z := match script with [] => 0 | o :: _ => o end.

Definition with_st (s : qastate) (st : astate) (evs : list aevent) : qastate :=
  mkQA st (qa_um s) (qa_script s) (evs ++ qa_trace s).

Definition exec_q (mn : string) (ops : list aopnd) (s : qastate) : qeres :=
  match qkind_of mn with
  | QKclassical =>
      match exec (opc_of mn) ops (qa_st s) with
      | ENext st' => QENext (with_st s st' (events_of (opc_of mn) ops (qa_st s)))
      | EJump t st' => QEJump t (with_st s st' [])
      | EFault => QEFault
      | EStuck => QEStuck
      end
  | QKgate nq ni =>
      if Nat.eqb (List.length ops) (nq + ni) then
        match get_vals (firstn nq ops), get_imms (skipn nq ops) with
        | Some vs, Some imms =>
            match rdv_all (qa_st s) vs with
            | Some qs => QENext (with_st s (qa_st s) [EvGate mn imms qs])
            | None => QEFault
            end
        | _, _ => QEStuck
        end
      else QEStuck
  | QKmeas =>
      match ops with
      | [AV q; AV (VReg b i)] =>
          match rdv (qa_st s) q with
          | Some qa =>
              let o := hd_outcome (qa_script s) in
              match wr (qa_st s) (VReg b i) o with
              | Some st' => QENext (mkQA st' (qa_um s) (tl (qa_script s)) (EvMeas qa o :: qa_trace s))
              | None => QEFault
              end
          | None => QEFault
          end
      | _ => QEStuck
      end
  | QKalloc =>
      match ops with
      | [AV q] =>
          match rdv (qa_st s) q with
          | Some qa =>
              if qa <? 0 then QEStuck                 (* Python index wrap-around: outside the model *)
              else match nth_error (qa_um s) (Z.to_nat qa) with
                   | None => QEFault                  (* outside the unit module *)
                   | Some true => QEFault             (* already allocated *)
                   | Some false =>
                       QENext (mkQA (qa_st s) (list_upd (qa_um s) (Z.to_nat qa) true) (qa_script s)
                                    (EvAlloc qa :: qa_trace s))
                   end
          | None => QEFault
          end
      | _ => QEStuck
      end
  | QKfree =>
      match ops with
      | [AV q] =>
          match rdv (qa_st s) q with
          | Some qa =>
              if qa <? 0 then QEStuck
              else match nth_error (qa_um s) (Z.to_nat qa) with
                   | None => QEFault
                   | Some false => QEFault            (* not allocated *)
                   | Some true =>
                       QENext (mkQA (qa_st s) (list_upd (qa_um s) (Z.to_nat qa) false) (qa_script s)
                                    (EvFree qa :: qa_trace s))
                   end
          | None => QEFault
          end
      | _ => QEStuck
      end
  | QKother => QEStuck
  end.

(* ---------- programs ---------- *)

Inductive qacfg :=
| QRun (pc : nat) (s : qastate)
| QHalted (s : qastate)
| QFault (line : nat) (s : qastate)
| QStuck (line : nat) (s : qastate).

Definition astep_q (P : list acmd) (pc : nat) (s : qastate) : qacfg :=
  match fetch P pc with
  | None => QHalted s
  | Some (k, mn, ops) =>
      match exec_q mn ops s with
      | QENext s' => QRun (S k) s'
      | QEJump t s' =>
          match target P t with
          | Some j => QRun j s'
          | None => QStuck k s
          end
      | QEFault => QFault k s
      | QEStuck => QStuck k s
      end
  end.

Fixpoint arun_q (P : list acmd) (n : nat) (c : qacfg) : qacfg :=
  match n with
  | O => c
  | S n' => match c with QRun pc s => arun_q P n' (astep_q P pc s) | _ => c end
  end.

(* a fresh application with a unit module of `cap` qubits and a measurement script *)
Definition init_qstate (cap : nat) (script : list Z) : qastate :=
  mkQA init_state (repeat false cap) script [].

(* ---------- shapes the source semantics gives a meaning to ---------- *)

Definition cmd_shape_q (c : acmd) : bool :=
  match c with
  | ALab _ => true
  | AIns mn args ops =>
      let ops := all_ops args ops in
      match qkind_of mn with
      | QKclassical => shape_ok (opc_of mn) ops
      | QKgate nq ni =>
          Nat.eqb (List.length ops) (nq + ni) && forallb is_val (firstn nq ops) && forallb is_litop (skipn nq ops)
      | QKmeas => match ops with [q; c] => is_val q && is_regop c | _ => false end
      | QKalloc | QKfree => match ops with [q] => is_val q | _ => false end
      | QKother => true
      end
  end.

(* well-formed source, now with the non-classical instructions: value operands are
   registers or literals, immediates literals, the measurement target a register *)
Definition wf_src_q (P : list acmd) : bool := forallb cmd_shape_q P.

(* the exemption table keeps the immediates of the gate instructions literal (and set's) *)
Definition qexempt_ok (ex : list (string * nat)) : bool :=
  is_exempt ex SET 1
  && forallb (fun e => forallb (fun j => is_exempt ex (fst e) j) (seq (fst (snd e)) (snd (snd e)))) gate_table.
