(* Text.v — printer and parser of NetQASM assembly text over Coq strings.
   Printer: netqasm/lang/instr/base.py _pretty_print (mnemonic and operands
   separated by one space), netqasm/lang/operand.py __str__ (Rn, 12, @a, @a[Ri],
   @a[Ri:Rj]).  Parser: netqasm/lang/parsing/text.py (_split_preamble_body,
   _parse_preamble, _apply_macros, _create_subroutine, _parse_operands,
   parse_address, parse_register), netqasm/util/string.py (group_by_word,
   is_number, is_variable_name).  Register bank letters and the list of generic
   instruction names are parameters (regenerated from /repo).
   No proofs here. *)
From Coq Require Import ZArith List Bool String Ascii DecimalString.
From NQ Require Import Base.Bits Lang.Codec Lang.Asm.
Import ListNotations.
Open Scope Z_scope.
Infix "+++" := String.append (right associativity, at level 60).

(* ---------- characters ---------- *)

Definition ch (n : nat) : ascii := ascii_of_nat n.
Definition SP : ascii := ch 32.
Definition AT : ascii := ch 64.        (* @ *)
Definition LBR : ascii := ch 91.       (* [ *)
Definition RBR : ascii := ch 93.       (* ] *)
Definition LPAR : ascii := ch 40.      (* ( *)
Definition RPAR : ascii := ch 41.      (* ) *)
Definition LCUR : ascii := ch 123.     (* { *)
Definition RCUR : ascii := ch 125.     (* } *)
Definition COLON : ascii := ch 58.
Definition COMMA : ascii := ch 44.
Definition MINUS : ascii := ch 45.
Definition HASH : ascii := ch 35.
Definition DOLLAR : ascii := ch 36.
Definition SLASH : ascii := ch 47.
Definition USCORE : ascii := ch 95.
Definition DOT : ascii := ch 46.

Definition is_digit (c : ascii) : bool := let n := nat_of_ascii c in (Nat.leb 48 n && Nat.leb n 57)%bool.
Definition is_alpha (c : ascii) : bool :=
  let n := nat_of_ascii c in ((Nat.leb 65 n && Nat.leb n 90) || (Nat.leb 97 n && Nat.leb n 122))%bool.
Definition is_space (c : ascii) : bool :=
  let n := nat_of_ascii c in ((Nat.leb 9 n && Nat.leb n 13) || (Nat.leb 28 n && Nat.leb n 32))%bool.

(* ---------- string utilities (Python str methods) ---------- *)

Fixpoint sall (p : ascii -> bool) (s : string) : bool :=
  match s with EmptyString => true | String c r => p c && sall p r end.

Fixpoint sexists (p : ascii -> bool) (s : string) : bool :=
  match s with EmptyString => false | String c r => p c || sexists p r end.

Fixpoint lstrip (p : ascii -> bool) (s : string) : string :=
  match s with
  | EmptyString => EmptyString
  | String c r => if p c then lstrip p r else s
  end.

Fixpoint rstrip (p : ascii -> bool) (s : string) : string :=
  match s with
  | EmptyString => EmptyString
  | String c r =>
      match rstrip p r with
      | EmptyString => if p c then EmptyString else String c EmptyString
      | r' => String c r'
      end
  end.

Definition strip (p : ascii -> bool) (s : string) : string := rstrip p (lstrip p s).
Definition strip_ws (s : string) : string := strip is_space s.

Definition is_char (a : ascii) (c : ascii) : bool := Ascii.eqb a c.
Definition is_one_of (a b : ascii) (c : ascii) : bool := Ascii.eqb a c || Ascii.eqb b c.

Fixpoint find_char (a : ascii) (s : string) : option nat :=
  match s with
  | EmptyString => None
  | String c r => if Ascii.eqb c a then Some O else option_map S (find_char a r)
  end.

Fixpoint find_str (p s : string) : option nat :=
  if String.prefix p s then Some O else
  match s with
  | EmptyString => None
  | String _ r => option_map S (find_str p r)
  end.

Fixpoint take (n : nat) (s : string) : string :=
  match n, s with
  | S n', String c r => String c (take n' r)
  | _, _ => EmptyString
  end.

Fixpoint drop (n : nat) (s : string) : string :=
  match n, s with
  | S n', String _ r => drop n' r
  | _, _ => s
  end.

(* s.split(c): always at least one piece *)
Fixpoint split_char (a : ascii) (s : string) : list string :=
  match s with
  | EmptyString => [EmptyString]
  | String c r =>
      if Ascii.eqb c a then EmptyString :: split_char a r
      else match split_char a r with
           | w :: ws => String c w :: ws
           | [] => [String c EmptyString]
           end
  end.

Fixpoint last_char (s : string) : option ascii :=
  match s with
  | EmptyString => None
  | String c EmptyString => Some c
  | String _ r => last_char r
  end.

Definition starts_with (a : ascii) (s : string) : bool :=
  match s with String c _ => Ascii.eqb c a | EmptyString => false end.

Definition ends_with (a : ascii) (s : string) : bool :=
  match last_char s with Some c => Ascii.eqb c a | None => false end.

(* s.replace(old, new), old non-empty: non-overlapping, left to right *)
Fixpoint replace_go (old new : string) (s : string) (skip : nat) : string :=
  match s with
  | EmptyString => EmptyString
  | String c r =>
      match skip with
      | S k => replace_go old new r k
      | O =>
          if String.prefix old s then new +++ replace_go old new r (String.length old - 1)
          else String c (replace_go old new r O)
      end
  end.

Definition replace (old new s : string) : string := replace_go old new s O.

(* ---------- numbers, names ---------- *)

(* util.string.is_number: optional leading '-', then at least one digit *)
Definition is_number (s : string) : bool :=
  let t := match s with String c r => if Ascii.eqb c MINUS then r else s | EmptyString => s end in
  match t with EmptyString => false | _ => sall is_digit t end.

(* int(s) guarded by is_number *)
Definition parse_int (s : string) : option Z :=
  if is_number s then option_map Z.of_int (NilZero.int_of_string s) else None.

(* str(int) *)
Definition z2s (z : Z) : string := NilZero.string_of_int (Z.to_int z).

(* util.string.is_variable_name (raises on the empty string: modelled as false,
   every caller turns both into an error) *)
Definition is_name_char (c : ascii) : bool := is_alpha c || is_digit c || Ascii.eqb c USCORE.
Definition is_variable_name (s : string) : bool :=
  match s with
  | EmptyString => false
  | String c _ => is_alpha c && sall is_name_char s
  end.

(* ---------- printer ---------- *)

Definition banks := list (Z * ascii).   (* RegisterName value -> its one-letter name *)

Fixpoint bank_char (bk : banks) (b : Z) : option ascii :=
  match bk with
  | [] => None
  | (v, c) :: r => if v =? b then Some c else bank_char r b
  end.

Fixpoint bank_of_char (bk : banks) (c : ascii) : option Z :=
  match bk with
  | [] => None
  | (v, c') :: r => if Ascii.eqb c' c then Some v else bank_of_char r c
  end.

Definition QMARK : ascii := ch 63.

Definition pp_reg (bk : banks) (b i : Z) : string :=
  String (match bank_char bk b with Some c => c | None => QMARK end) (z2s i).

Definition s1 (c : ascii) : string := String c EmptyString.

Definition pp_operand (bk : banks) (o : operand) : string :=
  match o with
  | OReg b i => pp_reg bk b i
  | OImm v => z2s v
  | OAddr a => String AT (z2s a)
  | OEntry a b i => String AT (z2s a) +++ s1 LBR +++ pp_reg bk b i +++ s1 RBR
  | OSlice a b1 i1 b2 i2 =>
      String AT (z2s a) +++ s1 LBR +++ pp_reg bk b1 i1 +++ s1 COLON +++ pp_reg bk b2 i2 +++ s1 RBR
  end.

Fixpoint pp_operands (bk : banks) (ops : list operand) : string :=
  match ops with
  | [] => EmptyString
  | o :: r => String SP (pp_operand bk o) +++ pp_operands bk r
  end.

Definition pp_instr (bk : banks) (r : row) (ops : list operand) : string :=
  r_mn r +++ pp_operands bk ops.

(* every register of the operands has a bank letter *)
Definition printable_op (bk : banks) (o : operand) : bool :=
  let has b := match bank_char bk b with Some _ => true | None => false end in
  match o with
  | OReg b _ => has b
  | OEntry _ b _ => has b
  | OSlice _ b1 _ b2 _ => has b1 && has b2
  | _ => true
  end.

Definition printable (bk : banks) (ops : list operand) : bool := forallb (printable_op bk) ops.

(* ---------- group_by_word ---------- *)

(* one round of the loop; fuel = length of the line *)
Fixpoint gbw_loop (fuel : nat) (open close : ascii) (line : string) : option (list string) :=
  match line with
  | EmptyString => Some []
  | _ =>
      match fuel with
      | O => None
      | S fuel' =>
          let first_sep := find_char SP line in
          let first_open := find_char open line in
          let bracketed :=
            match first_open, first_sep with
            | Some b, Some s => Nat.ltb b s
            | Some _, None => false      (* -1 < b never holds *)
            | None, _ => false
            end in
          let end_string := if bracketed then String close (s1 SP) else s1 SP in
          match find_str end_string line with
          | None => None
          | Some e =>
              let n := String.length end_string in
              match gbw_loop fuel' open close (drop (e + n) line) with
              | Some ws => Some (take (e + n - 1) line :: ws)
              | None => None
              end
          end
      end
  end.

Definition group_by_word (open close : ascii) (line : string) : option (list string) :=
  let l := strip_ws line +++ s1 SP in
  gbw_loop (String.length l) open close l.

(* _split_of_bracket *)
Definition split_of_bracket (open close : ascii) (w : string) : option (string * string) :=
  match find_char open w with
  | None => Some (w, EmptyString)
  | Some k => if ends_with close w then Some (take k w, drop k w) else None
  end.

(* ---------- operands ---------- *)

Definition parse_register (bk : banks) (s : string) : option aval :=
  match s with
  | EmptyString => None
  | String c r =>
      match bank_of_char bk c with
      | Some b => option_map (VReg b) (parse_int r)
      | None => None
      end
  end.

(* _parse_value without labels: constant, then register *)
Definition parse_val (bk : banks) (s : string) : option aval :=
  match parse_int s with
  | Some z => Some (VLit z)
  | None => parse_register bk s
  end.

(* parse_address *)
Definition parse_address (bk : banks) (w : string) : option aopnd :=
  match split_of_bracket LBR RBR w with
  | None => None
  | Some (base, content) =>
      match parse_val bk (lstrip (is_char AT) base) with
      | Some (VLit a) =>
          match content with
          | EmptyString => Some (AAddr a)
          | _ =>
              let idx := strip_ws (strip (is_one_of LBR RBR) content) in
              if sexists (is_char COLON) idx then
                match split_char COLON idx with
                | [x; y] =>
                    match parse_val bk (strip_ws x), parse_val bk (strip_ws y) with
                    | Some v1, Some v2 => Some (ASlice a v1 v2)
                    | _, _ => None
                    end
                | _ => None
                end
              else option_map (AEntry a) (parse_val bk idx)
          end
      | _ => None
      end
  end.

(* _parse_operand: address, constant, register, label (templates are outside the model) *)
Definition parse_operand (bk : banks) (w : string) : option aopnd :=
  if starts_with AT w then parse_address bk w
  else match parse_val bk w with
       | Some v => Some (AV v)
       | None => if is_variable_name w then Some (ALabel w) else None
       end.

Fixpoint opt_all {A} (l : list (option A)) : option (list A) :=
  match l with
  | [] => Some []
  | Some x :: r => option_map (cons x) (opt_all r)
  | None :: _ => None
  end.

(* ---------- one body line ---------- *)

Definition parse_args (args : string) : option (list Z) :=
  match args with
  | EmptyString => Some []
  | _ => opt_all (map (fun a => parse_int (strip_ws a))
                      (split_char COMMA (strip (is_one_of LPAR RPAR) args)))
  end.

Definition parse_cmd (bk : banks) (ginstrs : list string) (line : string) : option acmd :=
  if ends_with COLON line then
    let l := rstrip (is_char COLON) line in
    if is_variable_name l then Some (ALab l) else None
  else
    match group_by_word LPAR RPAR line with
    | Some (w0 :: ws) =>
        match split_of_bracket LPAR RPAR w0 with
        | Some (name, args) =>
            if existsb (String.eqb name) ginstrs then
              match parse_args args, opt_all (map (fun w => parse_operand bk (strip_ws w)) ws) with
              | Some a, Some ops => Some (AIns name a ops)
              | _, _ => None
              end
            else None
        | None => None
        end
    | _ => None
    end.

(* ---------- whole text: preamble, macros, body ---------- *)

Definition remove_comment (l : string) : string :=
  match find_str (String SLASH (s1 SLASH)) l with Some k => take k l | None => l end.

(* _split_preamble_body on text.split("\n") *)
Fixpoint split_preamble (lines : list string) (in_pre : bool) : option (list string * list string) :=
  match lines with
  | [] => Some ([], [])
  | raw :: r =>
      let l := remove_comment (strip_ws raw) in
      match l with
      | EmptyString => split_preamble r in_pre
      | _ =>
          if starts_with HASH l then
            if in_pre then
              match split_preamble r true with
              | Some (p, b) => Some (strip_ws (lstrip (is_char HASH) l) :: p, b)
              | None => None
              end
            else None
          else
            match split_preamble r false with
            | Some (p, b) => Some (p, l :: b)
            | None => None
            end
      end
  end.

Local Open Scope string_scope.
Definition P_NETQASM : string := "NETQASM".
Definition P_APPID : string := "APPID".
Definition P_DEFINE : string := "DEFINE".
Local Close Scope string_scope.

Record preamble := mkPre { p_netqasm : list (list string); p_appid : list (list string); p_define : list (list string) }.

Fixpoint parse_preamble (lines : list string) : option preamble :=
  match lines with
  | [] => Some (mkPre [] [] [])
  | l :: r =>
      match group_by_word LCUR RCUR l, parse_preamble r with
      | Some (i :: ops), Some p =>
          if String.eqb i P_NETQASM then Some (mkPre (ops :: p_netqasm p) (p_appid p) (p_define p))
          else if String.eqb i P_APPID then Some (mkPre (p_netqasm p) (ops :: p_appid p) (p_define p))
          else if String.eqb i P_DEFINE then Some (mkPre (p_netqasm p) (p_appid p) (ops :: p_define p))
          else None
      | _, _ => None
      end
  end.

Definition single_arg (l : list (list string)) : option (option string) :=
  match l with
  | [] => Some None
  | [[x]] => Some (Some x)
  | _ => None
  end.

Definition version_ok (s : string) : bool :=
  match split_char DOT (strip_ws s) with
  | [a; b] => match parse_int a, parse_int b with Some _, Some _ => true | _, _ => false end
  | _ => false
  end.

Fixpoint defines (l : list (list string)) : option (list (string * string)) :=
  match l with
  | [] => Some []
  | [k; v] :: r =>
      if is_variable_name k then option_map (cons (k, v)) (defines r) else None
  | _ :: _ => None
  end.

Fixpoint nodup_str (l : list string) : bool :=
  match l with
  | [] => true
  | x :: r => negb (existsb (String.eqb x) r) && nodup_str r
  end.

(* sorted(macros, key=len(key), reverse=True): stable *)
Fixpoint ins_desc (x : string * string) (l : list (string * string)) : list (string * string) :=
  match l with
  | [] => [x]
  | y :: r => if Nat.leb (String.length (fst y)) (String.length (fst x)) then x :: l else y :: ins_desc x r
  end.

Definition sort_desc (l : list (string * string)) : list (string * string) := fold_right ins_desc [] l.

Definition apply_macros (ms : list (string * string)) (line : string) : string :=
  fold_left (fun l m => replace (String DOLLAR (fst m)) (strip (is_one_of LCUR RCUR) (snd m)) l)
            (sort_desc ms) line.

(* parse_text_protosubroutine on the lines of the text: the command list *)
Definition parse_text (bk : banks) (ginstrs : list string) (lines : list string) : option (list acmd) :=
  match split_preamble lines true with
  | None => None
  | Some (pre, body) =>
      match parse_preamble pre with
      | None => None
      | Some p =>
          match single_arg (p_netqasm p), single_arg (p_appid p), defines (p_define p) with
          | Some v, Some a, Some ms =>
              if nodup_str (map fst ms)
                 && match v with Some s => version_ok s | None => true end
                 && match a with Some s => match parse_int s with Some _ => true | None => false end | None => true end
              then opt_all (map (fun l => parse_cmd bk ginstrs (apply_macros ms l)) body)
              else None
          | _, _, _ => None
          end
      end
  end.

(* ---------- C17: one printed instruction through the whole text pipeline ---------- *)

(* parse_text_subroutine(str(instr), flavour).instructions == [instr] *)
Definition parse_line (pr : aparams) (bk : banks) (ginstrs : list string) (t : list row) (s : string)
  : option (row * list operand) :=
  match parse_cmd bk ginstrs s with
  | Some c =>
      match assemble pr t [c] with
      | AOk [x] => Some x
      | _ => None
      end
  | None => None
  end.

(* ---------- C17 corollary: a whole subroutine through text -> binary -> text ---------- *)

Definition pp_body (bk : banks) (body : list (row * list operand)) : list string :=
  map (fun c => pp_instr bk (fst c) (snd c)) body.

Definition text_binary_text (pr : aparams) (bk : banks) (gi : list string) (h : header) (t : list row)
    (v0 v1 app : Z) (lines : list string) : option (list string) :=
  match opt_all (map (parse_line pr bk gi t) lines) with
  | None => None
  | Some body =>
      match decode_sub h t (encode_sub h (mkSub v0 v1 app body)) with
      | None => None
      | Some s' => Some (pp_body bk (s_body s'))
      end
  end.
