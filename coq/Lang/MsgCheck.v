(* MsgCheck.v — executable comparison of the message model with results recorded
   from the implementation (correspondence check for C15). *)
From Coq Require Import ZArith List Bool String.
From NQ Require Import Base.Bits Lang.Codec Lang.CodecCheck Lang.MsgCodec.
Import ListNotations.
Open Scope Z_scope.

Inductive pmsg :=
| PFixed (name : string) (vals : list Z)
| PSub (body : list Z)
| PArr (addr : Z) (vals : list (option Z)).

Fixpoint find_class (t : list mclass) (nm : string) : option mclass :=
  match t with
  | [] => None
  | c :: t' => if String.eqb (mc_name c) nm then Some c else find_class t' nm
  end.

Definition find_kind (t : list mclass) (k : mclass -> bool) : option mclass := find k t.

Definition to_msg (t : list mclass) (p : pmsg) : option msg :=
  match p with
  | PFixed nm vals =>
      match find_class t nm with Some (MFixed r) => Some (Fixed r vals) | _ => None end
  | PSub body =>
      match find (fun c => match c with MSub _ _ => true | _ => false end) t with
      | Some (MSub n ty) => Some (SubMsg n ty body) | _ => None end
  | PArr addr vals =>
      match find (fun c => match c with MArr _ _ => true | _ => false end) t with
      | Some (MArr n ty) => Some (ArrMsg n ty addr vals) | _ => None end
  end.

Definition view (m : msg) : pmsg :=
  match m with
  | Fixed r vals => PFixed (m_name r) vals
  | SubMsg _ _ body => PSub body
  | ArrMsg _ _ addr vals => PArr addr vals
  end.

Definition pmsg_eqb (a b : pmsg) : bool :=
  match a, b with
  | PFixed n v, PFixed n' v' => String.eqb n n' && list_eqb Z.eqb v v'
  | PSub x, PSub y => list_eqb Z.eqb x y
  | PArr a v, PArr a' v' => (a =? a') && list_eqb (opt_eqb Z.eqb) v v'
  | _, _ => false
  end.

(* encode case: message, bytes(m) of the implementation, deserialize(bytes(m)) *)
Record mcase := mkMC { mc_p : pmsg; mc_bytes : list Z; mc_dec : option pmsg }.

Definition check_mcase (af : arrfmt) (t : list mclass) (c : mcase) : bool :=
  match to_msg t (mc_p c) with
  | None => false
  | Some m =>
      list_eqb Z.eqb (encode_msg af m) (mc_bytes c)
      && opt_eqb pmsg_eqb (option_map view (decode_msg af t (mc_bytes c))) (mc_dec c)
  end.

(* decode-only case: arbitrary bytes *)
Record mdcase := mkMD { md_bytes : list Z; md_dec : option pmsg }.

Definition check_mdcase (af : arrfmt) (t : list mclass) (c : mdcase) : bool :=
  opt_eqb pmsg_eqb (option_map view (decode_msg af t (md_bytes c))) (md_dec c).
