(* RefSpec.v — FROZEN reference for the NetQASM wire format (property C02).
   Written independently of the implementation's structs: operands are laid out
   one after another behind the opcode byte; a register is one byte (bank in bits
   0-1, index in bits 2-5), an 8-bit immediate is one unsigned byte, a 32-bit
   integer or array address is four bytes (little-endian, two's complement),
   the rest of the 7 bytes is zero.  The instruction table is this repository's
   table (vanilla `mov` = 42 after the opcode-clash repair, see DESIGN.md C01). *)
From Coq Require Import ZArith List Bool String.
From NQ Require Import Base.Bits Lang.Codec.
Import ListNotations.
Open Scope Z_scope.
Open Scope string_scope.

Inductive rkind := RReg | RImm8 | RInt32 | RAddr | REntry | RSlice.

Definition rkind_eqb (a b : rkind) : bool :=
  match a, b with
  | RReg, RReg | RImm8, RImm8 | RInt32, RInt32 | RAddr, RAddr
  | REntry, REntry | RSlice, RSlice => true
  | _, _ => false
  end.

Definition reg_fields (p : Z) : list field := [mkF p 2 false; mkF (p + 2) 4 false].

(* fields of one operand starting at bit p, and the bit where the next operand starts *)
Definition rk_fields (p : Z) (k : rkind) : list field * Z :=
  match k with
  | RReg => (reg_fields p, p + 8)
  | RImm8 => ([mkF p 8 false], p + 8)
  | RInt32 | RAddr => ([mkF p 32 true], p + 32)
  | REntry => (mkF p 32 true :: reg_fields (p + 32), p + 40)
  | RSlice => (mkF p 32 true :: reg_fields (p + 32) ++ reg_fields (p + 40), p + 48)
  end.

Fixpoint ref_layout_from (p : Z) (ks : list rkind) : list field :=
  match ks with
  | [] => []
  | k :: ks' => fst (rk_fields p k) ++ ref_layout_from (snd (rk_fields p k)) ks'
  end.

Definition ref_layout (ks : list rkind) : list field := mkF 0 8 false :: ref_layout_from 8 ks.

Definition struct_kind (k : rkind) : kind :=
  match k with
  | RReg => KReg | RImm8 | RInt32 => KImm | RAddr => KAddr | REntry => KEntry | RSlice => KSlice
  end.

Record rrow := mkRR { rr_op : Z; rr_mn : string; rr_kinds : list rkind }.

(* header: two version bytes, then the app id as unsigned 16-bit little-endian *)
Definition ref_header : header := mkHdr [mkF 0 8 false; mkF 8 8 false; mkF 16 16 false] 4%nat.

Definition ref_core : list rrow := [
  mkRR 1 "qalloc" [RReg];
  mkRR 2 "init" [RReg];
  mkRR 3 "array" [RReg; RAddr];
  mkRR 4 "set" [RReg; RInt32];
  mkRR 5 "store" [RReg; REntry];
  mkRR 6 "load" [RReg; REntry];
  mkRR 7 "undef" [REntry];
  mkRR 8 "lea" [RReg; RAddr];
  mkRR 9 "jmp" [RInt32];
  mkRR 10 "bez" [RReg; RInt32];
  mkRR 11 "bnz" [RReg; RInt32];
  mkRR 12 "beq" [RReg; RReg; RInt32];
  mkRR 13 "bne" [RReg; RReg; RInt32];
  mkRR 14 "blt" [RReg; RReg; RInt32];
  mkRR 15 "bge" [RReg; RReg; RInt32];
  mkRR 16 "add" [RReg; RReg; RReg];
  mkRR 17 "sub" [RReg; RReg; RReg];
  mkRR 18 "addm" [RReg; RReg; RReg; RReg];
  mkRR 19 "subm" [RReg; RReg; RReg; RReg];
  mkRR 32 "meas" [RReg; RReg];
  mkRR 41 "meas_basis" [RReg; RReg; RImm8; RImm8; RImm8; RImm8];
  mkRR 33 "create_epr" [RReg; RReg; RReg; RReg; RReg];
  mkRR 34 "recv_epr" [RReg; RReg; RReg; RReg];
  mkRR 35 "wait_all" [RSlice];
  mkRR 36 "wait_any" [RSlice];
  mkRR 37 "wait_single" [REntry];
  mkRR 38 "qfree" [RReg];
  mkRR 39 "ret_reg" [RReg];
  mkRR 40 "ret_arr" [RAddr];
  mkRR 100 "breakpoint" [RImm8; RImm8]
].

Definition ref_vanilla : list rrow := ref_core ++ [
  mkRR 20 "x" [RReg];
  mkRR 21 "y" [RReg];
  mkRR 22 "z" [RReg];
  mkRR 23 "h" [RReg];
  mkRR 24 "s" [RReg];
  mkRR 25 "k" [RReg];
  mkRR 26 "t" [RReg];
  mkRR 27 "rot_x" [RReg; RImm8; RImm8];
  mkRR 28 "rot_y" [RReg; RImm8; RImm8];
  mkRR 29 "rot_z" [RReg; RImm8; RImm8];
  mkRR 30 "cnot" [RReg; RReg];
  mkRR 31 "cphase" [RReg; RReg];
  mkRR 42 "mov" [RReg; RReg]
].

Definition ref_nv : list rrow := ref_core ++ [
  mkRR 27 "rot_x" [RReg; RImm8; RImm8];
  mkRR 28 "rot_y" [RReg; RImm8; RImm8];
  mkRR 29 "rot_z" [RReg; RImm8; RImm8];
  mkRR 30 "crot_x" [RReg; RReg; RImm8; RImm8];
  mkRR 31 "crot_y" [RReg; RReg; RImm8; RImm8]
].

Definition ref_reids : list rrow := ref_core.

(* ---- comparison of a regenerated row with the reference ---- *)

(* recover the reference kinds of a regenerated row from its struct widths *)
Fixpoint infer_rkinds (ks : list kind) (fs : list field) : option (list rkind) :=
  match ks with
  | [] => Some []
  | k :: ks' =>
      let n := nleaves k in
      let rest := infer_rkinds ks' (skipn n fs) in
      match k, fs with
      | KReg, _ => option_map (cons RReg) rest
      | KAddr, _ => option_map (cons RAddr) rest
      | KEntry, _ => option_map (cons REntry) rest
      | KSlice, _ => option_map (cons RSlice) rest
      | KImm, f :: _ =>
          if (f_width f =? 8)%Z then option_map (cons RImm8) rest
          else if (f_width f =? 32)%Z then option_map (cons RInt32) rest
          else None
      | KImm, [] => None
      end
  end.

Definition row_rkinds (r : row) : option (list rkind) := infer_rkinds (r_kinds r) (tl (r_enc r)).

(* the row's encoder and decoder both use exactly the reference layout *)
Definition row_follows_format (r : row) : bool :=
  match row_rkinds r with
  | Some ks =>
      list_eqb field_eqb (r_enc r) (ref_layout ks) && list_eqb field_eqb (r_dec r) (ref_layout ks)
      && list_eqb kind_eqb (map struct_kind ks) (r_kinds r)
  | None => false
  end.

(* a reference row is implemented (effective in the flavour's dictionaries) with
   the same opcode, mnemonic and operand kinds in the same order *)
Definition ref_row_present (t : list row) (rr : rrow) : bool :=
  match lookup_id t (rr_op rr), lookup_mn t (rr_mn rr) with
  | Some r, Some r' =>
      String.eqb (r_name r) (r_name r') && (r_op r =? rr_op rr)%Z && String.eqb (r_mn r) (rr_mn rr)
      && match row_rkinds r with Some ks => list_eqb rkind_eqb ks (rr_kinds rr) | None => false end
  | _, _ => false
  end.

Definition header_eqb (a b : header) : bool :=
  list_eqb field_eqb (h_layout a) (h_layout b) && Nat.eqb (h_bytes a) (h_bytes b).

Definition conforms (t : list row) (ref : list rrow) : bool :=
  forallb row_follows_format t && forallb (ref_row_present t) ref.

(* witnesses for the search *)
Definition nonconforming_rows (t : list row) : list string :=
  map r_name (filter (fun r => negb (row_follows_format r)) t).
Definition missing_ref_rows (t : list row) (ref : list rrow) : list string :=
  map rr_mn (filter (fun rr => negb (ref_row_present t rr)) ref).

(* reference encoder for one instruction, by its reference kinds *)
Definition ref_encode (op : Z) (ks : list rkind) (ops : list operand) : list Z :=
  to_bytes CMD_BYTES (pack (ref_layout ks) (op :: flat ops)).

(* ---- independent per-byte reference (the property text read literally) ---- *)
Definition le4 (v : Z) : list Z :=
  let u := v mod 2 ^ 32 in
  [u mod 256; (u / 256) mod 256; (u / 65536) mod 256; (u / 16777216) mod 256].

Definition regb (b i : Z) : Z := b + 4 * i.

Definition op_bytes (k : rkind) (o : operand) : option (list Z) :=
  match k, o with
  | RReg, OReg b i => Some [regb b i]
  | RImm8, OImm v => Some [v]
  | RInt32, OImm v => Some (le4 v)
  | RAddr, OAddr a => Some (le4 a)
  | REntry, OEntry a b i => Some ((le4 a ++ [regb b i])%list)
  | RSlice, OSlice a b1 i1 b2 i2 => Some ((le4 a ++ [regb b1 i1; regb b2 i2])%list)
  | _, _ => None
  end.

Fixpoint ops_bytes (ks : list rkind) (ops : list operand) : option (list Z) :=
  match ks, ops with
  | [], [] => Some []
  | k :: ks', o :: ops' =>
      match op_bytes k o, ops_bytes ks' ops' with
      | Some a, Some b => Some (a ++ b)%list
      | _, _ => None
      end
  | _, _ => None
  end.

(* opcode, operand bytes in order, zero padding up to 7 bytes *)
Definition ref_bytes (op : Z) (ks : list rkind) (ops : list operand) : option (list Z) :=
  match ops_bytes ks ops with
  | Some body =>
      if Nat.leb (S (List.length body)) CMD_BYTES
      then Some (op :: body ++ repeat 0 (CMD_BYTES - S (List.length body)))%list
      else None
  | None => None
  end.
