(* CodecCheck.v — executable comparison of the codec model with results
   recorded from the implementation (correspondence check, H-tie). *)
From Coq Require Import ZArith List Bool String.
From NQ Require Import Base.Bits Lang.Codec.
Import ListNotations.
Open Scope Z_scope.

Definition pinstr := (string * list Z)%type.     (* class name, operand leaves *)

Fixpoint find_row (t : list row) (nm : string) : option row :=
  match t with
  | [] => None
  | r :: t' => if String.eqb (r_name r) nm then Some r else find_row t' nm
  end.

Fixpoint mk_body (t : list row) (l : list pinstr) : option (list (row * list operand)) :=
  match l with
  | [] => Some []
  | (nm, vs) :: l' =>
      match find_row t nm, mk_body t l' with
      | Some r, Some b =>
          match group (r_kinds r) vs with
          | Some ops => Some ((r, ops) :: b)
          | None => None
          end
      | _, _ => None
      end
  end.

(* model of bytes(Subroutine) with the range checks of the encoder:
   None = the implementation raises *)
Definition encode_checked (h : header) (s : sub) : option (list Z) :=
  if sub_in_range h s then Some (encode_sub h s) else None.

Definition unbody (b : list (row * list operand)) : list pinstr :=
  map (fun c => (r_name (fst c), flat (snd c))) b.

Definition pinstr_eqb (a b : pinstr) : bool :=
  String.eqb (fst a) (fst b) && list_eqb Z.eqb (snd a) (snd b).

Definition opt_eqb {A} (eqb : A -> A -> bool) (a b : option A) : bool :=
  match a, b with
  | None, None => true
  | Some x, Some y => eqb x y
  | _, _ => false
  end.

(* an encode case: metadata, instructions, what bytes(Subroutine) produced
   (None = raised), what deserialize(bytes) produced (None = raised / not run) *)
Record ecase := mkE {
  e_v0 : Z; e_v1 : Z; e_app : Z; e_body : list pinstr;
  e_bytes : option (list Z);
  e_dec : option (Z * Z * Z * list pinstr)
}.

Definition dec_view (s : sub) : Z * Z * Z * list pinstr :=
  (s_v0 s, s_v1 s, s_app s, unbody (s_body s)).

Definition view_eqb (a b : Z * Z * Z * list pinstr) : bool :=
  match a, b with
  | (a0, a1, a2, al), (b0, b1, b2, bl) =>
      (a0 =? b0) && (a1 =? b1) && (a2 =? b2) && list_eqb pinstr_eqb al bl
  end.

Definition check_ecase (h : header) (t : list row) (c : ecase) : bool :=
  match mk_body t (e_body c) with
  | None => false
  | Some b =>
      let s := mkSub (e_v0 c) (e_v1 c) (e_app c) b in
      opt_eqb (list_eqb Z.eqb) (encode_checked h s) (e_bytes c)
      && match e_bytes c with
         | None => true
         | Some bs => opt_eqb view_eqb (option_map dec_view (decode_sub h t bs)) (e_dec c)
         end
  end.

(* a decode-only case: arbitrary bytes *)
Record dcase := mkD { d_bytes : list Z; d_dec : option (Z * Z * Z * list pinstr) }.

Definition check_dcase (h : header) (t : list row) (c : dcase) : bool :=
  opt_eqb view_eqb (option_map dec_view (decode_sub h t (d_bytes c))) (d_dec c).

Fixpoint failing_from {A} (chk : A -> bool) (i : Z) (l : list A) : list Z :=
  match l with
  | [] => []
  | x :: r => if chk x then failing_from chk (i + 1) r else i :: failing_from chk (i + 1) r
  end.

Definition failing {A} (chk : A -> bool) (l : list A) : list Z := failing_from chk 0 l.
