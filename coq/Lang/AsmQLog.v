(* AsmQLog.v — an instrumented view of AsmSemQ runs: the list of executed
   instructions with the VALUES their operands had when they were executed.
   Used to export the assembler simulation at instruction level (every executed
   instruction of the assembled program is an inserted `set` or the image of the
   executed source instruction with equal operand values).  No proofs here. *)
From Coq Require Import ZArith List Bool String.
From NQ Require Import Lang.Asm Lang.AsmSem Lang.AsmSemQ.
Import ListNotations.
Open Scope Z_scope.

(* an operand as the instruction sees it: value operands by what they read
   (None = the access raises, Some None = the register holds no value) *)
Inductive oval :=
| OVal (x : option (option Z))
| OLab (l : string)
| OAdr (a : Z)
| OEnt (a : Z) (x : option (option Z))
| OSli (a : Z) (x y : option (option Z)).

Definition eval_opnd (st : astate) (o : aopnd) : oval :=
  match o with
  | AV v => OVal (rd st v)
  | ALabel l => OLab l
  | AAddr a => OAdr a
  | AEntry a v => OEnt a (rd st v)
  | ASlice a v w => OSli a (rd st v) (rd st w)
  end.

(* line, mnemonic, operand values in the state before the instruction *)
Definition xentry := (nat * string * list oval)%type.

Definition fetch_entry (P : list acmd) (pc : nat) (s : qastate) : option xentry :=
  match fetch P pc with
  | Some (k, mn, ops) => Some (k, mn, map (eval_opnd (qa_st s)) ops)
  | None => None
  end.

(* the instructions fetched during the first n steps (the last one may be the one that faults) *)
Fixpoint alog_q (P : list acmd) (n : nat) (c : qacfg) : list xentry :=
  match n with
  | O => []
  | S n' =>
      match c with
      | QRun pc s =>
          match fetch_entry P pc s with
          | Some e => e :: alog_q P n' (astep_q P pc s)
          | None => []
          end
      | _ => []
      end
  end.

(* operand values of the assembled instruction vs the source instruction: equal,
   except that a label has become the line number of its position *)
Definition oval_rel (pr : aparams) (P : list acmd) (a b : oval) : Prop :=
  a = b \/
  exists l, a = OLab l /\
            match label_pos P l with
            | Some j => b = OVal (Some (Some (Z.of_nat (pcmap pr P j))))
            | None => b = OLab l
            end.

Definition is_set_entry (e : xentry) : Prop := snd (fst e) = SET.

Definition src_line (pr : aparams) (P : list acmd) (k : nat) : nat :=
  (pcmap pr P k + match nth_error P k with Some c => nsets pr (named P) c | None => O end)%nat.

(* the log of the assembled program is the log of the source with, in front of
   every entry, the inserted sets of that instruction *)
Inductive log_rel (pr : aparams) (P : list acmd) : list xentry -> list xentry -> Prop :=
| LR_nil : log_rel pr P [] []
| LR_step k mn vs vs' sets ls lt :
    Forall is_set_entry sets ->
    Forall2 (oval_rel pr P) vs vs' ->
    log_rel pr P ls lt ->
    log_rel pr P ((k, mn, vs) :: ls) (sets ++ (src_line pr P k, mn, vs') :: lt)%list.
