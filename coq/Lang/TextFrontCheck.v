(* TextFrontCheck.v — executable comparison of the text front end model
   (Text.parse_text, TextFront.print_proto) with results recorded from the
   implementation (parse_text_protosubroutine), C03 H-tie at character level. *)
From Coq Require Import ZArith List Bool String Ascii.
From NQ Require Import Base.Bits Lang.Codec Lang.CodecCheck Lang.Asm Lang.Text Lang.TextFront Lang.AsmCheck.
Import ListNotations.
Open Scope Z_scope.

Definition aval_eqb (a b : aval) : bool :=
  match a, b with
  | VLit x, VLit y => x =? y
  | VReg b1 i1, VReg b2 i2 => (b1 =? b2) && (i1 =? i2)
  | _, _ => false
  end.

Definition aopnd_eqb (a b : aopnd) : bool :=
  match a, b with
  | AV x, AV y => aval_eqb x y
  | ALabel x, ALabel y => String.eqb x y
  | AAddr x, AAddr y => x =? y
  | AEntry a1 v1, AEntry a2 v2 => (a1 =? a2) && aval_eqb v1 v2
  | ASlice a1 v1 w1, ASlice a2 v2 w2 => (a1 =? a2) && aval_eqb v1 v2 && aval_eqb w1 w2
  | _, _ => false
  end.

Definition acmd_eqb (a b : acmd) : bool :=
  match a, b with
  | ALab x, ALab y => String.eqb x y
  | AIns m1 a1 o1, AIns m2 a2 o2 => String.eqb m1 m2 && list_eqb Z.eqb a1 a2 && list_eqb aopnd_eqb o1 o2
  | _, _ => false
  end.

(* a text and what parse_text_protosubroutine made of it (None = it raised) *)
Record fcase := mkFC { f_lines : list string; f_proto : option (list acmd) }.

Definition check_fcase (bk : banks) (gi : list string) (c : fcase) : Z :=
  if opt_eqb (list_eqb acmd_eqb) (parse_text bk gi (f_lines c)) (f_proto c) then 0 else 1.

(* a proto-program, its canonical text as rendered by the harness, and what the
   real front end read from that text: +1 the model printer differs from the
   harness rendering, +2 the program has a text (wf_proto) but the real parser
   did not read it back, +4 the model parser did not read it back; 8 = the program has no canonical text
   (not wf_proto), nothing compared *)
Record kcase := mkKC { k_prog : list acmd; k_lines : list string; k_back : option (list acmd) }.

Definition check_kcase (bk : banks) (gi : list string) (c : kcase) : Z :=
  if wf_proto bk gi (k_prog c) then
    (if list_eqb String.eqb (print_proto bk (k_prog c)) (k_lines c) then 0 else 1)
    + (if opt_eqb (list_eqb acmd_eqb) (k_back c) (Some (k_prog c)) then 0 else 2)
    + (if opt_eqb (list_eqb acmd_eqb) (parse_text bk gi (k_lines c)) (Some (k_prog c)) then 0 else 4)
  else 8.
