(* AsmCheck.v — executable comparison of the assembler / text / semantics models
   with results recorded from the implementation (H-tie of C03 and C17). *)
From Coq Require Import ZArith List Bool String Ascii.
From NQ Require Import Base.Bits Lang.Codec Lang.CodecCheck Lang.Asm Lang.AsmSem Lang.Text.
Import ListNotations.
Open Scope Z_scope.

(* what the implementation did with a program: instruction list or an error class
   0 = parse error (text only), 1 = no scratch register, 2 = repeated label, 3 = build *)
Inductive outcome := Instrs (l : list pinstr) | Failed (e : Z).

Definition err_code (e : aerr) : Z :=
  match e with ENoScratch => 1 | EDupLabel => 2 | EBuild => 3 end.

Definition model_outcome (pr : aparams) (t : list row) (rsv : list reg) (P : option (list acmd)) : outcome :=
  match P with
  | None => Failed 0
  | Some P =>
      match assemble_res pr t rsv P with
      | AOk B => Instrs (unbody B)
      | AErr e => Failed (err_code e)
      end
  end.

Definition outcome_eqb (a b : outcome) : bool :=
  match a, b with
  | Instrs x, Instrs y => list_eqb pinstr_eqb x y
  | Failed x, Failed y => x =? y
  | _, _ => false
  end.

(* ---------- observations of an execution ---------- *)

(* kind: 0 halted, 1 fault at line, 2 still running after the step bound (line = pc),
   3 blocked in a wait instruction at line *)
Record obs := mkObs {
  o_kind : Z; o_line : Z;
  o_regs : list (reg * Z);                       (* defined registers, bank-major order *)
  o_arr : list (Z * list (option Z));
  o_shreg : list (reg * Z);
  o_sharr : list (Z * list (option Z));
  o_alias : list Z                               (* shared arrays that ARE the application's list object *)
}.

Definition all_regs : list reg :=
  flat_map (fun b => map (fun i => (Z.of_nat b, Z.of_nat i)) (seq 0 16)) (seq 0 4).

Definition regs_view (keep : reg -> bool) (f : reg -> option Z) : list (reg * Z) :=
  flat_map (fun r => if keep r then match f r with Some z => [(r, z)] | None => [] end else []) all_regs.

Definition oz_eqb (a b : option Z) : bool := opt_eqb Z.eqb a b.

Definition arr_eqb (a b : list (option Z)) : bool := list_eqb oz_eqb a b.

(* same finite map (keys unique on both sides) *)
Definition zmap_eqb {A} (eqb : A -> A -> bool) (m : list (Z * A)) (rec : list (Z * A)) : bool :=
  Nat.eqb (List.length m) (List.length rec)
  && forallb (fun p => match zlookup m (fst p) with Some x => eqb x (snd p) | None => false end) rec.

Definition regval_eqb (a b : reg * Z) : bool := reg_eqb (fst a) (fst b) && (snd a =? snd b).

Fixpoint rlookup (l : list (reg * Z)) (k : reg) : option Z :=
  match l with
  | [] => None
  | (k', x) :: r => if reg_eqb k' k then Some x else rlookup r k
  end.

Definition rmap_eqb (m rec : list (reg * Z)) : bool :=
  Nat.eqb (List.length m) (List.length rec)
  && forallb (fun p => match rlookup m (fst p) with Some x => x =? snd p | None => false end) rec.

Definition sharr_view (m : amem) : list (Z * list (option Z)) :=
  map (fun p => (fst p, match snd p with
                        | ShFrozen l => l
                        | ShAlias => match zlookup (m_arr m) (fst p) with Some l => l | None => [] end
                        end)) (m_sharr m).

Definition mem_matches (m : amem) (o : obs) : bool :=
  zmap_eqb arr_eqb (m_arr m) (o_arr o)
  && rmap_eqb (m_shreg m) (o_shreg o)
  && zmap_eqb arr_eqb (sharr_view m) (o_sharr o).

(* the assembled program on the model interpreter reproduces the executor exactly
   (all 64 registers, memory, outcome, line) *)
Definition tgt_matches (T : list acmd) (fuel : nat) (start : astate) (o : obs) : bool :=
  let all (_ : reg) := true in
  match arun T fuel (Run 0 start) with
  | Halted st => (o_kind o =? 0) && list_eqb regval_eqb (regs_view all (s_regs st)) (o_regs o) && mem_matches (s_mem st) o
  | Fault k st => (o_kind o =? 1) && (o_line o =? Z.of_nat k)
                  && list_eqb regval_eqb (regs_view all (s_regs st)) (o_regs o) && mem_matches (s_mem st) o
  | Run pc st => (o_kind o =? 2) && (o_line o =? Z.of_nat pc)
                 && list_eqb regval_eqb (regs_view all (s_regs st)) (o_regs o) && mem_matches (s_mem st) o
  | Stuck k st => (o_kind o =? 3) && (o_line o =? Z.of_nat k)
                  && list_eqb regval_eqb (regs_view all (s_regs st)) (o_regs o) && mem_matches (s_mem st) o
  end.

(* the property's oracle: the executor's result equals the direct interpretation of
   the SOURCE program on every register that is not a possible scratch register,
   on arrays and shared memory; a fault is at the last line of the faulting
   command's block; reserved registers count as named (they must keep their values) *)
Definition src_matches (pr : aparams) (rsv : list reg) (P : list acmd) (fuel : nat) (start : astate) (o : obs) : bool :=
  let nm := (named P ++ rsv)%list in
  let keep (r : reg) := negb (fst r =? ap_bankR pr) || mem_reg r nm in
  let view st := regs_view keep (s_regs st) in
  let oview := filter (fun p => keep (fst p)) (o_regs o) in
  let last k := (pcmap_nm pr nm P k + match nth_error P k with Some c => nsets pr nm c | None => 0 end)%nat in
  match arun P fuel (Run 0 start) with
  | Halted st => (o_kind o =? 0) && list_eqb regval_eqb (view st) oview && mem_matches (s_mem st) o
  | Fault k st =>
      (o_kind o =? 1)
      && (o_line o =? Z.of_nat (last k))
      && list_eqb regval_eqb (view st) oview && mem_matches (s_mem st) o
  | Run _ _ => o_kind o =? 2      (* both still running after the bound: nothing to compare *)
  | Stuck k st =>
      (o_kind o =? 3) && (o_line o =? Z.of_nat (last k))
      && list_eqb regval_eqb (view st) oview && mem_matches (s_mem st) o
  end.

(* the application state the executor was left in (registers and arrays persist
   between the subroutines of an application) *)
Definition state_of_obs (o : obs) : astate :=
  mkSt (fun r => rlookup (o_regs o) r)
       (mkMem (o_arr o) (o_shreg o)
              (map (fun p => (fst p, if existsb (Z.eqb (fst p)) (o_alias o) then ShAlias else ShFrozen (snd p)))
                   (o_sharr o))).

(* ---------- C03 cases ---------- *)

Record acase := mkAC {
  c_lines : option (list string);     (* text case: the lines of the text *)
  c_prog : list acmd;                 (* IR case: the proto-commands *)
  c_out : outcome;                    (* what parse_text_subroutine / assemble_subroutine produced *)
  c_fuel : nat;
  c_obs : option obs;                 (* executor run of the assembled program, if executed *)
  c_rsv : list reg                    (* reserved_registers passed to assemble_subroutine *)
}.

(* result code: 0 ok; +1 instruction lists differ (+8 more: the model assembles, the implementation refused); +2 oracle (source meaning) differs;
   +4 model interpreter differs from the executor on the assembled program *)
Definition check_prog (pr : aparams) (t : list row) (rsv : list reg) (P : option (list acmd)) (out : outcome)
           (fuel : nat) (start : astate) (ob : option obs) : Z :=
  let mo := model_outcome pr t rsv P in
  (* +8: the model assembles the program (unnamed R registers are available, labels are distinct, every
     instruction is one of the flavour with operands of the right kinds) but the implementation refused it *)
  let a := if outcome_eqb mo out then 0
           else match mo, out with Instrs _, Failed _ => 9 | _, _ => 1 end in
  match P, ob with
  | Some P, Some o =>
      let b := if src_matches pr rsv P fuel start o then 0 else 2 in
      let d := match assemble_res pr t rsv P with
               | AOk B => if tgt_matches (map embed B) fuel start o then 0 else 4
               | AErr _ => 4
               end in
      a + b + d
  | _, _ => a
  end.

Definition check_acase (pr : aparams) (bk : banks) (gi : list string) (t : list row) (c : acase) : Z :=
  let P := match c_lines c with Some ls => parse_text bk gi ls | None => Some (c_prog c) end in
  check_prog pr t (c_rsv c) P (c_out c) (c_fuel c) init_state (c_obs c).

(* ---------- C03: sequences of subroutines of one application ---------- *)

Record sstep := mkSS { ss_prog : list acmd; ss_out : outcome; ss_obs : option obs; ss_rsv : list reg }.

(* every subroutine starts, in source and in target, from the state the executor
   was really left in by the previous one; the code of the first differing step *)
Fixpoint check_steps (pr : aparams) (t : list row) (fuel : nat) (start : astate) (l : list sstep) : Z :=
  match l with
  | [] => 0
  | s :: r =>
      let c := check_prog pr t (ss_rsv s) (Some (ss_prog s)) (ss_out s) fuel start (ss_obs s) in
      if c =? 0 then
        match ss_obs s with
        | Some o => if o_kind o =? 0 then check_steps pr t fuel (state_of_obs o) r else 0
        | None => 0
        end
      else c
  end.

Definition check_scase (pr : aparams) (t : list row) (fuel : nat) (l : list sstep) : Z :=
  check_steps pr t fuel init_state l.

Fixpoint codes_from {A} (chk : A -> Z) (i : Z) (l : list A) : list Z :=
  match l with
  | [] => []
  | x :: r => let c := chk x in
              if c =? 0 then codes_from chk (i + 1) r else (16 * i + c) :: codes_from chk (i + 1) r
  end.

Definition codes {A} (chk : A -> Z) (l : list A) : list Z := codes_from chk 0 l.

(* ---------- C17 cases ---------- *)

Record pcase := mkPC {
  pc_instr : pinstr;                   (* class name, operand leaves *)
  pc_str : string;                     (* str(instr) *)
  pc_back : option pinstr              (* parse_text_subroutine(str(instr)) -> the single instruction *)
}.

(* +1 printer differs, +2 parser differs *)
Definition check_pcase (pr : aparams) (bk : banks) (gi : list string) (t : list row) (c : pcase) : Z :=
  match find_row t (fst (pc_instr c)) with
  | None => 3
  | Some r =>
      match group (r_kinds r) (snd (pc_instr c)) with
      | None => 3
      | Some ops =>
          (if String.eqb (pp_instr bk r ops) (pc_str c) then 0 else 1)
          + (if opt_eqb pinstr_eqb
                  (option_map (fun x => (r_name (fst x), flat (snd x))) (parse_line pr bk gi t (pc_str c)))
                  (pc_back c)
             then 0 else 2)
      end
  end.

(* ---------- table conditions used by the theorems (decided per run on the regenerated tables) ---------- *)

(* every immediate operand position of every class is exempt from constant
   replacement (otherwise a printed immediate would be turned into a register) *)
Definition imm_positions_exempt (ex : list (string * nat)) (t : list row) : bool :=
  forallb (fun r =>
    forallb (fun p => match snd p with
                      | KImm => is_exempt ex (r_mn r) (fst p)
                      | _ => true end)
            (combine (seq 0 (List.length (r_kinds r))) (r_kinds r))) t.

(* mnemonics: non-empty, lower-case letters / digits / underscore, known generic instructions *)
Definition is_mn_char (c : ascii) : bool := is_alpha c || is_digit c || Ascii.eqb c USCORE.

Definition mnemonics_ok (gi : list string) (t : list row) : bool :=
  forallb (fun r => match r_mn r with EmptyString => false | _ => true end
                    && sall is_mn_char (r_mn r)
                    && existsb (String.eqb (r_mn r)) gi) t.

(* bank letters: letters, pairwise distinct, bank values pairwise distinct *)
Definition banks_ok (bk : banks) : bool :=
  forallb (fun p => is_alpha (snd p)) bk
  && nodup_z (map fst bk)
  && nodup_z (map (fun p => Z.of_nat (nat_of_ascii (snd p))) bk).
