(* TextFront.v — the text front end of the assembler at character level:
   a canonical printer of proto-subroutines (the inverse of Text.parse_text),
   decorations of a text that the parser ignores (comments, blank lines,
   indentation, trailing blanks), and macro definitions.
   The parser itself is Text.parse_text (model of parse_text_protosubroutine:
   _split_preamble_body, _parse_preamble, _apply_macros, _create_subroutine).
   No proofs here. *)
From Coq Require Import ZArith List Bool String Ascii.
From NQ Require Import Base.Bits Lang.Codec Lang.Asm Lang.Text.
Import ListNotations.
Open Scope Z_scope.

(* ---------- canonical printer of proto-commands ---------- *)

Definition pp_aval (bk : banks) (v : aval) : string :=
  match v with VLit z => z2s z | VReg b i => pp_reg bk b i end.

Definition pp_aopnd (bk : banks) (o : aopnd) : string :=
  match o with
  | AV v => pp_aval bk v
  | ALabel l => l
  | AAddr a => String AT (z2s a)
  | AEntry a v => String AT (z2s a) +++ s1 LBR +++ pp_aval bk v +++ s1 RBR
  | ASlice a v w => String AT (z2s a) +++ s1 LBR +++ pp_aval bk v +++ s1 COLON +++ pp_aval bk w +++ s1 RBR
  end.

Fixpoint pp_aopnds (bk : banks) (ops : list aopnd) : string :=
  match ops with
  | [] => EmptyString
  | o :: r => String SP (pp_aopnd bk o) +++ pp_aopnds bk r
  end.

Fixpoint join_comma (l : list string) : string :=
  match l with
  | [] => EmptyString
  | [x] => x
  | x :: r => x +++ String COMMA (join_comma r)
  end.

(* instr(a,b) *)
Definition pp_args (args : list Z) : string :=
  match args with
  | [] => EmptyString
  | _ => String LPAR (join_comma (map z2s args)) +++ s1 RPAR
  end.

Definition print_cmd (bk : banks) (c : acmd) : string :=
  match c with
  | ALab l => l +++ s1 COLON
  | AIns mn args ops => mn +++ pp_args args +++ pp_aopnds bk ops
  end.

Local Open Scope string_scope.
Definition HEADER : list string := ["# NETQASM 1.0"; "# APPID 0"].
Definition DEFINE_PREFIX : string := "# DEFINE ".
Local Close Scope string_scope.

(* the lines of the text *)
Definition print_proto (bk : banks) (P : list acmd) : list string := HEADER ++ map (print_cmd bk) P.

(* ---------- proto-programs that have a text ---------- *)

(* a label name: an identifier that does not read as a register (R1 would) *)
Definition label_ok (bk : banks) (l : string) : bool :=
  is_variable_name l && match parse_val bk l with None => true | Some _ => false end.

Definition aval_ok (bk : banks) (v : aval) : bool :=
  match v with
  | VLit _ => true
  | VReg b _ => match bank_char bk b with Some _ => true | None => false end
  end.

Definition aopnd_ok (bk : banks) (o : aopnd) : bool :=
  match o with
  | AV v => aval_ok bk v
  | ALabel l => label_ok bk l
  | AAddr _ => true
  | AEntry _ v => aval_ok bk v
  | ASlice _ v w => aval_ok bk v && aval_ok bk w
  end.

Definition acmd_ok (bk : banks) (gi : list string) (c : acmd) : bool :=
  match c with
  | ALab l => label_ok bk l
  | AIns mn args ops => existsb (String.eqb mn) gi && forallb (aopnd_ok bk) ops
  end.

Definition wf_proto (bk : banks) (gi : list string) (P : list acmd) : bool := forallb (acmd_ok bk gi) P.

(* the generic instruction names are words *)
Definition is_word_char (c : ascii) : bool := is_alpha c || is_digit c || Ascii.eqb c USCORE.
Definition ginstrs_ok (gi : list string) : bool :=
  forallb (fun mn => match mn with EmptyString => false | _ => sall is_word_char mn end) gi.

(* ---------- decorations the parser ignores ---------- *)

Definition SLASHES : string := String SLASH (s1 SLASH).

(* a line without content: blanks, optionally followed by a comment *)
Definition blank_line (b : string * option string) : string :=
  fst b +++ match snd b with Some c => SLASHES +++ c | None => EmptyString end.

Record deco := mkDeco {
  d_blanks : list (string * option string);  (* lines without content before the line *)
  d_lead : string;                           (* indentation *)
  d_trail : string;                          (* trailing blanks (used when there is no comment) *)
  d_comment : option string                  (* comment attached to the line *)
}.

Definition all_space (s : string) : bool := sall is_space s.

Definition deco_ok (d : deco) : bool :=
  forallb (fun b => all_space (fst b)) (d_blanks d) && all_space (d_lead d) && all_space (d_trail d).

Definition dec_line (d : deco) (l : string) : string :=
  d_lead d +++ l +++ match d_comment d with Some c => SLASHES +++ c | None => d_trail d end.

Fixpoint decorate (ds : list deco) (t : list string) : list string :=
  match ds, t with
  | d :: ds', l :: t' => map blank_line (d_blanks d) ++ dec_line d l :: decorate ds' t'
  | _, _ => t
  end.

(* a line with content and nothing to strip: non-empty, no blank at either end, no '/' *)
Definition clean_line (l : string) : bool :=
  match l with
  | EmptyString => false
  | String c _ => negb (is_space c)
  end
  && match last_char l with Some c => negb (is_space c) | None => false end
  && sall (fun c => negb (Ascii.eqb c SLASH)) l.

(* ---------- macros ---------- *)

(* a body line in which every macro use is a whole `$key` token: pieces of
   literal text (no '$') and uses of an identifier *)
Inductive piece := PLit (s : string) | PUse (k : string).

Definition render_piece (p : piece) : string :=
  match p with PLit s => s | PUse k => String DOLLAR k end.

Fixpoint render (ps : list piece) : string :=
  match ps with [] => EmptyString | p :: r => render_piece p +++ render r end.

Fixpoint macro_value (ds : list (string * string)) (k : string) : option string :=
  match ds with
  | [] => None
  | (k', v) :: r => if String.eqb k' k then Some v else macro_value r k
  end.

(* simultaneous substitution: every use becomes the value of its key *)
Definition subst_piece (ds : list (string * string)) (p : piece) : string :=
  match p with
  | PLit s => s
  | PUse k => match macro_value ds k with Some v => v | None => String DOLLAR k end
  end.

Fixpoint subst (ds : list (string * string)) (ps : list piece) : string :=
  match ps with [] => EmptyString | p :: r => subst_piece ds p +++ subst ds r end.

(* literal text: no '$', no '/'; the text after a use starts with a character that
   cannot continue an identifier (so the use is the whole token) *)
Definition lit_char (c : ascii) : bool := negb (Ascii.eqb c DOLLAR) && negb (Ascii.eqb c SLASH).

Fixpoint pieces_ok (ds : list (string * string)) (ps : list piece) : bool :=
  match ps with
  | [] => true
  | PLit s :: r => sall lit_char s && pieces_ok ds r
  | PUse k :: r =>
      match macro_value ds k with Some _ => true | None => false end
      && match r with
         | [] => true
         | PLit (String c _) :: _ => negb (is_name_char c)
         | _ => false
         end
      && pieces_ok ds r
  end.

(* a macro value: a non-empty word without blanks, '$', '/', '#', braces *)
Definition value_char (c : ascii) : bool :=
  negb (is_space c) && negb (Ascii.eqb c DOLLAR) && negb (Ascii.eqb c SLASH) && negb (Ascii.eqb c HASH)
  && negb (Ascii.eqb c LCUR) && negb (Ascii.eqb c RCUR).

Definition defines_ok (ds : list (string * string)) : bool :=
  forallb (fun d => is_variable_name (fst d)
                    && match snd d with EmptyString => false | v => sall value_char v end) ds
  && nodup_str (map fst ds).

Definition define_line (d : string * string) : string := DEFINE_PREFIX +++ fst d +++ String SP (snd d).

(* a body line given by its pieces: starts with literal text that is not blank / '#', ends without a blank *)
Definition body_line_ok (ds : list (string * string)) (ps : list piece) : bool :=
  pieces_ok ds ps
  && match ps with
     | PLit (String c _) :: _ => negb (is_space c) && negb (Ascii.eqb c HASH)
     | PUse _ :: _ => true
     | _ => false
     end
  && match last_char (render ps) with Some c => negb (is_space c) | None => false end.

Definition with_defines (ds : list (string * string)) (body : list (list piece)) : list string :=
  HEADER ++ map define_line ds ++ map render body.

Definition substituted (ds : list (string * string)) (body : list (list piece)) : list string :=
  HEADER ++ map (subst ds) body.

(* ---------- text in, instruction objects out ---------- *)

(* parse_text_subroutine on the lines of a text: None = the front end rejects the text *)
Definition assemble_text (pr : aparams) (bk : banks) (gi : list string) (t : list row) (lines : list string)
  : option (ares (list (row * list operand))) :=
  match parse_text bk gi lines with
  | Some P => Some (assemble pr t P)
  | None => None
  end.
