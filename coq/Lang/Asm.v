(* Asm.v — executable model of the NetQASM assembler
   (netqasm/lang/parsing/text.py: assemble_subroutine = _make_args_operands,
    _replace_constants + get_current_registers, _assign_branch_labels +
    _update_labels, _build_subroutine; netqasm/lang/ir.py ICmd / BranchLabel;
    instr/base.py from_operands).
   The exemption table, the number of registers per bank and the value of the
   R bank are parameters (regenerated from /repo by gen/asm_tables.py).
   No proofs here. *)
From Coq Require Import ZArith List Bool String.
From NQ Require Import Base.Bits Lang.Codec.
Import ListNotations.
Open Scope Z_scope.

(* ---------- proto-commands (ProtoSubroutine.commands) ---------- *)

(* a value position: literal int or register (bank, index) *)
Inductive aval := VLit (z : Z) | VReg (b i : Z).

(* operands of an ICmd: int / Register / Label / Address / ArrayEntry /
   ArraySlice (index and slice bounds may be ints in a proto-subroutine).
   Template operands are outside the model. *)
Inductive aopnd :=
| AV (v : aval)
| ALabel (l : string)
| AAddr (a : Z)
| AEntry (a : Z) (i : aval)
| ASlice (a : Z) (s e : aval).

(* BranchLabel(name) | ICmd(instruction, args, operands); the instruction is
   identified by GenericInstr.name.lower(), which is what _build_subroutine
   looks up in the flavour *)
Inductive acmd :=
| ALab (l : string)
| AIns (mn : string) (args : list Z) (ops : list aopnd).

Record aparams := mkAP {
  ap_nreg : nat;                       (* 2 ** REG_INDEX_BITS *)
  ap_bankR : Z;                        (* RegisterName.R.value *)
  ap_exempt : list (string * nat)      (* _REPLACE_CONSTANTS_EXCEPTION *)
}.

Inductive aerr := ENoScratch | EDupLabel | EBuild.
Inductive ares (A : Type) := AOk (x : A) | AErr (e : aerr).
Arguments AOk {A} x.
Arguments AErr {A} e.

Definition abind {A B} (r : ares A) (f : A -> ares B) : ares B :=
  match r with AOk x => f x | AErr e => AErr e end.

(* ---------- _make_args_operands ---------- *)

Definition lit_op (z : Z) : aopnd := AV (VLit z).

Definition all_ops (args : list Z) (ops : list aopnd) : list aopnd := map lit_op args ++ ops.

Definition make_args (c : acmd) : acmd :=
  match c with
  | ALab l => ALab l
  | AIns mn args ops => AIns mn [] (all_ops args ops)
  end.

(* ---------- get_current_registers (after the fix: also inside entries/slices) ---------- *)

Definition reg := (Z * Z)%type.

Definition reg_eqb (a b : reg) : bool := (fst a =? fst b) && (snd a =? snd b).
Definition mem_reg (r : reg) (l : list reg) : bool := existsb (reg_eqb r) l.

Definition regs_of_val (v : aval) : list reg :=
  match v with VReg b i => [(b, i)] | VLit _ => [] end.

Definition regs_of_opnd (o : aopnd) : list reg :=
  match o with
  | AV v => regs_of_val v
  | AEntry _ i => regs_of_val i
  | ASlice _ s e => regs_of_val s ++ regs_of_val e
  | ALabel _ | AAddr _ => []
  end.

Definition regs_of_cmd (c : acmd) : list reg :=
  match c with AIns _ _ ops => flat_map regs_of_opnd ops | ALab _ => [] end.

Definition named (P : list acmd) : list reg := flat_map regs_of_cmd P.

(* ---------- _replace_constants ---------- *)

Definition is_exempt (ex : list (string * nat)) (mn : string) (j : nat) : bool :=
  existsb (fun p => String.eqb (fst p) mn && Nat.eqb (snd p) j) ex.

Definition cands (pr : aparams) : list Z := map Z.of_nat (seq 0 (ap_nreg pr)).

(* reg_and_set_cmd: the first R_i neither named by the program nor already
   used for this command *)
Definition pick (pr : aparams) (nm tmp : list reg) : option Z :=
  find (fun i => negb (mem_reg (ap_bankR pr, i) nm) && negb (mem_reg (ap_bankR pr, i) tmp)) (cands pr).

Definition SET : string := "set".

Definition set_cmd (r : reg) (z : Z) : acmd := AIns SET [] [AV (VReg (fst r) (snd r)); AV (VLit z)].

(* result of materialising one value: inserted sets, new value, used scratch registers *)
Definition repl_val (pr : aparams) (nm : list reg) (v : aval) (tmp : list reg)
  : option (list acmd * aval * list reg) :=
  match v with
  | VReg _ _ => Some ([], v, tmp)
  | VLit z =>
      match pick pr nm tmp with
      | Some i => Some ([set_cmd (ap_bankR pr, i) z], VReg (ap_bankR pr) i, tmp ++ [(ap_bankR pr, i)])
      | None => None
      end
  end.

Definition repl_opnd (pr : aparams) (nm : list reg) (mn : string) (j : nat) (o : aopnd) (tmp : list reg)
  : option (list acmd * aopnd * list reg) :=
  match o with
  | AV (VLit z) =>
      if is_exempt (ap_exempt pr) mn j then Some ([], o, tmp)
      else match repl_val pr nm (VLit z) tmp with
           | Some (s, v, tmp') => Some (s, AV v, tmp')
           | None => None
           end
  | AV (VReg _ _) | ALabel _ | AAddr _ => Some ([], o, tmp)
  | AEntry a i =>
      match repl_val pr nm i tmp with
      | Some (s, v, tmp') => Some (s, AEntry a v, tmp')
      | None => None
      end
  | ASlice a s e =>
      match repl_val pr nm s tmp with
      | Some (s1, v1, tmp1) =>
          match repl_val pr nm e tmp1 with
          | Some (s2, v2, tmp2) => Some (s1 ++ s2, ASlice a v1 v2, tmp2)
          | None => None
          end
      | None => None
      end
  end.

Fixpoint repl_ops (pr : aparams) (nm : list reg) (mn : string) (j : nat) (ops : list aopnd) (tmp : list reg)
  : option (list acmd * list aopnd * list reg) :=
  match ops with
  | [] => Some ([], [], tmp)
  | o :: r =>
      match repl_opnd pr nm mn j o tmp with
      | Some (s1, o', tmp1) =>
          match repl_ops pr nm mn (S j) r tmp1 with
          | Some (s2, r', tmp2) => Some (s1 ++ s2, o' :: r', tmp2)
          | None => None
          end
      | None => None
      end
  end.

(* one command: the inserted sets followed by the rewritten command *)
Definition repl_cmd (pr : aparams) (nm : list reg) (c : acmd) : option (list acmd) :=
  match c with
  | ALab l => Some [ALab l]
  | AIns mn args ops =>
      match repl_ops pr nm mn 0 ops [] with
      | Some (s, ops', _) => Some (s ++ [AIns mn args ops'])
      | None => None
      end
  end.

Fixpoint repl_all (pr : aparams) (nm : list reg) (P : list acmd) : option (list acmd) :=
  match P with
  | [] => Some []
  | c :: r =>
      match repl_cmd pr nm c, repl_all pr nm r with
      | Some b, Some r' => Some (b ++ r')
      | _, _ => None
      end
  end.

Definition replace_constants (pr : aparams) (P : list acmd) : ares (list acmd) :=
  match repl_all pr (named P) P with Some Q => AOk Q | None => AErr ENoScratch end.

(* ---------- _assign_branch_labels / _update_labels ---------- *)

Fixpoint tbl_find (tbl : list (string * nat)) (l : string) : option nat :=
  match tbl with
  | [] => None
  | (k, n) :: r => if String.eqb k l then Some n else tbl_find r l
  end.

(* label -> number of non-label commands before it; None on a repeated label *)
Fixpoint label_table (P : list acmd) (n : nat) (tbl : list (string * nat)) : option (list (string * nat)) :=
  match P with
  | [] => Some tbl
  | ALab l :: r =>
      match tbl_find tbl l with
      | Some _ => None
      | None => label_table r n (tbl ++ [(l, n)])
      end
  | AIns _ _ _ :: r => label_table r (S n) tbl
  end.

Definition is_ins (c : acmd) : bool := match c with AIns _ _ _ => true | ALab _ => false end.

Definition resolve_opnd (tbl : list (string * nat)) (o : aopnd) : aopnd :=
  match o with
  | ALabel l => match tbl_find tbl l with Some n => AV (VLit (Z.of_nat n)) | None => o end
  | _ => o
  end.

Definition resolve_cmd (tbl : list (string * nat)) (c : acmd) : acmd :=
  match c with
  | AIns mn args ops => AIns mn args (map (resolve_opnd tbl) ops)
  | ALab l => ALab l
  end.

Definition assign_labels (P : list acmd) : ares (list acmd) :=
  match label_table P 0 [] with
  | None => AErr EDupLabel
  | Some tbl => AOk (map (resolve_cmd tbl) (filter is_ins P))
  end.

(* ---------- the three passes on the IR ---------- *)

Definition assemble_ir (pr : aparams) (P : list acmd) : ares (list acmd) :=
  abind (replace_constants pr (map make_args P)) assign_labels.

(* ---------- _build_subroutine: flavour lookup + from_operands ---------- *)

Definition conv (k : kind) (o : aopnd) : option operand :=
  match k, o with
  | KReg, AV (VReg b i) => Some (OReg b i)
  | KImm, AV (VLit z) => Some (OImm z)
  | KAddr, AAddr a => Some (OAddr a)
  | KEntry, AEntry a (VReg b i) => Some (OEntry a b i)
  | KSlice, ASlice a (VReg b1 i1) (VReg b2 i2) => Some (OSlice a b1 i1 b2 i2)
  | _, _ => None
  end.

Fixpoint conv_all (ks : list kind) (ops : list aopnd) : option (list operand) :=
  match ks, ops with
  | [], [] => Some []
  | k :: ks', o :: ops' =>
      match conv k o, conv_all ks' ops' with
      | Some x, Some r => Some (x :: r)
      | _, _ => None
      end
  | _, _ => None
  end.

Definition build_cmd (t : list row) (c : acmd) : option (row * list operand) :=
  match c with
  | ALab _ => None
  | AIns mn args ops =>
      match lookup_mn t mn with
      | None => None
      | Some r =>
          match conv_all (r_kinds r) ops with
          | Some xs => Some (r, xs)
          | None => None
          end
      end
  end.

Fixpoint build (t : list row) (T : list acmd) : option (list (row * list operand)) :=
  match T with
  | [] => Some []
  | c :: r =>
      match build_cmd t c, build t r with
      | Some x, Some xs => Some (x :: xs)
      | _, _ => None
      end
  end.

Definition assemble (pr : aparams) (t : list row) (P : list acmd) : ares (list (row * list operand)) :=
  abind (assemble_ir pr P)
        (fun T => match build t T with Some B => AOk B | None => AErr EBuild end).

(* a built instruction read back as a command (the instruction the executor sees) *)
Definition embed_op (o : operand) : aopnd :=
  match o with
  | OReg b i => AV (VReg b i)
  | OImm v => AV (VLit v)
  | OAddr a => AAddr a
  | OEntry a b i => AEntry a (VReg b i)
  | OSlice a b1 i1 b2 i2 => ASlice a (VReg b1 i1) (VReg b2 i2)
  end.

Definition embed (c : row * list operand) : acmd := AIns (r_mn (fst c)) [] (map embed_op (snd c)).

(* ---------- what the theorems talk about ---------- *)

(* position -> index in the assembled program: every instruction before the
   position contributes itself plus its inserted sets, labels contribute nothing *)
Definition nsets (pr : aparams) (nm : list reg) (c : acmd) : nat :=
  match c with
  | ALab _ => O
  | AIns mn args ops =>
      match repl_ops pr nm mn 0 (all_ops args ops) [] with
      | Some (s, _, _) => List.length s
      | None => O
      end
  end.

Definition bsize (pr : aparams) (nm : list reg) (c : acmd) : nat :=
  match c with ALab _ => O | AIns _ _ _ => S (nsets pr nm c) end.

Fixpoint pcmap_from (pr : aparams) (nm : list reg) (P : list acmd) (k : nat) : nat :=
  match k, P with
  | O, _ => O
  | S k', c :: r => (bsize pr nm c + pcmap_from pr nm r k')%nat
  | S _, [] => O
  end.

Definition pcmap (pr : aparams) (P : list acmd) (k : nat) : nat := pcmap_from pr (named P) P k.

(* position of the (first) definition of label l *)
Fixpoint label_pos (P : list acmd) (l : string) : option nat :=
  match P with
  | [] => None
  | ALab l' :: r => if String.eqb l' l then Some O else option_map S (label_pos r l)
  | AIns _ _ _ :: r => option_map S (label_pos r l)
  end.

Definition labels_of (P : list acmd) : list string :=
  flat_map (fun c => match c with ALab l => [l] | _ => [] end) P.

(* scratch registers a command needs: literals outside exempt positions *)
Definition lits_of_val (v : aval) : nat := match v with VLit _ => 1%nat | VReg _ _ => O end.

Definition need_opnd (ex : list (string * nat)) (mn : string) (j : nat) (o : aopnd) : nat :=
  match o with
  | AV (VLit _) => if is_exempt ex mn j then O else 1%nat
  | AV (VReg _ _) | ALabel _ | AAddr _ => O
  | AEntry _ i => lits_of_val i
  | ASlice _ s e => (lits_of_val s + lits_of_val e)%nat
  end.

Fixpoint need_ops (ex : list (string * nat)) (mn : string) (j : nat) (ops : list aopnd) : nat :=
  match ops with
  | [] => O
  | o :: r => (need_opnd ex mn j o + need_ops ex mn (S j) r)%nat
  end.

Definition need_cmd (ex : list (string * nat)) (c : acmd) : nat :=
  match c with ALab _ => O | AIns mn args ops => need_ops ex mn 0 (all_ops args ops) end.

(* free scratch candidates *)
Definition free_regs (pr : aparams) (nm : list reg) : list Z :=
  filter (fun i => negb (mem_reg (ap_bankR pr, i) nm)) (cands pr).

(* ---------- reserved registers (assemble_subroutine(..., reserved_registers=...)) ---------- *)

(* The builder passes the registers it still has claimed: they hold live values
   although this subroutine may not mention them, and must never be used as
   scratch.  _replace_constants merges them into the set of current registers. *)
Definition replace_constants_res (pr : aparams) (rsv : list reg) (P : list acmd) : ares (list acmd) :=
  match repl_all pr (named P ++ rsv) P with Some Q => AOk Q | None => AErr ENoScratch end.

Definition assemble_ir_res (pr : aparams) (rsv : list reg) (P : list acmd) : ares (list acmd) :=
  abind (replace_constants_res pr rsv (map make_args P)) assign_labels.

Definition assemble_res (pr : aparams) (t : list row) (rsv : list reg) (P : list acmd)
  : ares (list (row * list operand)) :=
  abind (assemble_ir_res pr rsv P)
        (fun T => match build t T with Some B => AOk B | None => AErr EBuild end).

(* the line map when the pass works with the register set nm (named P ++ reserved) *)
Definition pcmap_nm (pr : aparams) (nm : list reg) (P : list acmd) (k : nat) : nat := pcmap_from pr nm P k.
