(* MsgCodec.v — executable model of host<->controller message serialisation
   (netqasm/backend/messages.py).  Layouts and the dispatch tables are
   regenerated from /repo (gen/msg_tables.py).  No proofs here. *)
From Coq Require Import ZArith List Bool String.
From NQ Require Import Base.Bits Lang.Codec.
Import ListNotations.
Open Scope Z_scope.

(* fixed-size message class: leaf layout (type field first, padding omitted) *)
Record mrow := mkM { m_name : string; m_type : Z; m_layout : list field; m_bytes : nat }.

(* dispatch table entry *)
Inductive mclass :=
| MFixed (r : mrow)
| MSub (name : string) (ty : Z)        (* type byte ++ raw subroutine bytes *)
| MArr (name : string) (ty : Z).       (* type byte ++ header ++ OptionalInt array *)

Definition mc_type (c : mclass) : Z :=
  match c with MFixed r => m_type r | MSub _ t => t | MArr _ t => t end.
Definition mc_name (c : mclass) : string :=
  match c with MFixed r => m_name r | MSub n _ => n | MArr n _ => n end.

(* layout of the returned-array pieces *)
Record arrfmt := mkAF {
  a_hdr : list field;   (* [address; length] *)
  a_hdr_bytes : nat;
  a_opt : list field;   (* [type tag; value] *)
  a_opt_bytes : nat;
  a_null : Z;           (* tag of an undefined entry *)
  a_int : Z             (* tag of an integer entry *)
}.

Inductive msg :=
| Fixed (r : mrow) (vals : list Z)
| SubMsg (name : string) (ty : Z) (body : list Z)
| ArrMsg (name : string) (ty : Z) (addr : Z) (vals : list (option Z)).

Definition enc_opt (af : arrfmt) (v : option Z) : list Z :=
  match v with
  | None => to_bytes (a_opt_bytes af) (pack (a_opt af) [a_null af; 0])
  | Some x => to_bytes (a_opt_bytes af) (pack (a_opt af) [a_int af; x])
  end.

Definition encode_msg (af : arrfmt) (m : msg) : list Z :=
  match m with
  | Fixed r vals => to_bytes (m_bytes r) (pack (m_layout r) (m_type r :: vals))
  | SubMsg _ ty body => ty :: body
  | ArrMsg _ ty addr vals =>
      ty :: to_bytes (a_hdr_bytes af) (pack (a_hdr af) [addr; Z.of_nat (List.length vals)])
         ++ List.concat (map (enc_opt af) vals)
  end.

Fixpoint lookup_type (t : list mclass) (ty : Z) : option mclass :=
  match t with
  | [] => None
  | c :: t' => if mc_type c =? ty then Some c else lookup_type t' ty
  end.

(* n OptionalInt structs *)
Fixpoint dec_opts (af : arrfmt) (n : nat) (bs : list Z) : option (list (option Z)) :=
  match n with
  | O => Some []
  | S n' =>
      if Nat.ltb (List.length bs) (a_opt_bytes af) then None else
      match unpack (a_opt af) (of_bytes (firstn (a_opt_bytes af) bs)) with
      | [tag; v] =>
          let rest := dec_opts af n' (skipn (a_opt_bytes af) bs) in
          if tag =? a_null af then option_map (cons None) rest
          else if tag =? a_int af then option_map (cons (Some v)) rest
          else None
      | _ => None
      end
  end.

Definition decode_msg (af : arrfmt) (t : list mclass) (bs : list Z) : option msg :=
  match bs with
  | [] => None
  | ty :: body =>
      match lookup_type t ty with
      | None => None
      | Some (MFixed r) =>
          if Nat.ltb (List.length bs) (m_bytes r) then None else
          match unpack (m_layout r) (of_bytes (firstn (m_bytes r) bs)) with
          | _ :: vals => Some (Fixed r vals)
          | [] => None
          end
      | Some (MSub n ty') => Some (SubMsg n ty' body)
      | Some (MArr n ty') =>
          if Nat.ltb (List.length body) (a_hdr_bytes af) then None else
          match unpack (a_hdr af) (of_bytes (firstn (a_hdr_bytes af) body)) with
          | [addr; len] =>
              if len <? 0 then None else
              match dec_opts af (Z.to_nat len) (skipn (a_hdr_bytes af) body) with
              | Some vals => Some (ArrMsg n ty' addr vals)
              | None => None
              end
          | _ => None
          end
      end
  end.

(* ---- well-formedness of the regenerated tables ---- *)
Definition type_field : field := mkF 0 8 false.

Definition mrow_ok (r : mrow) : bool :=
  wf_layout (8 * Z.of_nat (m_bytes r)) (m_layout r)
  && match m_layout r with f :: _ => field_eqb f type_field | [] => false end
  && (0 <=? m_type r) && (m_type r <? 256).

Definition mclass_ok (c : mclass) : bool :=
  match c with
  | MFixed r => mrow_ok r
  | MSub _ ty | MArr _ ty => (0 <=? ty) && (ty <? 256)
  end.

Definition wf_mtable (t : list mclass) : bool :=
  nodup_z (map mc_type t) && forallb mclass_ok t.

Definition arrfmt_ok (af : arrfmt) : bool :=
  wf_layout (8 * Z.of_nat (a_hdr_bytes af)) (a_hdr af) && Nat.eqb (List.length (a_hdr af)) 2
  && wf_layout (8 * Z.of_nat (a_opt_bytes af)) (a_opt af) && Nat.eqb (List.length (a_opt af)) 2
  && negb (a_null af =? a_int af)
  && fits_all (a_opt af) [a_null af; 0] && fits_all (a_opt af) [a_int af; 0].

(* values representable in the message *)
Definition opt_fits (af : arrfmt) (v : option Z) : bool :=
  match v with None => true | Some x => fits_all (a_opt af) [a_int af; x] end.

Definition msg_in_range (af : arrfmt) (m : msg) : bool :=
  match m with
  | Fixed r vals => fits_all (m_layout r) (m_type r :: vals)
  | SubMsg _ _ _ => true
  | ArrMsg _ _ addr vals =>
      fits_all (a_hdr af) [addr; Z.of_nat (List.length vals)] && forallb (opt_fits af) vals
  end.

Definition msg_class (m : msg) : mclass :=
  match m with
  | Fixed r _ => MFixed r
  | SubMsg n ty _ => MSub n ty
  | ArrMsg n ty _ _ => MArr n ty
  end.

(* ---- frozen reference: the declared widths of the message fields (property C15 quantifies over
   "all field values in their declared widths"): class, then (field, bits, signed) in order ---- *)
Open Scope string_scope.
Definition ref_msg_widths : list (string * list (string * Z * bool)) := [
  ("InitNewAppMessage", [("app_id", 32, false); ("max_qubits", 8, false)]);
  ("OpenEPRSocketMessage", [("app_id", 32, false); ("epr_socket_id", 32, true); ("remote_node_id", 32, true);
                            ("remote_epr_socket_id", 32, true); ("min_fidelity", 8, false)]);
  ("StopAppMessage", [("app_id", 32, false)]);
  ("SignalMessage", [("signal", 8, false)]);
  ("MsgDoneMessage", [("msg_id", 32, false)]);
  ("ErrorMessage", [("err_code", 8, false)]);
  ("ReturnRegMessage", [("register.register_name", 2, false); ("register.register_index", 4, false); ("value", 32, true)]);
  ("ReturnArrayMessageHeader", [("address.address", 32, true); ("length", 32, true)]);
  ("OptionalInt", [("type", 8, false); ("_value", 32, true)])
].

Definition width_eqb (a b : string * Z * bool) : bool :=
  String.eqb (fst (fst a)) (fst (fst b)) && (snd (fst a) =? snd (fst b))%Z && Bool.eqb (snd a) (snd b).

Definition widths_row_eqb (a b : string * list (string * Z * bool)) : bool :=
  String.eqb (fst a) (fst b) && list_eqb width_eqb (snd a) (snd b).

(* every reference class is present in the regenerated widths with exactly its declared fields *)
Definition widths_conform (gen : list (string * list (string * Z * bool))) : bool :=
  forallb (fun r => existsb (widths_row_eqb r) gen) ref_msg_widths.
