(* AsmSem.v — a small self-contained interpreter for the classical NetQASM
   instructions (set add sub addm subm load store lea undef array jmp bez bnz
   beq bne blt bge ret_reg ret_arr wait_all) over registers, arrays and shared memory.
   ONE interpreter runs both kinds of program:
     - a source program (proto-commands): labels are positions, a literal in a
       value position denotes its value, instr(a,b) x = instr a b x;
     - an assembled program (no labels, branch targets are line numbers).
   Shaped after netqasm/backend/executor.py (_instr_*, _handle_branch_instr,
   _handle_binary_classical_instr, _expand_array_part; sdk/shared_memory.py
   RegisterGroup / Arrays) so that it can be compared with the real Executor.
   Everything is prefixed Asm/a- to stay apart from the C04 executor model.
   No proofs here. *)
From Coq Require Import ZArith List Bool String.
From NQ Require Import Lang.Asm.
Import ListNotations.
Open Scope Z_scope.

(* ---------- state ---------- *)

(* the array behind a shared-memory address: ret_arr hands the controller's
   own list object to the shared memory (alias) until the array is declared
   again, at which point the old object stays behind unchanged *)
Inductive asharr := ShAlias | ShFrozen (l : list (option Z)).

Record amem := mkMem {
  m_arr : list (Z * list (option Z));       (* Executor._app_arrays *)
  m_shreg : list (reg * Z);                 (* shared memory registers *)
  m_sharr : list (Z * asharr)               (* shared memory arrays *)
}.

Record astate := mkSt { s_regs : reg -> option Z; s_mem : amem }.

Definition NBANKS : Z := 4.
Definition NREGS : Z := 16.

(* RegisterGroup._assert_within_length *)
Definition reg_ok (b i : Z) : bool := (0 <=? b) && (b <? NBANKS) && (0 <=? i) && (i <? NREGS).

(* None = the access raises; Some None = register holds no value *)
Definition rd (st : astate) (v : aval) : option (option Z) :=
  match v with
  | VLit z => Some (Some z)
  | VReg b i => if reg_ok b i then Some (s_regs st (b, i)) else None
  end.

(* a defined value or a fault *)
Definition rdv (st : astate) (v : aval) : option Z :=
  match rd st v with Some (Some z) => Some z | _ => None end.

Definition upd_reg (f : reg -> option Z) (r : reg) (z : Z) : reg -> option Z :=
  fun r' => if reg_eqb r r' then Some z else f r'.

Definition wr (st : astate) (v : aval) (z : Z) : option astate :=
  match v with
  | VReg b i => if reg_ok b i then Some (mkSt (upd_reg (s_regs st) (b, i) z) (s_mem st)) else None
  | VLit _ => None
  end.

(* association lists with unique keys *)
Fixpoint zlookup {A} (l : list (Z * A)) (k : Z) : option A :=
  match l with
  | [] => None
  | (k', x) :: r => if k' =? k then Some x else zlookup r k
  end.

Fixpoint zset {A} (l : list (Z * A)) (k : Z) (x : A) : list (Z * A) :=
  match l with
  | [] => [(k, x)]
  | (k', y) :: r => if k' =? k then (k, x) :: r else (k', y) :: zset r k x
  end.

Fixpoint rset (l : list (reg * Z)) (k : reg) (x : Z) : list (reg * Z) :=
  match l with
  | [] => [(k, x)]
  | (k', y) :: r => if reg_eqb k' k then (k, x) :: r else (k', y) :: rset r k x
  end.

(* Python list indexing: -len <= idx < len *)
Definition norm_idx (len idx : Z) : option nat :=
  if (0 <=? idx) && (idx <? len) then Some (Z.to_nat idx)
  else if (- len <=? idx) && (idx <? 0) then Some (Z.to_nat (len + idx))
  else None.

Fixpoint list_upd {A} (l : list A) (n : nat) (x : A) : list A :=
  match l, n with
  | [], _ => []
  | _ :: r, O => x :: r
  | y :: r, S n' => y :: list_upd r n' x
  end.

(* array[idx] of the array at address a *)
Definition arr_get (m : amem) (a idx : Z) : option (option Z) :=
  match zlookup (m_arr m) a with
  | None => None
  | Some l =>
      match norm_idx (Z.of_nat (List.length l)) idx with
      | None => None
      | Some n => nth_error l n
      end
  end.

Definition arr_set (m : amem) (a idx : Z) (x : option Z) : option amem :=
  match zlookup (m_arr m) a with
  | None => None
  | Some l =>
      match norm_idx (Z.of_nat (List.length l)) idx with
      | None => None
      | Some n => Some (mkMem (zset (m_arr m) a (list_upd l n x)) (m_shreg m) (m_sharr m))
      end
  end.

(* [None] * length: a negative length gives the empty list *)
Definition arr_init (m : amem) (a len : Z) : amem :=
  let sh := match zlookup (m_sharr m) a, zlookup (m_arr m) a with
            | Some ShAlias, Some old => zset (m_sharr m) a (ShFrozen old)
            | _, _ => m_sharr m
            end in
  mkMem (zset (m_arr m) a (repeat None (Z.to_nat len))) (m_shreg m) sh.

(* Python list[s:e] (step 1): both bounds are clamped, negative ones count from the end *)
Definition clamp_idx (n i : Z) : Z := if i <? 0 then Z.max (n + i) 0 else Z.min i n.

Definition py_slice {A} (l : list A) (s e : Z) : list A :=
  let n := Z.of_nat (List.length l) in
  let a := clamp_idx n s in
  let b := clamp_idx n e in
  firstn (Z.to_nat (b - a)) (skipn (Z.to_nat a) l).

Definition is_some {A} (o : option A) : bool := match o with Some _ => true | None => false end.

(* ---------- one instruction ---------- *)

Inductive aopc :=
| Xset | Xadd | Xsub | Xaddm | Xsubm | Xload | Xstore | Xlea | Xundef | Xarray
| Xjmp | Xbez | Xbnz | Xbeq | Xbne | Xblt | Xbge | Xretreg | Xretarr | Xwaitall | Xother.

Local Open Scope string_scope.
Definition opc_table : list (string * aopc) :=
  [("set", Xset); ("add", Xadd); ("sub", Xsub); ("addm", Xaddm); ("subm", Xsubm);
   ("load", Xload); ("store", Xstore); ("lea", Xlea); ("undef", Xundef); ("array", Xarray);
   ("jmp", Xjmp); ("bez", Xbez); ("bnz", Xbnz); ("beq", Xbeq); ("bne", Xbne);
   ("blt", Xblt); ("bge", Xbge); ("ret_reg", Xretreg); ("ret_arr", Xretarr); ("wait_all", Xwaitall)].
Local Close Scope string_scope.

Fixpoint opc_find (t : list (string * aopc)) (mn : string) : aopc :=
  match t with
  | [] => Xother
  | (k, x) :: r => if String.eqb k mn then x else opc_find r mn
  end.

Definition opc_of (mn : string) : aopc := opc_find opc_table mn.

(* EFault: the executor raises at this instruction (state unchanged).
   EStuck: outside this model (other instruction, ill-shaped operands). *)
Inductive eres :=
| ENext (st : astate)
| EJump (t : aopnd) (st : astate)
| EFault
| EStuck.

Definition next_or_fault (o : option astate) : eres :=
  match o with Some st => ENext st | None => EFault end.

Definition with_mem (st : astate) (o : option amem) : eres :=
  match o with Some m => ENext (mkSt (s_regs st) m) | None => EFault end.

Definition opt_z_eqb (a b : option Z) : bool :=
  match a, b with
  | Some x, Some y => x =? y
  | None, None => true
  | _, _ => false
  end.

Definition branch (c : bool) (t : aopnd) (st : astate) : eres :=
  if c then EJump t st else ENext st.

Definition binop (o : aopc) (a b : Z) : Z :=
  match o with Xadd | Xaddm => a + b | _ => a - b end.

Definition cond_un (o : aopc) (x : option Z) : bool :=
  match o with Xbez => opt_z_eqb x (Some 0) | _ => negb (opt_z_eqb x (Some 0)) end.
Definition cond_eq (o : aopc) (x y : option Z) : bool :=
  match o with Xbeq => opt_z_eqb x y | _ => negb (opt_z_eqb x y) end.
Definition cond_lt (o : aopc) (x y : Z) : bool :=
  match o with Xblt => x <? y | _ => x >=? y end.

Definition exec (o : aopc) (ops : list aopnd) (st : astate) : eres :=
  match o, ops with
  | Xset, [AV d; AV (VLit z)] => next_or_fault (wr st d z)
  | (Xadd | Xsub), [AV d; AV a; AV b] =>
      match rdv st a, rdv st b with
      | Some x, Some y => next_or_fault (wr st d (binop o x y))
      | _, _ => EFault
      end
  | (Xaddm | Xsubm), [AV d; AV a; AV b; AV m] =>
      match rdv st a, rdv st b, rdv st m with
      | Some x, Some y, Some n =>
          if n <? 1 then EFault else next_or_fault (wr st d ((binop o x y) mod n))
      | _, _, _ => EFault
      end
  | Xload, [AV d; AEntry a i] =>
      match rdv st i with
      | Some idx =>
          match arr_get (s_mem st) a idx with
          | Some (Some z) => next_or_fault (wr st d z)
          | _ => EFault
          end
      | None => EFault
      end
  | Xstore, [AV s; AEntry a i] =>
      match rdv st s, rdv st i with
      | Some z, Some idx => with_mem st (arr_set (s_mem st) a idx (Some z))
      | _, _ => EFault
      end
  | Xlea, [AV d; AAddr a] => next_or_fault (wr st d a)
  | Xundef, [AEntry a i] =>
      match rdv st i with
      | Some idx => with_mem st (arr_set (s_mem st) a idx None)
      | None => EFault
      end
  | Xarray, [AV n; AAddr a] =>
      match rdv st n with
      | Some len => ENext (mkSt (s_regs st) (arr_init (s_mem st) a len))
      | None => EFault
      end
  | Xjmp, [t] => EJump t st
  | (Xbez | Xbnz), [AV r; t] =>
      match rd st r with
      | Some x => branch (cond_un o x) t st
      | None => EFault
      end
  | (Xbeq | Xbne), [AV a; AV b; t] =>
      match rd st a, rd st b with
      | Some x, Some y => branch (cond_eq o x y) t st
      | _, _ => EFault
      end
  | (Xblt | Xbge), [AV a; AV b; t] =>
      match rdv st a, rdv st b with
      | Some x, Some y => branch (cond_lt o x y) t st
      | _, _ => EFault
      end
  | Xretreg, [AV (VReg b i)] =>
      match rdv st (VReg b i) with
      | Some z => ENext (mkSt (s_regs st)
                    (mkMem (m_arr (s_mem st)) (rset (m_shreg (s_mem st)) (b, i) z) (m_sharr (s_mem st))))
      | None => EFault
      end
  | Xretarr, [AAddr a] =>
      match zlookup (m_arr (s_mem st)) a with
      | Some _ => ENext (mkSt (s_regs st)
                    (mkMem (m_arr (s_mem st)) (m_shreg (s_mem st)) (zset (m_sharr (s_mem st)) a ShAlias)))
      | None => EFault
      end
  | Xwaitall, [ASlice a s e] =>
      (* passes when every entry of the slice is defined; otherwise the executor waits
         for the network stack: outside this model *)
      match rdv st s, rdv st e with
      | Some x, Some y =>
          match zlookup (m_arr (s_mem st)) a with
          | Some l => if forallb is_some (py_slice l x y) then ENext st else EStuck
          | None => EFault
          end
      | _, _ => EFault
      end
  | _, _ => EStuck
  end.

(* ---------- programs ---------- *)

Inductive acfg :=
| Run (pc : nat) (st : astate)
| Halted (st : astate)
| Fault (line : nat) (st : astate)
| Stuck (line : nat) (st : astate).

(* the first instruction at or after position k (labels are skipped) *)
Fixpoint fetch_from (l : list acmd) (k : nat) : option (nat * string * list aopnd) :=
  match l with
  | [] => None
  | ALab _ :: r => fetch_from r (S k)
  | AIns mn args ops :: _ => Some (k, mn, all_ops args ops)
  end.

Definition fetch (P : list acmd) (pc : nat) : option (nat * string * list aopnd) :=
  fetch_from (skipn pc P) pc.

(* a branch target: a label is the position of its definition, a literal a line number *)
Definition target (P : list acmd) (t : aopnd) : option nat :=
  match t with
  | ALabel l => label_pos P l
  | AV (VLit z) => if 0 <=? z then Some (Z.to_nat z) else None
  | _ => None
  end.

Definition astep (P : list acmd) (pc : nat) (st : astate) : acfg :=
  match fetch P pc with
  | None => Halted st
  | Some (k, mn, ops) =>
      match exec (opc_of mn) ops st with
      | ENext st' => Run (S k) st'
      | EJump t st' =>
          match target P t with
          | Some j => Run j st'
          | None => Stuck k st
          end
      | EFault => Fault k st
      | EStuck => Stuck k st
      end
  end.

(* n steps; a terminal configuration stays; "still running" is the explicit
   out-of-fuel value *)
Fixpoint arun (P : list acmd) (n : nat) (c : acfg) : acfg :=
  match n with
  | O => c
  | S n' => match c with Run pc st => arun P n' (astep P pc st) | _ => c end
  end.

Definition empty_mem : amem := mkMem [] [] [].
Definition init_state : astate := mkSt (fun _ => None) empty_mem.

(* ---------- shapes the source semantics gives a meaning to ---------- *)

Definition is_val (o : aopnd) : bool := match o with AV _ => true | _ => false end.
Definition is_regop (o : aopnd) : bool := match o with AV (VReg _ _) => true | _ => false end.
Definition is_litop (o : aopnd) : bool := match o with AV (VLit _) => true | _ => false end.
Definition is_label (o : aopnd) : bool := match o with ALabel _ => true | _ => false end.
Definition is_addr (o : aopnd) : bool := match o with AAddr _ => true | _ => false end.
Definition is_entry (o : aopnd) : bool := match o with AEntry _ _ => true | _ => false end.
Definition is_slice (o : aopnd) : bool := match o with ASlice _ _ _ => true | _ => false end.

(* destination positions hold a register, branch targets a label, set's second
   operand a literal; every other value position a register or a literal *)
Definition shape_ok (o : aopc) (ops : list aopnd) : bool :=
  match o, ops with
  | Xset, [d; z] => is_regop d && is_litop z
  | (Xadd | Xsub), [d; a; b] => is_regop d && is_val a && is_val b
  | (Xaddm | Xsubm), [d; a; b; m] => is_regop d && is_val a && is_val b && is_val m
  | Xload, [d; e] => is_regop d && is_entry e
  | Xstore, [s; e] => is_val s && is_entry e
  | Xlea, [d; a] => is_regop d && is_addr a
  | Xundef, [e] => is_entry e
  | Xarray, [n; a] => is_val n && is_addr a
  | Xjmp, [t] => is_label t
  | (Xbez | Xbnz), [r; t] => is_val r && is_label t
  | (Xbeq | Xbne | Xblt | Xbge), [a; b; t] => is_val a && is_val b && is_label t
  | Xretreg, [r] => is_regop r
  | Xretarr, [a] => is_addr a
  | Xwaitall, [e] => is_slice e
  | Xother, _ => true
  | _, _ => false
  end.

(* the exemption table treats the modelled instructions as the proof expects:
   exactly set's second operand and the branch targets are exempt *)
Definition exempt_expected : list (string * list nat) :=
  [("set", [1]); ("add", []); ("sub", []); ("addm", []); ("subm", []); ("load", []);
   ("store", []); ("lea", []); ("undef", []); ("array", []); ("jmp", [0]); ("bez", [1]);
   ("bnz", [1]); ("beq", [2]); ("bne", [2]); ("blt", [2]); ("bge", [2]); ("ret_reg", []);
   ("ret_arr", []); ("wait_all", [])]%string%nat.

Definition exempt_ok (ex : list (string * nat)) : bool :=
  forallb (fun p => forallb (fun j => Bool.eqb (is_exempt ex (fst p) j) (existsb (Nat.eqb j) (snd p)))
                            (seq 0 5))
          exempt_expected.
