(* AsmQCheck.v — executable comparison of the event semantics (AsmSemQ) with
   observations of a recording subclass of the real Executor (C03 H-tie for
   programs with non-classical instructions). *)
From Coq Require Import ZArith List Bool String Ascii.
From NQ Require Import Base.Bits Lang.Codec Lang.CodecCheck Lang.Asm Lang.AsmSem Lang.AsmSemQ Lang.Text Lang.AsmCheck.
Import ListNotations.
Open Scope Z_scope.

Definition aevent_eqb (a b : aevent) : bool :=
  match a, b with
  | EvGate m1 i1 q1, EvGate m2 i2 q2 => String.eqb m1 m2 && list_eqb Z.eqb i1 i2 && list_eqb Z.eqb q1 q2
  | EvMeas q1 o1, EvMeas q2 o2 => (q1 =? q2) && (o1 =? o2)
  | EvAlloc x, EvAlloc y => x =? y
  | EvFree x, EvFree y => x =? y
  | EvRetReg r1 v1, EvRetReg r2 v2 => reg_eqb r1 r2 && (v1 =? v2)
  | EvRetArr a1 l1, EvRetArr a2 l2 => (a1 =? a2) && arr_eqb l1 l2
  | _, _ => false
  end.

(* what the recording executor saw: the classical observation, the events oldest
   first, which virtual qubits are allocated at the end *)
Record qobs := mkQO { qo_obs : obs; qo_trace : list aevent; qo_um : list bool }.

Definition q_matches (s : qastate) (o : qobs) : bool :=
  list_eqb aevent_eqb (rev (qa_trace s)) (qo_trace o) && list_eqb Bool.eqb (qa_um s) (qo_um o).

Definition tgt_matches_q (T : list acmd) (fuel : nat) (start : qastate) (o : qobs) : bool :=
  let all (_ : reg) := true in
  let cl st := list_eqb regval_eqb (regs_view all (s_regs st)) (o_regs (qo_obs o)) && mem_matches (s_mem st) (qo_obs o) in
  match arun_q T fuel (QRun 0 start) with
  | QHalted s => (o_kind (qo_obs o) =? 0) && cl (qa_st s) && q_matches s o
  | QFault k s => (o_kind (qo_obs o) =? 1) && (o_line (qo_obs o) =? Z.of_nat k) && cl (qa_st s) && q_matches s o
  | QRun pc s => (o_kind (qo_obs o) =? 2) && (o_line (qo_obs o) =? Z.of_nat pc) && cl (qa_st s) && q_matches s o
  | QStuck k s => (o_kind (qo_obs o) =? 3) && (o_line (qo_obs o) =? Z.of_nat k) && cl (qa_st s) && q_matches s o
  end.

(* the oracle: the recording executor's run of the assembled program shows the
   event trace, unit module, registers (except unnamed R registers), memory and
   outcome of the direct interpretation of the SOURCE program *)
Definition src_matches_q (pr : aparams) (P : list acmd) (fuel : nat) (start : qastate) (o : qobs) : bool :=
  let nm := named P in
  let keep (r : reg) := negb (fst r =? ap_bankR pr) || mem_reg r nm in
  let oview := filter (fun p => keep (fst p)) (o_regs (qo_obs o)) in
  let cl st := list_eqb regval_eqb (regs_view keep (s_regs st)) oview && mem_matches (s_mem st) (qo_obs o) in
  let last k := (pcmap pr P k + match nth_error P k with Some c => nsets pr nm c | None => 0 end)%nat in
  match arun_q P fuel (QRun 0 start) with
  | QHalted s => (o_kind (qo_obs o) =? 0) && cl (qa_st s) && q_matches s o
  | QFault k s => (o_kind (qo_obs o) =? 1) && (o_line (qo_obs o) =? Z.of_nat (last k)) && cl (qa_st s) && q_matches s o
  | QRun _ _ => o_kind (qo_obs o) =? 2
  | QStuck k s => (o_kind (qo_obs o) =? 3) && (o_line (qo_obs o) =? Z.of_nat (last k)) && cl (qa_st s) && q_matches s o
  end.

Record qcase := mkQC {
  qc_lines : option (list string);
  qc_prog : list acmd;
  qc_out : outcome;
  qc_cap : nat;                 (* qubits of the unit module *)
  qc_script : list Z;           (* measurement outcomes the executor was given *)
  qc_fuel : nat;
  qc_obs : option qobs
}.

(* 0 ok; +1 instruction lists differ; +2 oracle (source meaning incl. event trace) differs;
   +4 the model interpreter differs from the recording executor on the assembled program *)
Definition check_qcase (pr : aparams) (bk : banks) (gi : list string) (t : list row) (c : qcase) : Z :=
  let P := match qc_lines c with Some ls => parse_text bk gi ls | None => Some (qc_prog c) end in
  let a := if outcome_eqb (model_outcome pr t [] P) (qc_out c) then 0 else 1 in
  let start := init_qstate (qc_cap c) (qc_script c) in
  match P, qc_obs c with
  | Some P, Some o =>
      let b := if src_matches_q pr P (qc_fuel c) start o then 0 else 2 in
      let d := match assemble pr t P with
               | AOk B => if tgt_matches_q (map embed B) (qc_fuel c) start o then 0 else 4
               | AErr _ => 4
               end in
      a + b + d
  | _, _ => a
  end.
