(* BellRing.v — Bell states, Pauli corrections and measure-directly
   post-processing in the exact ring K32 (model only; C10 parts (a) and (d)).
   Qubit order in a pair: LOCAL qubit (the one the SDK corrects / whose outcome it
   post-processes) first, remote qubit second. *)
From Coq Require Import ZArith List Bool Arith.
From NQ Require Import Base.Cyclo Base.QMat.
Import ListNotations.

Inductive bell := BPhiPlus | BPsiPlus | BPsiMinus | BPhiMinus.
Definition bell_eqb (a b : bell) : bool :=
  match a, b with
  | BPhiPlus, BPhiPlus | BPsiPlus, BPsiPlus | BPsiMinus, BPsiMinus | BPhiMinus, BPhiMinus => true
  | _, _ => false
  end.

(* |Phi+-> = (|00> +- |11>)/sqrt2,  |Psi+-> = (|01> +- |10>)/sqrt2 *)
Definition bell_vec (b : bell) : mat :=
  let r := krsqrt2 in let nr := kneg krsqrt2 in
  match b with
  | BPhiPlus => [[r]; [kzero]; [kzero]; [r]]
  | BPsiPlus => [[kzero]; [r]; [r]; [kzero]]
  | BPsiMinus => [[kzero]; [r]; [nr]; [kzero]]
  | BPhiMinus => [[r]; [kzero]; [kzero]; [nr]]
  end.

Fixpoint assocZ {A : Type} (k : Z) (l : list (Z * A)) : option A :=
  match l with
  | [] => None
  | (k', v) :: l' => if (k =? k')%Z then Some v else assocZ k l'
  end.

(* the numbering is a bijection between the four states and 0..3 *)
Definition numbering_ok (num : list (bell * Z)) : bool :=
  Nat.eqb (List.length num) 4 &&
  forallb (fun b => existsb (fun p => bell_eqb (fst p) b) num) [BPhiPlus; BPsiPlus; BPsiMinus; BPhiMinus] &&
  forallb (fun i => existsb (fun p => (snd p =? i)%Z) num) [0; 1; 2; 3]%Z.

(* ---- (a) corrections ---- *)
Definition paulis : list mat := [mid 2; gX; gY; gZ].

Definition fixed_state (U : mat) (b : bell) : mat := mmul (kron U (mid 2)) (bell_vec b).

Definition fix_row_ok (corr : list (Z * list qop)) (p : bell * Z) : bool :=
  match assocZ (snd p) corr with
  | Some ops => match circuit 1 ops with
                | Some U => phase_eqb (fixed_state U (fst p)) (bell_vec BPhiPlus)
                | None => false
                end
  | None => false
  end.

Definition only_row_ok (corr : list (Z * list qop)) (p : bell * Z) : bool :=
  match assocZ (snd p) corr with
  | Some ops => match circuit 1 ops with
                | Some U => forallb (fun P => phase_eqb P U ||
                                              negb (phase_eqb (fixed_state P (fst p)) (bell_vec BPhiPlus))) paulis
                | None => false
                end
  | None => false
  end.

(* values that are not Bell-state numbers apply no gate *)
Definition other_values_idle (corr : list (Z * list qop)) (num : list (bell * Z)) : bool :=
  forallb (fun e : Z * list qop =>
             existsb (fun p : bell * Z => (snd p =? fst e)%Z) num ||
             match snd e with [] => true | _ => false end) corr.

(* ---- (d) measure directly ---- *)
Record pprow := mkPp {
  pp_rot : Z * Z * Z;     (* (x1, y, x2): rotate X by x1*pi/16, Y by y*pi/16, X by x2*pi/16, then measure Z *)
  pp_bell : Z;            (* Bell-state number reported by the link layer *)
  pp_m : bool;            (* raw local outcome *)
  pp_out : bool }.        (* post-processed local outcome *)

Definition rot_eqb (a b : Z * Z * Z) : bool :=
  let '(a1, a2, a3) := a in let '(b1, b2, b3) := b in ((a1 =? b1) && (a2 =? b2) && (a3 =? b3))%Z.

Definition basis_unitary (rot : Z * Z * Z) : option mat :=
  let '(x1, y, x2) := rot in circuit 1 [ORot AX 0 x1 4; ORot AY 0 y 4; ORot AX 0 x2 4].

(* projector onto raw outcome m of the rotated Z measurement: U^dagger |m><m| U *)
Definition meas_proj (U : mat) (m : bool) : mat :=
  let P := if m then [[kzero; kzero]; [kzero; kone]] else [[kone; kzero]; [kzero; kzero]] in
  mmul (mdagger U) (mmul P U).

(* probability of raw outcomes (ml, mr) on the state b, both sides measuring in the same basis *)
Definition joint_prob (U : mat) (b : bell) (ml mr : bool) : K32 :=
  mget (mmul (mdagger (bell_vec b)) (mmul (kron (meas_proj U ml) (meas_proj U mr)) (bell_vec b))) 0 0.

Definition pp_lookup (tbl : list pprow) (rot : Z * Z * Z) (idx : Z) (m : bool) : option bool :=
  match filter (fun r => rot_eqb (pp_rot r) rot && (pp_bell r =? idx)%Z && Bool.eqb (pp_m r) m) tbl with
  | [r] => Some (pp_out r)
  | _ => None                       (* missing or duplicated entry *)
  end.

(* probability that (post-processed local, raw remote) = (a, mr) on the state b *)
Definition post_prob (tbl : list pprow) (U : mat) (rot : Z * Z * Z) (b : bell) (idx : Z) (a mr : bool) : option K32 :=
  match pp_lookup tbl rot idx false, pp_lookup tbl rot idx true with
  | Some o0, Some o1 =>
      Some (kadd (if Bool.eqb o0 a then joint_prob U b false mr else kzero)
                 (if Bool.eqb o1 a then joint_prob U b true mr else kzero))
  | _, _ => None
  end.

Definition okeqb (x : option K32) (y : K32) : bool :=
  match x with Some x' => keqb x' y | None => false end.

Definition bools := [false; true].

Definition pp_case_ok (tbl : list pprow) (rot : Z * Z * Z) (p : bell * Z) : bool :=
  match basis_unitary rot with
  | Some U =>
      forallb (fun a => forallb (fun mr =>
        okeqb (post_prob tbl U rot (fst p) (snd p) a mr) (joint_prob U BPhiPlus a mr)) bools) bools
  | None => false
  end.

Fixpoint dedup_rots (l : list (Z * Z * Z)) : list (Z * Z * Z) :=
  match l with
  | [] => []
  | r :: l' => if existsb (rot_eqb r) l' then dedup_rots l' else r :: dedup_rots l'
  end.
Definition table_rots (tbl : list pprow) : list (Z * Z * Z) := dedup_rots (map pp_rot tbl).

Definition pp_ok (tbl : list pprow) (num : list (bell * Z)) : bool :=
  forallb (fun rot => forallb (pp_case_ok tbl rot) num) (table_rots tbl).

(* the six bases are the +-X, +-Y, +-Z measurements: U^dagger Z U is +-(a Pauli) *)
Definition basis_observable (rot : Z * Z * Z) : option mat :=
  match basis_unitary rot with
  | Some U => Some (mmul (mdagger U) (mmul gZ U))
  | None => None
  end.
Definition six_bases_ok (tbl : list pprow) : bool :=
  let obs := map basis_observable (table_rots tbl) in
  Nat.eqb (List.length obs) 6 &&
  forallb (fun P => existsb (fun o => match o with Some Ob => meqb Ob P | None => false end) obs)
          [gX; gY; gZ; mscale (kneg kone) gX; mscale (kneg kone) gY; mscale (kneg kone) gZ].
