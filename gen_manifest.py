#!/usr/bin/env python3
"""Writes MANIFEST.json from the table below (kept in one place so that the
manifest stays valid while checks are added)."""
import json
import os

HERE = os.path.dirname(os.path.abspath(__file__))
TB = ("Coq 8.16.1 kernel via coqc (vm_compute, no native_compute); axioms per theorem as printed by Print Assumptions "
      "(recorded in the evidence file); the translator(s) in gen/ and the correspondence harness named in the evidence; "
      "CPython/ctypes/numpy as platform")

CHECKS = {
    "C01": dict(
        text="Coq theorems: for every flavour table regenerated from /repo, any in-range subroutine of any length decodes "
             "to itself and encodings are injective (generic bit-field lemmas + vm_compute of wf_table on the regenerated "
             "tables); tied to the code by the regenerating translator (one-hot probing of serialize/deserialize_from, live "
             "id_map/name_map) and by a correspondence run of the model inside coqc against bytes(Subroutine)/deserialize.",
        ref="4/C01", tech="Coq proof (generic codec round-trip theorem) + regenerated tables + vm_compute correspondence"),
    "C02": dict(
        text="Coq theorems: every regenerated class uses exactly the frozen reference layout (encoder and decoder) and every "
             "reference row is effective with its opcode/mnemonic/operand order, hence encode = reference encoder for all "
             "operand values; little-endian/register-byte/int32 byte lemmas; independent Python reference encoder as oracle.",
        ref="4/C02", tech="Coq proof against a frozen reference layout/table + regenerated ctypes layouts"),
    "C16": dict(
        text="Coq theorems: the checked encoder model rejects every out-of-range program and whatever it accepts decodes to "
             "the same program; accepted ranges are the published ones (layouts = reference); accept/reject and bytes of the "
             "model are compared with the implementation on out-of-range streams through direct, text and SDK entry points, and on object "
             "histories that make an already serialised subroutine unrepresentable.",
        ref="4/C16", tech="Coq proof (reject-or-roundtrip) + correspondence on out-of-range streams"),
}

NOT_YET = {}

def main():
    md = os.path.join(HERE, "harness", "checks")
    for f in sorted(os.listdir(md)):
        if f.endswith(".meta.json"):
            pid = f.split(".")[0].upper()
            if os.path.exists(os.path.join(md, pid.lower() + ".py")):
                CHECKS[pid] = json.load(open(os.path.join(md, f)))
    props = [json.loads(l) for l in open(os.path.join(HERE, "properties.jsonl"))]
    checks, na = [], []
    for p in props:
        pid = p["id"]
        if pid in CHECKS:
            c = CHECKS[pid]
            checks.append(dict(
                property_id=pid,
                quick_cmd=f"./bin/check {pid} --tier quick",
                thorough_cmd=f"./bin/check {pid} --tier thorough",
                evidence_file=f"/verif/evidence/{pid}.json",
                replay_cmd_template=f"./bin/check {pid} --replay {{path}}",
                engine="coq",
                level_claimed=dict(category="proof", text=c["text"], design_ref=c["ref"]),
                level_note=TB,
                technique=c["tech"],
            ))
        else:
            na.append(dict(property_id=pid, reason=NOT_YET.get(pid, "check not built yet in this development (work in progress; see DESIGN.md section 4 for the planned theorem and tie)")))
    m = dict(
        version=1,
        setup_cmd="./bin/setup",
        hooks=dict(guard="NETQASM_VERIF", enable="no source hooks: checks subclass the repository's extension points; NETQASM_VERIF=1 is exported by bin/check but read by nothing in /repo",
                   baseline_off_cmd="cd /repo && /venv/bin/python -m pytest -ra -q -p no:cacheprovider --timeout=900 --continue-on-collection-errors",
                   source_commits=[], add_only=True),
        engines=[dict(name="coq", path="/verif/coq", serves_properties=sorted(CHECKS),
                      kind_free_text="Coq 8.16.1 development (models, proofs, property files) + translators in gen/ + python harness")],
        checks=checks,
        notes="Repairs of genuine defects are 'fix:' commits in /repo, listed in known_findings.json as fixed entries.",
        not_applicable=na,
    )
    json.dump(m, open(os.path.join(HERE, "MANIFEST.json"), "w"), indent=1)

if __name__ == "__main__":
    main()
