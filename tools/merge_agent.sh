#!/bin/bash
# usage: tools/merge_agent.sh <name> <ID>...   (coordinator only)
# 1. cherry-pick the agent's fix commits (branch fix-<name>) onto /repo main, run the 171 tests
# 2. merge branch agent-<name> into /verif main
# 3. rebuild the library, run the given checks against /repo
set -u
name=$1; shift
cd /repo || exit 2
base=$(git merge-base main fix-$name)
commits=$(git rev-list --reverse $base..fix-$name)
for c in $commits; do
  if git log main --format=%s | grep -qxF "$(git log -1 --format=%s $c)"; then echo "skip (already on main): $(git log -1 --format=%s $c)"; continue; fi
  echo "cherry-pick $c: $(git log -1 --format=%s $c)"
  git cherry-pick -x $c || { echo "CHERRY-PICK CONFLICT for $c"; git status --short | head; exit 3; }
done
/venv/bin/python -m pytest -q -p no:cacheprovider tests --ignore=tests/test_external 2>&1 | tail -2
cd /verif || exit 2
git merge --no-edit agent-$name || { echo "MERGE CONFLICT"; git status --short | head -20; exit 4; }
python3 gen_manifest.py
./bin/setup > build/logs/setup.log 2>&1 || { echo "LIB BUILD FAILED"; tail -30 build/logs/setup.log; exit 5; }
for id in "$@"; do ./bin/check $id --tier quick 2>&1 | tail -4; done
