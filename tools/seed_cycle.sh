#!/bin/bash
# usage: tools/seed_cycle.sh <batchdir> <ID> [other IDs to run too]  — confirm + run the check for both seeds of <ID>
b=$1; id=$2; shift 2
for i in 1 2; do
  d=$b/out/$id/$i; [ -f $d/patch.diff ] || continue
  tools/confirm_seed.sh $d
  tools/try_patch.sh $d/patch.diff $id "$@" 2>&1 | cut -c1-700
done
