#!/usr/bin/env python3
"""usage: tools/benign_cycle.py <batchdir> <ID> [<ID>...]
For every /<batchdir>/out/<ID>/<i>/patch.diff: apply to a scratch worktree of /repo HEAD, run the 171 tests,
run the quick check of every property whose anchored files the patch touches (always including <ID>),
print one line per (patch, check). A benign patch must leave every check at exit 0."""
import json, os, re, subprocess, sys, tempfile, shutil
V = os.path.dirname(os.path.dirname(os.path.abspath(__file__)))
props = [json.loads(l) for l in open(os.path.join(V, "properties.jsonl"))]
anch = {p["id"]: set(p["anchors"].get("files", [])) for p in props}
batch = sys.argv[1]
for pid in sys.argv[2:]:
    for i in sorted(os.listdir(f"{batch}/out/{pid}")):
        d = f"{batch}/out/{pid}/{i}"
        pf = f"{d}/patch.diff"
        if not os.path.isfile(pf):
            continue
        touched = set(re.findall(r"^\+\+\+ b/(\S+)", open(pf).read(), flags=re.M))
        ids = sorted({pid} | {q for q, fs in anch.items() if fs & touched})
        tag = f"{pid}_{i}_{os.getpid()}"
        wt, out = f"/tmp/seedrun/bw_{tag}", f"/tmp/seedrun/bo_{tag}"
        os.makedirs("/tmp/seedrun", exist_ok=True)
        subprocess.check_call(["git", "-C", "/repo", "worktree", "add", "-q", "--detach", wt, "HEAD"])
        try:
            if subprocess.call(["git", "-C", wt, "apply", pf], stderr=subprocess.DEVNULL) != 0 and (
                    subprocess.call(["git", "-C", wt, "apply", "-3", pf], stderr=subprocess.DEVNULL) != 0
                    or subprocess.run(["git", "-C", wt, "diff", "--name-only", "--diff-filter=U"], capture_output=True, text=True).stdout.strip()):
                print(f"{pid}/{i} PATCH-DOES-NOT-APPLY", flush=True)
                continue
            t = subprocess.run(["/venv/bin/python", "-m", "pytest", "-q", "-p", "no:cacheprovider", "-x", "tests", "--ignore=tests/test_external"],
                               cwd=wt, env=dict(os.environ, PYTHONPATH=wt), capture_output=True, text=True, timeout=1200)
            m = re.search(r"(\d+) passed", t.stdout)
            print(f"{pid}/{i} tests rc={t.returncode} passed={m.group(1) if m else '?'} touched={sorted(touched)} checks={ids}", flush=True)
            for q in ids:
                try:
                    r = subprocess.run(["./bin/check", q, "--tier", "quick"], cwd=V, env=dict(os.environ, VERIF_REPO=wt, VERIF_OUT=out, VERIF_NO_COQCHK="1"),
                                       capture_output=True, text=True, timeout=1500)
                    rc, txt = r.returncode, r.stdout + r.stderr
                except subprocess.TimeoutExpired:
                    rc, txt = "TIMEOUT", ""
                v = [l for l in txt.splitlines() if l.startswith("VIOLATION")]
                what = ""
                if v:
                    mm = re.search(r"replay=(\S+)", v[0])
                    try:
                        rec = json.load(open(mm.group(1)))
                        what = " | " + str(rec.get("what"))[:300] + " | " + str(rec.get("replay"))[:300]
                    except Exception:
                        pass
                print(f"   {pid}/{i} check {q}: exit={rc} violations={len(v)} {v[0] if v else ''}{what}", flush=True)
        finally:
            subprocess.call(["git", "-C", "/repo", "worktree", "remove", "--force", wt])
            shutil.rmtree(out, ignore_errors=True)
