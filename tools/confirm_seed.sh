#!/bin/bash
# usage: tools/confirm_seed.sh <dir with patch.diff demo.py meta.json>
# Confirms in a scratch worktree of /repo HEAD: demo passes unchanged, patch applies,
# 171 tests pass with the patch, demo fails with the patch.  Prints one line.
d=$(readlink -f "$1"); tag=$(echo "$d" | tr '/' '_')_$$
wt=/tmp/seedrun/cf$tag; mkdir -p /tmp/seedrun
git -C /repo worktree add -q --detach "$wt" HEAD || exit 2
cd "$wt"
PYTHONPATH=$wt timeout 600 /venv/bin/python "$d/demo.py" > /dev/null 2>&1; base=$?
git apply "$d/patch.diff" 2>/dev/null || git apply -3 "$d/patch.diff" 2>/dev/null; ap=$?; git diff --name-only --diff-filter=U | grep -q . && ap=9
PYTHONPATH=$wt timeout 900 /venv/bin/python -m pytest -q -p no:cacheprovider -x tests --ignore=tests/test_external > "$wt.tests" 2>&1; tr=$?
passed=$(grep -o '[0-9]* passed' "$wt.tests" | head -1)
PYTHONPATH=$wt timeout 600 /venv/bin/python "$d/demo.py" > /dev/null 2>&1; mut=$?
cd /; git -C /repo worktree remove --force "$wt"; rm -f "$wt.tests"
ok=NO; [ "$base" = 0 ] && [ "$ap" = 0 ] && [ "$tr" = 0 ] && [ "$mut" != 0 ] && ok=YES
echo "$ok $d demo_unchanged=$base apply=$ap tests=$tr($passed) demo_patched=$mut"
