#!/usr/bin/env python3
"""usage: tools/keep_seed.py <seed dir> <name> <caught_by> <first_result> [note]
Copies patch.diff/demo.py/meta.json into /verif/seeded/<name>/ and extends meta.json
with what was run by the coordinator."""
import json, os, shutil, sys
src, name, caught, first = sys.argv[1:5]
note = sys.argv[5] if len(sys.argv) > 5 else ""
dst = os.path.join(os.path.dirname(os.path.dirname(os.path.abspath(__file__))), "seeded", name)
os.makedirs(dst, exist_ok=True)
for f in ("patch.diff", "demo.py"):
    shutil.copy(os.path.join(src, f), os.path.join(dst, f))
meta = json.load(open(os.path.join(src, "meta.json")))
meta["confirmed_by_coordinator"] = ("tools/confirm_seed.sh: scratch worktree of /repo HEAD; demo.py exit 0 unchanged; patch applies; "
                                    "171 tests pass with the patch; demo.py exit 1 with the patch")
meta["checks_run"] = f"tools/try_patch.sh seeded/{name}/patch.diff {caught.split()[0]}"
meta["caught_by"] = caught
meta["first_result"] = first
if note:
    meta["note"] = note
json.dump(meta, open(os.path.join(dst, "meta.json"), "w"), indent=1)
