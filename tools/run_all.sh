#!/bin/bash
# usage: tools/run_all.sh [quick|thorough] [jobs]   — runs every check registered in MANIFEST.json against $VERIF_REPO (/repo)
cd "$(dirname "$0")/.."
tier=${1:-quick}; jobs=${2:-6}
mkdir -p build/logs
./bin/setup > build/logs/setup.log 2>&1 || { echo "setup failed"; tail -20 build/logs/setup.log; exit 2; }
ids=$(python3 -c "import json; print(' '.join(c['property_id'] for c in json.load(open('MANIFEST.json'))['checks']))")
echo $ids | tr ' ' '\n' | xargs -P "$jobs" -I{} sh -c "start=\$(date +%s); ./bin/check {} --tier $tier > build/logs/{}.$tier.log 2>&1; rc=\$?; echo \"{} exit=\$rc \$(( \$(date +%s) - start ))s \$(grep -c '^VIOLATION' build/logs/{}.$tier.log) violations \$(grep -c '^KNOWN-FINDING' build/logs/{}.$tier.log) known\""
