#!/bin/bash
# usage: tools/try_patch.sh <patch.diff> <ID> [<ID>...]
# Applies the patch to a scratch worktree of /repo's HEAD, runs the quick checks
# against it with outputs under a scratch VERIF_OUT, prints verdicts, cleans up.
set -u
patch=$(readlink -f "$1"); shift
tag=$(basename "$(dirname "$patch")")_$$
wt=/tmp/seedrun/wt_$tag; out=/tmp/seedrun/out_$tag
mkdir -p /tmp/seedrun
git -C /repo worktree add -q --detach "$wt" HEAD || exit 2
if ! git -C "$wt" apply "$patch" 2>/dev/null && ! git -C "$wt" apply -3 "$patch"; then echo "PATCH DOES NOT APPLY"; git -C /repo worktree remove --force "$wt"; exit 2; fi
cd "$(dirname "$0")/.."
for id in "$@"; do
  VERIF_REPO=$wt VERIF_OUT=$out ./bin/check "$id" --tier "${TIER:-quick}" > "$out.$id.log" 2>&1
  rc=$?
  echo "== $id exit=$rc $(grep -c '^VIOLATION' "$out.$id.log") violation lines; $(grep '^VIOLATION' "$out.$id.log" | head -1)"
  if [ "$rc" != 0 ]; then f=$(grep '^VIOLATION' "$out.$id.log" | head -1 | sed 's/.*replay=\([^ ]*\).*/\1/'); [ -f "$f" ] && python3 -c "import json,sys; d=json.load(open('$f')); print('   what:', d['what'][:200]); print('   replay:', str(d['replay'])[:400])"; fi
done
git -C /repo worktree remove --force "$wt"
rm -rf "$out" 
